#!/usr/bin/env python3
"""seedprompt.py <ID> <round> : write /tmp/seedprompts/<ID>-r<round>.txt, the complete task text for a fresh sub-agent
that is to produce realistic property-breaking changes in its own scratch worktree /tmp/seed<round>-<ID>.

The sub-agent gets the text of the property (from properties.jsonl) and, from the second round on, one-paragraph
summaries of the changes other sub-agents produced before (so that it looks elsewhere) - nothing about the checks."""
import json, os, sys, glob

cid, rnd = sys.argv[1], int(sys.argv[2])
prop = next(json.loads(l) for l in open("/verif/properties.jsonl") if json.loads(l)["id"] == cid)
wt = "/tmp/seed%d-%s" % (rnd, cid)
files = ", ".join(prop["anchors"]["files"])
earlier = []
for d in sorted(glob.glob("/verif/seeded/%s-*" % cid)):
    try:
        earlier.append("  - " + json.load(open(os.path.join(d, "meta.json")))["summary"][:420].replace("\n", " "))
    except Exception:
        pass
txt = f"""You are working in a scratch git worktree of the Go project ollama (a local LLM server) at {wt} (offline sandbox: no network; run Go commands as `go test -mod=mod -vet=off -count=1 ./<pkg>/...` and `go build ./...` from inside the worktree; first builds of packages that use cgo take about a minute). Work ONLY inside {wt}. Do not read or use anything under /verif, /root/.vp or /repo itself (this is an independence experiment: your work must not depend on any existing verification machinery).

Here is a semantic property that the code base is supposed to satisfy:

  Title: {prop['title']}
  Statement: {prop['statement']}
  Quantified over: {prop['quantifier']['text']}
  Code involved (starting points): {files}

Your job: produce TWO independent, realistic changes to the non-test source code of ollama, each of which BREAKS this property while the project still compiles and the existing test suite still passes (run at least the tests of every package you touch and of the packages that import it directly, e.g. ./server/... ./llm/... ./fs/... ./kvcache/... ./runner/... ./model/... ./sample/... as relevant). Think of the kind of regression a plausible refactor, optimisation or "simplification" would introduce. IMPORTANT: each change must need something specific to manifest - a particular interleaving of concurrent events, a crash or fault at a particular point, a multi-step sequence of operations, an unusual input, or two cooperating sites that each look fine alone - NOT something that ordinary use (or the first request) would expose at once. The two changes should break the property through different mechanisms / in different places.

For each change k in {{1,2}} deliver under {wt}/out/change<k>/:
  * patch.diff - `git diff` of the source change only (non-test files), applying cleanly with `git apply` to the worktree's HEAD;
  * a demonstration: a Go test file named demo_test.go (with a comment at the top saying in which package directory it must be placed), which FAILS with the change applied and PASSES without it, deterministically or, for schedule-dependent changes, with a stated high probability within a stated number of repetitions;
  * meta.json - {{"property": "{cid}", "summary": "...what the change does...", "needs_to_manifest": "...the specific interleaving / fault / sequence / input...", "files_changed": [...], "demo": "how to run it (package directory, -run pattern)", "existing_tests_run": "exact commands and results", "demo_fails_with_change": true/false, "demo_passes_without_change": true/false}}.
Verify all of that yourself (apply, build, run existing tests, run the demo with and without the change) and leave the worktree clean of your source edits at the end (`git checkout -- .` ; keep only the out/ directory, which is untracked). Do not commit. Keep the changes small (a few lines each). Report briefly what you produced.
"""
if rnd > 1 and earlier:
    txt += f"""
This is round {rnd}. Earlier changes for this property already exist; yours must use different mechanisms and different code locations/functions where possible. The earlier ones were:
""" + "\n".join(earlier) + """
Aim for subtler ones this time: prefer changes whose effect appears only several operations after the triggering event, or only under a rarely used configuration option / environment variable, or only for a boundary value (zero-length, exactly-at-limit, duplicate entries), or that involve a second, untouched site relying on an invariant the edit quietly drops.
"""
os.makedirs("/tmp/seedprompts", exist_ok=True)
out = "/tmp/seedprompts/%s-r%d.txt" % (cid, rnd)
open(out, "w").write(txt)
print(out)
