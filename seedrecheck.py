#!/usr/bin/env python3
"""seedrecheck.py <seeded name> [check ids...] [--tier quick|thorough]

Re-runs /verif checks against a kept seeded change (after a check was strengthened): scratch worktree of /repo HEAD,
git apply (3-way fallback) seeded/<name>/patch.diff, VERIF_REPO=<worktree> ./check <ID>, and records the outcome in
seeded/<name>/meta.json ("checks", "caught_by", "rechecked_at_head"). Nothing is written to /repo."""
import json, os, subprocess, sys, time

args = [a for a in sys.argv[1:] if not a.startswith("--")]
tier = "quick"
for i, a in enumerate(sys.argv):
    if a == "--tier":
        tier = sys.argv[i + 1]
        args.remove(tier)
name, checks = args[0], args[1:]
d = os.path.join("/verif/seeded", name)
meta = json.load(open(os.path.join(d, "meta.json")))
checks = checks or [meta["property"]]
WT = "/tmp/rc-%s-%d" % (name[:20], os.getpid())
# SEEDTEST_VERIF=auto: run the checks from a private driver directory (symlinks to /verif's files, own build/ and out/), so
# that several evaluations, and the maintainer's own runs in /verif, do not share a build directory
DEV = os.environ.get("SEEDTEST_VERIF", "/verif")
if DEV == "auto":
    DEV = "/tmp/devs-%d" % os.getpid()
    os.makedirs(DEV, exist_ok=True)
    for f in ("check", "checks.py", "harness", "vfkit", "known_findings.json", "replays", "checks.d", "shims"):
        if not os.path.lexists(os.path.join(DEV, f)):
            os.symlink(os.path.join("/verif", f), os.path.join(DEV, f))
subprocess.run(["git", "-C", "/repo", "worktree", "add", "--detach", WT, "HEAD"], capture_output=True)
try:
    p = subprocess.run(["git", "-C", WT, "apply", os.path.join(d, "patch.diff")], capture_output=True, text=True)
    if p.returncode != 0:
        p = subprocess.run(["git", "-C", WT, "apply", "--3way", os.path.join(d, "patch.diff")], capture_output=True, text=True)
        if p.returncode != 0:
            print("patch does not apply:", p.stderr[-500:])
            sys.exit(2)
    head = subprocess.check_output(["git", "-C", "/repo", "rev-parse", "--short", "HEAD"]).decode().strip()
    for c in checks:
        t0 = time.time()
        p = subprocess.run(["./check", c, "--tier", tier], cwd=DEV, capture_output=True, text=True, env=dict(os.environ, VERIF_REPO=WT))
        out = p.stdout + p.stderr
        first = ""
        lines = out.splitlines()
        for i, l in enumerate(lines):
            if l.startswith("VIOLATION"):
                # message lines precede the VIOLATION line, indented by two spaces
                j = i
                while j > 0 and lines[j - 1].startswith("  "):
                    j -= 1
                first = lines[j].strip()[:400] if j < i else ""
                break
        meta.setdefault("checks", {})[c] = {"exit": p.returncode, "seconds": round(time.time() - t0, 1), "first_message": first, "tier": tier}
        print(name, c, "exit", p.returncode, first[:200])
    meta["caught_by"] = sorted(c for c, v in meta["checks"].items() if v.get("exit") == 1)
    meta["rechecked_at_head"] = head
    json.dump(meta, open(os.path.join(d, "meta.json"), "w"), indent=1)
finally:
    subprocess.run(["git", "-C", "/repo", "worktree", "remove", "--force", WT], capture_output=True)
    if DEV.startswith("/tmp/devs-"):
        import shutil as _sh
        _sh.rmtree(DEV, ignore_errors=True)
