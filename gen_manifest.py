#!/usr/bin/env python3
"""Regenerates /verif/MANIFEST.json from checks.py (claimed checks) and properties.jsonl."""
import json, os, sys
VERIF = os.path.dirname(os.path.abspath(__file__))
sys.path.insert(0, VERIF)
from checks import CHECKS, NOT_CLAIMED

pending = set()
try:
    pending = set(open(os.path.join(VERIF, "pending.txt")).read().split())
except Exception:
    pass
for _p in pending:
    CHECKS.pop(_p, None)
props = [json.loads(l) for l in open(os.path.join(VERIF, "properties.jsonl"))]
baseline = json.load(open("/root/.vp/BASELINE.json"))["cmd"] if os.path.exists("/root/.vp/BASELINE.json") else ""
old = {}
try:
    old = json.load(open(os.path.join(VERIF, "MANIFEST.json")))
except Exception:
    pass
m = {
    "version": 1,
    "setup_cmd": "./setup.sh",
    "hooks": {
        "guard": "verif",
        "enable": "no hooks: harness sources are compiled into the repository's packages with `go test -overlay -modfile` "
                  "(nothing under /repo is written); the tag `verif` is reserved and unused",
        "baseline_off_cmd": baseline or old.get("hooks", {}).get("baseline_off_cmd", ""),
        "source_commits": [],
        "add_only": True,
    },
    "engines": [],
    "checks": [],
    "not_applicable": [],
    "notes": "Every check is `./check <ID> --tier quick|thorough`; it rebuilds its harness against /repo's working tree, runs the "
             "committed replay tier (replays/<ID>/*.json) and then the generated search. Exit 2 + INCONCLUSIVE = infrastructure "
             "problem (never a verdict). Genuine defects found on the pinned tree are `fix:` commits in /repo or entries of "
             "known_findings.json.",
}
engines = {}
for p in props:
    cid = p["id"]
    if cid in CHECKS:
        c = CHECKS[cid]
        engines.setdefault(c.get("engine", cid), []).append(cid)
        m["checks"].append({
            "property_id": cid,
            "quick_cmd": "./check %s --tier quick" % cid,
            "thorough_cmd": "./check %s --tier thorough" % cid,
            "evidence_file": "/verif/evidence/%s.json" % cid,
            "replay_cmd_template": "./check %s --replay {path}" % cid,
            "engine": c.get("engine", cid),
            "level_claimed": {"category": c["level"], "text": c["level_text"], "design_ref": c.get("design_ref", "DESIGN.md section 3")},
            "level_note": c["level_note"],
            "technique": c["technique"],
        })
    else:
        m["not_applicable"].append({"property_id": cid, "reason": NOT_CLAIMED.get(cid, "check not built yet (work in progress; see DESIGN.md section 3 for the planned generator and oracle)")})
for e, ids in engines.items():
    m["engines"].append({"name": e, "path": "/verif/harness, /verif/ext", "serves_properties": ids,
                         "kind_free_text": "rapid property-based harness compiled against /repo by ./check"})
json.dump(m, open(os.path.join(VERIF, "MANIFEST.json"), "w"), indent=1)
print("claimed:", [c["property_id"] for c in m["checks"]])
