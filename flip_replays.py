#!/usr/bin/env python3
"""flip_replays.py <ID> : mark the known:<slug> replays of a property as fixed regressions (expect=pass)."""
import json, glob, sys
cid = sys.argv[1]
slugs = set(sys.argv[2:])
for f in sorted(glob.glob(f'/verif/replays/{cid}/*.json')):
    r = json.load(open(f))
    e = str(r.get('expect', ''))
    if e.startswith('known:') and (not slugs or e[6:] in slugs):
        r['message'] = 'regression (fixed in /repo; was finding %s): %s' % (e[6:], r.get('message', ''))
        r['expect'] = 'pass'
        json.dump(r, open(f, 'w'), indent=1)
        print('flipped', f)
