#!/usr/bin/env python3
"""Refreshes the generated sections of DESIGN.md (findings from known_findings.json, seeded changes from seeded/*/meta.json)."""
import glob, json, os, re
V = os.path.dirname(os.path.abspath(__file__))
k = json.load(open(os.path.join(V, "known_findings.json")))
f = ["### 4.1 Fixed in /repo (one `fix:` commit per root cause; a fixed entry suppresses nothing)", ""]
f += ["* " + x[len("fixed: "):] for x in k["fixed"]]
f += ["", "### 4.2 Known findings (genuine; reproduced by a replay on every run; class excluded from the generated search)", ""]
for e in k["known"]:
    f.append("* **%s `%s`** — %s\n  *Excluded class:* %s. *Why not repaired:* %s" % (e["property"], e["name"], e["what"], e["excluded_class"], e["why_not_fixed"]))
s = ["| seeded change | property | needs to manifest | caught by (quick tier) |", "|---|---|---|---|"]
n = caught = 0
for d in sorted(glob.glob(os.path.join(V, "seeded", "*", "meta.json"))):
    m = json.load(open(d))
    need = (m.get("needs_to_manifest") or "").replace("\n", " ").replace("|", "/")
    if len(need) > 240:
        need = need[:237] + "..."
    n += 1
    caught += bool(m["caught_by"])
    s.append("| `%s` | %s | %s | %s |" % (os.path.basename(os.path.dirname(d)), m["property"], need, ", ".join(m["caught_by"]) or "**none**"))
s += ["", "%d of %d seeded changes are reported by at least one check." % (caught, n)]
p = os.path.join(V, "DESIGN.md")
t = open(p).read()
t = re.sub(r"(<!-- BEGIN GENERATED FINDINGS -->).*?(<!-- END GENERATED FINDINGS -->)", lambda m: m.group(1) + "\n" + "\n".join(f) + "\n" + m.group(2), t, flags=re.S)
t = re.sub(r"(<!-- BEGIN GENERATED SEEDS -->).*?(<!-- END GENERATED SEEDS -->)", lambda m: m.group(1) + "\n" + "\n".join(s) + "\n" + m.group(2), t, flags=re.S)
open(p, "w").write(t)
print("DESIGN.md tables refreshed:", len(k["fixed"]), "fixed,", len(k["known"]), "known,", n, "seeded (%d caught)" % caught)
