// Package vfkit is the small shared runtime of every /verif harness binary: it counts cases,
// classifies them, keeps samples, records failures as replay files and knows which known
// findings are switched on. It is stdlib-only so that it can be linked into any package of the
// repository under test through -modfile/-overlay.
//
// Protocol with the python driver (/verif/check), all through environment variables:
//
//	VERIF_ID         property id (C05 …)
//	VERIF_TIER       quick | thorough
//	VERIF_SEED       integer seed of the whole check
//	VERIF_SHARD      shard index (0…n-1)
//	VERIF_OUT        path of the shard result JSON this process must write
//	VERIF_FAILCASE   path overwritten with every failing case (the last one = the shrunk one)
//	VERIF_CURCASE    path overwritten with the case about to run (only harnesses that can die)
//	VERIF_REPLAY     path of a replay file: run exactly that case, bypassing the library
//	VERIF_KNOWN      path of known_findings.json (read-only)
//	VERIF_CASES      case budget of this shard
//	VERIF_SOFT_S     soft wall-clock budget in seconds: after it, remaining cases are skipped
//	                 (a budget, never an oracle)
package vfkit

import (
	"encoding/binary"
	"encoding/json"
	"fmt"
	"hash/fnv"
	"io"
	"log/slog"
	"os"
	"sort"
	"strconv"
	"strings"
	"sync"
	"time"
)

// Replay is the on-disk form of one case.
type Replay struct {
	Property string          `json:"property"`
	Target   string          `json:"target"`           // Go test function that understands Case
	Expect   string          `json:"expect,omitempty"` // "pass" (default) or "known:<finding>"
	Message  string          `json:"message,omitempty"`
	Repeat   int             `json:"repeat,omitempty"` // schedule-dependent cases: run this many times
	Case     json.RawMessage `json:"case"`
}

type failure struct {
	Target  string `json:"target"`
	Message string `json:"message"`
	Known   string `json:"known,omitempty"`
}

// ShardResult is what one harness process reports to the driver.
type ShardResult struct {
	Property    string            `json:"property"`
	Target      string            `json:"target"`
	Shard       int               `json:"shard"`
	Evaluations int64             `json:"evaluations"`
	Nontrivial  int64             `json:"nontrivial"`
	Skipped     int64             `json:"skipped_after_soft_budget"`
	Excluded    map[string]int64  `json:"excluded_by_known_finding,omitempty"`
	Classes     map[string]int64  `json:"classes"`
	Samples     []json.RawMessage `json:"samples"`
	HashFile    string            `json:"hash_file"`
	KnownHits   map[string]string `json:"known_hits,omitempty"`
	Failures    []failure         `json:"failures,omitempty"`
	Extra       map[string]any    `json:"extra,omitempty"`
	WallS       float64           `json:"wall_s"`
}

type Recorder struct {
	mu       sync.Mutex
	res      ShardResult
	hashes   map[uint64]struct{}
	start    time.Time
	deadline time.Time
	known    map[string]bool
	maxSamp  int
	out      string
}

var (
	global     *Recorder
	globalOnce sync.Once
)

// Open returns the process-wide recorder for a test target. Several targets in one process
// share counters (the driver runs one target per process).
func Open(target string) *Recorder {
	globalOnce.Do(func() {
		Quiet()
		r := &Recorder{hashes: map[uint64]struct{}{}, start: time.Now(), maxSamp: 4, known: map[string]bool{}}
		r.res.Property = os.Getenv("VERIF_ID")
		r.res.Target = target
		r.res.Shard, _ = strconv.Atoi(os.Getenv("VERIF_SHARD"))
		r.res.Classes = map[string]int64{}
		r.res.Excluded = map[string]int64{}
		r.res.KnownHits = map[string]string{}
		r.res.Extra = map[string]any{}
		r.out = os.Getenv("VERIF_OUT")
		if s, err := strconv.ParseFloat(os.Getenv("VERIF_SOFT_S"), 64); err == nil && s > 0 {
			r.deadline = r.start.Add(time.Duration(s * float64(time.Second)))
		}
		r.loadKnown()
		global = r
	})
	return global
}

func (r *Recorder) loadKnown() {
	// development aid only: pretend these findings are listed (comma separated)
	for _, n := range strings.Split(os.Getenv("VERIF_ASSUME_KNOWN"), ",") {
		if n != "" {
			r.known[n] = true
		}
	}
	p := os.Getenv("VERIF_KNOWN")
	if p == "" {
		return
	}
	b, err := os.ReadFile(p)
	if err != nil {
		return
	}
	var f struct {
		Known []struct {
			Property string `json:"property"`
			Name     string `json:"name"`
		} `json:"known"`
	}
	if json.Unmarshal(b, &f) != nil {
		return
	}
	for _, k := range f.Known {
		r.known[k.Name] = true
	}
}

// Known reports whether a named finding is listed as known (its failure class is then excluded
// from the search and reported once as KNOWN-FINDING by its dedicated replay).
func (r *Recorder) Known(name string) bool { return r.known[name] }

// Excluded counts a generated case (or sub-case) dropped because it falls in a known finding's class.
func (r *Recorder) Excluded(name string) {
	r.mu.Lock()
	r.res.Excluded[name]++
	r.mu.Unlock()
}

func Tier() string {
	if t := os.Getenv("VERIF_TIER"); t != "" {
		return t
	}
	return "quick"
}

func Seed() uint64 {
	s, _ := strconv.ParseUint(os.Getenv("VERIF_SEED"), 10, 64)
	return s
}

// Cases returns the case budget of this process.
func Cases(def int) int {
	if n, err := strconv.Atoi(os.Getenv("VERIF_CASES")); err == nil && n > 0 {
		return n
	}
	return def
}

// OverBudget reports that the soft wall-clock budget is used up; the caller then returns from the
// property without running (and without counting) the case.
func (r *Recorder) OverBudget() bool {
	if r.deadline.IsZero() || time.Now().Before(r.deadline) {
		return false
	}
	r.mu.Lock()
	r.res.Skipped++
	r.mu.Unlock()
	return true
}

// Case records one evaluated case. desc is hashed (as JSON) for the distinct count when the case
// is non-trivial; the first few non-trivial cases are kept verbatim as samples.
func (r *Recorder) Case(desc any, nontrivial bool, classes ...string) {
	r.mu.Lock()
	defer r.mu.Unlock()
	r.res.Evaluations++
	for _, c := range classes {
		r.res.Classes[c]++
	}
	if !nontrivial {
		return
	}
	r.res.Nontrivial++
	b, err := json.Marshal(desc)
	if err != nil {
		b = []byte(fmt.Sprintf("%#v", desc))
	}
	h := fnv.New64a()
	h.Write(b)
	k := h.Sum64()
	if _, ok := r.hashes[k]; ok {
		return
	}
	r.hashes[k] = struct{}{}
	if len(r.res.Samples) < r.maxSamp && len(b) < 6000 {
		r.res.Samples = append(r.res.Samples, json.RawMessage(b))
	}
}

// Class bumps a class counter without counting an evaluation.
func (r *Recorder) Class(c string, n int64) {
	r.mu.Lock()
	r.res.Classes[c] += n
	r.mu.Unlock()
}

func (r *Recorder) SetExtra(k string, v any) {
	r.mu.Lock()
	r.res.Extra[k] = v
	r.mu.Unlock()
}

// Current writes the case about to run, for harnesses whose process may die under the case.
func (r *Recorder) Current(target string, c any) {
	p := os.Getenv("VERIF_CURCASE")
	if p == "" {
		return
	}
	writeReplay(p, r.res.Property, target, "", c)
}

// Fail records a failing case as a replay file (overwriting: rapid re-runs the minimal case last).
func (r *Recorder) Fail(target string, c any, msg string) {
	r.mu.Lock()
	r.res.Failures = append(r.res.Failures, failure{Target: target, Message: msg})
	if len(r.res.Failures) > 50 {
		r.res.Failures = r.res.Failures[len(r.res.Failures)-50:]
	}
	r.mu.Unlock()
	if p := os.Getenv("VERIF_FAILCASE"); p != "" {
		writeReplay(p, r.res.Property, target, msg, c)
	}
}

// KnownHit records that a replay expected to fail as a known finding did fail that way.
func (r *Recorder) KnownHit(name, what string) {
	r.mu.Lock()
	r.res.KnownHits[name] = what
	r.mu.Unlock()
}

func writeReplay(path, prop, target, msg string, c any) {
	raw, err := json.Marshal(c)
	if err != nil {
		raw, _ = json.Marshal(fmt.Sprintf("%#v", c))
	}
	b, _ := json.MarshalIndent(Replay{Property: prop, Target: target, Message: msg, Case: raw}, "", " ")
	tmp := path + ".tmp"
	if os.WriteFile(tmp, b, 0o644) == nil {
		os.Rename(tmp, path)
	}
}

// ReplayCase loads VERIF_REPLAY into c if the variable is set and the file is for this target.
func ReplayCase(target string, c any) (rp *Replay, ok bool, err error) {
	p := os.Getenv("VERIF_REPLAY")
	if p == "" {
		return nil, false, nil
	}
	b, err := os.ReadFile(p)
	if err != nil {
		return nil, true, err
	}
	rp = &Replay{}
	if err := json.Unmarshal(b, rp); err != nil {
		return nil, true, err
	}
	if rp.Target != "" && rp.Target != target {
		return rp, false, nil
	}
	if err := json.Unmarshal(rp.Case, c); err != nil {
		return rp, true, err
	}
	return rp, true, nil
}

// Flush writes the shard result. Call it with defer from the test function.
func (r *Recorder) Flush() {
	r.mu.Lock()
	defer r.mu.Unlock()
	r.res.WallS = time.Since(r.start).Seconds()
	if r.out == "" {
		return
	}
	hs := make([]uint64, 0, len(r.hashes))
	for h := range r.hashes {
		hs = append(hs, h)
	}
	sort.Slice(hs, func(i, j int) bool { return hs[i] < hs[j] })
	buf := make([]byte, 8*len(hs))
	for i, h := range hs {
		binary.LittleEndian.PutUint64(buf[8*i:], h)
	}
	r.res.HashFile = r.out + ".hashes"
	os.WriteFile(r.res.HashFile, buf, 0o644)
	b, _ := json.Marshal(r.res)
	os.WriteFile(r.out, b, 0o644)
}

// Quiet sends slog output to nowhere: ollama logs a warning per missing GGUF key and per
// scheduler event, which dominates run time in tight loops.
func Quiet() {
	if os.Getenv("VERIF_VERBOSE") != "" {
		return
	}
	slog.SetDefault(slog.New(slog.NewTextHandler(io.Discard, &slog.HandlerOptions{Level: slog.LevelError + 8})))
}
