module verif.local/vfkit

go 1.24.0
