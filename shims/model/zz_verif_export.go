// Overlay-only export shim of the /verif harnesses (never committed to the repository; mapped
// into package model by `go test -overlay`, see /verif/DESIGN.md section 2.1).
//
// model.Model.Config() returns the unexported type model.config and model.Base has only
// unexported fields, so a scripted model defined outside package model can neither implement
// Config() itself nor fill in a Base. This constructor is the only thing the harness needs.
package model

import (
	"github.com/ollama/ollama/kvcache"
	"github.com/ollama/ollama/ml"
)

// VerifNewBase returns a Base with the given backend and KV cache (cache may be nil).
func VerifNewBase(b ml.Backend, c kvcache.Cache) Base {
	return Base{b: b, config: config{Cache: c}}
}
