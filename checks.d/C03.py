CHECK = {
    "death_is_violation": True,  # "no registry response, however malformed, crashes the server": an exit of the process counts
    "mode": "inpkg", "pkg": "server", "files": ["fr_registry_test.go", "c03_pull_test.go"],
    "level": "fault_enumeration",
    "engine": "fakeregistry",
    "technique": "property-based fault injection (rapid-generated fault scripts + shrinking) against the real PullModel with an in-process scripted registry/CDN under a virtual clock; store-content oracle after every attempt",
    "level_text": "Generated enumeration of fault scripts: per case a published model (1-4 layers incl. empty and duplicate digests, optional config), a prior local state "
                  "(empty / older version of the tag / pre-seeded multi-part resume state with an arbitrary valid layout), 0-4 scripted faults keyed by (request kind, ordinal) over "
                  "manifest/HEAD/blob-redirect/CDN-range/token requests (5xx, 404, 401 with 12 challenge shapes, connection error, truncated / reset / byte-flipped / stalled bodies, "
                  "ignored Range, wrong or missing Content-Length, same-host redirect, no redirect, redirect chain), 1-3 attempts optionally cancelled at a drawn virtual time, then up to "
                  "three fault-free retries. After every attempt the store is read back: success => every layer file has the manifest's size and SHA-256 and the stored manifest equals the "
                  "served one; failure => the name, if it resolves, resolves to a fully intact model and a previously pulled version still resolves; one clean retry must succeed; a panic "
                  "on the pull goroutine (recovered by the harness) or in a goroutine ollama spawns (process death, attributed through the current-case file) is a violation. The 30 s stall "
                  "watchdog, 2^n s retry sleeps and back-offs run in virtual time (testing/synctest).",
    "level_note": "Faults are injected at HTTP level through an http.RoundTripper installed as http.DefaultTransport (no TCP-level reordering); served manifests are self-consistent and their bytes "
                  "are trusted as delivered (no flip faults on manifest bodies: the legacy protocol has nothing to check them against). Multi-part layouts are exercised through pre-seeded "
                  "-partial/-partial-N files with small parts (the code accepts any layout; real layouts need >100 MB blobs). 'A later retry can still succeed' is read as: after the detached "
                  "download goroutines of cancelled attempts have wound down (3 virtual minutes), one of up to three fault-free attempts succeeds. Known finding pull-head-length-poisons-resume "
                  "is reproduced by its replay and its class (HEAD with too large Content-Length) is excluded from generated scripts while listed.",
    "design_ref": "DESIGN.md section 3 C03",
    "targets": [{"name": "TestC03Pull",
                 "quick": {"cases": 500, "shards": 8, "soft_s": 50},
                 "thorough": {"cases": 6000, "shards": 16, "soft_s": 400}}],
    "floors": {"attempt_failed": 0.2, "attempt_with_cancel": 0.2, "prior_partial_parts": 0.1},
    "rule": "Added in the last session: resume files with a part file torn by a kill, an installed manifest torn by a kill, OLLAMA_NOPRUNE drawn. rapid-generated (model, prior store state, fault script, attempts with cancel times and gaps) run through the real PullModel against a scripted in-process registry; "
            "non-trivial = at least one scripted fault was actually consumed by a request or pre-seeded resume state was used; distinct = distinct hash of the generated case.",
    "assumptions": ["HTTP-level faults only", "manifest bytes trusted as delivered", "completed write(2) calls persist (no power loss)",
                    "virtual clock by testing/synctest (go1.26.8)"],
}
