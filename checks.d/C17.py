CHECK = {
    "builds": [
        {"mode": "inpkg", "pkg": "server", "files": ["c17_stream_test.go"]},
        {"mode": "inpkg", "pkg": "llm", "files": ["c17_completion_test.go"]},
    ],
    "level": "exploration",
    "engine": "streamdiff",
    "technique": "property-based metamorphic / differential testing (rapid, shrinking): one scripted model output, re-chunked and "
                 "replayed by a mock runner behind the real scheduler, requested through the real router on /api/generate, /api/chat, "
                 "/v1/completions and /v1/chat/completions, streamed and not; results compared with each other and with the output; plus the "
                 "real llm/server.go Completion (the client side of the runner protocol, which the mock replaces) against a scripted runner "
                 "response stream, with an oracle over its callback sequence and return value",
    "level_text": "Randomised exploration of model outputs (plain text with multi-byte characters; 1-3 JSON tool calls bare / "
                  "array-wrapped / object-wrapped / fenced / tagged / surrounded by prose; JSON that is not a tool call; truncated JSON) "
                  "x splits into 1-12 runner chunks at rune boundaries (biased to fall inside JSON values and next to multi-byte "
                  "characters, incl. empty chunks) x done reason x token counts x runner failure after j chunks x 11 request shapes. "
                  "Exact oracles R1-R4 (DESIGN.md section 3 C17) plus the ground truth known to the mock. The space is unbounded "
                  "(text length, JSON nesting); outputs stay below 2 KiB; no absence proof.",
    "level_note": "In-package harness; uses the unexported Scheduler.newServerFn/getGpuFn/getCpuFn and Server.sched (as the repository's own "
                  "routes_generate_test.go does). Requests reach the router through an in-process http.RoundTripper (httptest recorder, "
                  "no sockets): net/http's chunked transfer is not exercised, api.Client's stream scanner and the gin/openai writers are. "
                  "The mock delivers Done in a separate content-free response, as llm/server.go does for both real runners, and only "
                  "valid UTF-8 chunks (both runners hold back incomplete UTF-8), so boundaries are at rune boundaries; "
                  "'boundary inside a multi-byte character' of the design is realised as 'boundary next to a multi-byte character'. "
                  "The tool-call `index` field (streaming only) is not compared; OpenAI tool-call ids are random and not compared. "
                  "Token counts of an OpenAI stream are only observable with stream_options.include_usage (drawn per case).",
    "design_ref": "DESIGN.md section 3 C17",
    "targets": [{"name": "TestC17StreamEquivalence", "build": 0,
                 "quick": {"cases": 3000, "shards": 2, "soft_s": 40},
                 "thorough": {"cases": 40000, "shards": 14, "soft_s": 330}},
                # the client side of the runner protocol (llm/server.go Completion), which the mock above replaces
                {"name": "TestC17LlmCompletion", "build": 1,
                 "quick": {"cases": 20000, "shards": 2, "soft_s": 30},
                 "thorough": {"cases": 400000, "shards": 2, "soft_s": 300}}],
    "floors": {"shape_gen_raw": 0.02, "shape_gen_tmpl": 0.04, "shape_gen_suffix": 0.02, "shape_gen_format": 0.02,
               "shape_chat_plain": 0.04, "shape_chat_format": 0.02, "shape_chat_schema": 0.02, "shape_chat_tools": 0.15,
               "shape_chat_params": 0.08, "shape_chat_tools_format": 0.02, "shape_chat_notools": 0.02,
               "tool_calls_present": 0.2, "tool_calls_with_boundary_inside_json": 0.12, "tools_sent_no_call_found": 0.03,
               "boundary_inside_json": 0.2, "boundary_at_multibyte_char": 0.1, "empty_chunk": 0.08, "chunks_ge3": 0.4,
               "failure": 0.12, "failure_mid_stream": 0.05, "failure_before_first_chunk": 0.01, "failure_after_last_chunk": 0.01,
               "tokenize_failure_after_done": 0.025, "tokenize_fault_without_effect": 0.04, "reason_length": 0.1, "openai_compared": 0.5, "openai_stream_usage_compared": 0.1, "boundary_after_first_call": 0.03,
               "long_output_over_64k": 0.01, "more_than_30_equal_chunks_in_a_row": 0.05, "28_to_30_equal_chunks_in_a_row": 0.01, "end_reset": 0.03, "end_badjson": 0.03, "http_error_status": 0.03},
    "rule": "rapid-generated cases: request shape in {generate raw / templated / with suffix / with format json; chat plain / format json / "
            "format schema / tools ('arguments' template) / tools ('parameters' template) / tools+format / tool-capable model without tools}, "
            "model output built from prose words (ASCII, accented, CJK, emoji, U+2028, quotes, braces), tool-call objects in several "
            "spellings and layouts, non-call JSON, optionally truncated; two independent splits into 1-12 chunks at rune boundaries; done "
            "reason stop|length; counts 0-500; long-output class (one case in 40 of the shapes without tools: the output is followed by 60-300 KB of filler, so that a non-streamed response and the final message of a streamed generate are single lines far above 64 KiB); runner failure after j chunks in 1/4 of the cases; Tokenize failing once the runner has "
            "delivered Done (tok_fail: 2/5 of the non-raw generate cases, where the handler tokenizes prompt+response for `context`; 1/8 of "
            "the chat and raw cases, where it must change nothing); include_usage drawn. Per case up to 5 "
            "requests through the real router: native non-streamed under both splits (R1), native streamed through api.Client (R2, R4 on the "
            "raw NDJSON body and on the client's view), OpenAI non-streamed and streamed (R3, R4 on the raw SSE body). Non-trivial = at least "
            "3 chunks with a boundary strictly inside a JSON object/array or next to a multi-byte character, or a runner failure after at "
            "least one chunk, or a Tokenize failure after Done that bites; distinct = distinct hash of the generated case.",
    "rule_llm": "TestC17LlmCompletion: rapid-generated runner response streams for the real (*llmServer).Completion behind an in-process "
                "http.RoundTripper: 0-8 runs of a piece from a 20-piece pool (words with leading/trailing blanks, newlines, blanks, empty, "
                "digits, braces, multi-byte) repeated 1-64 times (29-33 over-represented: the loop guard's limit is 30), NDJSON or SSE "
                "framing, optional blank lines, delivered 7 bytes per read; ending = Done line with reason and counts | clean end of body | "
                "malformed JSON line | foreign JSON line | read error; or HTTP 400/500/503. Oracle: nil error <=> exactly one Done "
                "response, delivered last, with the runner's reason and counts and the full text; delivered text always a prefix of the "
                "text sent; never an error after Done; a complete stream below the guard's limit never gives an error.",
    "assumptions": [
        "llm-level target: a response body that ends cleanly without a Done line (with or without a foreign JSON line before it) is outside the runners' behaviour - a crashed "
        "runner gives an unexpected EOF, a failing encoder a plain-text line - so Completion returning nil for it is counted (obs_clean_eof_without_done_returns_nil), not judged",
        "runner chunks are valid UTF-8 and Done arrives in a separate content-free response (what llm/server.go forwards from both runners)",
        "done reason is stop or length (DoneReasonConnectionClosed means the client is gone)",
        "outputs stay below the 512 KiB line limit of api.Client's scanner (the long-output class reaches about 300 KB per line)",
        "generated tool-call arguments never contain an object that is itself a tool call (parseToolCalls collects nested objects in map "
        "iteration order, which would make the expected sequence ambiguous)",
        "when tools are sent, prose around the calls has no braces, brackets or unbalanced double quotes, so that the generator knows which "
        "segments a whole-text scan finds (JSON string values inside calls do contain them)",
        "a Tokenize failure after Done (tok_fail) is expected to bite exactly on /api/generate without raw when the runner reached Done "
        "(server/routes.go GenerateHandler tokenizes prompt+response there); everywhere else the unchanged relations R1-R4 are asserted, and "
        "the mock counts its Tokenize errors so that a wrong expectation of the harness shows up as a failure, not as silence",
        "for a failing runner the only equalities asserted are: every representation reports the runner's error message, none carries a final "
        "message, and (no tools) the text streamed before the error is exactly what the runner had produced",
        "/v1/completions is compared for templated and suffix generate requests only (raw and format have no OpenAI-compatible equivalent)",
    ],
}
CHECK["rule"] += " " + CHECK.pop("rule_llm")
