CHECK = {
    "mode": "inpkg", "pkg": "server", "files": ["fr_registry_test.go", "c04_store_test.go", "c12_crash_test.go"],
    "level": "fault_enumeration",
    "engine": "storeapi",
    "technique": "property-based crash-point injection (rapid-generated prior states, operations and crash points + shrinking): (A) in-process pause-and-snapshot at every externally visible step under a virtual clock, (B) re-executed child killed by strace fault injection before its N-th file-system system call; post-crash store oracle",
    "level_text": "Generated enumeration of crash points. (A) TestC12Crash: the operation (pull, create from files, create from a base that may have to be pulled, copy, delete, blob upload) runs "
                  "through the real router against a scripted in-process registry; it is parked at a drawn step among all its visible steps (each progress line written to the client, each "
                  "registry request, each 256-byte prefix of a downloaded body, each 100-byte prefix of an uploaded body), every other goroutine runs to quiescence, the store directory is "
                  "copied (= what kill -9 leaves) and the operation abandoned. (B) TestC12Syscall: the test binary re-executes itself as a child that performs one operation and is killed by "
                  "`strace -e inject=<syscall>:signal=KILL:when=N` before the N-th openat/write/rename/unlink/mkdir/chmod/ftruncate/close that touches the store (candidates taken from a dry run), "
                  "which reaches points between any two file-system effects. On every crash image: the startup sequence runs; every name with a readable manifest (found by the harness's own walk) "
                  "has all layers and config present with the manifest's size and SHA-256; every model not involved is byte-identical; repeating the operation succeeds (delete may answer 404 = "
                  "already done) and, after startup, the store equals the one an uninterrupted run leaves (manifests compared without their machine-local 'from' path).",
    "level_note": "Kill semantics: completed system calls persist, no power-loss model. (A) parks one goroutine and lets the others quiesce, which is one of the schedules a kill can meet. (B) counts "
                  "system calls per thread as strace does, so some ordinals are not reached (counted as injection_not_reached); it needs ptrace (evidence class strace_unavailable otherwise) and "
                  "covers the operations that need no registry. A quarter of the cases run with OLLAMA_NOPRUNE=1, where left-overs legitimately stay and only models and the blobs they name are "
                  "compared. `create X from X` is not compared with the uninterrupted run (it redefines its own input). Startup sequence replicated from Serve.",
    "design_ref": "DESIGN.md section 3 C12",
    "targets": [{"name": "TestC12Crash",
                 "quick": {"cases": 80, "shards": 8, "soft_s": 50},
                 "thorough": {"cases": 4000, "shards": 8, "soft_s": 420}},
                {"name": "TestC12Syscall",
                 "quick": {"cases": 36, "shards": 8, "soft_s": 55, "shrinktime": "60s"},
                 "thorough": {"cases": 1200, "shards": 8, "soft_s": 420, "shrinktime": "120s"}}],
    "floors": {"several_distinct_crash_images": 0.05, "crash_at_request": 0.1, "crash_at_body": 0.05, "registry_republished_before_op": 0.04},
    "rule": "Added in the last session: injector (B) also kills first-time pulls, traces copy_file_range / sendfile, draws every other crash point among the calls with a lasting effect, and after a repeated pull deletes the model and pulls it again. rapid-generated (prior store state built through the API, one operation, crash points as positions within the operation's step / system-call sequence); each evaluation runs the "
            "uninterrupted operation once and 1-10 crashed runs. One case in six of injector (A) is the update scenario: a model is pulled, optionally copied to another name and/or used "
            "as the base of a created model, the registry publishes a new version under the same tag, and the interrupted operation is the second pull; half of the re-pulls of injector (B) "
            "have a local copy of the pulled model. Store images taken at crash points keep hard links (two names of one file stay one file); non-trivial = a crash point strictly inside the operation (some effect done, some pending); distinct = distinct hash of the case.",
    "assumptions": ["completed system calls persist (kill, not power loss)", "ptrace/strace available for injector (B)", "startup sequence replicated in the harness"],
}
