CHECK = {
    "builds": [
        {"mode": "inpkg", "pkg": "sample", "files": ["c18_sampler_test.go", "c18_fuzz_test.go"]},
        {"mode": "inpkg", "pkg": "sample", "files": ["c18_sampler_test.go", "c18_fuzz_test.go"], "fuzz": "FuzzC18Sampler"},
    ],
    "level": "exploration",
    "engine": "sampler",
    "technique": "property-based testing (rapid, shrinking) of sample.NewSampler(...).Sample against a float64 interval "
                 "reference of the filter chain, plus a twin-sampler determinism oracle; thorough tier additionally runs Go's native coverage-guided fuzzer (go test -fuzz) against the same oracle (rapid.MakeFuzz over the same generator)",
    "level_text": "Randomised exploration of (temperature, top-k, top-p, min-p, seed) x logit vectors of length 1-300 "
                  "(ties, runs of -Inf, single finite value, huge/tiny magnitudes, near-equal floats, NaN/+Inf as a "
                  "separate class), 1-64 draws per vector. Every returned id is checked against an over-approximation of "
                  "the admissible set computed in float64 with explicit bounds on each float32 step; no absence proof, "
                  "and tokens inside the tolerance band of a filter boundary are accepted either way.",
    "level_note": "Exported API only (NewSampler, Sampler.Sample) although compiled in-package; grammar is nil (the grammar "
                  "path needs a llama.cpp vocabulary file). Parameter clamps replicated from NewSampler/temperature: negative "
                  "temperature -> greedy, top_p/min_p clamped to [0,1], temperature raised to 1e-7. Determinism is asserted "
                  "for seeds >= 0 only; completeness of sampling (every admissible token reachable, distribution shape) is "
                  "not checked.",
    "design_ref": "DESIGN.md section 3 C18",
    "targets": [{"name": "TestC18Sampler",
                 "quick": {"cases": 40000, "shards": 4, "soft_s": 40},
                 "thorough": {"cases": 2000000, "shards": 12, "soft_s": 400}},
                # native coverage-guided fuzzing, thorough tier only (cannot be pinned to VERIF_SEED; the saved input is the reproducible unit)
                {"name": "FuzzC18Sampler", "build": 1, "kind": "fuzz", "thorough": {"fuzztime": "120s", "workers": 4, "hard_s": 600}}],
    "floors": {"top_k_removes": 0.10, "top_p_removes": 0.10, "min_p_removes": 0.10, "temp_zero": 0.05,
               "greedy_distinct": 0.03, "tie_at_max": 0.05, "neginf_present": 0.08, "single_finite": 0.03,
               "hazard_nan_posinf": 0.02, "determinism_nontrivial": 0.15, "len_1": 0.05, "len_gt_40": 0.10,
               "tie_at_top_k_boundary": 0.01, "style_huge": 0.03, "style_tiny": 0.03, "style_near_equal": 0.05,
               "top_p_out_of_range": 0.10, "min_p_out_of_range": 0.10, "temp_negative": 0.02, "temp_tiny": 0.04},
    "rule": "rapid-generated case = one sampler configuration (temperature in {0, negative, 1e-45..1e-2, 0.05-5, huge, "
            "NaN/+Inf}, top_k in {<=0, 1, 2..300, >= n}, top_p/min_p in [0,1] plus out-of-range/NaN, seed in {-1, >=0, "
            "other negative}) and 1-4 logit vectors (length 1-300; styles normal, ties, runs of -Inf, single finite, "
            "all -Inf, huge, tiny/subnormal, near-equal ulps, mixed, NaN/+Inf), each drawn 1-64 times from one sampler and "
            "from a twin with the same seed. Non-trivial = some vector with temperature > 0, no NaN/+Inf/overflow, at "
            "least 2 distinct finite logits and at least one of top-k/top-p/min-p rejecting at least one finite-logit "
            "token according to the reference; distinct = distinct hash of the generated case.",
    "assumptions": ["grammar is nil (callers pass nil unless a format/grammar is requested; the grammar path needs a model vocabulary)",
                    "an error (or any in-range id) is accepted when a logit is NaN/+Inf, when no logit is finite, when "
                    "temperature is NaN/+Inf, or when |logit|/max(T,1e-7) >= 3.4e38 (float32 overflow of the scaled logits)",
                    "top-p clause: lower bound of the mass of strictly more probable tokens <= top_p (eps = 4(n+4)*2^-24 relative); "
                    "min-p clause: upper bound of p/p_max >= min_p; probability bounds carry eta = 2^-22*(max|l/T| + |d|) on every "
                    "scaled difference d",
                    "seeds other than -1 that are negative are exercised but determinism is asserted only for seed >= 0"],
}
