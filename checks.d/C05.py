CHECK = {
    "builds": [
        {"mode": "inpkg", "pkg": "fs/ggml", "files": ["c05_test.go", "c05_fuzz_test.go"]},
        # the same harness with fuzz coverage instrumentation, for the native fuzz target of the thorough tier
        {"mode": "inpkg", "pkg": "fs/ggml", "files": ["c05_test.go", "c05_fuzz_test.go"], "fuzz": "FuzzC05RoundTrip"},
    ],
    "level": "exploration",
    "engine": "ggufcodec",
    "technique": "property-based round-trip testing (rapid, shrinking) of WriteGGUF/Decode with a both-directions oracle; thorough tier additionally runs the same generator and oracle under Go's native coverage-guided fuzzer (rapid.MakeFuzz)",
    "level_text": "Randomised exploration of the writer's input space with an exact round-trip oracle (keys, values bitwise, "
                  "tensor multiset, bytes at decoded offsets, alignment, end offset). Inputs are a product of small finite "
                  "choices, so thousands of cases cover every value type x alignment x unaligned-size pattern many times; "
                  "no absence proof.",
    "level_note": "Trusts rapid's generator and the harness's own reading of the file bytes. In-package harness reads ggml.array's "
                  "unexported fields. Tensor names are unique per file; general.parameter_count (decoder-patched) is not compared.",
    "design_ref": "DESIGN.md section 3 C05",
    "targets": [{"name": "TestC05RoundTrip",
                 "quick": {"cases": 4000, "shards": 2, "soft_s": 40},
                 "thorough": {"cases": 200000, "shards": 12, "soft_s": 330}},
                # native coverage-guided fuzzing, thorough tier only (cannot be pinned to VERIF_SEED; the saved input is the reproducible unit)
                {"name": "FuzzC05RoundTrip", "build": 1, "kind": "fuzz", "thorough": {"fuzztime": "120s", "workers": 4, "hard_s": 600}}],
    "floors": {"three_tensors_unaligned": 0.15, "nondefault_alignment": 0.3},
    "rule": "rapid-generated (alignment absent or one of 1 2 4 8 16 32 64 256 24 40 96 12 7 100; every written file is decoded with Decode(-1) and again under collect limits 0 (= 1024), 5 and the sizes of its own arrays: an array of at most that many elements must decode to the same values, a longer one to its size only; KV map over every value type WriteGGUF accepts incl. empty/large strings and arrays "
            "around the 1024 collect limit, alignment in {absent,1..256}, 0-40 uniquely named tensors of every kind "
            "with 0-4 dims); oracle = Decode(WriteGGUF(x)) equals x both ways, bytes at decoded offsets, aligned "
            "offsets, end offset = file length. Non-trivial = at least 3 tensors with at least 2 tensors of "
            "unaligned byte size before the last; distinct = distinct hash of the generated case.",
    "assumptions": ["tensor names unique within a file", "general.parameter_count is patched in by the decoder and not compared",
                    "harness reads the unexported fields size/values of ggml.array"],
}
