_SHIM = {"verifc10gen/gen.go": "harness/c10gen/gen.go",
         # generator of hostile Hugging Face model directories / LoRA adapters (TestC10Convert)
         "verifc10hf/case.go": "harness/c10hf/case.go", "verifc10hf/build.go": "harness/c10hf/build.go", "verifc10hf/mut.go": "harness/c10hf/mut.go"}

CHECK = {
    "death_is_violation": True,  # "the server keeps serving": an exit of the process (os.Exit / log.Fatal) counts like a panic
    "builds": [
        {"mode": "inpkg", "pkg": "fs/ggml", "files": ["c10_decode_test.go"], "shims": _SHIM},
        {"mode": "inpkg", "pkg": "server", "files": ["c10_api_test.go", "c10_convert_test.go"], "shims": _SHIM},
        # the same decoder harness built with fuzz coverage instrumentation (slower, so not used for the rapid target)
        {"mode": "inpkg", "pkg": "fs/ggml", "files": ["c10_decode_test.go"], "shims": _SHIM, "fuzz": "FuzzC10Decode"},
    ],
    "level": "exploration",
    "engine": "ggufhostile",
    "technique": "structure-aware mutation testing (rapid, shrinking): a valid GGUF is serialised field by field (both byte "
                 "orders, versions 1-3), 0-3 mutations addressed by field (lengths, counts, dims, types, offsets, alignment, "
                 "value types of well-known keys, truncation at field boundaries, appended data); decoder level with panic / "
                 "reader-step / allocation observers and API level (blob upload, create, show) on the real gin router; "
                 "the same for Hugging Face style model directories and LoRA adapters (TestC10Convert): a small valid directory per "
                 "architecture of convert.ConvertModel (own safetensors writer, tokenizer.json / sentencepiece tokenizer.model, the "
                 "auxiliary json files) + 0-3 mutations addressed by file and field, uploaded and used by POST /api/create "
                 "(files, or from/files + adapters)",
    "level_text": "Randomised exploration of the field x hostile-constant space of small GGUF files. The hostile constants are "
                  "the boundary values of every integer conversion in the decoder (0, 1, -1, 2^31, 2^32-1, 2^63, 2^64-1, file "
                  "size +-1, remaining +-1, scratch size +-1, collect limit +-1), so each (field kind, constant) pair is hit "
                  "many times per run; arbitrary byte strings are only reached through the (manual) native fuzz target. "
                  "No absence proof.",
    "level_note": "Allocation is measured as the delta of runtime/metrics /gc/heap/allocs:bytes (= TotalAlloc, read without stop-the-world) around Decode on a quiet process "
                  "(bound 16 MiB + 64*len); allocations too large for ulimit -v kill the process and are attributed through the "
                  "current-case file. Non-termination is bounded by counting Read/Seek calls on the underlying reader "
                  "(4*len+256) at the decoder level; at the API level a request that has not answered after 20 s, or during which the "
                  "live heap grew by more than 1 GiB, while a goroutine is still inside ollama server/ggml code is reported "
                  "(a liveness bound, the only wall-clock use); each API request also has an allocation budget of 128 MiB + 64*len. "
                  "In-package harnesses: fs/ggml (unexported Tensor.block only) and server (Server{}, GenerateRoutes). "
                  "TestC10Convert first makes the call of the create goroutine itself (server.convertFromSafetensors / convertModelFromFiles, "
                  "and parseFromModel for the base of an adapter: unexported) on a watched goroutine under recover, so that a panic that would "
                  "kill the server is reported with its stack and can be shrunk; then the request goes through the router under the API-level "
                  "observers. Allocation budget per conversion / request: 128 MiB + 64 * (bytes of all uploaded files + request body); a valid "
                  "directory of this generator (< 20 KiB) converts within ~3 MiB. A conversion that is still running after 20 s or after the "
                  "live heap grew by 1 GiB cannot be stopped from outside: the case is reported and the worker process exits.",
    "design_ref": "DESIGN.md section 3 C10",
    "mem_gb": 4,
    "targets": [
        {"name": "TestC10Decode", "build": 0,
         "quick": {"cases": 25000, "shards": 2, "soft_s": 40, "gomaxprocs": 2},
         "thorough": {"cases": 250000, "shards": 5, "soft_s": 300, "gomaxprocs": 2}},
        {"name": "TestC10API", "build": 1,
         "quick": {"cases": 3000, "shards": 2, "soft_s": 40, "gomaxprocs": 4},
         "thorough": {"cases": 40000, "shards": 5, "soft_s": 330, "gomaxprocs": 3}},
        # Hugging Face directories and LoRA adapters through POST /api/create (package convert behind server/create.go)
        {"name": "TestC10Convert", "build": 1,
         "quick": {"cases": 3000, "shards": 2, "soft_s": 40, "gomaxprocs": 4},
         "thorough": {"cases": 30000, "shards": 5, "soft_s": 330, "gomaxprocs": 3}},
        # native coverage-guided fuzzing of ggml.Decode over arbitrary byte strings, seeded with structured files;
        # thorough tier only (cannot be pinned to VERIF_SEED; the saved input is the reproducible unit)
        {"name": "FuzzC10Decode", "build": 2, "kind": "fuzz",
         "thorough": {"fuzztime": "90s", "workers": 8, "hard_s": 600}},
    ],
    "floors": {"header_ok": 0.5, "decoded_ok_after_mutation": 0.05, "mut:set:strlen": 0.01, "mut:set:arrcount": 0.01,
               "mut:set:dims": 0.01, "mut:set:alignment": 0.005, "mut:trunc_field": 0.03, "retyped_wellknown_key": 0.1,
               # TestC10Convert (fractions of that target's evaluations)
               "hf:unmutated_converts_ok": 0.12, "hf:mutated_converts_ok": 0.08, "hfmut:st": 0.2, "hfmut:cfg": 0.08, "hfmut:tok": 0.025,
               "hfmut:spm": 0.02, "hfmut:tokcfg": 0.015, "hfmut:stmap": 0.015, "hfmut:dir": 0.02, "hf:adapter": 0.12, "hfmut:acfg": 0.03,
               "hf:adapter_create_ok": 0.015},
    "rule": "rapid-generated: structurally valid GGUF (LE/BE, version 1/2/3/other, well-known keys with canonical or other "
            "value types, arrays around the 1024 collect limit, strings around the 16 KiB scratch size, 0-6 tensors) + 0-3 "
            "mutations addressed by field (set to a hostile constant, backward-seek tensor size, truncate at/inside a field or "
            "at a byte, append zeros/0xff/a second GGUF). Decoder level: Decode(bytes, 0) and Decode(bytes, -1) under panic, "
            "step and allocation observers, then the metadata accessors create/show/load use. API level: POST /api/blobs, POST "
            "/api/create (stream false and true, then from), POST /api/show (plain, verbose), GET /api/version. Non-trivial = the "
            "input keeps a recognised magic and a complete header and differs from a valid file in at least one field (byte "
            "change or mistyped well-known key); distinct = distinct hash of the generated case. "
            "TestC10Convert: a tiny complete model directory (hidden size 2-16, 1-2 layers, 8-39 tokens) for each of the 11 architecture "
            "names convert.ConvertModel accepts (Llama, Mixtral, Gemma, Gemma2, Gemma3 causal / conditional, Phi3, Qwen2, Bert + modules.json, "
            "Cohere, Mistral3; rope_scaling variants), tokenizer.json (BPE / WordPiece, merges as strings or pairs, added tokens, five "
            "pre_tokenizer shapes) and/or tokenizer.model (sentencepiece protobuf built with the repository's generated types), optional "
            "tokenizer_config / special_tokens_map / added_tokens / generation_config, 1-3 safetensors files (F32/F16/BF16, __metadata__, "
            "padded header, index file); or, in a quarter of the cases, a LoRA adapter (peft or mlx naming, r / lora_parameters) over a base "
            "that is a GGUF with canonical, retyped or missing well-known keys or the model directory itself, named by `from` or sent as "
            "`files`. 0-3 mutations addressed by file kind and field: safetensors header length (hostile constants, file size +-1), "
            "data_offsets (reversed, beyond the file, negative, overlapping, wrong arity / type), dtype, shape (zero, huge, product mismatch, "
            "rank changes that keep the product, empty tensors), tensor names (dropped, duplicated, aliased, unexpected, role changes), header "
            "json shapes, truncation at / inside fields; config.json members set to numbers as strings, arrays, negative / zero / huge values, "
            "architectures and rope_scaling variants, non-json; tokenizer.json without model / vocab, ids negative / duplicated / huge / "
            "mistyped, malformed merges and added_tokens; tokenizer.model truncated / garbage / odd piece types; the auxiliary json files with "
            "wrong-typed members; files dropped, emptied, renamed (valid paths only), swapped, torch files. Requests: POST /api/blobs for "
            "every file, POST /api/create (stream drawn; files, files+adapters or from+adapters), POST /api/show (plain, verbose) after a "
            "reported success, GET /api/version, /api/tags. Non-trivial = at least one mutation changed the directory.",
    "assumptions": [
        "the allocation delta is taken on a process whose only busy goroutine is the harness (GOMAXPROCS 2); small allocations are counted with span granularity (< 1 MiB error against a 16 MiB floor)",
        "GraphSize is only exercised when the declared block count is <= 4096 (it allocates one uint64 per declared block by design)",
        "API level: a request still inside ollama code after 20 s, or after growing the live heap by 1 GiB, on a < 200 KiB file counts as non-terminating / runaway",
        "the predictor of the pinned decoder (verifc10gen.Predict) is used only to exclude listed findings and for counters",
        "TestC10Convert: a recovered panic of the direct call is attributed to a listed finding by the innermost ollama function on its stack, the panic text and facts about the uploaded bytes (c10cClassify); allocation / non-termination classes of listed findings are excluded from the bytes (c10cPredict); both only while the finding is listed",
        "TestC10Convert: server.detectModelTypeFromFiles walks the request's file map in Go's random order and stops at the first member it cannot read four bytes of, so a directory with an empty member is converted or rejected as 'unknown type' by chance; the direct call always takes the converting branch, the request takes whichever the map order gives",
        "TestC10Convert: `from` is only used with a base model the case has just created (an absent model would be pulled from the network)",
    ],
}
