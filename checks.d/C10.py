_SHIM = {"verifc10gen/gen.go": "harness/c10gen/gen.go"}

CHECK = {
    "builds": [
        {"mode": "inpkg", "pkg": "fs/ggml", "files": ["c10_decode_test.go"], "shims": _SHIM},
        {"mode": "inpkg", "pkg": "server", "files": ["c10_api_test.go"], "shims": _SHIM},
        # the same decoder harness built with fuzz coverage instrumentation (slower, so not used for the rapid target)
        {"mode": "inpkg", "pkg": "fs/ggml", "files": ["c10_decode_test.go"], "shims": _SHIM, "fuzz": "FuzzC10Decode"},
    ],
    "level": "exploration",
    "engine": "ggufhostile",
    "technique": "structure-aware mutation testing (rapid, shrinking): a valid GGUF is serialised field by field (both byte "
                 "orders, versions 1-3), 0-3 mutations addressed by field (lengths, counts, dims, types, offsets, alignment, "
                 "value types of well-known keys, truncation at field boundaries, appended data); decoder level with panic / "
                 "reader-step / allocation observers and API level (blob upload, create, show) on the real gin router",
    "level_text": "Randomised exploration of the field x hostile-constant space of small GGUF files. The hostile constants are "
                  "the boundary values of every integer conversion in the decoder (0, 1, -1, 2^31, 2^32-1, 2^63, 2^64-1, file "
                  "size +-1, remaining +-1, scratch size +-1, collect limit +-1), so each (field kind, constant) pair is hit "
                  "many times per run; arbitrary byte strings are only reached through the (manual) native fuzz target. "
                  "No absence proof.",
    "level_note": "Allocation is measured as the delta of runtime/metrics /gc/heap/allocs:bytes (= TotalAlloc, read without stop-the-world) around Decode on a quiet process "
                  "(bound 16 MiB + 64*len); allocations too large for ulimit -v kill the process and are attributed through the "
                  "current-case file. Non-termination is bounded by counting Read/Seek calls on the underlying reader "
                  "(4*len+256) at the decoder level; at the API level a request that has not answered after 20 s, or during which the "
                  "live heap grew by more than 1 GiB, while a goroutine is still inside ollama server/ggml code is reported "
                  "(a liveness bound, the only wall-clock use); each API request also has an allocation budget of 128 MiB + 64*len. "
                  "In-package harnesses: fs/ggml (unexported Tensor.block only) and server (Server{}, GenerateRoutes).",
    "design_ref": "DESIGN.md section 3 C10",
    "mem_gb": 4,
    "targets": [
        {"name": "TestC10Decode", "build": 0,
         "quick": {"cases": 25000, "shards": 2, "soft_s": 40, "gomaxprocs": 2},
         "thorough": {"cases": 250000, "shards": 8, "soft_s": 300, "gomaxprocs": 2}},
        {"name": "TestC10API", "build": 1,
         "quick": {"cases": 3000, "shards": 2, "soft_s": 40, "gomaxprocs": 4},
         "thorough": {"cases": 40000, "shards": 8, "soft_s": 330, "gomaxprocs": 4}},
        # native coverage-guided fuzzing of ggml.Decode over arbitrary byte strings, seeded with structured files;
        # thorough tier only (cannot be pinned to VERIF_SEED; the saved input is the reproducible unit)
        {"name": "FuzzC10Decode", "build": 2, "kind": "fuzz",
         "thorough": {"fuzztime": "90s", "workers": 12, "hard_s": 600}},
    ],
    "floors": {"header_ok": 0.5, "decoded_ok_after_mutation": 0.05, "mut:set:strlen": 0.01, "mut:set:arrcount": 0.01,
               "mut:set:dims": 0.01, "mut:set:alignment": 0.005, "mut:trunc_field": 0.03, "retyped_wellknown_key": 0.1},
    "rule": "rapid-generated: structurally valid GGUF (LE/BE, version 1/2/3/other, well-known keys with canonical or other "
            "value types, arrays around the 1024 collect limit, strings around the 16 KiB scratch size, 0-6 tensors) + 0-3 "
            "mutations addressed by field (set to a hostile constant, backward-seek tensor size, truncate at/inside a field or "
            "at a byte, append zeros/0xff/a second GGUF). Decoder level: Decode(bytes, 0) and Decode(bytes, -1) under panic, "
            "step and allocation observers, then the metadata accessors create/show/load use. API level: POST /api/blobs, POST "
            "/api/create (stream false and true, then from), POST /api/show (plain, verbose), GET /api/version. Non-trivial = the "
            "input keeps a recognised magic and a complete header and differs from a valid file in at least one field (byte "
            "change or mistyped well-known key); distinct = distinct hash of the generated case.",
    "assumptions": [
        "the allocation delta is taken on a process whose only busy goroutine is the harness (GOMAXPROCS 2); small allocations are counted with span granularity (< 1 MiB error against a 16 MiB floor)",
        "GraphSize is only exercised when the declared block count is <= 4096 (it allocates one uint64 per declared block by design)",
        "API level: a request still inside ollama code after 20 s, or after growing the live heap by 1 GiB, on a < 200 KiB file counts as non-terminating / runaway",
        "the predictor of the pinned decoder (verifc10gen.Predict) is used only to exclude listed findings and for counters",
    ],
}
