CHECK = {
    "mode": "inpkg", "pkg": "server", "files": ["fr_registry_test.go", "c04_store_test.go", "c15_race_test.go"],
    "yield_points": ["server/sched.go", "server/routes.go"],  # yields in front of lock statements and channel operations (see check: build)
    "race": True,
    "build_timeout": 1500,
    "level": "exploration",
    "engine": "raceload",
    "technique": "property-based generation of concurrent API workloads (rapid + shrinking) run in real time under the Go race detector against the real router and scheduler; race reports classified by code-location pair, interval oracle for /api/ps, panic and liveness oracles",
    "level_text": "Exploration of interleavings, not enumeration: each case is a workload of 3-10 concurrent clients x 3-20 requests drawn from generate / chat / embed / ps / tags / show / "
                  "create (files, from) / copy / delete / blob upload / unload (keep_alive 0) over four models with OLLAMA_MAX_LOADED_MODELS 1-3 and keep-alives of 0-30 ms, so that loads, "
                  "evictions and expiries happen constantly while the running-model list is polled. The binary is built with -race and runs with GORACE=halt_on_error=0: after every case the "
                  "new race reports are read and keyed by the pair of innermost ollama functions; a report outside the listed known finding is a violation with the workload as replay. Further "
                  "oracles: no '[Recovery] panic recovered' on gin's error writer, no process death (attributed through the current-case file), every status < 600, /api/version still answers, and "
                  "every model listed by a /api/ps call has a runner whose [start, Close) interval overlaps the call (one logical clock stamps births, closes and call boundaries: a legal view is never flagged).",
    "level_note": "Real time and the Go scheduler choose the interleavings; a race needing a schedule that was not sampled is missed. The workload runs from TestMain because the testing package "
                  "fails any test during which the detector reported something (known or not). The fake runner replaces the subprocess. Races between store operations on files (create / delete / "
                  "copy of models sharing layers) are invisible to the race detector; their outcomes are only counted (5xx classes). Known finding sched-runner-fields-read-without-refmu is reproduced "
                  "by its replay (judged strictly) and its six location pairs are skipped in generated cases.",
    "design_ref": "DESIGN.md section 3 C15",
    "env": {"GORACE": "halt_on_error=0 exitcode=0 log_path=RUNDIR/race", "C15_RACE_LOG": "RUNDIR/race"},
    "targets": [{"name": "TestC15Race",
                 "quick": {"cases": 25, "shards": 4, "soft_s": 45, "gomaxprocs": 8},
                 "thorough": {"cases": 600, "shards": 8, "soft_s": 420, "gomaxprocs": 8}}],
    "replay_timeout": 300,
    "floors": {"several_loads": 0.5, "ps_nonempty": 0.3},
    "rule": "Added in the last session: yields / short pauses at the instrumented lock statements and channel operations of sched.go and routes.go (perturbation seed per case); the fake runner paces its pieces and keeps producing for a few pieces after a cancellation. rapid-generated concurrent workloads (configuration + per-client request lists) executed in real time under the race detector; non-trivial = at least two runner loads happened and "
            "/api/ps was polled during the workload; distinct = distinct hash of the generated workload.",
    "assumptions": ["Go race detector (go1.26.8 -race)", "fake llm.LlamaServer", "interleavings sampled by the Go scheduler on 8 procs"],
}
