_SHIM = {"verifc13gen/c13_gen.go": "harness/verifc13gen/c13_gen.go"}   # overlay-only shared generator package

CHECK = {
    "builds": [
        {"mode": "inpkg", "pkg": "server/internal/client/ollama", "files": ["c13_names_test.go", "c13_fuzz_test.go"], "shims": _SHIM},
        {"mode": "inpkg", "pkg": "server", "files": ["c13_paths_test.go", "c13_fuzz_test.go"], "shims": _SHIM},
        # both again with fuzz coverage instrumentation, for the native fuzz targets of the thorough tier
        {"mode": "inpkg", "pkg": "server/internal/client/ollama", "files": ["c13_names_test.go", "c13_fuzz_test.go"], "shims": _SHIM, "fuzz": "FuzzC13Names"},
        {"mode": "inpkg", "pkg": "server", "files": ["c13_paths_test.go", "c13_fuzz_test.go"], "shims": _SHIM, "fuzz": "FuzzC13Paths"},
    ],
    "level": "exploration",
    "engine": "namegrammar",
    "technique": "grammar-based property testing (rapid, shrinking) of both name parsers, the legacy model-path parser, the "
                 "new client's extended-name parser and both digest parsers, with a reference grammar restated from the doc "
                 "comments, print/parse and cross-parser round trips, and a sandboxed store audited on the file system; thorough tier additionally runs Go's native coverage-guided fuzzer (go test -fuzz) against the same oracle over arbitrary byte strings",
    "level_text": "Randomised exploration of a character-level input grammar: names are built from parts that mostly satisfy "
                  "the documented grammar (so about half of all inputs are accepted), then wrapped in schemes/@digests and "
                  "mutated at separators, part boundaries and length limits. Every accepted input is checked against an "
                  "independent restatement of the documented grammar, a string-level confinement oracle (exactly "
                  "<store>/manifests/<h>/<n>/<m>/<t>, four safe components) and a file-system audit of a store placed six "
                  "levels below a private directory (nothing may appear outside manifests/ depth 4 or blobs/sha256-<hex>). "
                  "No absence proof.",
    "level_note": "Linux only: ':' in hosts, reserved DOS names and case-insensitive file systems are not exercised. "
                  "In-package harness uses Registry.parseNameExtended and supportedSchemes (also used by the package's own "
                  "tests) and server.getExistingName. The shared generator is an overlay-only package (verifc13gen). "
                  "getExistingName is checked on stores built the way the API builds them (every insertion canonicalised "
                  "first); on hand-made stores holding two casings of one part its answer depends on map order. "
                  "The sandboxed store is created under /dev/shm when that exists (speed only; falls back to TMPDIR). "
                  "VERIF_C13_NO_GRAMMAR=1 is a development switch used by sensitivity/C13.md to turn the grammar oracle off; "
                  "never set it in a real run.",
    "design_ref": "DESIGN.md section 3 C13",
    "targets": [
        {"name": "TestC13ModelName", "build": 0,
         "quick": {"cases": 60000, "shards": 2, "soft_s": 35},
         "thorough": {"cases": 1500000, "shards": 3, "soft_s": 330}},
        {"name": "TestC13RegistryName", "build": 0,
         "quick": {"cases": 25000, "shards": 2, "soft_s": 35},
         "thorough": {"cases": 500000, "shards": 4, "soft_s": 330}},
        {"name": "TestC13CaseFold", "build": 0,
         "quick": {"cases": 8000, "shards": 1, "soft_s": 35},
         "thorough": {"cases": 200000, "shards": 2, "soft_s": 330}},
        {"name": "TestC13ModelPath", "build": 1,
         "quick": {"cases": 40000, "shards": 2, "soft_s": 35},
         "thorough": {"cases": 1000000, "shards": 3, "soft_s": 330}},
        {"name": "TestC13Digest", "build": 1,
         "quick": {"cases": 50000, "shards": 1, "soft_s": 35},
         "thorough": {"cases": 1500000, "shards": 2, "soft_s": 330}},
        {"name": "TestC13ExistingName", "build": 1,
         "quick": {"cases": 10000, "shards": 1, "soft_s": 35},
         "thorough": {"cases": 300000, "shards": 2, "soft_s": 330}},
        # native coverage-guided fuzzing, thorough tier only (cannot be pinned to VERIF_SEED; the saved input is the reproducible unit)
        {"name": "FuzzC13Names", "build": 2, "kind": "fuzz", "thorough": {"fuzztime": "120s", "workers": 3, "hard_s": 600}},
        {"name": "FuzzC13Paths", "build": 3, "kind": "fuzz", "thorough": {"fuzztime": "120s", "workers": 3, "hard_s": 600}},
    ],
    # fractions of ALL evaluations of the six targets together (name targets are ~80 % of them)
    "floors": {"accepted": 0.25, "rejected": 0.15, "has_separator": 0.4, "near_limit_length": 0.05, "has_dotdot": 0.02,
               "has_backslash_nul_pct": 0.02, "pure_documented_form": 0.1, "cross_model_to_names": 0.05,
               "cross_names_to_model": 0.02, "linked": 0.05, "fs_created": 0.1, "case_differs": 0.01,
               "query_case_differs_from_stored": 0.01, "server_accepted": 0.03, "server_rejected": 0.02},
    "rule": "rapid-generated from a grammar: a skeleton [h/][n/]m[:t] whose parts are drawn from the documented grammar "
            "(short, or at 79/80/81 resp. 349/350/351 bytes, mixed case, with - _ . :) or from a table of hostile parts "
            "(.., leading ./-, embedded / \\ % NUL @ :, unicode, !MISSING!), optionally wrapped in scheme:// and @digest, then "
            "0-3 mutations (duplicate/delete/replace a separator, insert a hot byte next to a separator or anywhere, "
            "insert ../ /./ // \\..\\, prefix, suffix, case change, random byte, truncate); digests from sha256[:-]<hex> with "
            "length 63/64/65, upper/lower/mixed hex and the same kind of mutations; case-fold targets from documented "
            "fully qualified names plus a drawn case flip. Non-trivial = the input contains a separator or a byte outside "
            "[A-Za-z0-9] and is accepted by the parser under test or is one mutation away from an accepted skeleton "
            "(digests: reference-valid or 69-73 bytes starting with sha; fold targets: the two spellings really differ). "
            "Distinct = distinct hash of the quoted input (fold targets: of the whole case).",
    "assumptions": [
        "GetBlobsPath(\"\") returning the blobs directory itself is the documented special case, not an escape",
        "file-system errors for components longer than NAME_MAX (hosts of 256-350 bytes) are not verdicts",
        "the two parsers may accept different raw strings; only prints of fully qualified valid names are compared across parsers",
        "getExistingName is judged on stores whose parts have one spelling per case-folding class (what the API maintains)",
        "Linux path semantics (separator '/', case-sensitive file system)",
        "names.Parse ignores whatever follows a second colon (\"m:t:junk\" is the name m:t) and model.ParseName treats "
        "\"scheme:///n/m\" as default host: both are accepted-and-confined, counted, not judged",
    ],
}
