_SHIM = {"model/zz_verif_export.go": "shims/model/zz_verif_export.go"}
CHECK = {
    "builds": [
        {"mode": "inpkg", "pkg": "runner/ollamarunner",
         "files": ["rs_backend_test.go", "rs_model_test.go", "c07_run_test.go"], "shims": _SHIM},
        {"mode": "inpkg", "pkg": "runner/llamarunner", "files": ["c07_slots_test.go"], "shims": _SHIM},
    ],
    "level": "exploration",
    "engine": "runnersim",
    "technique": "stateful model-based testing (rapid, shrinking) of the real ollamarunner.Server + InputCache over the real kvcache.Causal with a "
                 "scripted model that reads back what every batch row can attend to; invariant at every Forward, ownership predicates at every "
                 "slot hand-out, differential against a fresh runner per request; llamarunner slot selection differentially against ollamarunner's",
    "level_text": "Randomised exploration of configurations x request histories, not enumeration. Every Forward of every history is checked "
                  "(visible (position, token) set of each row == the slot's record), every LoadCacheSlot result is checked for ownership and for "
                  "prompt = record ++ rest, every idle slot is probed at the end by a request reusing all of it, and every request's tokens, text, "
                  "finish reason and predicted count are compared with a fresh runner serving it alone (exact: the fake K/V depend only on "
                  "(token, position) and the shift function re-positions keys like RoPE does). Small bounds (<= 4 slots, num_ctx <= 24, "
                  "batch <= 8, vocabulary <= 8) make forks, shifts, failed shifts, defragmentation and slot eviction frequent; no absence proof.",
    "level_note": "Trusts the harness's eager tensor backend (views alias storage, Copy is immediate) and the scripted model. The harness plays the "
                  "completion handler (NewSequence -> seqsSem -> LoadCacheSlot -> s.seqs[i]) and the run loop (processBatch) itself to own the "
                  "schedule; it touches the unexported Server fields model/status/parallel/batchSize/mu/cond/seqs/seqsSem/cache, Sequence fields "
                  "and InputCache.slots/numCtx/multiUserCache. Client disconnects are modelled with a full response buffer so that the runner's "
                  "select is deterministic. Slot choice uses time.Now() inside ollama: the llamarunner target runs in a testing/synctest bubble, "
                  "the ollamarunner engine relies on the monotonic clock advancing between two requests (no oracle depends on WHICH free slot is "
                  "chosen). Multimodal inputs, SameBatch and a model without cache are not generated. llamarunner: LoadCacheSlot / ShiftCacheSlot "
                  "and everything else that calls (*llama.Context).KvCache* goes through cgo into llama.cpp and needs a loaded model - NOT covered; "
                  "only findLongestCacheSlot, findBestCacheSlot (lc == nil, as the package's own tests do), countCommonPrefix and ShiftDiscard are "
                  "(differentially against ollamarunner's exported LoadCacheSlot/ShiftCacheSlot/ShiftDiscard with a cache-less model, plus the "
                  "never-in-use / common-prefix / forked-prefix predicates). Known findings are steered around only when listed: Remove(id,0,-1) "
                  "answered as 'clear' (shift-reset-remove-minus-one), sliding-window cache told a larger maxBatch (swa-cache-undersized), "
                  "num_keep 0 for sliding-window requests whose shift would keep an evicted prefix (swa-shift-keeps-evicted-prefix); replays "
                  "always run strict. Two kvcache findings owned by C06 that this engine also hit (defrag-merged-move-swaps-cells, "
                  "swa-canresume-ignores-evicted-window-start) are fixed in /repo (4df0323fc, 69c0d024e); their switches (abandon the case at a "
                  "merged defrag move / deny CanResume right after CopyPrefix) remain in the engine but are off unless those slugs are listed.",
    "design_ref": "DESIGN.md section 2.1 (shim), section 3 'Engine runnersim' / C07, section 4 row 10",
    "targets": [{"name": "TestC07History", "build": 0,
                 "quick": {"cases": 8000, "shards": 8, "soft_s": 45},
                 "thorough": {"cases": 200000, "shards": 16, "soft_s": 400}},
                {"name": "TestC07LlamaSlots", "build": 1,
                 "quick": {"cases": 5000, "shards": 1, "soft_s": 30},
                 "thorough": {"cases": 300000, "shards": 4, "soft_s": 300}},
                {"name": "TestC07LlamaShiftDiscard", "build": 1, "kind": "plain",
                 "quick": {"cases": 1, "shards": 1, "soft_s": 30},
                 "thorough": {"cases": 1, "shards": 1, "soft_s": 30}}],
    "floors": {"fork": 0.08, "shift": 0.15, "shift_failed_reprocess": 0.05, "multiuser_not_longest_slot": 0.04,
               "prefix_reused": 0.4, "parallel_overlap": 0.25, "prompt_truncated": 0.1, "stop_hit": 0.15},
    "rule": "rapid-generated: configuration {parallel 1-4, num_ctx 4-24 per slot, batch 1-8, multi-user slot policy on/off, cache kind in "
            "{causal, sliding window 1..num_ctx+4, causal without shift function, decorator refusing to shift, decorator refusing partial "
            "erase}, 1-2 layers, cache/mask padding 1|4, vocabulary 2-8, optional EOS} x history of 1-8 requests {prompt = new tokens or a "
            "prefix (any length up to all) of an earlier request's prompt++returned text plus 0..num_ctx+6 new tokens, num_predict 1..2*num_ctx+4, "
            "num_keep -1..num_ctx, 0-2 stop strings, arrival gap 0-12 batches, optional client disconnect after 1-10 batches}, admitted in "
            "arrival order whenever fewer than `parallel` are active, followed by one probe request per non-empty slot. Non-trivial = history "
            "containing a fork (CopyPrefix), a successful context shift or a failed shift with reprocessing. Distinct = distinct hash of the "
            "generated case. llamarunner target: 1-4 slots, num_ctx 2-16, 1-30 ops of load/gen/shift/release; ShiftDiscard enumerated for "
            "num_ctx 1-40 x keep x length.",
    "assumptions": ["fake K/V rows encode (token, position, layer); the model's shift function adds the cache's offsets to the position channel",
                    "the harness, not Server.completion/Server.run, admits requests and calls processBatch (same code otherwise)",
                    "time.Now() advances between two slot hand-outs (ollamarunner engine); llamarunner target under testing/synctest",
                    "llamarunner KV operations (cgo llama.cpp) are out of reach: only its pure slot-selection and shift arithmetic are checked"],
}
