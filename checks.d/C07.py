_SHIM = {"model/zz_verif_export.go": "shims/model/zz_verif_export.go"}
CHECK = {
    "builds": [
        {"mode": "inpkg", "pkg": "runner/ollamarunner",
         "files": ["rs_backend_test.go", "rs_model_test.go", "c07_run_test.go"], "shims": _SHIM},
        {"mode": "inpkg", "pkg": "runner/llamarunner", "files": ["c07_slots_test.go"], "shims": _SHIM},
        {"mode": "inpkg", "pkg": "runner/llamarunner", "files": ["llr_engine_test.go", "c07_llama_test.go"]},
    ],
    "level": "exploration",
    "engine": "runnersim",
    "technique": "stateful model-based testing (rapid, shrinking) of the real ollamarunner.Server + InputCache over the real kvcache.Causal with a "
                 "scripted model that reads back what every batch row can attend to; invariant at every Forward, ownership predicates at every "
                 "slot hand-out, differential against a fresh runner per request; llamarunner slot selection differentially against ollamarunner's; "
                 "plus request histories on the real llamarunner.Server over llama.cpp's KV cache with a generated tiny GGUF model (pseudo-random "
                 "weights, greedy sampling), differentially against a from-scratch evaluation of the effective input with harness-computed logits",
    "level_text": "Randomised exploration of configurations x request histories, not enumeration. Every Forward of every history is checked "
                  "(visible (position, token) set of each row == the slot's record), every LoadCacheSlot result is checked for ownership and for "
                  "prompt = record ++ rest, every idle slot is probed at the end by a request reusing all of it, and every request's tokens, text, "
                  "finish reason and predicted count are compared with a fresh runner serving it alone (exact: the fake K/V depend only on "
                  "(token, position) and the shift function re-positions keys like RoPE does). Small bounds (<= 4 slots, num_ctx <= 24, "
                  "batch <= 8, vocabulary <= 8) make forks, shifts, failed shifts, defragmentation and slot eviction frequent; no absence proof.",
    "level_note": "Trusts the harness's eager tensor backend (views alias storage, Copy is immediate) and the scripted model. The harness plays the "
                  "completion handler (NewSequence -> seqsSem -> LoadCacheSlot -> s.seqs[i]) and the run loop (processBatch) itself to own the "
                  "schedule; it touches the unexported Server fields model/status/parallel/batchSize/mu/cond/seqs/seqsSem/cache, Sequence fields "
                  "and InputCache.slots/numCtx/multiUserCache. Client disconnects are modelled with a full response buffer so that the runner's "
                  "select is deterministic. Slot choice uses time.Now() inside ollama: the llamarunner target runs in a testing/synctest bubble, "
                  "the ollamarunner engine relies on the monotonic clock advancing between two requests (no oracle depends on WHICH free slot is "
                  "chosen). Multimodal inputs, SameBatch and a model without cache are not generated. llamarunner: LoadCacheSlot / ShiftCacheSlot "
                  "and everything else that calls (*llama.Context).KvCache* goes through cgo into llama.cpp and needs a loaded model: the targets "
                  "TestC07LlamaSlots / TestC07LlamaShiftDiscard check "
                  "only findLongestCacheSlot, findBestCacheSlot (lc == nil, as the package's own tests do), countCommonPrefix and ShiftDiscard "
                  "(differentially against ollamarunner's exported LoadCacheSlot/ShiftCacheSlot/ShiftDiscard with a cache-less model, plus the "
                  "never-in-use / common-prefix / forked-prefix predicates); TestC07LlamaRunner (engine llr, added late) runs the rest for real: a "
                  "GGUF file written with fs/ggml.WriteGGUF (architecture llama, ONE block, embedding 16, 2 heads, F32, every tensor pseudo-random "
                  "from a seed 1-3; only 14 single-character tokens and EOS have non-zero output rows) is loaded by the runner's own loadModel, "
                  "requests go through the real completion handler and Server.run (temperature 0). Reference: the harness keeps the effective "
                  "input itself (truncation and shift arithmetic as documented in runner.go/cache.go), evaluates it from scratch on a llama.cpp "
                  "context of its own and takes the argmax of output.weight x final hidden state computed in Go (llama.cpp contexts are created "
                  "with embeddings on): no runner, no cache reuse, no llama.cpp sampler in the reference. One block on purpose: K/V of a token then "
                  "depend on (token, position) only, so entries kept across a shift (K re-rotated by llama.cpp) are what a fresh evaluation "
                  "computes; with more blocks the deeper entries remember discarded tokens and 'same effective input' is not defined. Floating "
                  "point: f16 K entries re-rotated by a shift are rounded twice (measured logit deviation <= 0.02, without shift <= 1e-5); the "
                  "reference knows every step's margin and a request is compared only up to its first step with margin < 0.05 (< 0.3 once any "
                  "request on that server has shifted) - counted (llrc07_compared_up_to_a_near_tie), never failed; a survey of 70 000 requests on "
                  "the unchanged tree saw divergences only at margins < 0.01. Which slot a request gets is not asserted (time.Now() inside "
                  "ollama); overlapping requests start after the previous one's first chunk. Trusted: package llama, llama.cpp decode, "
                  "WriteGGUF. Known findings are steered around only when listed: Remove(id,0,-1) "
                  "answered as 'clear' (shift-reset-remove-minus-one), sliding-window cache told a larger maxBatch (swa-cache-undersized), "
                  "num_keep 0 for sliding-window requests whose shift would keep an evicted prefix (swa-shift-keeps-evicted-prefix); the finding of "
                  "the llamarunner target (llama-shift-moves-cells-shared-with-forked-slot: a context shift moved the KV cells a forked slot "
                  "shares with its source) is fixed in /repo (132e24559), its switch (multi-user requests cut so that they never shift) remains "
                  "in the harness but is off unless the slug is listed; replays "
                  "always run strict. Two kvcache findings owned by C06 that this engine also hit (defrag-merged-move-swaps-cells, "
                  "swa-canresume-ignores-evicted-window-start) are fixed in /repo (4df0323fc, 69c0d024e); their switches (abandon the case at a "
                  "merged defrag move / deny CanResume right after CopyPrefix) remain in the engine but are off unless those slugs are listed.",
    "design_ref": "DESIGN.md section 2.1 (shim), section 3 'Engine runnersim' / C07, section 4 row 10",
    "targets": [{"name": "TestC07History", "build": 0,
                 "quick": {"cases": 8000, "shards": 8, "soft_s": 45},
                 "thorough": {"cases": 300000, "shards": 8, "soft_s": 400}},
                {"name": "TestC07LlamaSlots", "build": 1,
                 "quick": {"cases": 5000, "shards": 1, "soft_s": 30},
                 "thorough": {"cases": 500000, "shards": 1, "soft_s": 300}},
                {"name": "TestC07LlamaShiftDiscard", "build": 1, "kind": "plain",
                 "quick": {"cases": 1, "shards": 1, "soft_s": 30},
                 "thorough": {"cases": 1, "shards": 1, "soft_s": 30}},
                {"name": "TestC07LlamaRunner", "build": 2,
                 "quick": {"cases": 4000, "shards": 4, "soft_s": 30},
                 "thorough": {"cases": 100000, "shards": 6, "soft_s": 320}}],
    "floors": {"fork": 0.08, "shift": 0.15, "shift_failed_reprocess": 0.05, "multiuser_not_longest_slot": 0.04,
               "prefix_reused": 0.4, "parallel_overlap": 0.25, "prompt_truncated": 0.1, "stop_hit": 0.15,
               # TestC07LlamaRunner (classes are per target: prefix llrc07_)
               "llrc07_shift": 0.25, "llrc07_prefix_reused": 0.4, "llrc07_prefix_includes_generated_text": 0.3, "llrc07_parallel_overlap": 0.2,
               "llrc07_multiuser_policy": 0.3, "llrc07_stop_hit": 0.15, "llrc07_prompt_truncated": 0.1, "llrc07_probe": 0.9},
    "rule": "rapid-generated: configuration {parallel 1-4, num_ctx 4-24 per slot, batch 1-8, multi-user slot policy on/off, cache kind in "
            "{causal, sliding window 1..num_ctx+4, causal without shift function, decorator refusing to shift, decorator refusing partial "
            "erase}, 1-2 layers, cache/mask padding 1|4, vocabulary 2-8, optional EOS} x history of 1-8 requests {prompt = new tokens or a "
            "prefix (any length up to all) of an earlier request's prompt++returned text plus 0..num_ctx+6 new tokens, num_predict 1..2*num_ctx+4, "
            "num_keep -1..num_ctx, 0-2 stop strings, arrival gap 0-12 batches, optional client disconnect after 1-10 batches}, admitted in "
            "arrival order whenever fewer than `parallel` are active, followed by one probe request per non-empty slot. Non-trivial = history "
            "containing a fork (CopyPrefix), a successful context shift or a failed shift with reprocessing. Distinct = distinct hash of the "
            "generated case. llamarunner target: 1-4 slots, num_ctx 2-16, 1-30 ops of load/gen/shift/release; ShiftDiscard enumerated for "
            "num_ctx 1-40 x keep x length. TestC07LlamaRunner: model seed 1-3, parallel 1|2, num_ctx in {8,10,12,16,32} per slot, batch in "
            "{1,2,4,32}, multi-user slot policy on/off, history of 1-7 requests {prompt = new characters or a prefix (any length up to all) of an "
            "earlier request's prompt++returned text plus 0..num_ctx+4 new characters (one token per character), num_predict 1..2*num_ctx+4, "
            "num_keep -1..num_ctx, 0-2 stop strings of 1-2 characters, 1 in 3 starts while the previous request is still being served}, then one "
            "probe per slot reusing everything it records. Non-trivial there = a context shift, or a reused prefix in a history of >= 2 requests.",
    "assumptions": ["fake K/V rows encode (token, position, layer); the model's shift function adds the cache's offsets to the position channel",
                    "the harness, not Server.completion/Server.run, admits requests and calls processBatch (same code otherwise)",
                    "time.Now() advances between two slot hand-outs (ollamarunner engine); llamarunner target under testing/synctest",
                    "llamarunner on a real model: one transformer block (K/V of a token depend on token and position only), greedy sampling, "
                    "comparison up to the first near tie (margin tolerance 0.05 / 0.3 after a shift)",
                    "llamarunner on a real model: the reference is a from-scratch llama.cpp evaluation of the effective input + logits computed in Go"],
}
