CHECK = {
    "builds": [
        {"mode": "inpkg", "pkg": "llm", "files": ["c16_memest_test.go"]},
        # the place where the scheduler declares "fits completely" (server/sched.go pickBestFullFitByLibrary / pickBestPartialFitByLibrary)
        {"mode": "inpkg", "pkg": "server", "files": ["c16_sched_test.go"]},
    ],
    "level": "exploration",
    "engine": "memest",
    "technique": "property-based testing (rapid, shrinking) of llm.EstimateGPULayers / llm.PredictServerFit over generated "
                 "model shapes x GPU lists x options with a validity-predicate oracle (independent, individually tagged clauses); and of the scheduler's full-fit declaration (pickBestFullFitByLibrary) against the estimate the loader makes on the list it returns",
    "level_text": "Randomised exploration of model shape x GPU list x options. Each case writes a GGUF header with the real "
                  "WriteGGUF (payloads elided), decodes it with the real Decode and calls the real estimator; GPU memory is "
                  "sized around a harness-side estimate of the model's needs so that zero, partial, capped and full offload, "
                  "GPUs that are never admitted and GPUs that drop out midway are all frequent. No absence proof.",
    "level_note": "In-package (package llm) but uses exported API only (EstimateGPULayers, PredictServerFit, MemoryEstimate's "
                  "exported fields). 'Fits completely only if all layers were placed' is read as 'all requested layers': "
                  "block_count+1 when num_gpu<0, else num_gpu (the user's own cap), as PredictServerFit's callers use it. "
                  "Per-GPU clause is evaluated in unbounded integers: GPUSizes[i] + overhead <= free_i for every GPU that was "
                  "assigned bytes or layers. Monotonicity in free memory is not asserted (round-robin drop-out makes it false "
                  "legitimately). Flash attention / quantised KV cache are off (they would call real GPU discovery). "
                  "All memory figures <= 64 TiB, overhead <= 1 TiB, context*parallel <= 2^20, batch <= 8192: the uint64 "
                  "wrap-around region of the estimator's sums is outside the explored domain.",
    "design_ref": "DESIGN.md section 3 C16",
    "targets": [{"name": "TestC16MemoryEstimate",
                 "quick": {"cases": 2500, "shards": 4, "soft_s": 40},
                 "thorough": {"cases": 30000, "shards": 12, "soft_s": 330}},
                {"name": "TestC16SchedFit", "build": 1,
                 "quick": {"cases": 20000, "shards": 2, "soft_s": 30},
                 "thorough": {"cases": 400000, "shards": 4, "soft_s": 300}}],
    "floors": {"multi_gpu": 0.3, "multi_gpu_dropout_midway": 0.03, "multi_gpu_some_not_admitted": 0.05,
               "uneven_layers": 0.2, "partial_offload": 0.1, "full_offload": 0.1, "zero_layers": 0.08,
               "capped_by_numgpu": 0.05, "free_lt_overhead": 0.04, "fits_true": 0.08, "overhead_set": 0.4,
               "no_output_layer": 0.08},
    "rule": "rapid-generated: architecture (every case of GraphSize's switch, an unknown one, key absent), 1-80 blocks, base "
            "layer of 0-7 tensors + per-block overrides missing/tiny/giant (also blk.0 and a block beyond block_count), "
            "with/without output, token_embd, output_norm, vocab 1-262144, head counts / key+value lengths, optional vision "
            "keys and v.* tensors, optional projector file (present or missing path); 1-8 GPUs of one library "
            "(cuda/rocm/metal/oneapi/cpu; optionally a second library group for PredictServerFit) with free/total/minimum "
            "memory placed around the model's needs incl. 0 free, free < overhead, free == overhead, equal GPUs, one huge + "
            "many tiny; num_gpu in {-1,0,1..,blocks+1,>layers}; context x parallel, batch; OLLAMA_GPU_OVERHEAD unset/0/1 B-1 TiB. "
            "Oracle clauses (each reported by tag): gpu-overcommit, layers-le-model, layers-le-numgpu, split-sum, vram-sum, "
            "total-ge-vram, cpu-zero, fit-implies-all-layers, panic; the same clauses are evaluated again after giving one GPU "
            "more free memory (the monotonicity of Layers under that change is only counted: bump_fewer_layers_recorded_only). Non-trivial = at least 2 GPUs with one dropping out "
            "midway (split spread >= 3 among admitted GPUs), or uneven per-block sizes with at least one layer offloaded; "
            "distinct = distinct hash of the generated case. TestC16SchedFit: llama-shaped model of 1-12 uneven blocks; 1-5 GPUs in one or two libraries, free memory a drawn fraction of the requirement or tight (what the estimator books there when memory is plentiful + 0-2 layers), listed in a drawn discovery order; parallel automatic/1/2, OLLAMA_SCHED_SPREAD, num_gpu; a declared complete fit must name GPUs of the input of one library, leave NumCtx = context x parallel, and the estimator run on the returned list in the returned order must place every promised layer; non-trivial there = a declared fit that spans GPUs whose discovery order is not descending free memory.",
    "assumptions": ["model metadata is well-formed (head_count >= 1, head_count_kv >= 1 or absent, tokenizer.ggml.tokens present, "
                    "llama.feed_forward_length present when blk.0.ffn_gate_exps exists, projector patch_size >= 1): malformed "
                    "files are C10's domain",
                    "num_ctx >= 4, num_batch >= 1, parallel >= 1",
                    "memory figures <= 64 TiB and overhead <= 1 TiB (no uint64 wrap-around of the estimator's sums)",
                    "OLLAMA_FLASH_ATTENTION unset (KV cache type f16)",
                    "'all layers' for PredictServerFit means all requested layers when num_gpu >= 0"],
}
