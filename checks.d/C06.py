CHECK = {
    "mode": "inpkg", "pkg": "kvcache", "files": ["c06_backend_test.go", "c06_model_test.go", "c06_test.go", "c06_encoder_test.go"],
    "level": "exploration",
    "engine": "kvmodel",
    "technique": "stateful property-based testing (rapid, shrinking) of kvcache.Causal / sliding-window Causal / "
                 "WrapperCache{SWA, Causal} over a harness-owned lazy strided tensor backend, against a reference model "
                 "of every sequence's history; the oracle reads the cells' identity from the K/V DATA that Get returns",
    "level_text": "Randomised exploration of cache histories (forward batches mixing sequences, CopyPrefix forks, Remove of "
                  "suffixes / prefixes / middles with position shift, runner-style context shifts, histories that fill and "
                  "fragment the cache so that defrag runs) over capacity 1-32, 1-4 sequences, batch 1-8, CachePadding "
                  "{1,4,32}, MaskBatchPadding {1,4}, PermutedV, mask dtype, cache dtype, 1-2 layers / heads, window "
                  "{none, 1-8, wrapper of both}, shift function {present, absent, failing}. After every forward pass and "
                  "for every layer the set of cells the mask leaves visible to each batch token is compared, by the data "
                  "stored in them (entry id, position channel re-written by the shift function, layer/head tag, V row of "
                  "the same entry), with exactly the model's history of that sequence; a final audit exposes every "
                  "sequence once more. Explored, not enumerated: no absence proof.",
    "level_note": "In-package harness, but it only uses the exported constructors/methods (NewCausalCache, NewSWACache, "
                  "NewWrapperCache, Cache interface, WrapperCache.SetLayerType); no unexported identifier is used and no "
                  "cache field is read. The backend is the harness's own (float32 storage, ggml's view/permute/copy "
                  "semantics, lazy execution on Compute, node budgets); the real ggml backend is not exercised. "
                  "EncoderCache (position independent, mask nil, single sequence) has its own small target TestC06Encoder "
                  "(machine over forward passes with 0-2 images, reservation passes and removals, alone and wrapped with a causal "
                  "cache: Get returns per layer exactly the data of the most recent Put, EncoderCached() is true exactly while the "
                  "position the image was stored at has not been removed, a reservation pass changes no metadata); Causal.SetCausal "
                  "(non-causal image tokens) is not part of the check. Two genuine defects are excluded by construction behind "
                  "rec.Known: every history is cut at the first defrag that merges >= 2 cells into one move "
                  "(defrag-merged-move-swaps-cells), and a resume that CanResume grants although the model says part of "
                  "the window was evicted is turned into a full removal (swa-canresume-ignores-evicted-window-start).",
    "design_ref": "DESIGN.md section 3 C06",
    "targets": [{"name": "TestC06CausalHistory",
                 "quick": {"cases": 40000, "shards": 4, "soft_s": 35},
                 "thorough": {"cases": 600000, "shards": 14, "soft_s": 360}},
                # kvcache/encoder.go alone and inside NewWrapperCache(encoder, causal), as the cross-attention models use it
                {"name": "TestC06Encoder",
                 "quick": {"cases": 20000, "shards": 1, "soft_s": 20},
                 "thorough": {"cases": 1000000, "shards": 2, "soft_s": 300}}],
    "floors": {"defrag_moved_verified": 0.03, "copy_diverge": 0.08, "remove_shift_verified": 0.15, "swa_evicted": 0.08,
               "cache_full": 0.05, "cache_full_then_verified": 0.04, "kind_wrapper": 0.08, "remove_err_shared": 0.01,
               "batch_multi_seq": 0.15, "permuted_v": 0.3, "cache_padding": 0.2, "mask_batch_padding": 0.15,
               "swa_resume_granted": 0.05, "resume_refused": 0.01, "audit_verified": 0.5},
    "rule": "rapid-generated case = cache configuration + 1-40 operation intents (indices modulo the live candidates at run "
            "time): fwd (1-3 sequence segments, each continuing the sequence's logical length, total <= maxBatch; a "
            "sequence at its context size is first shifted like InputCache.ShiftCacheSlot), copy (CopyPrefix + the "
            "CanResume/Remove that LoadCacheSlot performs on the fork), rmsuffix (CanResume, Remove(seq, n, MaxInt32)), "
            "rmmid (Remove(seq, b, e), b < e <= len), rmall; optional reserve pass and prefill of every sequence to "
            "capacity; after a failing Remove the harness calls Remove(seq, 0, MaxInt32). Oracle after every forward, "
            "per layer and batch token: {cells with mask != -Inf} decoded from K = exactly the model's entries of the "
            "same sequence at positions [pos-window, pos], each with its own K (position channel = current position) "
            "and V data, mask values in {0,-Inf}, padding rows fully masked, padded dimensions as configured; "
            "ErrKvCacheFull leaves the model unchanged and later steps / the final audit show any overwritten or lost "
            "entry. Non-trivial = the history contains a forward of a sequence that shares entries with another one "
            "(CopyPrefix then divergence), or a verified forward after a Remove that shifted positions, or a defrag "
            "that moved >= 2 adjacent cells as one move followed by a verified forward (only on a tree where that "
            "finding is fixed); distinct = distinct hash of the generated case.",
    "assumptions": [
        "caller contract of runner/ollamarunner: sequence ids < maxSequences; a sequence's positions continue its logical "
        "length; one contiguous segment per sequence and batch; batch <= maxBatch; sequence length <= capacity (a "
        "sequence at the limit is shifted first) except in 'overcommit' cases (about 30%), where sequences may outgrow "
        "capacity until the cache reports full but one batch still adds at most `capacity` tokens to a sequence, so that "
        "a batch always fits into an empty cache (otherwise defrag divides by zero before the first Put: observed, "
        "outside every caller's domain, not reported)",
        "after any error from Remove with an explicit end the harness calls Remove(seq, 0, MaxInt32), which must succeed; "
        "errors of Remove (shared cells, no shift function, failing shift function) are accepted, never asserted",
        "sliding window: the expected history is the window [pos-window, pos] of the logical history; an entry that left "
        "the window of an earlier batch may have been evicted, and the harness resumes a sequence at an earlier position "
        "(rmsuffix, copy) only through CanResume as LoadCacheSlot does; a granted resume must then find its whole window",
        "narrowed per the TODO in Causal.Remove (documented limitation): after a successful Remove with an explicit end "
        "index on a sliding-window cache, entries of that sequence that had been evicted before may be missing from a "
        "later window (class swa_missing_after_range_remove_excused); nothing else may be missing and nothing extra "
        "may ever be visible",
        "no assertion that ErrKvCacheFull is only returned when the cache is really full (not claimed by the statement; "
        "on this tree a sliding-window cache runs full while idle sequences keep their last batch), nor that "
        "CanResume = false is justified",
        "the reserve pass is generated only for maxBatch <= capacity (the never-computed Put of a larger batch would "
        "address cells outside a causal cache)",
        "with VERIF_ASSUME_KNOWN=<slug> (development aid) the finding's own replay is expected to fail and passes; "
        "with a real known_findings.json entry it fails and the driver prints KNOWN-FINDING",
    ],
}
