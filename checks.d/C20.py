CHECK = {
    "builds": [
        {"mode": "inpkg", "pkg": "model", "files": ["c20_common_test.go", "c20_bpe_test.go", "c20_spm_test.go", "c20_firstuse_test.go", "c20_fuzz_test.go"]},
        # the same package under the race detector, for the concurrent-first-use target only
        {"mode": "inpkg", "pkg": "model", "files": ["c20_common_test.go", "c20_bpe_test.go", "c20_spm_test.go", "c20_firstuse_test.go"], "race": True},
        # fuzz coverage instrumentation, for the native fuzz target of the thorough tier
        {"mode": "inpkg", "pkg": "model", "files": ["c20_common_test.go", "c20_bpe_test.go", "c20_spm_test.go", "c20_firstuse_test.go", "c20_fuzz_test.go"], "fuzz": "FuzzC20Text"},
    ],
    "env": {"GORACE": "halt_on_error=1"},
    "level": "exploration",
    "engine": "tokenizer-roundtrip",
    "technique": "property-based round-trip testing (rapid, shrinking) of BytePairEncoding and SentencePieceModel "
                 "Encode/Decode over generated multi-script text, against the shipped llama 3.2 vocabulary and "
                 "against byte-complete vocabularies generated per case; thorough tier additionally runs Go's native coverage-guided fuzzer (go test -fuzz) against the same oracle over arbitrary valid UTF-8 strings",
    "level_text": "Randomised exploration of the text space (and, for two of three targets, of the vocabulary space) with an "
                  "exact oracle: Decode(Encode(s,false)) == s, ids inside the vocabulary, every special-token literal encoded "
                  "to its id at its place (metamorphic: parts between literals encoded separately), Encode(s,true) wrapped per "
                  "the vocabulary flags. Every byte value that can occur in valid UTF-8 without NUL and every ASCII printable "
                  "is generated many times per run; no absence proof.",
    "level_note": "In-package harness; beyond exported API it uses BytePairEncoding.split (also used by the package's own tests) "
                  "to pre-tokenize the training text of generated vocabularies, and the constant spmWhitespaceSep. The llama 3.2 "
                  "vocabulary is checked byte-complete at load (all 256 GPT-2 byte symbols are tokens). SentencePiece texts exclude "
                  "U+2581; generated vocabularies contain no non-BYTE piece spelled like a byte token; special literals are ASCII "
                  "and cannot overlap (checked at start-up).",
    "design_ref": "DESIGN.md section 3 C20",
    "targets": [
        {"name": "TestC20BPELlama",
         "quick": {"cases": 12000, "shards": 2, "soft_s": 40},
         "thorough": {"cases": 600000, "shards": 5, "soft_s": 330}},
        {"name": "TestC20BPESynth",
         "quick": {"cases": 5000, "shards": 2, "soft_s": 40},
         "thorough": {"cases": 250000, "shards": 4, "soft_s": 330}},
        {"name": "TestC20SPM",
         "quick": {"cases": 10000, "shards": 2, "soft_s": 40},
         "thorough": {"cases": 500000, "shards": 4, "soft_s": 330}},
        # several callers make the first Encode calls on a fresh vocabulary at the same moment (race detector build)
        {"name": "TestC20FirstUse", "build": 1,
         "quick": {"cases": 1500, "shards": 1, "soft_s": 30},
         "thorough": {"cases": 60000, "shards": 2, "soft_s": 300}},
        # native coverage-guided fuzzing, thorough tier only (cannot be pinned to VERIF_SEED; the saved input is the reproducible unit)
        {"name": "FuzzC20Text", "build": 2, "kind": "fuzz", "thorough": {"fuzztime": "150s", "workers": 4, "hard_s": 600}},
    ],
    "floors": {"multibyte": 0.4, "whitespace_run": 0.15, "special_literal": 0.2, "ascii_punct": 0.3,
               "contraction": 0.05, "crlf": 0.03, "combining_mark": 0.05, "emoji_zwj": 0.02, "cjk": 0.05,
               "arabic_hebrew": 0.04, "digit_run_4plus": 0.04, "remapped_byte": 0.2, "merged_token": 0.4,
               "byte_fallback": 0.04, "per_case_merges": 0.15,
               # long-text class: one case in 512 (quick) / 2048 (thorough); floors are a third of the thorough rate
               "long_text_60k_plus": 0.00015, "long_fragment_over_64k": 0.00007, "char_straddles_64k_multiple": 0.00004},
    "rule": "rapid-generated text = concatenation of 0-40 chunks drawn from: Latin words, contractions ('s 'LL), ASCII and "
            "non-ASCII digit runs, whitespace runs (space, tab, CR, LF, CRLF, NBSP, U+2003, U+3000, ZWSP, U+2028), 1-5 random "
            "ASCII printables, punctuation runs, CJK, Arabic/Hebrew/Cyrillic/Greek/Devanagari/Thai, combining sequences, emoji "
            "(ZWJ, flags, skin tones, keycaps), the vocabulary's special-token literals and damaged copies of them, byte-token "
            "look-alikes, random runes of every Unicode category, random scalar values, C0/C1 controls, soft hyphen, long "
            "repeats and the full ASCII printable string; valid UTF-8 without NUL (SentencePiece: also without U+2581). Long-text "
            "class (all three targets; one case in 512 in the quick tier, one in 2048 in the thorough tier, about 100 resp. 3000 "
            "cases per run): an ASCII prefix of 0-7 bytes followed by 60-260 KiB of repetitions of a drawn unit of 1-6 chunks "
            "of 1-, 2-, 3- and 4-byte characters and whitespace, followed by the ordinary chunks (which bring special literals); "
            "the case stores prefix, unit and repeat count, not the expansion; same oracle. Classes long_fragment_over_64k and "
            "char_straddles_{4k,64k}_multiple count texts in which a multi-byte character lies across a multiple of 4 KiB / 64 KiB. Targets: "
            "BPE with llama 3.2 vocabulary+merges and the llama 3 pre-tokenizer; BPE with per-case vocabulary (256 byte symbols, "
            "merges learnt from a fixed corpus and from the case text, optional reversed ranks / merges without token; llama 3 or "
            "mistral 3 pre-tokenizer); SentencePiece with per-case vocabulary (256 byte tokens, control/unused/user-defined "
            "tokens, pieces learnt from a corpus and from the case text with distinct or tied scores, substring pieces). "
            "Non-trivial = the text contains a multi-byte character, a special-token literal or two consecutive whitespace "
            "characters; distinct = distinct hash of the generated case.",
    "assumptions": [
        "TestC20FirstUse: 2-8 goroutines released together make the first Encode calls on one freshly built per-case vocabulary (BPE or SentencePiece); every result must equal a lone caller's on an identically built vocabulary; built with -race and GORACE=halt_on_error=1, so an unsynchronised lazy initialisation is reported whatever the timing (the report names the current case)",
        "long texts: the repeated unit never contains a special-token literal, because both encoders splice their fragment list once per occurrence (quadratic: minutes for 50 000 occurrences) - a cost, not part of the property; special literals follow the long fragment. Per-case vocabularies of long cases are learnt from the first four repetitions only. Texts above 260 KiB are not generated",
        "the pre-tokenizer patterns are the defaults that models/llama (= models/mllama) and models/mistral3 pass, read from their source in the tree under test (package model cannot import them); fallback = harness copy of the pinned commit; see coverage.pretokenizer_pattern_source",
        "a replay with expect=known:<slug> is reported instead of failed while <slug> is only assumed through VERIF_ASSUME_KNOWN (development aid); listed in known_findings.json it fails as the driver expects",
        "llama 3.2 special tokens are appended as CONTROL tokens 128000-128255 as in the released model (the test data holds only the 128000 ordinary tokens)",
        "SentencePiece: text excludes U+2581 (the family's escape for a space); gemma2/tokenizer.model is empty in this tree, so the vocabulary is generated",
        "special-token literals are ASCII and cannot overlap or contain one another",
        "Encode(s,true) of a text whose encoding is empty is not compared (the code adds no BOS/EOS then; the property does not say)",
        "only CONTROL-type tokens are special for the oracle; generated SentencePiece vocabularies put CONTROL tokens at ids 105 and 106",
    ],
}
