CHECK = {
    "mode": "inpkg", "pkg": "server/internal/cache/blob",
    "files": ["c08_gen_test.go", "c08_engine_test.go", "c08_run_test.go"],
    "level": "fault_enumeration",
    "engine": "blobcache-stepreaders",
    "technique": "stateful property-based testing (rapid, shrinking) of the real DiskCache: 1-4 concurrent Put / Import / "
                 "Chunker.Put writers fed by harness-owned step readers (every Read call is a scheduling point released in a "
                 "drawn order), source-fault injection (short, long, flipped byte, read error, wrong bytes, lying chunk digest), "
                 "kill -9 emulation by copying the cache directory between a completed write and the next Read and reopening it, "
                 "reference model of stored blobs and links",
    "level_text": "Enumerates, per generated history, every Read boundary of every writer as a possible interleaving and crash "
                  "point: the harness releases one Read at a time (channel handshake: after a release the writer either parks in "
                  "its next Read or its operation returns, file I/O being synchronous), so schedules are exact and replayable, and "
                  "a directory copy taken while all writers are parked is exactly what a process kill at that byte position leaves. "
                  "After every single Read and on every crash copy (opened with a fresh DiskCache) the oracle re-hashes every blob "
                  "the cache reports with its true size, checks stored blobs stay retrievable, compares every link file and every "
                  "Resolve result with the model, and on crash copies also that a faultless Put recovers every blob. Histories are "
                  "sampled (blob sizes 0-200 KiB across io.Copy's 32 KiB buffer, read piece sizes 1 byte to whole buffer), "
                  "not exhausted; no absence proof.",
    "level_note": "Granularity of interleaving and of crash points is one Read call of a source reader (= at most one write(2) of the "
                  "cache): a kill inside a single write(2) and loss of page-cache contents on power failure are not modelled "
                  "(completed writes are assumed to survive the death of the writing process). Link, Unlink, Resolve and PutBytes run "
                  "atomically between steps (Link reads from a file, not from a harness reader), so crashes and races inside them are "
                  "not explored. Six classes of violations reproduce on the unchanged tree; each is excluded from the search by a "
                  "narrow run-time guard next to its signature in c08_engine_test.go (stepGuards / link) only when listed as known, "
                  "and has a replay under replays/C08 that must fail while the defect exists. The guards predict what copyNamedFile "
                  "and Chunker.Put do with the next piece (write / refuse / truncate) from the source script; the oracles do not "
                  "depend on those predictions. Uses only exported API of package blob (Open, Put, PutBytes, Import, Get, GetFile, "
                  "Link, Unlink, Resolve, Chunked, Chunker.Put/Close, DigestFromBytes); no unexported identifier.",
    "design_ref": "DESIGN.md section 3 C08",
    "targets": [{"name": "TestC08BlobCache",
                 "quick": {"cases": 4000, "shards": 4, "soft_s": 35, "shrinktime": "15s"},
                 "thorough": {"cases": 60000, "shards": 16, "soft_s": 330}}],
    "floors": {"crash_mid_write": 0.12, "concurrent_same_digest_one_fails": 0.08, "concurrent_same_digest": 0.30,
               "blob_over_32k": 0.04, "link_ok": 0.15, "resolve_linked": 0.03, "resolve_case_variant": 0.10,
               "chunk_ok": 0.08, "chunked_complete": 0.03, "import_ok": 0.05, "step": 0.40},
    "rule": "rapid-generated histories: 1-4 blobs (0-200 KiB, 35% share a length with another blob) and 1-44 actions from "
            "{start Put(blob, source in exact/short/long/flip/err/wrong, claimed size = true length or less, read piece sizes), "
            "start Import, PutBytes, step(writer, n Reads), crash-copy, Link/Unlink/Resolve(name from a pool of case variants, "
            "invalid spellings, name@digest forms), Get, Chunked open, Chunker.Put(next missing / any / free range, source fault), "
            "Chunker.Close}; at the end all writers are drained round-robin one Read at a time and a last crash copy is taken. "
            "Oracle after every Read and on every crash copy: Get reports true size => SHA-256(file) == digest; nil Put/Import/"
            "all-chunks-stored => retrievable with right content and stays so; Link nil => blob existed and link file holds its "
            "bytes; Resolve == digest last linked (any case spelling), gettable; no link file for a never-linked name. "
            "Non-trivial = a crash copy taken while a writer has written part of a blob, or >= 2 writers of one digest overlapping "
            "in time of which at least one failed; distinct = distinct hash of the generated case.",
    "assumptions": [
        "completed write(2)/rename(2) calls survive the death of the writing process (no power-failure model)",
        "interleaving and crash granularity is one Read call of the source (one write of the cache)",
        "a Put never claims more than the blob's true length: by Put's contract only the claimed size is protected, so an "
        "over-claim passes through the true length with unverified bytes (callers take digest and size from the same manifest)",
        "a zero-length file is the cache's representation of 'absent' (pinned by cache_test.go): the empty blob is never reported "
        "present, so 'a successful store makes the blob retrievable' is asserted for blobs of length > 0 only",
        "chunk digests handed to Chunker.Put are the true digests of the true byte ranges unless the case says 'baddigest' "
        "(a registry that lies consistently about chunk digests and data is C09's subject: Chunker never ties chunks to the blob digest)",
        "name parsing itself (which spellings are valid) belongs to C13; only spellings nameToPath certainly rejects are used as invalid names",
    ],
}
