CHECK = {
    "mode": "inpkg", "pkg": "server", "files": ["c19_prompt_test.go"],
    "level": "exploration",
    "engine": "chatprompt",
    "technique": "property-based testing (rapid, shrinking) of server.chatPrompt against an independent re-computation of the "
                 "retained run and a delimiter-grammar parse of the returned prompt",
    "level_text": "Randomised exploration of conversations x context lengths x template styles x model kinds with an exact "
                  "structural oracle: the returned prompt is parsed with the template's delimiter grammar and compared message "
                  "by message with the harness's own model of the template layer (collation, system hoisting, legacy turns); "
                  "context lengths are drawn relative to the token count of every suffix so both sides of every cut are hit. "
                  "The input space is unbounded (message length, count); conversations are 1-12 messages of 0-6 words; no absence proof.",
    "level_note": "Calls the unexported server.chatPrompt and errTooManyImages (both used by the repository's own prompt_test.go). "
                  "Token counting uses a whitespace tokenizer as the existing tests do; fit(i) is computed by executing the same "
                  "template on (system messages before i ++ msgs[i:]) and adding 768 (clip projector) / 1 (mllama projector) / 0 "
                  "(no projector) per image, i.e. the cost model of prompt.go is taken as given. Maximality of the retained run is "
                  "asserted only for cases whose counts are monotone in i (others count as trivial). Image tag position inside a "
                  "message is not asserted, only 'exactly once, right index'.",
    "design_ref": "DESIGN.md section 3 C19",
    "targets": [{"name": "TestC19ChatPrompt",
                 "quick": {"cases": 6000, "shards": 2, "soft_s": 35},
                 "thorough": {"cases": 160000, "shards": 16, "soft_s": 330}}],
    "floors": {"dropped_messages": 0.3, "image_on_dropped": 0.08, "image_on_retained": 0.15, "system_before_cut": 0.1,
               "system_after_cut": 0.08, "everything_fits": 0.05, "only_last_fits": 0.05, "cut_inside": 0.2,
               "boundary_exact_fit": 0.08, "boundary_one_token_short": 0.08, "collated_messages": 0.1},
    "rule": "rapid-generated conversations of 1-12 messages (roles system/user/assistant/tool in any order; 0-6 words per message "
            "from an alphabet without template delimiters, a word may be the literal placeholder [img], some messages repeated to 150 words; 0-2 "
            "images on user messages, rarely on assistant/tool messages), context length absolute (1..100000) or relative to the token count of a drawn suffix (-3..+5), templates "
            "{range .Messages, .System header + range, legacy .System/.Prompt/.Response, repo chatml, repo llama3-instruct}, "
            "models {no projector, clip projector, mllama with/without projector}. Oracle = independent scan for the retained start "
            "+ grammar parse of the prompt: msgs[n:] in order modulo collation, every system message before n, last message "
            "always, each image of msgs[n:] exactly once as [img-k] with k its index in the returned list, exactly those images "
            "returned in order. Non-trivial = monotone counts, at least one non-system message dropped and at least one system "
            "message or image in the conversation; distinct = distinct hash of the generated case.",
    "assumptions": [
        "legacy (.System/.Prompt/.Response) templates are not given tool-role messages: the legacy path of template.Execute has no "
        "case for them (they are not rendered, and a tool message between two user messages makes the second overwrite the first)",
        "no images on system messages (whether a system message kept in front of the retained run is itself 'retained' is not "
        "decided by the statement; chatPrompt does not send such an image); at most one image per message for the mllama family "
        "(more is rejected by errTooManyImages)",
        "message contents contain no template delimiter, no newline and no literal [img-N]; a message without image has at least one word",
        "the token cost of an image is the one prompt.go uses (768 / 1 / 0 without projector); image tags added to the final prompt "
        "are not part of the fit computation (as in prompt.go)",
        "tools are not passed (nil)",
    ],
}
