CHECK = {
    "mode": "inpkg", "pkg": "server", "files": ["c19_prompt_test.go", "c19_routes_test.go"],
    "level": "exploration",
    "engine": "chatprompt",
    "technique": "property-based testing (rapid, shrinking) of server.chatPrompt against an independent re-computation of the "
                 "retained run and a delimiter-grammar parse of the returned prompt; the same reference applied at route level: "
                 "models created per case through POST /api/create (template, SYSTEM, MESSAGE history, PARAMETER num_ctx, optional "
                 "projector), conversations sent through the real gin router and Scheduler to POST /api/chat and POST /api/generate, "
                 "and the (prompt, images) that reach a recording fake runner judged against the reference of the effective conversation",
    "level_text": "Randomised exploration of conversations x context lengths x template styles x model kinds with an exact "
                  "structural oracle: the returned prompt is parsed with the template's delimiter grammar and compared message "
                  "by message with the harness's own model of the template layer (collation, system hoisting, legacy turns); "
                  "context lengths are drawn relative to the token count of every suffix so both sides of every cut are hit. "
                  "The input space is unbounded (message length, count); conversations are 1-12 messages of 0-6 words; no absence proof.",
    "level_note": "Calls the unexported server.chatPrompt and errTooManyImages (both used by the repository's own prompt_test.go). "
                  "Token counting uses a whitespace tokenizer as the existing tests do; fit(i) is computed by executing the same "
                  "template on (system messages before i ++ msgs[i:]) and adding 768 (clip projector) / 1 (mllama projector) / 0 "
                  "(no projector) per image, i.e. the cost model of prompt.go is taken as given. Maximality of the retained run is "
                  "asserted only for cases whose counts are monotone in i (others count as trivial). Image tag position inside a "
                  "message is not asserted, only 'exactly once, right index'. "
                  "TestC19Routes uses the unexported Scheduler.newServerFn/getGpuFn/getCpuFn and Server.sched (as the repository's own "
                  "routes_generate_test.go does); requests reach the router in process (httptest recorder, no sockets), stream=false only; "
                  "the fake runner's Tokenize is the reference's whitespace tokenizer. Its effective conversation is derived from the "
                  "documentation (modelfile.md MESSAGE/SYSTEM, api.md `system` override, faq.md num_ctx precedence) and the repository's "
                  "TestGenerateChat: [SYSTEM unless the request opens with a system message] ++ MESSAGEs ++ request messages. The mllama "
                  "family, tools, raw/suffix/request-template generate and the OpenAI-compatible endpoints are not sent through the router.",
    "design_ref": "DESIGN.md section 3 C19",
    "targets": [{"name": "TestC19ChatPrompt",
                 "quick": {"cases": 6000, "shards": 2, "soft_s": 35},
                 "thorough": {"cases": 160000, "shards": 10, "soft_s": 330}},
                # the same reference, judged on what POST /api/chat and POST /api/generate hand to the runner
                {"name": "TestC19Routes",
                 "quick": {"cases": 1500, "shards": 2, "soft_s": 40},
                 "thorough": {"cases": 40000, "shards": 6, "soft_s": 330}}],
    "floors": {"dropped_messages": 0.3, "image_on_dropped": 0.08, "image_on_retained": 0.15, "system_before_cut": 0.1,
               "system_after_cut": 0.08, "everything_fits": 0.05, "only_last_fits": 0.05, "cut_inside": 0.2,
               "boundary_exact_fit": 0.08, "boundary_one_token_short": 0.08, "collated_messages": 0.1,
               # TestC19Routes (classes of the shared reference carry the prefix rt_ there)
               "model_messages_present": 0.4, "model_system_prepended": 0.2, "request_starts_with_system": 0.25,
               "request_system_replaces_model_system": 0.15, "request_system_with_model_messages": 0.12,
               "rt_image_on_dropped": 0.07, "rt_image_on_retained": 0.25, "rt_cut_inside": 0.12, "rt_system_before_cut": 0.2,
               "generate_with_images": 0.07, "generate_context": 0.03, "num_ctx_source_matters": 0.25,
               "parallel_2": 0.2, "parallel_slots_would_matter": 0.1, "rt_tmpl_commandr": 0.07, "rt_model_clip": 0.25},
    "rule": "Added in the last session: a tokenizer fault during sizing, tool definitions rendered by template rangetools, conversations that attach the same picture again. rapid-generated conversations of 1-12 messages (roles system/user/assistant/tool in any order; 0-6 words per message "
            "from an alphabet without template delimiters, a word may be the literal placeholder [img], some messages repeated to 150 words; 0-2 "
            "images on user messages, rarely on assistant/tool messages), context length absolute (1..100000) or relative to the token count of a drawn suffix (-3..+5), templates "
            "{range .Messages, .System header + range, legacy .System/.Prompt/.Response, repo chatml, repo llama3-instruct}, "
            "models {no projector, clip projector, mllama with/without projector}. Oracle = independent scan for the retained start "
            "+ grammar parse of the prompt: msgs[n:] in order modulo collation, every system message before n, last message "
            "always, each image of msgs[n:] exactly once as [img-k] with k its index in the returned list, exactly those images "
            "returned in order. Non-trivial = monotone counts, at least one non-system message dropped and at least one system "
            "message or image in the conversation; distinct = distinct hash of the generated case. "
            "TestC19Routes: per case a model (one of the five templates or the repository's command-r template; SYSTEM of 1-3 words in 60 %; "
            "0-3 MESSAGE entries of roles user/assistant/system; plain or with a projector layer) created through POST /api/create, then either "
            "(80 %) POST /api/chat with 1-8 messages drawn as above (the opening message forced to role system in 40 %), num_ctx drawn as above "
            "relative to the effective conversation and given in the request options / as PARAMETER num_ctx / in both with different values "
            "(request wins) / not at all (2048), OLLAMA_NUM_PARALLEL in {unset, 1, 2}; or (20 %) POST /api/generate with a prompt, 0-2 images, "
            "optional `system`, optional deprecated `context`. Oracle = the same reference on the effective conversation "
            "([SYSTEM unless the request opens with a system message] ++ MESSAGEs ++ request messages; generate: [request system, else SYSTEM] ++ "
            "MESSAGEs ++ one user message per image ++ prompt) against the llm.CompletionRequest the fake runner received: prompt structure, "
            "exactly the images of retained messages with ID = tag index and the bytes the client sent, exactly one Completion call, HTTP 200. "
            "Non-trivial there = the reference's rule, or the model has a MESSAGE history or SYSTEM, or a generate request carries images.",
    "assumptions": [
        "legacy (.System/.Prompt/.Response) templates are not given tool-role messages: the legacy path of template.Execute has no "
        "case for them (they are not rendered, and a tool message between two user messages makes the second overwrite the first)",
        "no images on system messages (whether a system message kept in front of the retained run is itself 'retained' is not "
        "decided by the statement; chatPrompt does not send such an image); at most one image per message for the mllama family "
        "(more is rejected by errTooManyImages)",
        "message contents contain no template delimiter, no newline and no literal [img-N]; a message without image has at least one word",
        "the token cost of an image is the one prompt.go uses (768 / 1 / 0 without projector); image tags added to the final prompt "
        "are not part of the fit computation (as in prompt.go)",
        "tools are not passed (nil)",
        "route level: the effective conversation is [SYSTEM, unless the first message of the request has role system] ++ MESSAGE history ++ "
        "request messages (docs/modelfile.md, docs/api.md `system` 'overrides what is defined in the Modelfile', the repository's "
        "TestGenerateChat); a MESSAGE of role system is part of the history and does not suppress SYSTEM",
        "route level: the context length used for truncation is the request's options.num_ctx, else the model's PARAMETER num_ctx, else "
        "2048 (docs/faq.md; OLLAMA_CONTEXT_LENGTH unset), independent of OLLAMA_NUM_PARALLEL; MESSAGE entries carry no images",
        "route level: /api/generate cases fit the default context entirely (this tree does not truncate generate prompts; the statement "
        "is silent); with the deprecated `context` field the prompt may or may not repeat the MESSAGE history after the detokenized "
        "context (both accepted, counted), and a context that does not open the prompt is only counted",
    ],
}
