CHECK = {
    "mode": "inpkg", "pkg": "server", "files": ["fr_registry_test.go", "c04_store_test.go"],
    "level": "exploration",
    "engine": "storeapi",
    "technique": "stateful property-based testing (rapid operation sequences + shrinking) of the real HTTP router over a temporary model store; invariants read back from /api/tags, /api/show and the files on disk after every operation",
    "level_text": "Exploration of generated histories of 1-25 operations (blob upload, create from files with system/template/license/parameters, create from an existing or a "
                  "registry-only model, copy, delete, pull, the startup sequence fixBlobs/Manifests/PruneLayers/PruneDirectory, list) over a pool of ~160 names built to collide "
                  "(3 letter cases x 2 stems x 4 tag spellings x 4 namespaces x 2 hosts) against a scripted in-process registry whose models share layers with each other and with "
                  "locally created models. After every operation: every model in /api/tags has a readable manifest, can be shown (200), and each of its layers and its config is on "
                  "disk with the manifest's size and SHA-256; no two listed names are equal under case folding; every listed model not addressed by the operation still is listed "
                  "with a byte-identical manifest; after the startup sequence the blob directory holds no file that no manifest on disk names (manifests re-read by the harness).",
    "level_note": "The startup sequence is replicated from Serve (it cannot be called). Requests go through GenerateRoutes(nil) with httptest; the harness waits for quiescence after each "
                  "request (testing/synctest) because a non-streamed request can return while its goroutine is still working. Reported outcomes of operations (e.g. 'success' although "
                  "nothing was created) are counted as obs_* classes in the evidence but are not part of C04's statement and are not verdicts. Pulls are fault-free here (faults: C03).",
    "design_ref": "DESIGN.md section 3 C04",
    "targets": [{"name": "TestC04Store",
                 "quick": {"cases": 100, "shards": 8, "soft_s": 55},
                 "thorough": {"cases": 2500, "shards": 16, "soft_s": 420}}],
    "floors": {"modifies_model_sharing_layers": 0.3, "restart": 0.2, "delete_ok": 0.2, "copy_ok": 0.1, "create_with_uppercase_digest": 0.2,
               "pull_ok_with_delete_of_unrelated_model_in_between": 0.015},
    "rule": "Added in the last session: a model file with a recognised chat template and requests that spell out that template; names that spell out the default host in other letter cases; blob uploads under the right digest in upper case and under a wrong digest. rapid-generated operation sequences over a colliding name pool run through the real router (blob upload, create from files - the digest spelled as computed, in upper-case or mixed-case hex - or from a model, "
            "with system/template/license/parameters incl. an empty license entry, copy, delete, pull from a fault-free fake registry whose library includes zero-length layers, restart = the startup sequence with pruning, list; "
            "two overlapping forms: two clients deleting two models at the same moment, and a delete of a model that shares no layer with the model being pulled, issued between two registry requests of that pull); non-trivial = the history contains a delete / re-create / pull-replace of a model "
            "that shares a layer with another listed model, or an operation whose name differs from a listed one only by letter case; distinct = distinct hash of the generated case.",
    "assumptions": ["case-sensitive file system (Linux)", "startup sequence replicated in the harness", "fault-free registry"],
}
