_SHIM = {   # overlay-only shared package github.com/ollama/ollama/verifc09reg (scripted fake registry, case model, oracles)
    "verifc09reg/c09_model.go": "harness/verifc09reg/c09_model.go",
    "verifc09reg/c09_fake.go": "harness/verifc09reg/c09_fake.go",
    "verifc09reg/c09_run.go": "harness/verifc09reg/c09_run.go",
    "verifc09reg/c09_push.go": "harness/verifc09reg/c09_push.go",
}

CHECK = {
    "builds": [
        {"mode": "inpkg", "pkg": "server/internal/client/ollama", "files": ["c09_pull_test.go", "c09_push_test.go"], "shims": _SHIM},
        {"mode": "inpkg", "pkg": "server/internal/registry", "files": ["c09_local_test.go"], "shims": _SHIM},
        {"mode": "inpkg", "pkg": "server", "files": ["c09_push_legacy_test.go"], "shims": _SHIM},
    ],
    "level": "fault_enumeration",
    "engine": "fakeregistry",
    "technique": "scripted fault injection (rapid, shrinking) against a fake registry that is an in-process http.RoundTripper: "
                 "per request identity a fault (status, transport error, short / reset / corrupted body, broken chunk list), "
                 "response bodies streamed through harness-gated readers inside a testing/synctest bubble so that the harness "
                 "chooses which concurrent chunk body completes next, cancels the context or lets ReadTimeout expire on the "
                 "virtual clock; several attempts against one cache directory, then a fault-free attempt; the cache is audited "
                 "by reading the files (size, SHA-256) and the link file; a recording registry checks push ordering",
    "level_text": "Enumeration by random sampling of the product {manifest shape: 1-4 layers of 1-257 bytes around a 64-byte "
                  "ChunkingThreshold, optional config layer, optional updated manifest} x {chunk list: 1-6 chunks, honest or gap / "
                  "overlap / shifted / overrun / wrong digest / consistently lying / cut at an entry, inside an entry, garbage, "
                  "bad range, stream error; optionally withheld mid-stream} x {fault per request identity} x {body split: free, "
                  "withheld at first / middle / last byte; 1-16 bytes per read} x {MaxStreams 1-4} x {release order, cancel, "
                  "stall past ReadTimeout} x {1-3 scripted attempts + 1 fault-free}. After every attempt that reports success "
                  "every layer file is read back (size, SHA-256) and the name must resolve to exactly the served manifest; after "
                  "every failed attempt a resolving name must describe a complete, hash-correct model; at every quiescent point "
                  "with an open response body the name must not yet resolve to the manifest being pulled; one of up to three fault-free "
                  "attempts must succeed. Push: at the arrival of the manifest PUT every layer must have been accepted in this push and no "
                  "layer request may be open. Legacy push additionally: {layers with From -> upload start carries mount=&from=; registry "
                  "mounts (201) iff the named source repository holds the blob, or ignores the mount (202), or answers the mount request "
                  "with an error} x {history of 1-3 consecutive pushes in ONE process (process-wide blobUploadManager untouched between "
                  "them) of models sharing layer digests to 3 target names: same repository, other namespace, other host}; the fake "
                  "registry books per repository (host/namespace/model) what it holds (present before, committed there, mounted there "
                  "with 201) and the manifest PUT for repository R requires every listed blob accepted by R in this push and held by R. "
                  "The space is finite but far larger than the sample; no absence proof.",
    "level_note": "Covered entry points: Registry.Pull, Registry.Push (package server/internal/client/ollama), registry.Local POST "
                  "/api/pull non-streaming and streaming (its backoff retry loop and progress ticker run on the virtual clock), "
                  "and the legacy server.PushModel / uploadBlob / blobUpload.Prepare / Run with single-part uploads, 307 direct-upload "
                  "redirects, its retry sleeps, cross-repository mount requests (Layer.From) and sequences of pushes that share the "
                  "process-wide upload table. NOT covered: legacy multi-part uploads (parts are >= 100 MB), the 401 token "
                  "exchange, pushes that overlap in time (histories are consecutive: the next push starts 70 virtual seconds after "
                  "the previous one returned), Registry.Push with PushParams.From, real sockets/TLS (the fake is a "
                  "RoundTripper; net/http's own transport behaviour on cancellation is modelled: a cancelled request's body "
                  "read returns context.Cause). Faults are addressed by request identity (layer, chunk ordinal), not arrival "
                  "ordinal, so that cases replay deterministically under concurrency. Chunk completion order is bounded by "
                  "MaxStreams (only running downloads can be released). Process crashes between attempts are C12's subject. "
                  "Unexported identifiers used: server.PushModel's registryOptions; blobUploadManager and blobUpload.file (the legacy "
                  "harness empties the upload table before every case = fresh server process, closing the blob file a parked Run holds; "
                  "while legacy-mount-leaves-stale-upload-entry is listed it also removes, after an attempt, the entries of blobs the "
                  "registry mounted in it - what a fixed uploader does itself - and tolerates the goroutine that defect leaves parked "
                  "when the bubble ends); everything else is exported API. The "
                  "exclusion of the listed finding chunk-hole-trusted-on-retry repairs the cache the way a fixed client would "
                  "(removes the holed blob and its chunk markers) and keeps going; recognising marker blobs relies on their "
                  "content prefix 'v1 pull chunksum <layer digest> '.",
    "design_ref": "DESIGN.md section 2.3 (Network) and section 3 C09",
    "replay_timeout": 120,
    "targets": [
        {"name": "TestC09Pull", "build": 0,
         "quick": {"cases": 5000, "shards": 4, "soft_s": 40, "gomaxprocs": 2},
         "thorough": {"cases": 60000, "shards": 6, "soft_s": 380, "gomaxprocs": 2}},
        {"name": "TestC09Push", "build": 0,
         "quick": {"cases": 3000, "shards": 2, "soft_s": 35, "gomaxprocs": 2},
         "thorough": {"cases": 60000, "shards": 3, "soft_s": 380, "gomaxprocs": 2}},
        {"name": "TestC09LocalPull", "build": 1,
         "quick": {"cases": 2500, "shards": 2, "soft_s": 40, "gomaxprocs": 2},
         "thorough": {"cases": 40000, "shards": 4, "soft_s": 380, "gomaxprocs": 2}},
        {"name": "TestC09LegacyPush", "build": 2,
         "quick": {"cases": 2000, "shards": 2, "soft_s": 35, "gomaxprocs": 2},
         "thorough": {"cases": 30000, "shards": 3, "soft_s": 360, "gomaxprocs": 2}},
    ],
    "floors": {"chunked_layer_with_failed_and_completed_chunks": 0.15, "retry_skips_chunks_by_marker": 0.15,
               "chunks_completed_out_of_order": 0.12, "attempt_cancelled": 0.05, "attempt_timed_out_bodies": 0.03,
               "push_with_failed_layer": 0.08, "internal_retry": 0.015, "manifest_changed_between_attempts": 0.01,
               "retry_resumes_partial_layer": 0.05,
               "legacy_mount_201": 0.10, "push_sequence_2plus": 0.20, "same_digest_other_repo": 0.12},
    "rule": "rapid-generated scripts. Pull (Registry.Pull; registry.Local /api/pull stream and non-stream): manifest of 1-4 "
            "layers with sizes in {1,5,31,63,64,65,80,100,128,129,200,257} around ChunkingThreshold 64, optional config layer, "
            "optional updated manifest (layers dropped / added) published from some attempt on; per chunked layer a chunk list "
            "of 1-6 chunks, honest or broken (gap, overlap, shift, overrun, bad digest, lie, cut list, cut inside an entry, "
            "garbage, bad range, stream error), optionally withheld mid-stream, optionally re-planned per attempt; MaxStreams 1-4; "
            "ReadTimeout in {none, 5 s, 30 s}; 1-3 scripted attempts each with 0-3 faults addressed by (request kind, layer, chunk "
            "ordinal) from {500, 503, 404, 403, connection reset, TLS error, short body, reset mid-body, flipped byte; manifest: "
            "garbage, truncated, no layers}, a body split table, bytes-per-read limit and 0-10 harness actions (release the k-th "
            "withheld body, cancel, stall past ReadTimeout); then one fault-free attempt on the same cache directory. Push "
            "(Registry.Push; legacy PushModel): 1-4 layers (+config), subset already present at the registry, MaxStreams 1-4, "
            "1-3 scripted attempts with faults on HEAD / upload start / upload (PUT, PATCH, direct PUT after 307) / commit / "
            "manifest PUT from {500, 503, 400, 403, reset, TLS error, 500 after half the body}, withheld answers released in a "
            "drawn order or cancelled; then one fault-free push. Legacy push, 60 % of the cases: a history of 1-3 pushes in one "
            "process, each to one of example.com/library/m, example.com/ns2/m, h2.test/library/m, each of a subset of the case's "
            "layers (shared digests; config optional) with 0-2 scripted attempts and one fault-free attempt that must succeed; per "
            "layer an optional From (the first or second target's name, base:latest, h2.test/ns1/base:7b, or a blob file path as "
            "create writes it), per layer whether the From repository holds the blob and whether the registry honours mounts; fault "
            "kind 'mount' (the status list plus 404 / 405) on the mount request; blobs present in a target before a push. Counted: "
            "legacy_mount_201 (a mount answered 201), push_sequence_2plus, same_digest_other_repo (a push lists a digest an earlier "
            "push of the history listed for another repository), mounted_digest_pushed_to_repo_lacking_it. Non-trivial = a pull attempt in which a chunked layer has at "
            "least one completed and at least one failed chunk, or a push attempt with a failed layer. Distinct = distinct hash "
            "of the generated case.",
    "assumptions": [
        "served manifests are self-consistent (sizes and digests are those of the published bytes) and never list the same digest twice",
        "virtual clock and quiescence detection by testing/synctest (go1.26.8); the fake registry is an http.RoundTripper whose bodies honour the request context like net/http's transport (read returns context.Cause)",
        "faults are keyed by request identity (layer position, chunk ordinal in the served list), not by arrival order",
        "a chunk counts as completed when every honest byte was handed to the client and the listed digest matches",
        "after the script the registry is fault-free, ungated and serves honest chunk lists with the case's cut points; up to three such attempts are made and one must succeed (a client that detects leftover damage only when verifying may need one more attempt)",
        "legacy push: blobs are far below the 100 MB part size, so every upload has exactly one part",
        "legacy push histories: one server process per case (the upload table is empty when a case starts and is never touched between the pushes of a case, except for the repair described in level_note while the mount finding is listed); a registry mounts a blob only if the repository named by from= on the same host holds it, and a mounted blob is held by the target repository from then on; Layer.From values are those create writes (model.Name.DisplayShortest of the parent, or the path of the source blob)",
    ],
}
