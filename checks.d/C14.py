_SHIM = {"model/zz_verif_export.go": "shims/model/zz_verif_export.go"}
CHECK = {
    "builds": [
        {"mode": "inpkg", "pkg": "runner/ollamarunner",
         "files": ["rs_backend_test.go", "rs_model_test.go", "c14_run_test.go"], "shims": _SHIM},
        {"mode": "inpkg", "pkg": "runner/common", "files": ["c14_laws_test.go", "c14_fuzz_test.go"]},
        {"mode": "inpkg", "pkg": "runner/llamarunner", "files": ["llr_engine_test.go", "c14_llama_test.go"]},
        # the pure laws again with fuzz coverage instrumentation (native fuzz target, thorough tier)
        {"mode": "inpkg", "pkg": "runner/common", "files": ["c14_laws_test.go", "c14_fuzz_test.go"], "fuzz": "FuzzC14StopLaws"},
    ],
    "level": "exploration",
    "engine": "runnersim",
    "technique": "property-based testing (rapid, shrinking) of the real completion HTTP handler + Server.run + processBatch with a scripted model "
                 "that generates a given sequence of token pieces; reference oracle computed on the whole generated text; plus laws of the pure "
                 "functions in runner/common/stop.go; plus the same oracle on the real llamarunner (cgo) completion handler + Server.run + "
                 "processBatch driving llama.cpp on a generated tiny GGUF model whose output is programmed per request through a GBNF grammar "
                 "and a sampler seed, against a reference generation loop written on package llama",
    "level_text": "Randomised exploration of scripts x stop lists x limits. One request per case goes through the real handler (JSON request, "
                  "sampler for temperature 0, NewSequence, LoadCacheSlot, NDJSON stream) and the real run loop over the real causal KV cache; "
                  "the stream is compared with a reference that sees the whole text: prefix of the generated text, ends immediately before a "
                  "stop string as soon as one is complete and contains none, else everything up to EOS/limit minus an incomplete last "
                  "character, every piece whole UTF-8 and free of stop strings, done_reason/eval_count, exactly one final message, and the "
                  "slot's record cut where the output was cut. Texts are short (<= 14 characters from an alphabet with 1-4 byte characters "
                  "sharing lead bytes) and cut at arbitrary byte offsets, so stop strings and characters straddle pieces all the time; "
                  "no absence proof.",
    "level_note": "Trusts the scripted model / fake backend of engine runnersim, net/http/httptest and (slow-client cases only) testing/synctest: "
                  "those cases run in a bubble, synctest.Wait() is the exact 'runner blocked on the full response buffer or done, handler "
                  "blocked in Write' signal at which the stalled client resumes, and the watchdogs run on the bubble's virtual clock (they fire "
                  "on a deadlock, never on slowness) - no sleep and no wall clock decides anything. Only one stall per request, and the client "
                  "always ends up reading everything. The harness builds the Server literal "
                  "(unexported fields) and stops Server.run after each case by handing it a sequence that is already past its limit. "
                  "done_reason has one value, 'stop', for stop strings and for EOS: that is the API's vocabulary; 'length' is asserted iff the "
                  "limit ended generation. 'Ends immediately before a stop string and contains none' is asserted as stated; which of two "
                  "overlapping occurrences the cut precedes is only counted (class cut_not_at_earliest_occurrence). For scripts that are not "
                  "valid UTF-8 the runner drops bytes on purpose (flushPending: 'never output invalid Unicode'); there only: pieces valid "
                  "UTF-8, output starts with the expected output up to the first invalid byte, exact if the stop string completes before it, "
                  "one final message, 'length' only at the limit. Responses travel through encoding/json: invalid UTF-8 would arrive as "
                  "U+FFFD, which scripts never contain. Known findings are steered around only when listed (list-order "
                  "cases skipped, negative-trim cases run with a large context); replays always run strict. "
                  "llamarunner (third target, engine llr): its copy of the loop works on cgo types that cannot be faked, so it runs for real: the "
                  "harness writes a GGUF file with fs/ggml.WriteGGUF (architecture llama, 1 block, embedding 16, 2 heads, F32, pseudo-random hidden "
                  "weights, 471-token SentencePiece-style vocabulary: 256 byte-fallback tokens, 1-4 byte characters, all pairs and some triples of "
                  "them, filler characters), the runner's own loadModel loads it through llama.cpp, Server.run and the completion handler are the "
                  "real ones. output.weight is all zero, so every logit is exactly 0 and the next token is chosen by llama.cpp's sampler alone: "
                  "uniformly (seeded mt19937) among the tokens the request's grammar allows; root ::= \"<text>\" makes the model generate <text> "
                  "then EOS, cut into pieces that depend on the seed (a character as one token or as its 2-4 byte tokens). Reference = a plain "
                  "loop on package llama (Tokenize, Decode on a context of its own, a sampling context with the same parameters / grammar / seed, "
                  "TokenToPiece, TokenIsEog) with no stop strings: trusted are package llama, llama.cpp (deterministic tokenizer, decode, grammar, "
                  "sampler RNG) and WriteGGUF, not one line of runner/llamarunner. A llama.cpp context cannot be freed through the Go API and costs "
                  "~480 MiB of address space: the first Server of a (context size/32, parallel) class is built by loadModel, later cases put a "
                  "fresh Server literal + InputCache on that context after KvCacheClear (7 contexts per process). Slow-client cases as in the first "
                  "target (synctest bubble around server, request and shutdown; cgo calls inside the bubble are not durably blocked, so Wait() is "
                  "still exact). Not generated: images, embeddings, several requests at once (C07's llamarunner target does that), LoRA, flash "
                  "attention, quantised KV cache. A llama.cpp assertion kills the process: the driver then reports the current case.",
    "design_ref": "DESIGN.md section 3 'Engine runnersim' / C14, section 4 row 11",
    "targets": [{"name": "TestC14Stream", "build": 0,
                 "quick": {"cases": 30000, "shards": 4, "soft_s": 45},
                 "thorough": {"cases": 500000, "shards": 8, "soft_s": 360}},
                {"name": "TestC14StopLaws", "build": 1,
                 "quick": {"cases": 50000, "shards": 1, "soft_s": 30},
                 "thorough": {"cases": 1500000, "shards": 2, "soft_s": 300}},
                {"name": "TestC14LlamaRunner", "build": 2,
                 "quick": {"cases": 10000, "shards": 4, "soft_s": 30},
                 "thorough": {"cases": 400000, "shards": 5, "soft_s": 320}},
                # native coverage-guided fuzzing, thorough tier only (cannot be pinned to VERIF_SEED; the saved input is the reproducible unit)
                {"name": "FuzzC14StopLaws", "build": 3, "kind": "fuzz", "thorough": {"fuzztime": "90s", "workers": 2, "hard_s": 600}}],
    "floors": {"stop_hit": 0.2, "stop_straddles_pieces": 0.03, "multibyte_straddles_pieces": 0.06, "limit_hit": 0.06, "eos_hit": 0.1,
               "invalid_utf8_script": 0.04, "context_shift": 0.03, "law_cut_inside_character": 0.05, "law_stop_straddles_pieces": 0.015,
               "slow_client": 0.03, "slow_client_runner_blocked_on_full_buffer": 0.015, "slow_client_generation_ended_during_stall": 0.01,
               # TestC14LlamaRunner (classes are per target: prefix llr_)
               "llr_stop_hit": 0.2, "llr_stop_spans_pieces": 0.04, "llr_multibyte_split_over_3_tokens": 0.04, "llr_limit_hit": 0.15,
               "llr_limit_on_withheld_piece": 0.04, "llr_eos_hit": 0.1, "llr_context_shift": 0.05, "llr_invalid_utf8": 0.01,
               "llr_slow_client_runner_blocked_on_full_buffer": 0.008},
    "rule": "rapid-generated: text = 0-14 atoms from {a b c space ab e-acute e-grave U+65E5 euro U+672C U+1F600 sharp-s newline} (1 in 10: 1-3 "
            "invalid byte sequences inserted), cut into 1-11 token pieces at arbitrary byte offsets (empty pieces allowed); 0-3 stop strings "
            "(substrings of the text at character boundaries, extensions / shortenings of earlier stop strings, unrelated atom sequences, "
            "rarely the empty string); EOS after the last piece or not; num_predict in {-1, 0, 1..pieces+2}; num_ctx in {4,6,8,16,64,2048}, "
            "batch in {1,2,8,512}, prompt 1-4 tokens, num_keep 0-4. About 1 case in 10 has a SLOW CLIENT: a body of 1-2 cheap pieces repeated "
            "to 100-400 pieces in front of the short script (num_predict moved accordingly, sometimes inside the body) and a response writer "
            "whose Write blocks from the k-th chunk on (k = 0, 0..40 or anywhere) until the runner cannot move (blocked on the full "
            "100-entry response buffer, or finished), then accepts everything; same oracle. Non-trivial = the stop occurrence that ends generation, or a multi-byte "
            "character, is split across >= 2 pieces. Distinct = distinct hash of the generated case. Laws target: same texts/pieces/stops, "
            "every byte offset. llamarunner target: text = 0-14 of the same atoms; mode exact (grammar = the text, then EOS) | tail (text then an "
            "endless run of filler characters x y z: only a stop string or the limit ends it) | free (no grammar: tokens uniform over the "
            "whole vocabulary, mostly invalid UTF-8), sampler seed 0..2^31-1 (decides the cut into token pieces), ollama's default sampling "
            "options 1 in 4 (else neutral), 0-3 stop strings (substrings of the text, extensions / shortenings, a text prefix followed by "
            "something else, filler strings, unrelated atoms, rarely empty), num_predict in {-1, 0, 1..2*atoms+4}, num_ctx in {6,8,16,64,512}, "
            "batch in {1,2,8,32}, parallel 1|2, prompt 1-4 tokens + BOS, num_keep -1..4; 1 case in 24 has a slow client (310-420 filler "
            "characters = 104-420 pieces in front of the text). Non-trivial there = the stop occurrence that ends generation begins in an "
            "earlier piece, or a character is split over >= 2 tokens.",
    "assumptions": ["one request at a time on a fresh Server per case (parallel 1, plain causal cache)",
                    "slow client = a ResponseWriter whose Write blocks; it resumes at bubble quiescence (testing/synctest, go1.26.8)",
                    "scripted model: the k-th sampling returns the k-th piece's token, then EOS (if scripted)",
                    "stop strings are valid UTF-8 (they arrive as JSON)",
                    "llamarunner target: llama.cpp's sampler, grammar and RNG are deterministic functions of (logits, parameters, seed); all logits are "
                    "exactly 0 (output.weight = 0), so no floating-point noise can make runner and reference pick different tokens",
                    "llamarunner target: one request at a time on a fresh Server per case over a cached llama.cpp context (cleared)"],
}
