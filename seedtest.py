#!/usr/bin/env python3
"""seedtest.py <ID> <change dir> <demo dst (repo-relative path)> <demo -run regexp> [check ids...]

Confirms a seeded breaking change in a scratch worktree of /repo HEAD (applies, builds, existing tests of the touched
package pass, demonstration fails with the change and passes without it), then runs the named /verif checks against
the changed tree (VERIF_REPO=<worktree>) and prints which of them report a violation. Nothing is written to /repo."""
import json, os, subprocess, sys, shutil, time

cid, cdir, demo_dst, demo_run = sys.argv[1:5]
checks = sys.argv[5:] or [cid]
WT = "/tmp/ev-%s-%d" % (cid, os.getpid())
# SEEDTEST_VERIF=auto: run the checks from a private driver directory (symlinks to /verif's files, own build/ and out/), so
# that several evaluations, and the maintainer's own runs in /verif, do not share a build directory
DEV = os.environ.get("SEEDTEST_VERIF", "/verif")
if DEV == "auto":
    DEV = "/tmp/devs-%d" % os.getpid()
    os.makedirs(DEV, exist_ok=True)
    for f in ("check", "checks.py", "harness", "vfkit", "known_findings.json", "replays", "checks.d", "shims"):
        if not os.path.lexists(os.path.join(DEV, f)):
            os.symlink(os.path.join("/verif", f), os.path.join(DEV, f))
# SEEDTEST_RACE=1: the demonstration (and the existing tests) run under the race detector (schedule-free race demos)
env = dict(os.environ, GOFLAGS="-mod=mod" + (" -race" if os.environ.get("SEEDTEST_RACE") else ""))


def sh(cmd, cwd=WT, timeout=1800, e=env):
    p = subprocess.run(cmd, cwd=cwd, shell=True, capture_output=True, text=True, timeout=timeout, env=e)
    return p.returncode, (p.stdout + p.stderr)


subprocess.run(["git", "-C", "/repo", "worktree", "add", "--detach", WT, "HEAD"], capture_output=True)
res = {"property": cid, "change": cdir, "repo_head": subprocess.check_output(["git", "-C", "/repo", "rev-parse", "--short", "HEAD"]).decode().strip()}
try:
    pkg = "./" + os.path.dirname(demo_dst) + "/"
    timeout_flag = "-timeout 600s"
    # demo without the change
    shutil.copy(os.path.join(cdir, "demo_test.go"), os.path.join(WT, demo_dst))
    rc, out = sh(f"go test -mod=mod -vet=off -count=1 {timeout_flag} -run '{demo_run}' {pkg}")
    res["demo_passes_without_change"] = rc == 0
    if rc != 0:
        res["demo_without_output"] = out[-1500:]
    os.remove(os.path.join(WT, demo_dst))
    # apply
    rc, out = sh(f"git apply {os.path.join(cdir, 'patch.diff')}")
    res["applies"] = rc == 0
    if rc != 0:
        res["apply_output"] = out[-800:]
        raise SystemExit
    rc, out = sh("go build ./...")
    res["builds"] = rc == 0
    files = subprocess.check_output(["git", "-C", WT, "diff", "--name-only"]).decode().split()
    pkgs = sorted({"./" + os.path.dirname(f) + "/..." for f in files})
    rc, out = sh("go test -mod=mod -vet=off -count=1 -skip TestSentencePieceEncode " + " ".join(pkgs))
    res["existing_tests_pass"] = rc == 0
    res["existing_tests_cmd"] = "go test -mod=mod -vet=off -count=1 " + " ".join(pkgs)
    if rc != 0:
        res["existing_tests_output"] = out[-1500:]
    shutil.copy(os.path.join(cdir, "demo_test.go"), os.path.join(WT, demo_dst))
    rc, out = sh(f"go test -mod=mod -vet=off -count=1 {timeout_flag} -run '{demo_run}' {pkg}")
    res["demo_fails_with_change"] = rc != 0
    os.remove(os.path.join(WT, demo_dst))
    # my checks against the changed tree
    res["checks"] = {}
    for c in checks:
        t0 = time.time()
        p = subprocess.run(["./check", c], cwd=DEV, capture_output=True, text=True, env=dict(os.environ, VERIF_REPO=WT))
        lines = [l for l in p.stdout.splitlines() if l.strip() and not l.startswith("KNOWN-FINDING")]
        first = next((l.strip() for l in lines if not l.startswith(c + " ") and not l.startswith("VIOLATION")), "")
        res["checks"][c] = {"exit": p.returncode, "seconds": round(time.time() - t0, 1), "first_message": first[:400]}
finally:
    subprocess.run(["git", "-C", "/repo", "worktree", "remove", "--force", WT], capture_output=True)
    if DEV.startswith("/tmp/devs-"):
        import shutil as _sh
        _sh.rmtree(DEV, ignore_errors=True)
print(json.dumps(res, indent=1))
