package server

// Route-level target of the schedbubble engine (C01, C02): the same virtual-clock machine, but the requests are real
// HTTP requests served by the real gin router (GenerateHandler / ChatHandler / EmbedHandler / EmbeddingsHandler ->
// scheduleRunner -> Scheduler.GetRunner), so the caller side in routes.go is part of the system under test: the select on
// both reply channels, reading runner.llama, the keep_alive 0 + empty prompt unload path (expireRunner on the handler's
// goroutine), handleScheduleError and cancellation through the request context.
// The scheduler, the fake runner's load/Ping/Close, the event log, the Close monitors, settling, the schedule
// perturbation and the goroutine-dump analysis are those of sb_engine_test.go / sb_run_test.go (an sbEngine is embedded);
// this file adds the HTTP clients, a runner wrapper with Completion / Embedding / Tokenize behaviour and the route-level
// oracles. DESIGN.md §2.3, §3 first bullet.

import (
	"bytes"
	"context"
	"encoding/json"
	"errors"
	"fmt"
	"io"
	"math"
	"net/http"
	"net/http/httptest"
	"os"
	"regexp"
	"strings"
	"sync"
	"testing/synctest"
	"time"

	"github.com/gin-gonic/gin"
	"github.com/ollama/ollama/api"
	"github.com/ollama/ollama/discover"
	"github.com/ollama/ollama/fs/ggml"
	"github.com/ollama/ollama/llm"
	"pgregory.net/rapid"
)

// ------------------------------------------------------------------------------------------ case

type sbrAction struct {
	Kind    string `json:"k"`            // start giveup finish unload loadok loadfail ping ps advance settle
	Req     string `json:"r,omitempty"`  // start: generate chat embed embeddings; unload: generate chat
	Model   int    `json:"m,omitempty"`  // model index (start, unload, ping)
	Keep    int    `json:"ka,omitempty"` // index into sbrKeep (start)
	Variant int    `json:"v,omitempty"`  // request options variant (start)
	NoStrm  bool   `json:"ns,omitempty"` // start: "stream": false
	Empty   bool   `json:"e,omitempty"`  // start: no prompt / messages / input (a "load" request; with keep_alive 0 an unload)
	Work    int    `json:"w,omitempty"`  // start: index into sbrWork: how long the runner takes to answer (0 = until a finish action)
	Delay   int    `json:"dl,omitempty"` // start, unload: index into sbrDelay: the request arrives this much virtual time later
	Inputs  int    `json:"in,omitempty"` // start embed: number of inputs (0, 1 = one); they are embedded concurrently by the handler
	FailIn  int    `json:"fi,omitempty"` // start embed: 1-based index of the input whose Embedding fails (0 = none)
	FailAt  int    `json:"fa,omitempty"` // start embed: index into sbrFailAt: virtual time after which that Embedding fails
	Long    bool   `json:"lg,omitempty"` // start embed: the first input exceeds the context length (truncated through Detokenize)
	Linger  int    `json:"li,omitempty"` // start: index into sbrLinger: how the runner reacts when the context of a running call ends
	Idx     int    `json:"i,omitempty"`  // intent index, taken modulo the live candidates
	Dur     int    `json:"d,omitempty"`  // advance: index into sbDurations
	Fail    bool   `json:"f,omitempty"`  // ping: make it fail
	Burst   bool   `json:"b,omitempty"`  // do not settle after this action
}

type sbrCase struct {
	MaxRunners  int         `json:"max_runners"`  // 0 = unset (automatic)
	NumParallel int         `json:"num_parallel"` // 0 = automatic
	MaxQueue    int         `json:"max_queue"`
	KeepAlive   int         `json:"keep_alive"` // index into sbKeepEnv
	LoadTimeout int         `json:"load_timeout,omitempty"` // index into sbrLoadTimeouts (OLLAMA_LOAD_TIMEOUT: the stall limit of a model load; nothing else may depend on it)
	Inventory   int         `json:"inventory"`  // 0 cpu, 1..3 single-GPU libraries
	Room        int         `json:"room"`       // index into sbRoom
	NModels     int         `json:"n_models"`   // 2..4 models created through the API (model 3 is an embedding model)
	Gated       []bool      `json:"gated"`
	AutoFail    []bool      `json:"auto_fail"`
	CloseUs     int         `json:"close_us"`
	CloseErr    []bool      `json:"close_err,omitempty"`
	Perturb     uint32      `json:"perturb"`
	Actions     []sbrAction `json:"actions"`
}

var (
	// keep_alive as it appears in the request body: absent, 0, "30ms", "2s", "1m", -1 (for ever)
	sbrKeep    = []any{nil, 0, "30ms", "2s", "1m", -1}
	sbrKeepDur = []time.Duration{-1, 0, 30 * time.Millisecond, 2 * time.Second, time.Minute, time.Duration(math.MaxInt64)}
	// how long the fake runner works on a request (virtual time); -1: until the harness finishes it
	sbrWork = []time.Duration{-1, 0, time.Millisecond, 30 * time.Millisecond, 250 * time.Millisecond}
	// a request can arrive later, at an exact virtual instant (the same instant as a keep-alive expiry, the end of another
	// request, the scheduler's 10 ms expiry retry or its 250 ms reschedule delay)
	sbrDelay = []time.Duration{0, time.Millisecond, 10 * time.Millisecond, 30*time.Millisecond - 1, 30 * time.Millisecond, 250 * time.Millisecond, 2 * time.Second}
	// the Embedding of the failing input of a multi-input /api/embed request returns its error after this much virtual time
	sbrFailAt = []time.Duration{0, time.Millisecond, 30 * time.Millisecond}
	// a running Completion / Embedding whose context ends returns at once, a little later (the abort takes time), or only
	// when the computation is over (-1: a computation in the runner is not interrupted from the client side)
	sbrLinger = []time.Duration{0, time.Millisecond, 10 * time.Millisecond, -1}
	sbrReqs   = []string{"generate", "generate", "generate", "chat", "chat", "embed", "embed", "embeddings"}
)

const sbrFailText = "cannot-embed" // the fake runner refuses an input containing this word

const sbrNumVariants = 4 // 0 default, 1 num_ctx 4096, 2 num_batch 256, 3 num_gpu 0

func sbrGen(t *rapid.T) sbrCase {
	var c sbrCase
	c.MaxRunners = rapid.SampledFrom([]int{0, 1, 1, 2, 2, 3}).Draw(t, "max_runners")
	c.NumParallel = rapid.SampledFrom([]int{0, 1, 2}).Draw(t, "num_parallel")
	c.MaxQueue = rapid.SampledFrom([]int{2, 3, 4, 6}).Draw(t, "max_queue")
	c.KeepAlive = rapid.IntRange(0, len(sbKeepEnv)-1).Draw(t, "keep_alive")
	c.LoadTimeout = rapid.IntRange(0, len(sbrLoadTimeouts)-1).Draw(t, "load_timeout")
	c.Inventory = rapid.SampledFrom([]int{0, 1, 1, 2, 3}).Draw(t, "inventory")
	c.Room = rapid.IntRange(0, len(sbRoom)-1).Draw(t, "room")
	c.NModels = rapid.IntRange(2, 4).Draw(t, "n_models")
	for i := 0; i < 4; i++ {
		c.Gated = append(c.Gated, rapid.IntRange(0, 2).Draw(t, "gated") == 0)
	}
	c.AutoFail = rapid.SliceOfN(rapid.SampledFrom([]bool{false, false, false, true}), 6, 6).Draw(t, "auto_fail")
	c.CloseUs = rapid.SampledFrom([]int{0, 0, 40, 150, 400}).Draw(t, "close_us")
	if rapid.IntRange(0, 2).Draw(t, "has_close_err") == 0 {
		c.CloseErr = rapid.SliceOfN(rapid.SampledFrom([]bool{true, true, false}), 4, 4).Draw(t, "close_err")
	}
	if rapid.IntRange(0, 2).Draw(t, "perturbed") > 0 {
		c.Perturb = rapid.Uint32Range(1, 1<<30).Draw(t, "perturb")
	}
	n := rapid.IntRange(1, 40).Draw(t, "n_actions")
	for i := 0; i < n; i++ {
		var a sbrAction
		a.Kind = rapid.SampledFrom([]string{"start", "start", "start", "start", "start", "finish", "finish", "finish", "giveup", "giveup",
			"loadok", "loadok", "loadok", "loadfail", "ping", "unload", "unload", "ps", "advance", "advance", "advance", "settle"}).Draw(t, "kind")
		switch a.Kind {
		case "start":
			a.Req = rapid.SampledFrom(sbrReqs).Draw(t, "req")
			// the embedding model (3) answers generate/chat with 400 before scheduling: keep it, but rarer
			a.Model = rapid.SampledFrom([]int{0, 0, 0, 1, 1, 1, 2, 2, 3}).Draw(t, "model")
			a.Keep = rapid.IntRange(0, len(sbrKeep)-1).Draw(t, "keep")
			a.Variant = rapid.SampledFrom([]int{0, 0, 0, 0, 0, 1, 2, 3}).Draw(t, "variant")
			a.NoStrm = rapid.Bool().Draw(t, "nostream")
			a.Empty = rapid.IntRange(0, 6).Draw(t, "empty") == 0
			a.Work = rapid.SampledFrom([]int{0, 0, 0, 0, 1, 2, 3, 4}).Draw(t, "work")
			if rapid.IntRange(0, 3).Draw(t, "delayed") == 0 {
				a.Delay = rapid.IntRange(1, len(sbrDelay)-1).Draw(t, "delay")
			}
			a.Linger = rapid.SampledFrom([]int{0, 0, 1, 2, 3, 3}).Draw(t, "linger")
			if a.Req == "embed" {
				a.Inputs = rapid.SampledFrom([]int{1, 2, 2, 3, 4}).Draw(t, "inputs")
				if a.Inputs > 1 && rapid.IntRange(0, 2).Draw(t, "input_fails") > 0 {
					a.FailIn = rapid.IntRange(1, a.Inputs).Draw(t, "fail_input")
					a.FailAt = rapid.IntRange(0, len(sbrFailAt)-1).Draw(t, "fail_at")
				}
				a.Long = rapid.IntRange(0, 7).Draw(t, "long_input") == 0
			}
		case "finish", "giveup", "loadok", "loadfail":
			a.Idx = rapid.IntRange(0, 5).Draw(t, "idx")
		case "ping":
			a.Model = rapid.IntRange(0, 3).Draw(t, "model")
			a.Fail = rapid.Bool().Draw(t, "fail")
		case "unload":
			a.Model = rapid.IntRange(0, 3).Draw(t, "model")
			a.Req = rapid.SampledFrom([]string{"generate", "generate", "chat"}).Draw(t, "req")
			if rapid.IntRange(0, 3).Draw(t, "delayed") == 0 {
				a.Delay = rapid.IntRange(1, len(sbrDelay)-1).Draw(t, "delay")
			}
		case "advance":
			a.Dur = rapid.IntRange(0, len(sbDurations)-1).Draw(t, "dur")
		}
		if a.Kind != "settle" && a.Kind != "advance" && a.Kind != "ps" {
			a.Burst = rapid.IntRange(0, 3).Draw(t, "burst") == 0
		}
		c.Actions = append(c.Actions, a)
	}
	return c
}

// ---------------------------------------------------------------------------------------- models

var (
	sbrBlobsOnce sync.Once
	sbrBlobs     [][]byte // the four GGUF files of sbInitFiles, uploaded through the API at the start of every case
)

func sbrInit() {
	sbInitFiles()
	sbrBlobsOnce.Do(func() {
		for _, p := range sbFiles.paths {
			b, err := os.ReadFile(p)
			if err != nil {
				panic(err)
			}
			sbrBlobs = append(sbrBlobs, b)
		}
	})
}

func sbrName(i int) string { return fmt.Sprintf("m%d", i) }

// sbrHTTP serves one request synchronously (set-up and final listing only).
func sbrHTTP(h http.Handler, method, path string, body any) (int, []byte) {
	var rd io.Reader = bytes.NewReader(nil)
	switch b := body.(type) {
	case nil:
	case []byte:
		rd = bytes.NewReader(b)
	default:
		js, _ := json.Marshal(b)
		rd = bytes.NewReader(js)
	}
	rw := &c04Recorder{ResponseRecorder: httptest.NewRecorder()}
	h.ServeHTTP(rw, httptest.NewRequest(method, path, rd))
	return rw.Code, rw.Body.Bytes()
}

// createModels makes the temporary store of the case and creates the models through the API (outside the bubble: a
// store operation, not part of the scheduling history).
func (x *sbrEngine) createModels() (dir string, err error) {
	dir, err = os.MkdirTemp("", "sbr-")
	if err != nil {
		return "", err
	}
	os.Setenv("OLLAMA_MODELS", dir)
	var s Server
	h, err := s.GenerateRoutes(nil)
	if err != nil {
		return dir, err
	}
	for i := 0; i < x.c.NModels; i++ {
		g := sbrBlobs[i]
		if code, body := sbrHTTP(h, "POST", "/api/blobs/"+frDigest(g), g); code != 200 && code != 201 {
			return dir, fmt.Errorf("blob upload answered %d %s", code, body)
		}
		code, body := sbrHTTP(h, "POST", "/api/create", map[string]any{"model": sbrName(i), "files": map[string]string{"m.gguf": frDigest(g)},
			"template": "{{ .System }} {{ .Prompt }}"})
		if msg, bad := c04HasError(body); code != 200 || bad {
			return dir, fmt.Errorf("create of %s answered %d %s %s", sbrName(i), code, msg, body)
		}
		m, gerr := GetModel(sbrName(i))
		if gerr != nil {
			return dir, fmt.Errorf("GetModel(%s) after create: %v", sbrName(i), gerr)
		}
		x.paths = append(x.paths, m.ModelPath)
	}
	return dir, nil
}

// ---------------------------------------------------------------------------------- fake runner

// sbrSrv is the sbSrv fake runner (load gate, Ping, Close and their monitors) plus what a handler does with a runner.
type sbrSrv struct {
	*sbSrv
	x *sbrEngine
}

type sbrCtxKey struct{}

var sbrTagRe = regexp.MustCompile(`rq\d+`)

// use is called at every entry of a handler into the runner: it attributes the call to the HTTP request (through the
// request context the handler passes down) and evaluates the C01 monitors that need the caller.
func (s *sbrSrv) use(ctx context.Context, what string, byPrompt *sbrReq) *sbrReq {
	x, e := s.x, s.x.e
	r, _ := ctx.Value(sbrCtxKey{}).(*sbrReq)
	if r == nil && byPrompt != nil {
		// the handler gave the runner a context that is not derived from the request's: the call is still this request's
		r = byPrompt
		e.mu.Lock()
		e.flag("call_context_without_request_values")
		e.mu.Unlock()
	}
	sbPerturbPoint("fake: " + what) // stretches the window between the hand-over and the handler's use of the runner
	e.mu.Lock()
	defer e.mu.Unlock()
	x.ev++
	if r == nil {
		e.logf("%s inst=%d by an unknown request", what, s.id)
		return nil
	}
	e.logf("%s req=%d inst=%d", what, r.sb.id, s.id)
	if r.answeredEv == 0 {
		r.answeredEv = x.ev // the scheduler has answered: the handler is past scheduleRunner
		r.dequeuedEv = x.ev
		r.sb.replies++
	}
	if r.sb.finished {
		// the client gave up (or the handler already returned): the request is no longer "in progress", the scheduler
		// has been told to release the runner; whatever the handler still does with it is not C01's concern
		return r
	}
	switch {
	case s.closeBegun > 0:
		e.violate("C01", "request %d (%s, model %d) was handed runner instance %d after it had been shut down and uses it (%s)", r.sb.id, r.a.Req, r.sb.model, s.id, what)
	case s.model != r.sb.model:
		e.violate("C01", "request %d for model %d was handed a runner of model %d", r.sb.id, r.sb.model, s.model)
	default:
		r.sb.granted = s.sbSrv // from now on a Close of this instance is a violation until the request is finished
	}
	return r
}

// work is the time the runner takes: either virtual time or until the harness finishes the request (or its client gives up).
func (s *sbrSrv) work(ctx context.Context, r *sbrReq) error {
	if r == nil {
		return nil
	}
	x, e := s.x, s.x.e
	d := sbrWork[r.a.Work%len(sbrWork)]
	linger := sbrLinger[r.a.Linger%len(sbrLinger)]
	var done <-chan struct{} // closed by a finish action (nil for a call that takes virtual time)
	e.mu.Lock()
	if x.releaseAll || r.released {
		d = 0
	}
	if d < 0 {
		if r.gate == nil {
			r.gate = make(chan struct{}) // made inside the bubble: waiting on it is a durable block
		}
		done = r.gate
		r.holding++ // several calls of one request (the inputs of /api/embed) can wait at the same time
		e.flag("hold")
		e.logf("hold req=%d inst=%d", r.sb.id, s.id)
	}
	e.mu.Unlock()
	var timer <-chan time.Time // a nil channel never fires: exactly one of gate / timer is set below
	switch {
	case d == 0:
		return ctx.Err()
	case d > 0:
		tm := time.NewTimer(d)
		defer tm.Stop()
		timer = tm.C
	default:
		defer func() {
			e.mu.Lock()
			r.holding--
			e.mu.Unlock()
		}()
	}
	select {
	case <-done:
		return ctx.Err()
	case <-timer:
		return ctx.Err()
	case <-ctx.Done():
	}
	// the context of a running call has ended (its client gave up): what the runner does then is drawn
	switch {
	case linger < 0:
		e.mu.Lock()
		e.flag("call_outlives_context")
		e.mu.Unlock()
		select { // the computation runs to its end
		case <-done:
		case <-timer:
		}
	case linger > 0:
		tm := time.NewTimer(linger)
		defer tm.Stop()
		select {
		case <-tm.C:
		case <-done:
		case <-timer:
		}
	}
	return ctx.Err()
}

// enter / leave bracket one Completion or Embedding call: while any call of a request is executing the request is in
// progress on that instance (a handler cannot return before its calls have).
func (s *sbrSrv) enter(ctx context.Context, what string, byPrompt *sbrReq) *sbrReq {
	r := s.use(ctx, what, byPrompt)
	if r != nil {
		s.x.e.mu.Lock()
		r.active++
		s.x.e.mu.Unlock()
	}
	return r
}

func (s *sbrSrv) leave(ctx context.Context, r *sbrReq, what string, err error) {
	if r == nil {
		return
	}
	e := s.x.e
	e.mu.Lock()
	r.active--
	e.logf("%s returns req=%d inst=%d err=%v (calls of the request still running: %d)", what, r.sb.id, s.id, err, r.active)
	if s.closeBegun > 0 && !r.sb.finished {
		e.violate("C01", "runner instance %d (model %d) was shut down while a %s call of request %d, whose handler has not returned and whose client is still there, was executing on it", s.id, s.model, what, r.sb.id)
	} else if s.closeBegun > 0 && ctx.Err() == nil && r.startedBeforeClose {
		// the client has gone, yet nobody told the runner: the context the handler gave this call never ended, the call ran on
		// (as a real runner would, generating) and the runner was shut down under it
		e.violate("C01", "runner instance %d (model %d) was shut down while a %s call of request %d was still executing on it: the request's client had gone, but the context the handler gave the call never ended, so the call was never cancelled", s.id, s.model, what, r.sb.id)
	}
	e.mu.Unlock()
}

func (s *sbrSrv) Completion(ctx context.Context, req llm.CompletionRequest, fn func(llm.CompletionResponse)) (err error) {
	var byPrompt *sbrReq
	if m := sbrTagRe.FindString(req.Prompt); m != "" {
		s.x.e.mu.Lock()
		byPrompt = s.x.byTag[m]
		s.x.e.mu.Unlock()
	}
	r := s.enter(ctx, "completion", byPrompt)
	if r != nil {
		s.x.e.mu.Lock()
		r.startedBeforeClose = s.closeBegun == 0
		s.x.e.mu.Unlock()
	}
	defer func() { s.leave(ctx, r, "completion", err) }()
	for _, c := range []string{"Hel", "lo "} {
		if err := ctx.Err(); err != nil {
			return err
		}
		fn(llm.CompletionResponse{Content: c})
	}
	if err := s.work(ctx, r); err != nil {
		return err
	}
	fn(llm.CompletionResponse{Content: "world"})
	fn(llm.CompletionResponse{Done: true, DoneReason: llm.DoneReasonStop, PromptEvalCount: 3, EvalCount: 3, PromptEvalDuration: 1, EvalDuration: 1})
	return nil
}

func (s *sbrSrv) Embedding(ctx context.Context, input string) (v []float32, err error) {
	r := s.enter(ctx, "embedding", nil)
	defer func() { s.leave(ctx, r, "embedding", err) }()
	if r != nil && strings.Contains(input, sbrFailText) {
		// the input the runner cannot embed: the error comes at once or after a while, typically while the embeddings of the
		// request's other inputs are still being computed
		if d := sbrFailAt[r.a.FailAt%len(sbrFailAt)]; d > 0 {
			tm := time.NewTimer(d)
			defer tm.Stop()
			select {
			case <-tm.C:
			case <-ctx.Done():
			}
		}
		e := s.x.e
		e.mu.Lock()
		e.flag("embed_input_fails")
		if n := min(max(r.a.Inputs, 1), 4); r.embedded < n-1 {
			e.flag("embed_input_fails_while_others_run") // the Embedding of another input has not returned yet (or not begun)
		}
		e.mu.Unlock()
		return nil, errors.New("fake: runner could not embed this input")
	}
	if r != nil {
		defer func() {
			s.x.e.mu.Lock()
			r.embedded++
			s.x.e.mu.Unlock()
		}()
	}
	if err := s.work(ctx, r); err != nil {
		return nil, err
	}
	return []float32{0.1, 0.2, 0.3}, nil
}

func (s *sbrSrv) Tokenize(ctx context.Context, content string) (tokens []int, err error) {
	s.use(ctx, "tokenize", nil)
	for range strings.Fields(content) {
		tokens = append(tokens, len(tokens))
	}
	return tokens, nil
}

func (s *sbrSrv) Detokenize(ctx context.Context, tokens []int) (string, error) {
	s.use(ctx, "detokenize", nil)
	return "", nil
}

// --------------------------------------------------------------------------------------- engine

type sbrReq struct {
	sb     *sbReq // id, model, replies (0/1: the scheduler's answer has been observed), granted, finished, cancelled
	a      sbrAction
	path   string
	rw     *c04Recorder
	unload bool // takes the expireRunner path (may wait on a runner's mutex)

	startEv, answeredEv, servedEv int // event stamps (0 = not yet); all under sbEngine.mu
	dequeuedEv                    int // the request is known to have left the scheduler's queue (0 = it may still be in it)
	served                        bool
	status                        int
	gaveUp                        bool
	gate                          chan struct{}
	holding                       int // calls of this request that wait in the runner for the harness to finish it
	active                        int // Completion / Embedding calls of this request that have not returned
	startedBeforeClose            bool // its last Completion call began on a runner that had not been shut down
	embedded                      int // Embedding calls of inputs the runner accepts that have returned
	released                      bool
	quiet                         bool // issued by the drain: not classified
}

type sbrErrWriter struct {
	mu  sync.Mutex
	buf bytes.Buffer
}

func (w *sbrErrWriter) Write(p []byte) (int, error) {
	w.mu.Lock()
	defer w.mu.Unlock()
	if w.buf.Len() < 1<<20 {
		w.buf.Write(p)
	}
	return len(p), nil
}

func (w *sbrErrWriter) String() string {
	w.mu.Lock()
	defer w.mu.Unlock()
	return w.buf.String()
}

type sbrEngine struct {
	e     *sbEngine
	c     sbrCase
	h     http.Handler
	paths []string // ModelPath of model i in the case's store
	reqs  []*sbrReq
	ev    int // event counter (under e.mu)
	ew    *sbrErrWriter

	byTag  map[string]*sbrReq // generate / chat requests by the tag their prompt carries ("rq<N>"): a Completion call is
	tagSeq int                // attributed to its request even when the context it is given does not carry the request's values

	releaseAll       bool // drain / clean-up: runners no longer wait for a finish action
	softsBeforeDrain int
	eventCycle       bool // see sbrKnownEventCycle
	endStateFrom     int
	noop             int
}

func (x *sbrEngine) newServer(gpus discover.GpuInfoList, model string, f *ggml.GGML, adapters []string, projectors []string, opts api.Options, numParallel int) (llm.LlamaServer, error) {
	// sbEngine recognises its models by the path of the files sbInitFiles wrote; here the same files live in the store
	for i, p := range x.paths {
		if p == model {
			model = sbFiles.paths[i]
		}
	}
	ls, err := x.e.newServer(gpus, model, f, adapters, projectors, opts, numParallel)
	if err != nil {
		return nil, err
	}
	return &sbrSrv{sbSrv: ls.(*sbSrv), x: x}, nil
}

func (x *sbrEngine) optsOf(a sbrAction) (api.Options, map[string]any) {
	o := api.DefaultOptions()
	var m map[string]any
	switch a.Variant % sbrNumVariants {
	case 1:
		o.NumCtx, m = 4096, map[string]any{"num_ctx": 4096}
	case 2:
		o.NumBatch, m = 256, map[string]any{"num_batch": 256}
	case 3:
		o.NumGPU, m = 0, map[string]any{"num_gpu": 0}
	}
	return o, m
}

// start issues one HTTP request as a client would: a goroutine serving it with a cancellable request context; when the
// handler returns the context ends (as net/http does when ServeHTTP returns).
func (x *sbrEngine) start(a sbrAction, unload bool) {
	e := x.e
	draining := x.releaseAll // the drain's own unload calls are not part of the generated history
	m := a.Model % x.c.NModels
	body := map[string]any{"model": sbrName(m)}
	path := "/api/" + a.Req
	opts, optMap := x.optsOf(a)
	e.mu.Lock()
	x.tagSeq++
	tag := fmt.Sprintf("rq%d", x.tagSeq)
	e.mu.Unlock()
	if unload {
		body["keep_alive"] = 0
		opts, optMap = api.DefaultOptions(), nil
	} else {
		if k := sbrKeep[a.Keep%len(sbrKeep)]; k != nil {
			body["keep_alive"] = k
		}
		if optMap != nil {
			body["options"] = optMap
		}
		switch a.Req {
		case "generate":
			if !a.Empty {
				body["prompt"] = "hello there " + tag
			}
			if a.NoStrm {
				body["stream"] = false
			}
		case "chat":
			if !a.Empty {
				body["messages"] = []map[string]string{{"role": "user", "content": "hi you " + tag}}
			}
			if a.NoStrm {
				body["stream"] = false
			}
		case "embed":
			if n := min(max(a.Inputs, 1), 4); !a.Empty && n == 1 && !a.Long {
				body["input"] = "some text"
			} else if !a.Empty {
				var in []string
				for i := 0; i < n; i++ {
					t := fmt.Sprintf("text of input %d", i)
					if i == 0 && a.Long {
						t = strings.Repeat("w ", 2100) + t // more tokens than the default context: truncated through Detokenize
					}
					if a.FailIn > 0 && i == (a.FailIn-1)%n {
						t = sbrFailText + " " + t
					}
					in = append(in, t)
				}
				body["input"] = in
				if n > 1 {
					e.mu.Lock()
					e.flag("embed_multi_input")
					e.mu.Unlock()
				}
			}
		case "embeddings":
			if !a.Empty {
				body["prompt"] = "some text"
			}
		}
		// an empty generate / chat request whose keep_alive is less than a second is the unload call
		if kd := sbrKeepDur[a.Keep%len(sbrKeepDur)]; a.Empty && (a.Req == "generate" || a.Req == "chat") && kd >= 0 && int(kd.Seconds()) == 0 {
			unload = true
		}
	}
	js, _ := json.Marshal(body)
	shown := string(js)
	if len(shown) > 400 {
		shown = shown[:150] + " ... " + shown[len(shown)-200:]
	}
	r := &sbrReq{a: a, path: path, unload: unload, rw: &c04Recorder{ResponseRecorder: httptest.NewRecorder()}}
	e.mu.Lock()
	if x.byTag == nil {
		x.byTag = map[string]*sbrReq{}
	}
	x.byTag[tag] = r
	e.mu.Unlock()
	ctx, cancel := context.WithCancel(context.WithValue(context.Background(), sbrCtxKey{}, r))
	r.sb = &sbReq{model: m, opts: opts, mdl: e.models[m], cancel: cancel}
	hreq := httptest.NewRequest("POST", path, bytes.NewReader(js)).WithContext(ctx)

	e.mu.Lock()
	x.ev++
	r.startEv = x.ev
	r.sb.id = len(e.reqs)
	if !draining {
		x.classifyLocked(r)
	}
	r.quiet = draining
	e.reqs = append(e.reqs, r.sb)
	x.reqs = append(x.reqs, r)
	// A request that arrives later must not be able to start a gated load: virtual time cannot advance while a goroutine
	// waits on the mutex a gated load holds (DESIGN 2.3), and this request would arrive while the harness sleeps.
	delay := sbrDelay[a.Delay%len(sbrDelay)]
	if x.c.Gated[m] && !unload || draining {
		delay = 0
	}
	if delay > 0 {
		e.flag("delayed_arrival")
		e.logf("start req=%d in %v POST %s %s", r.sb.id, delay, path, shown)
	} else {
		e.logf("start req=%d POST %s %s", r.sb.id, path, shown)
	}
	e.mu.Unlock()
	if unload && delay == 0 {
		e.unloading.Add(1) // expireRunner runs on the handler's goroutine and can wait on the mutex of a loading runner
	}
	go func() {
		if delay > 0 {
			time.Sleep(delay)
			e.mu.Lock()
			x.ev++
			e.logf("arrive req=%d", r.sb.id)
			e.mu.Unlock()
			if unload {
				e.unloading.Add(1)
			}
		}
		x.h.ServeHTTP(r.rw, hreq)
		x.served(r)
		if unload {
			e.unloading.Add(-1)
		}
		cancel() // the request context ends after the handler has returned
	}()
}

// classifyLocked records which scheduling situation the new request meets (classes only, no oracle).
func (x *sbrEngine) classifyLocked(r *sbrReq) {
	e := x.e
	e.flag("req_" + r.a.Req)
	if r.unload {
		e.flag("unload_call")
	}
	var mine *sbSrv
	lv := e.live()
	idle := 0
	for _, i := range lv {
		if i.model == r.sb.model {
			mine = i
		}
		if i.loadOK && e.holders(i) == 0 {
			idle++
		}
	}
	if r.unload {
		if mine != nil {
			e.flag("unload_loaded")
			if e.holders(mine) > 0 || !mine.resolved {
				e.flag("close_candidate_while_held")
			}
		}
		return
	}
	if r.sb.model == 3 && (r.a.Req == "generate" || r.a.Req == "chat") {
		return // refused before scheduling
	}
	if mine != nil && (!sbCompat(mine, r.sb) || mine.pingFail) {
		e.flag("incompatible_start")
		if e.holders(mine) > 0 || !mine.resolved {
			e.flag("close_candidate_while_held")
		}
	}
	if mx := int(x.c.MaxRunners); mine == nil && mx > 0 && len(lv) >= mx {
		e.flag("at_capacity_start")
		if idle == 0 {
			e.flag("eviction_wait")
			e.flag("close_candidate_while_held")
		}
	}
}

// served runs on the request's goroutine right after ServeHTTP returned.
func (x *sbrEngine) served(r *sbrReq) {
	e := x.e
	code := r.rw.Code
	body := r.rw.Body.String()
	e.mu.Lock()
	defer e.mu.Unlock()
	x.ev++
	r.servedEv, r.served, r.status = x.ev, true, code
	if r.answeredEv == 0 {
		r.answeredEv = x.ev
		r.sb.replies++
		if !r.gaveUp {
			// a handler that returns to a client that is still there has its answer from the scheduler. After the client
			// gave up nothing is known: the scheduler drops a cancelled request only when it reaches the head of the queue
			// (and an implementation may let the handler return earlier), so it counts as queued for good.
			r.dequeuedEv = x.ev
		}
	}
	line := body
	if len(line) > 160 {
		line = line[:160] + "..."
	}
	e.logf("served req=%d status=%d gave_up=%v %s", r.sb.id, code, r.gaveUp, strings.TrimSpace(line))
	// logged (and the request marked finished) before the context is cancelled: a Close after this is never blamed
	r.sb.finished = true
	if !r.quiet {
		e.flag(fmt.Sprintf("status_%d", code))
	}
	if r.gaveUp {
		return // nobody looks at the reply of a client that went away
	}
	busyText := strings.Contains(body, ErrMaxQueue.Error())
	switch {
	case code < 100 || code >= 600:
		e.violate("C02", "request %d (%s) was answered with status %d", r.sb.id, r.path, code)
	case code == 499:
		// scheduleRunner answers "request canceled" when the runner it was handed has no server any more
		e.violate("C01", "request %d (%s, model %d) was answered 'request canceled' (499) although its client never gave up: it was handed a runner that had already been unloaded", r.sb.id, r.path, r.sb.model)
	case code == http.StatusServiceUnavailable || busyText:
		e.flag("max_queue")
		// C02: "busy" only when the queue is full. Every request that can have been in the queue at the moment this one
		// was refused was started before now and was not known to have left the queue when this one started.
		n := 0
		for _, q := range x.reqs {
			if q != r && (q.dequeuedEv == 0 || q.dequeuedEv > r.startEv) {
				n++
			}
		}
		if n < x.c.MaxQueue {
			e.violate("C02", "request %d was refused with 'server busy' (status %d) although only %d other requests can have been unanswered (queue limit %d)", r.sb.id, code, n, x.c.MaxQueue)
		}
		// docs/faq.md: "If too many requests are sent to the server, it will respond with a 503 error"
		if code != http.StatusServiceUnavailable {
			e.violate("C02", "the queue was full for request %d but its caller was not told the server is busy in the documented way (status %d, body %q)", r.sb.id, code, line)
		}
	}
}

func (x *sbrEngine) do(a sbrAction) {
	e := x.e
	sbProgress.Add(1)
	switch a.Kind {
	case "start":
		x.start(a, false)
	case "unload":
		x.start(sbrAction{Kind: "unload", Req: a.Req, Model: a.Model, Delay: a.Delay}, true)
	case "giveup":
		e.mu.Lock()
		var cand []*sbrReq
		for _, r := range x.reqs {
			if !r.served && !r.gaveUp {
				cand = append(cand, r)
			}
		}
		if len(cand) == 0 {
			e.mu.Unlock()
			x.noop++
			return
		}
		r := cand[a.Idx%len(cand)]
		r.gaveUp = true
		r.sb.finished = true
		if r.answeredEv == 0 {
			r.sb.cancelled = true
			e.flag("giveup_unanswered")
		} else {
			e.flag("giveup_in_progress")
		}
		e.logf("giveup req=%d", r.sb.id)
		e.mu.Unlock()
		r.sb.cancel()
	case "finish":
		e.mu.Lock()
		var cand []*sbrReq
		for _, r := range x.reqs {
			if r.holding > 0 && !r.released && !r.gaveUp {
				cand = append(cand, r)
			}
		}
		if len(cand) == 0 {
			e.mu.Unlock()
			x.noop++
			return
		}
		r := cand[a.Idx%len(cand)]
		r.released = true
		e.flag("finish_held")
		e.logf("finish req=%d", r.sb.id)
		g := r.gate
		e.mu.Unlock()
		close(g)
	case "ps":
		code, body := sbrHTTP(x.h, "GET", "/api/ps", nil)
		e.mu.Lock()
		e.logf("ps status=%d %d bytes", code, len(body))
		if code != 200 {
			e.violate("C02", "GET /api/ps answered %d %s", code, body)
		}
		e.mu.Unlock()
		return
	case "loadok", "loadfail", "advance", "settle":
		e.do(sbAction{Kind: a.Kind, Idx: a.Idx, Dur: a.Dur, Burst: a.Burst})
		return
	case "ping":
		e.do(sbAction{Kind: "ping", Model: a.Model % x.c.NModels, Fail: a.Fail, Burst: a.Burst})
		return
	}
	if !a.Burst {
		e.settle()
	}
}

func (x *sbrEngine) violated() bool {
	e := x.e
	if s := x.ew.String(); strings.Contains(s, "panic recovered") {
		e.mu.Lock()
		seen := false
		for _, v := range e.viol {
			if strings.HasPrefix(v.msg, "a request made the server panic") {
				seen = true
			}
		}
		if !seen {
			i := strings.Index(s, "panic recovered")
			e.violate("C01", "a request made the server panic (recovered by gin): %s", s[i:min(len(s), i+2500)])
		}
		e.mu.Unlock()
	}
	return e.violated()
}

// drain discharges the proviso of C02 (loads in flight finish, requests ahead complete), lets every keep-alive elapse,
// unloads what has an infinite keep-alive through the API and evaluates the end-state oracles.
func (x *sbrEngine) drain() {
	e := x.e
	e.mu.Lock()
	e.draining = true
	x.releaseAll = true
	x.softsBeforeDrain = e.softs
	e.mu.Unlock()
	for round := 0; round < 100; round++ {
		e.mu.Lock()
		var loads []*sbSrv
		var gates []chan struct{}
		waiting := 0
		for _, i := range e.insts {
			if !i.resolved {
				loads = append(loads, i)
				i.resolved, i.loadOK = true, true
				e.unresolved--
				e.logf("drain: loadok inst=%d", i.id)
			}
		}
		for _, r := range x.reqs {
			if r.holding > 0 && !r.released {
				r.released = true
				gates = append(gates, r.gate)
				e.logf("drain: finish req=%d", r.sb.id)
			}
			if !r.served && !r.gaveUp {
				waiting++ // outstanding requests of clients that gave up are not waited for: they may never be answered
			}
		}
		e.mu.Unlock()
		if len(loads) == 0 && len(gates) == 0 && waiting == 0 && e.unloading.Load() == 0 {
			break
		}
		for _, i := range loads {
			i.gate <- nil
		}
		for _, g := range gates {
			close(g)
		}
		if e.settle() {
			time.Sleep(300 * time.Millisecond) // reschedule delay, expiry retries, the runners' working time (virtual)
			e.settle()
		}
		if x.violated() {
			return
		}
	}
	if !x.settleDrain() {
		e.mu.Lock()
		e.logf("drain: could not reach a quiescent state")
		e.mu.Unlock()
		e.drainIncomplete = true
		return
	}
	time.Sleep(61 * time.Second) // every finite keep-alive used by the generator has elapsed
	e.settle()
	// infinite keep-alive: explicit unload through the API, as `ollama stop` does
	for m := 0; m < x.c.NModels; m++ {
		x.start(sbrAction{Kind: "unload", Req: []string{"generate", "chat"}[m%2], Model: m}, true) // both unload routes
		e.settle()
	}
	time.Sleep(time.Second)
	if !x.settleDrain() {
		e.drainIncomplete = true
		return
	}
	code, body := sbrHTTP(x.h, "GET", "/api/ps", nil)
	var ps api.ProcessResponse
	perr := json.Unmarshal(body, &ps)
	e.sched.loadedMu.Lock()
	nLoaded := len(e.sched.loaded)
	e.sched.loadedMu.Unlock()
	e.mu.Lock()
	defer e.mu.Unlock()
	x.endStateFrom = len(e.viol)
	parked := ""
	bad := nLoaded != 0
	for _, r := range x.reqs {
		bad = bad || !r.served && !r.gaveUp
	}
	for _, i := range e.insts {
		bad = bad || i.closes == 0
	}
	if bad {
		// the state is quiescent: where the scheduler's goroutines of this bubble are parked says why
		sig, _, _ := sbrBlockedSignature(true)
		parked = "; goroutines parked at: " + sig
		x.eventCycle = strings.Contains(sig, "processCompleted@chan send") && strings.Contains(sig, "processPending@chan send")
	}
	for _, r := range x.reqs {
		if !r.served && !r.gaveUp {
			e.violate("C02", "request %d (POST %s, model %d) was never answered although every load finished, every other request completed and its client is still waiting%s", r.sb.id, r.path, r.sb.model, parked)
		}
	}
	for _, i := range e.insts {
		if i.closes == 0 {
			e.violate("C02", "runner instance %d (model %d) was started but never shut down after all requests finished and all keep-alives elapsed%s", i.id, i.model, parked)
		}
	}
	if nLoaded != 0 {
		e.violate("C02", "%d runner(s) still registered as loaded after all requests finished and all keep-alives elapsed", nLoaded)
	}
	if code != 200 || perr != nil {
		e.violate("C02", "GET /api/ps after the drain answered %d %s", code, body)
	} else if len(ps.Models) != 0 {
		e.violate("C02", "GET /api/ps still lists %d model(s) (%s ...) after all requests finished and all keep-alives elapsed", len(ps.Models), ps.Models[0].Name)
	}
}

// settleDrain: sbEngine.settle never waits for quiescence while an unload call is being served, because expireRunner
// may wait on the mutex of a runner whose gated load is undecided. In the drain no load is undecided any more (new
// loads succeed at birth), so that wait is momentary and quiescence can be awaited: an unload call that is then still
// unanswered is parked for good and is reported by the end-state oracle instead of making the drain "incomplete".
func (x *sbrEngine) settleDrain() bool {
	e := x.e
	if e.settle() {
		return true
	}
	if !e.canHard() {
		return false
	}
	synctest.Wait()
	e.hards++
	sbProgress.Add(1)
	return true
}

func sbrGinSetup(ew io.Writer) {
	gin.SetMode(gin.TestMode)
	gin.DefaultWriter, gin.DefaultErrorWriter = io.Discard, ew
}
