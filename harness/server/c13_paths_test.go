package server

// C13 — model names and digests cannot address anything outside the model store
// (see /verif/DESIGN.md §3 C13). Targets of this file (the legacy server paths):
//
//	TestC13ModelPath     ParseModelPath(s).GetManifestPath(): error, or documented grammar + the path is
//	                     <models>/manifests/<h>/<n>/<m>/<t> + print/parse round trip + Manifests() lists
//	                     exactly that name
//	TestC13Digest        GetBlobsPath(d) and blob.ParseDigest(d)/DiskCache.GetFile: error, or
//	                     <models>/blobs/sha256-<64 hex>
//	TestC13ExistingName  getExistingName: a name differing only in letter case from a stored model is
//	                     canonicalised to exactly the stored name
//
// Generator, reference grammar and sandbox auditor: overlay-only package verifc13gen.

import (
	"errors"
	"fmt"
	"io/fs"
	"os"
	"path/filepath"
	"slices"
	"strings"
	"sync"
	"testing"

	"pgregory.net/rapid"
	"verif.local/vfkit"

	"github.com/ollama/ollama/envconfig"
	"github.com/ollama/ollama/server/internal/cache/blob"
	"github.com/ollama/ollama/types/model"
	c13gen "github.com/ollama/ollama/verifc13gen"
)

type c13Info struct {
	nontrivial bool
	classes    []string
}

type c13Env struct {
	sb    *c13gen.Sandbox
	cache *blob.DiskCache
}

var (
	c13EnvOnce sync.Once
	c13EnvVal  *c13Env
	c13EnvErr  error
)

// c13GetEnv points OLLAMA_MODELS at a sandboxed store for the life of the process (one target
// per process; nothing else in the binary runs).
func c13GetEnv() (*c13Env, error) {
	c13EnvOnce.Do(func() {
		sb, err := c13gen.NewSandbox()
		if err != nil {
			c13EnvErr = err
			return
		}
		os.Setenv("OLLAMA_MODELS", sb.Root)
		if envconfig.Models() != sb.Root {
			c13EnvErr = fmt.Errorf("envconfig.Models() = %q, want %q", envconfig.Models(), sb.Root)
			return
		}
		c, err := blob.Open(sb.Root)
		if err != nil {
			c13EnvErr = err
			return
		}
		c13EnvVal = &c13Env{sb: sb, cache: c}
	})
	return c13EnvVal, c13EnvErr
}

func c13CloseEnv() {
	if c13EnvVal != nil {
		c13EnvVal.sb.Close()
	}
}

func c13ModelParts(n model.Name) [4]string {
	return [4]string{n.Host, n.Namespace, n.Model, n.Tag}
}

func c13PathParts(mp ModelPath) [4]string {
	return [4]string{mp.Registry, mp.Namespace, mp.Repository, mp.Tag}
}

func c13IsFSError(err error) bool {
	var pe *fs.PathError
	return errors.As(err, &pe)
}

// --------------------------------------------------------------------------- ParseModelPath

func c13RunModelPath(c c13gen.Case) (info c13Info, err error) {
	env, e := c13GetEnv()
	if e != nil {
		return info, nil // environment problem, not a verdict
	}
	s := c.S()
	cls, sepOrNonAlnum := c13gen.Classify(s)
	info.classes = cls
	want, pure := c.Pure()
	if pure {
		info.classes = append(info.classes, "pure_documented_form")
	}
	accepts := func(x string) bool { _, err := ParseModelPath(x).GetManifestPath(); return err == nil }

	mp := ParseModelPath(s)
	p, perr := mp.GetManifestPath()
	info.nontrivial = sepOrNonAlnum && (perr == nil || (len(c.Steps) == 1 && accepts(c.BaseS())))

	// the newer parser on the same raw string (reported, not judged: the two may differ on what they accept)
	pn := model.ParseName(s)
	switch {
	case perr == nil && pn.IsValid() && c13ModelParts(pn) == c13PathParts(mp):
		info.classes = append(info.classes, "raw_both_accept_same_parts")
	case perr == nil && pn.IsValid():
		info.classes = append(info.classes, "raw_both_accept_DIFFERENT_parts")
	case perr == nil:
		info.classes = append(info.classes, "raw_only_modelpath_accepts")
	case pn.IsValid():
		info.classes = append(info.classes, "raw_only_parsename_accepts")
	}

	if perr != nil {
		info.classes = append(info.classes, "rejected")
		if pure {
			return info, fmt.Errorf("ParseModelPath(%q).GetManifestPath() fails (%v), but the input is the documented form of parts %q", s, perr, want)
		}
		return info, nil
	}
	info.classes = append(info.classes, "accepted")
	got := c13PathParts(mp)
	if pure && got != c13gen.WithDefaults(want) {
		return info, fmt.Errorf("ParseModelPath(%q) = %q, documented parse is %q", s, got, c13gen.WithDefaults(want))
	}
	for k, v := range got {
		if !c13gen.AcceptedPartOK(k, v) {
			return info, fmt.Errorf("ParseModelPath(%q) has a manifest path but its %s %q violates the documented grammar", s, c13gen.KindName[k], v)
		}
	}
	mdir := filepath.Join(env.sb.Root, "manifests")
	if err := c13gen.CheckStorePath(mdir, p, got); err != nil {
		return info, fmt.Errorf("ParseModelPath(%q).GetManifestPath(): %v", s, err)
	}

	// print / parse round trips
	for _, printed := range []string{mp.GetFullTagname(), mp.GetShortTagname()} {
		again := ParseModelPath(printed)
		p2, err2 := again.GetManifestPath()
		if c13PathParts(again) != got || err2 != nil || p2 != p {
			return info, fmt.Errorf("model path round trip: ParseModelPath(%q) = %q; printed %q; parsed again %q (path %q, %v)", s, got, printed, c13PathParts(again), p2, err2)
		}
	}
	// the fully qualified print is read back with the same parts by model.ParseName
	if o := model.ParseName(mp.GetFullTagname()); !o.IsValid() || c13ModelParts(o) != got {
		return info, fmt.Errorf("ParseModelPath(%q) printed %q; model.ParseName reads %q (valid %v), want %q", s, mp.GetFullTagname(), c13ModelParts(o), o.IsValid(), got)
	}

	// the file system's view: one manifest at depth 4, listed under exactly that name
	env.sb.ResetManifests()
	defer env.sb.ResetManifests()
	if err := os.MkdirAll(filepath.Dir(p), 0o755); err != nil {
		info.classes = append(info.classes, "fs_error_long_component")
		return info, nil
	}
	if err := os.WriteFile(p, []byte("{}"), 0o644); err != nil {
		info.classes = append(info.classes, "fs_error_long_component")
		return info, nil
	}
	info.classes = append(info.classes, "fs_created")
	ms, aerr := env.sb.Audit()
	if aerr != nil {
		return info, fmt.Errorf("ParseModelPath(%q): %v", s, aerr)
	}
	if !slices.Equal(ms, []string{strings.Join(got[:], "/")}) {
		return info, fmt.Errorf("ParseModelPath(%q): manifest files on disk %q, want exactly %q", s, ms, strings.Join(got[:], "/"))
	}
	listed, lerr := Manifests(true)
	if lerr != nil {
		return info, fmt.Errorf("Manifests() after storing %q: %v", got, lerr)
	}
	if len(listed) != 1 {
		return info, fmt.Errorf("Manifests() lists %d models after storing %q", len(listed), got)
	}
	for n := range listed {
		if c13ModelParts(n) != got {
			return info, fmt.Errorf("Manifests() lists %q after storing %q", c13ModelParts(n), got)
		}
	}
	return info, nil
}

func TestC13ModelPath(t *testing.T) {
	const target = "TestC13ModelPath"
	rec := vfkit.Open(target)
	defer rec.Flush()
	defer c13CloseEnv()
	var rc c13gen.Case
	if _, ok, err := vfkit.ReplayCase(target, &rc); ok {
		if err != nil {
			t.Fatalf("replay: %v", err)
		}
		if _, err := c13RunModelPath(rc); err != nil {
			rec.Fail(target, rc, err.Error())
			t.Fatalf("C13 violated: %v", err)
		}
		return
	}
	rapid.Check(t, func(rt *rapid.T) {
		if rec.OverBudget() {
			return
		}
		c := c13gen.GenName(rt)
		info, err := c13RunModelPath(c)
		rec.Case(c.Q, info.nontrivial, info.classes...)
		if err != nil {
			rec.Fail(target, c, err.Error())
			rt.Fatalf("C13 violated: %v", err)
		}
	})
}

// ---------------------------------------------------------------------------------- digests

type c13DigestCase struct {
	Q string `json:"q"` // strconv.QuoteToASCII(digest string)
}

func c13RunDigest(c c13DigestCase) (info c13Info, err error) {
	env, e := c13GetEnv()
	if e != nil {
		return info, nil
	}
	d := c13gen.Unquote(c.Q)
	ref := c13gen.RefDigest(d)
	blobs := filepath.Join(env.sb.Root, "blobs")
	if strings.ContainsAny(d, "/\\\x00") || strings.Contains(d, "..") {
		info.classes = append(info.classes, "has_separator_or_dotdot")
	}
	switch len(d) {
	case 70, 71, 72:
		info.classes = append(info.classes, "near_limit_length")
	}
	if ref {
		info.classes = append(info.classes, "accepted_by_reference")
	}
	// non-trivial: a digest-shaped string: the reference accepts it, or it is 69-73 bytes long and
	// starts like a digest (one edit away from an accepted string)
	info.nontrivial = ref || (len(d) >= 69 && len(d) <= 73 && strings.HasPrefix(strings.ToLower(d), "sha"))

	// legacy server path
	p, perr := GetBlobsPath(d)
	switch {
	case perr != nil:
		info.classes = append(info.classes, "server_rejected")
		if ref && !c13IsFSError(perr) {
			return info, fmt.Errorf("GetBlobsPath(%q) = %v; the digest matches ^sha256[:-][0-9a-fA-F]{64}$", d, perr)
		}
	case d == "":
		// documented special case: the blobs directory itself
		info.classes = append(info.classes, "server_empty_is_blobs_dir")
		if p != blobs {
			return info, fmt.Errorf("GetBlobsPath(\"\") = %q, want %q", p, blobs)
		}
	default:
		info.classes = append(info.classes, "server_accepted")
		if !ref {
			return info, fmt.Errorf("GetBlobsPath(%q) = %q; the digest does not match ^sha256[:-][0-9a-fA-F]{64}$", d, p)
		}
		if want := blobs + "/sha256-" + d[7:]; p != want || filepath.Dir(p) != blobs || !c13gen.SafeComponent(filepath.Base(p)) || filepath.Clean(p) != p {
			return info, fmt.Errorf("GetBlobsPath(%q) = %q, want %q", d, p, want)
		}
		if d[7:] != strings.ToLower(d[7:]) {
			info.classes = append(info.classes, "upper_case_hex_accepted")
		}
	}

	// new client
	dg, derr := blob.ParseDigest(d)
	if derr != nil {
		info.classes = append(info.classes, "client_rejected")
		if ref {
			return info, fmt.Errorf("blob.ParseDigest(%q) = %v; the digest has the documented form", d, derr)
		}
	} else {
		info.classes = append(info.classes, "client_accepted")
		if !ref {
			return info, fmt.Errorf("blob.ParseDigest(%q) accepted; the digest does not have the documented form sha256[:-]<64 hex>", d)
		}
		hex := strings.ToLower(d[7:])
		if f, want := env.cache.GetFile(dg), blobs+"/sha256-"+hex; f != want {
			return info, fmt.Errorf("GetFile(ParseDigest(%q)) = %q, want %q", d, f, want)
		}
		if dg.String() != "sha256:"+hex {
			return info, fmt.Errorf("ParseDigest(%q).String() = %q", d, dg.String())
		}
		if again, err := blob.ParseDigest(dg.String()); err != nil || again != dg {
			return info, fmt.Errorf("digest round trip: ParseDigest(%q) printed %q, parsed again %v, %v", d, dg.String(), again, err)
		}
	}

	// the file system's view of an accepted digest
	if perr == nil && d != "" {
		if err := os.WriteFile(p, []byte("x"), 0o644); err == nil {
			_, aerr := env.sb.Audit()
			os.Remove(p)
			if aerr != nil {
				return info, fmt.Errorf("GetBlobsPath(%q): %v", d, aerr)
			}
		}
	} else if _, aerr := env.sb.Audit(); aerr != nil {
		return info, fmt.Errorf("GetBlobsPath(%q) (rejected): %v", d, aerr)
	}
	return info, nil
}

func TestC13Digest(t *testing.T) {
	const target = "TestC13Digest"
	rec := vfkit.Open(target)
	defer rec.Flush()
	defer c13CloseEnv()
	var rc c13DigestCase
	if _, ok, err := vfkit.ReplayCase(target, &rc); ok {
		if err != nil {
			t.Fatalf("replay: %v", err)
		}
		if _, err := c13RunDigest(rc); err != nil {
			rec.Fail(target, rc, err.Error())
			t.Fatalf("C13 violated: %v", err)
		}
		return
	}
	rapid.Check(t, func(rt *rapid.T) {
		if rec.OverBudget() {
			return
		}
		c := c13DigestCase{Q: c13gen.Quote(c13gen.GenDigest(rt, "d"))}
		info, err := c13RunDigest(c)
		rec.Case(c, info.nontrivial, info.classes...)
		if err != nil {
			rec.Fail(target, c, err.Error())
			rt.Fatalf("C13 violated: %v", err)
		}
	})
}

// --------------------------------------------------------------------------- getExistingName

type c13ExistCase struct {
	Store [][4]string `json:"store"` // names created one after the other, the way CreateHandler does
	Pick  int         `json:"pick"`  // which stored name is asked for (modulo len(Store))
	Query string      `json:"query"` // print of Store[Pick] with some letters in the other case
}

func c13GenExist(t *rapid.T) c13ExistCase {
	var c c13ExistCase
	n := rapid.IntRange(1, 4).Draw(t, "nstore")
	for i := 0; i < n; i++ {
		p := c13gen.GenValidFQ(t, fmt.Sprintf("s%d.", i), 255)
		if i > 0 {
			// usually share parts with an earlier name, sometimes in another case
			src := c.Store[rapid.IntRange(0, i-1).Draw(t, "from")]
			for k := 0; k < 4; k++ {
				switch rapid.SampledFrom([]int{0, 0, 1, 2}).Draw(t, "share") {
				case 0:
					p[k] = src[k]
				case 1:
					p[k] = c13gen.CaseVariant(t, "sharecase", src[k])
				}
			}
		}
		c.Store = append(c.Store, p)
	}
	c.Pick = rapid.IntRange(0, n-1).Draw(t, "pick")
	c.Query = c13gen.CaseVariant(t, "q", c13gen.JoinName(c.Store[c.Pick]))
	return c
}

func c13RunExist(c c13ExistCase) (info c13Info, err error) {
	env, e := c13GetEnv()
	if e != nil || len(c.Store) == 0 {
		return info, nil
	}
	for _, p := range c.Store {
		for k, v := range p {
			if !c13gen.RefPart(k, v) || len(v) > 255 {
				return info, nil // not a case of this target
			}
		}
	}
	pick := ((c.Pick % len(c.Store)) + len(c.Store)) % len(c.Store)
	if !strings.EqualFold(c.Query, c13gen.JoinName(c.Store[pick])) || len(c.Query) != len(c13gen.JoinName(c.Store[pick])) {
		return info, nil
	}
	env.sb.ResetManifests()
	defer env.sb.ResetManifests()
	mdir := filepath.Join(env.sb.Root, "manifests")

	// Build the store the way the API does: every new name is first canonicalised against what
	// exists (CreateHandler, CopyHandler, PullHandler all call getExistingName first). This keeps the
	// invariant "no two stored names have a part of the same kind that differs only in case", under
	// which getExistingName's answer does not depend on map iteration order.
	canon := make([]model.Name, len(c.Store))
	for i, p := range c.Store {
		n := model.ParseName(c13gen.JoinName(p))
		if !n.IsValid() {
			return info, fmt.Errorf("model.ParseName(%q) is invalid; the parts satisfy the documented grammar", c13gen.JoinName(p))
		}
		ex, err := getExistingName(n)
		if err != nil {
			return info, nil
		}
		if !ex.EqualFold(n) {
			return info, fmt.Errorf("getExistingName(%q) = %q, which differs by more than letter case", n, ex)
		}
		if ex != n {
			info.classes = append(info.classes, "insert_canonicalised")
		}
		f := filepath.Join(mdir, ex.Filepath())
		if os.MkdirAll(filepath.Dir(f), 0o755) != nil || os.WriteFile(f, []byte("{}"), 0o644) != nil {
			return info, nil // file system limit, not a verdict
		}
		canon[i] = ex
	}
	if len(c.Store) > 1 {
		info.classes = append(info.classes, "several_models_stored")
	}
	q := model.ParseName(c.Query)
	if !q.IsValid() {
		return info, fmt.Errorf("model.ParseName(%q) is invalid; it is a case variant of a documented name", c.Query)
	}
	got, gerr := getExistingName(q)
	if gerr != nil {
		return info, nil
	}
	info.nontrivial = q != canon[pick]
	if info.nontrivial {
		info.classes = append(info.classes, "query_case_differs_from_stored")
	}
	if got != canon[pick] {
		return info, fmt.Errorf("store %q: getExistingName(%q) = %q, want the stored name %q", c.Store, c.Query, got, canon[pick])
	}
	// and it addresses the stored manifest
	mp := ParseModelPath(got.String())
	f, ferr := mp.GetManifestPath()
	if ferr != nil {
		return info, fmt.Errorf("ParseModelPath(%q).GetManifestPath(): %v", got.String(), ferr)
	}
	if _, err := os.Stat(f); err != nil {
		return info, fmt.Errorf("store %q: query %q resolves to %q whose manifest %q does not exist", c.Store, c.Query, got, f)
	}
	if _, err := ParseNamedManifest(got); err != nil {
		return info, fmt.Errorf("ParseNamedManifest(%q): %v", got, err)
	}
	if _, aerr := env.sb.Audit(); aerr != nil {
		return info, aerr
	}
	return info, nil
}

func TestC13ExistingName(t *testing.T) {
	const target = "TestC13ExistingName"
	rec := vfkit.Open(target)
	defer rec.Flush()
	defer c13CloseEnv()
	var rc c13ExistCase
	if _, ok, err := vfkit.ReplayCase(target, &rc); ok {
		if err != nil {
			t.Fatalf("replay: %v", err)
		}
		if _, err := c13RunExist(rc); err != nil {
			rec.Fail(target, rc, err.Error())
			t.Fatalf("C13 violated: %v", err)
		}
		return
	}
	rapid.Check(t, func(rt *rapid.T) {
		if rec.OverBudget() {
			return
		}
		c := c13GenExist(rt)
		info, err := c13RunExist(c)
		rec.Case(c, info.nontrivial, info.classes...)
		if err != nil {
			rec.Fail(target, c, err.Error())
			rt.Fatalf("C13 violated: %v", err)
		}
	})
}
