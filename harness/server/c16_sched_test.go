package server

// C16 at the scheduler (server/sched.go is one of the property's anchors): "a model is declared to fit completely only if
// all of its layers were placed". pickBestFullFitByLibrary is where the scheduler makes that declaration; the loader
// (llm.NewLlamaServer) then re-runs the estimator on exactly the GPU list, in exactly the order, that function returns.
//
// Generator: a llama-shaped model (1-12 blocks of uneven size, output and embedding tensors) written with WriteGGUF and
// decoded; 1-5 GPUs in one or two libraries whose free memory is either a drawn fraction of what the model needs or
// "tight": what the estimator books on that GPU when memory is plentiful plus a slack of 0-2 layers - so that whether
// everything fits depends on which GPU comes first (the estimator charges graph and projector to the first GPU and deals
// layers round-robin by position); the discovery order is a drawn permutation. Parallelism automatic / 1 / 2,
// OLLAMA_SCHED_SPREAD drawn, num_gpu -1 or a number.
//
// Oracle (differential against the loader's own estimate, clause by clause):
//   - a non-nil answer names GPUs of the input, each once, all of one library, and leaves opts.NumCtx = original x parallel;
//   - the estimator, run on the returned list in the returned order with the returned parallelism, places every layer the
//     verdict promised (block_count+1, or num_gpu when the user set one);
//   - pickBestPartialFitByLibrary answers with GPUs of the input of one library.

import (
	"bytes"
	"context"
	"fmt"
	"os"
	"sort"
	"sync"
	"testing"

	"pgregory.net/rapid"
	"verif.local/vfkit"

	"github.com/ollama/ollama/api"
	"github.com/ollama/ollama/discover"
	"github.com/ollama/ollama/fs/ggml"
	"github.com/ollama/ollama/llm"
)

type c16sGPU struct {
	Lib   int    `json:"lib"`   // 0 | 1 (two libraries at most)
	Mode  string `json:"mode"`  // tight | frac | huge | zero
	Slack int    `json:"slack"` // tight: added bytes = Slack/4 x the largest layer; frac: percent of the whole requirement
	Min   uint64 `json:"min"`   // MinimumMemory
}

type c16sCase struct {
	Blocks   []int     `json:"blocks"` // per block: tensor elements / 32 (F32)
	Output   int       `json:"output"` // output.weight elements / 32 (0 = absent)
	Embd     uint32    `json:"embd"`
	Heads    uint32    `json:"heads"`
	HeadsKV  uint32    `json:"heads_kv"`
	NumCtx   int       `json:"num_ctx"`
	NumBatch int       `json:"num_batch"`
	NumGPU   int       `json:"num_gpu"`
	Parallel int       `json:"parallel"` // 0 = automatic
	Spread   bool      `json:"spread"`
	GPUs     []c16sGPU `json:"gpus"`
	Order    []int     `json:"order"` // discovery order: intents, k-th entry picks among the GPUs not yet listed
}

func c16sGen(t *rapid.T) c16sCase {
	var c c16sCase
	nb := rapid.IntRange(1, 12).Draw(t, "blocks")
	base := rapid.SampledFrom([]int{1, 8, 64, 512}).Draw(t, "base")
	for i := 0; i < nb; i++ {
		m := rapid.SampledFrom([]int{1, 1, 1, 2, 3, 7}).Draw(t, "mult")
		c.Blocks = append(c.Blocks, base*m)
	}
	c.Output = rapid.SampledFrom([]int{0, 1, base, base * 4, base * 16}).Draw(t, "output")
	c.Embd = rapid.SampledFrom([]uint32{32, 64, 128}).Draw(t, "embd")
	c.Heads = rapid.SampledFrom([]uint32{1, 2, 4}).Draw(t, "heads")
	c.HeadsKV = rapid.SampledFrom([]uint32{1, c.Heads}).Draw(t, "heads_kv")
	c.NumCtx = rapid.SampledFrom([]int{8, 64, 256, 2048}).Draw(t, "num_ctx")
	c.NumBatch = rapid.SampledFrom([]int{1, 8, 32, 512}).Draw(t, "num_batch")
	c.NumGPU = -1
	if rapid.IntRange(0, 5).Draw(t, "has_num_gpu") == 0 {
		c.NumGPU = rapid.IntRange(1, nb+2).Draw(t, "num_gpu")
	}
	c.Parallel = rapid.SampledFrom([]int{0, 0, 1, 1, 2}).Draw(t, "parallel")
	c.Spread = rapid.IntRange(0, 4).Draw(t, "spread") == 0
	ng := rapid.IntRange(1, 5).Draw(t, "gpus")
	twoLibs := rapid.IntRange(0, 3).Draw(t, "two_libs") == 0
	for i := 0; i < ng; i++ {
		g := c16sGPU{}
		if twoLibs {
			g.Lib = rapid.IntRange(0, 1).Draw(t, "lib")
		}
		g.Mode = rapid.SampledFrom([]string{"tight", "tight", "tight", "frac", "frac", "huge", "zero"}).Draw(t, "mode")
		switch g.Mode {
		case "tight":
			g.Slack = rapid.SampledFrom([]int{0, 0, 1, 2, 4, 5, 8}).Draw(t, "slack")
		case "frac":
			g.Slack = rapid.SampledFrom([]int{5, 20, 35, 50, 65, 90, 101, 130}).Draw(t, "percent")
		}
		g.Min = rapid.SampledFrom([]uint64{0, 0, 1 << 10, 1 << 16}).Draw(t, "min")
		c.GPUs = append(c.GPUs, g)
	}
	for i := 0; i < ng; i++ {
		c.Order = append(c.Order, rapid.IntRange(0, ng-1).Draw(t, "order"))
	}
	return c
}

var c16sMemo struct {
	sync.Mutex
	key string
	f   *ggml.GGML
}

func c16sModel(c c16sCase) (*ggml.GGML, error) {
	key := fmt.Sprint(c.Blocks, c.Output, c.Embd, c.Heads, c.HeadsKV)
	c16sMemo.Lock()
	defer c16sMemo.Unlock()
	if c16sMemo.key == key {
		return c16sMemo.f, nil
	}
	kv := ggml.KV{
		"general.architecture":          "llama",
		"llama.context_length":          uint32(8192),
		"llama.embedding_length":        c.Embd,
		"llama.block_count":             uint32(len(c.Blocks)),
		"llama.attention.head_count":    c.Heads,
		"llama.attention.head_count_kv": c.HeadsKV,
		"tokenizer.ggml.tokens":         []string{" ", "a"},
		"tokenizer.ggml.scores":         []float32{0, 0},
		"tokenizer.ggml.token_type":     []int32{0, 0},
	}
	var ts []ggml.Tensor
	for i, n := range c.Blocks {
		ts = append(ts, ggml.Tensor{Name: fmt.Sprintf("blk.%d.attn_q.weight", i), Kind: 0, Shape: []uint64{uint64(n) * 32}, WriterTo: bytes.NewReader(make([]byte, n*128))})
	}
	ts = append(ts, ggml.Tensor{Name: "token_embd.weight", Kind: 0, Shape: []uint64{32}, WriterTo: bytes.NewReader(make([]byte, 128))})
	if c.Output > 0 {
		ts = append(ts, ggml.Tensor{Name: "output.weight", Kind: 0, Shape: []uint64{uint64(c.Output) * 32}, WriterTo: bytes.NewReader(make([]byte, c.Output*128))})
	}
	fh, err := os.CreateTemp("", "c16s-*.gguf")
	if err != nil {
		return nil, err
	}
	defer os.Remove(fh.Name())
	defer fh.Close()
	if err := ggml.WriteGGUF(fh, kv, ts); err != nil {
		return nil, err
	}
	if _, err := fh.Seek(0, 0); err != nil {
		return nil, err
	}
	f, _, err := ggml.Decode(fh, 0)
	if err != nil {
		return nil, err
	}
	c16sMemo.key, c16sMemo.f = key, f
	return f, nil
}

type c16sInfo struct {
	nontrivial bool
	classes    []string
}

var c16sLibs = []string{"cuda", "rocm"}

func c16sIDs(l discover.GpuInfoList) []string {
	var out []string
	for _, g := range l {
		out = append(out, fmt.Sprintf("%s(%s free %d)", g.ID, g.Library, g.FreeMemory))
	}
	return out
}

func c16sRun(c c16sCase) (info c16sInfo, err error) {
	if len(c.Blocks) == 0 || len(c.GPUs) == 0 {
		return info, nil
	}
	f, e := c16sModel(c)
	if e != nil {
		return info, nil // environment problem (temp file), not a verdict
	}
	if c.Spread {
		os.Setenv("OLLAMA_SCHED_SPREAD", "1")
		info.classes = append(info.classes, "sched_spread")
	} else {
		os.Unsetenv("OLLAMA_SCHED_SPREAD")
	}
	defer os.Unsetenv("OLLAMA_SCHED_SPREAD")
	os.Unsetenv("OLLAMA_GPU_OVERHEAD")

	opts := api.DefaultOptions()
	opts.NumCtx, opts.NumBatch, opts.NumGPU = max(4, c.NumCtx), max(1, c.NumBatch), c.NumGPU
	pRef := max(1, c.Parallel)

	// what the estimator books per GPU, per library, when memory is plentiful: the anchor of the "tight" sizes
	var maxLayer uint64
	for _, n := range c.Blocks {
		maxLayer = max(maxLayer, uint64(n)*128)
	}
	maxLayer = max(maxLayer, uint64(c.Output)*128)
	perLib := [2][]int{}
	for i, g := range c.GPUs {
		perLib[g.Lib&1] = append(perLib[g.Lib&1], i)
	}
	free := make([]uint64, len(c.GPUs))
	for lib, idx := range perLib {
		if len(idx) == 0 {
			continue
		}
		huge := make(discover.GpuInfoList, len(idx))
		for k := range huge {
			huge[k] = discover.GpuInfo{Library: c16sLibs[lib], ID: fmt.Sprint(k)}
			huge[k].FreeMemory, huge[k].TotalMemory = 1<<50, 1<<50
			huge[k].MinimumMemory = c.GPUs[idx[k]].Min
		}
		o := opts
		o.NumCtx = opts.NumCtx * pRef
		ref := llm.EstimateGPULayers(huge, f, nil, o, pRef)
		for k, i := range idx {
			g := c.GPUs[i]
			switch g.Mode {
			case "tight":
				var booked uint64
				if k < len(ref.GPUSizes) {
					booked = ref.GPUSizes[k]
				}
				free[i] = booked + uint64(g.Slack)*maxLayer/4
			case "frac":
				free[i] = ref.TotalSize / 100 * uint64(g.Slack)
			case "huge":
				free[i] = 1 << 40
			}
		}
	}
	all := make(discover.GpuInfoList, len(c.GPUs))
	for i, g := range c.GPUs {
		all[i] = discover.GpuInfo{Library: c16sLibs[g.Lib&1], ID: fmt.Sprintf("G%d", i)}
		all[i].FreeMemory, all[i].TotalMemory, all[i].MinimumMemory = free[i], max(free[i], 1<<30), g.Min
	}
	// discovery order
	var gpus discover.GpuInfoList
	rest := append(discover.GpuInfoList{}, all...)
	for k := 0; len(rest) > 0; k++ {
		j := 0
		if k < len(c.Order) {
			j = c.Order[k] % len(rest)
		}
		gpus = append(gpus, rest[j])
		rest = append(rest[:j], rest[j+1:]...)
	}
	inInput := map[string]discover.GpuInfo{}
	for _, g := range gpus {
		inInput[g.ID] = g
	}
	sortedInput := sort.SliceIsSorted(gpus, func(i, j int) bool { return gpus[i].FreeMemory > gpus[j].FreeMemory })
	if len(perLib[0]) > 0 && len(perLib[1]) > 0 {
		info.classes = append(info.classes, "two_libraries")
	}

	newReq := func() *LlmRequest {
		return &LlmRequest{ctx: context.Background(), model: &Model{ModelPath: "/nonexistent/c16s.gguf"}, opts: opts, origNumCtx: opts.NumCtx}
	}
	subset := func(what string, l discover.GpuInfoList) error {
		seen := map[string]bool{}
		for _, g := range l {
			in, ok := inInput[g.ID]
			if !ok || in.FreeMemory != g.FreeMemory || in.Library != g.Library {
				return fmt.Errorf("%s answered with GPU %s(%s free %d), which is not one of the GPUs it was given %v", what, g.ID, g.Library, g.FreeMemory, c16sIDs(gpus))
			}
			if seen[g.ID] {
				return fmt.Errorf("%s answered with GPU %s twice: %v", what, g.ID, c16sIDs(l))
			}
			seen[g.ID] = true
			if g.Library != l[0].Library {
				return fmt.Errorf("%s answered with GPUs of two libraries: %v", what, c16sIDs(l))
			}
		}
		return nil
	}

	// ---- full fit
	req := newReq()
	np := c.Parallel
	got := pickBestFullFitByLibrary(req, f, append(discover.GpuInfoList{}, gpus...), &np)
	want := int(f.KV().BlockCount()) + 1
	if opts.NumGPU >= 0 {
		want = opts.NumGPU
	}
	if got == nil {
		info.classes = append(info.classes, "full_fit_nil")
	} else {
		info.classes = append(info.classes, "full_fit_declared")
		if len(got) > 1 {
			info.classes = append(info.classes, "full_fit_spans_gpus")
			if !sortedInput {
				info.classes = append(info.classes, "full_fit_spans_gpus_unsorted_input")
				info.nontrivial = true
			}
		}
		if err := subset("pickBestFullFitByLibrary", got); err != nil {
			return info, err
		}
		if np < 1 || (c.Parallel > 0 && np != c.Parallel) {
			return info, fmt.Errorf("pickBestFullFitByLibrary left numParallel = %d (asked for %d)", np, c.Parallel)
		}
		if req.opts.NumCtx != opts.NumCtx*np {
			return info, fmt.Errorf("pickBestFullFitByLibrary declared a fit with parallel %d but left opts.NumCtx = %d (request context %d)", np, req.opts.NumCtx, opts.NumCtx)
		}
		if np > 1 {
			info.classes = append(info.classes, "full_fit_parallel_gt1")
		}
		est := llm.EstimateGPULayers(got, f, nil, req.opts, np)
		if est.Layers < want || est.Layers == 0 {
			return info, fmt.Errorf("GPUs in discovery order %v, parallel %d, num_gpu %d, spread %v: pickBestFullFitByLibrary declared that the model (%d blocks + output) fits completely on %v with parallel %d, "+
				"but the estimator - which the loader runs on exactly that list - places %d of %d layers there (split %q)",
				c16sIDs(gpus), c.Parallel, opts.NumGPU, c.Spread, len(c.Blocks), c16sIDs(got), np, est.Layers, want, est.TensorSplit)
		}
		if ok, _ := llm.PredictServerFit(got, f, nil, nil, req.opts, np); !ok {
			return info, fmt.Errorf("pickBestFullFitByLibrary declared a complete fit on %v (parallel %d), PredictServerFit on that list says no", c16sIDs(got), np)
		}
	}

	// ---- partial fit
	req2 := newReq()
	np2 := c.Parallel
	part := pickBestPartialFitByLibrary(req2, f, append(discover.GpuInfoList{}, gpus...), &np2)
	if len(part) == 0 {
		return info, fmt.Errorf("pickBestPartialFitByLibrary answered with no GPU for input %v", c16sIDs(gpus))
	}
	if err := subset("pickBestPartialFitByLibrary", part); err != nil {
		return info, err
	}
	if np2 < 1 || (c.Parallel <= 0 && req2.opts.NumCtx != opts.NumCtx*np2) { // with a given parallelism the caller has scaled the context already
		return info, fmt.Errorf("pickBestPartialFitByLibrary left parallel %d with opts.NumCtx %d (request context %d)", np2, req2.opts.NumCtx, opts.NumCtx)
	}
	return info, nil
}

func TestC16SchedFit(t *testing.T) {
	const target = "TestC16SchedFit"
	rec := vfkit.Open(target)
	defer rec.Flush()
	vfkit.Quiet()
	var rc c16sCase
	if _, ok, err := vfkit.ReplayCase(target, &rc); ok {
		if err != nil {
			t.Fatalf("replay: %v", err)
		}
		if _, err := c16sRun(rc); err != nil {
			rec.Fail(target, rc, err.Error())
			t.Fatalf("C16 violated: %v", err)
		}
		return
	}
	rapid.Check(t, func(rt *rapid.T) {
		if rec.OverBudget() {
			return
		}
		c := c16sGen(rt)
		info, err := c16sRun(c)
		rec.Case(c, info.nontrivial, info.classes...)
		if err != nil {
			rec.Fail(target, c, err.Error())
			rt.Fatalf("C16 violated: %v", err)
		}
	})
}
