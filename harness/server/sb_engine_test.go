package server

// Engine "schedbubble" (C01, C02, C11): a stateful machine that drives the real Scheduler inside a
// testing/synctest bubble (virtual clock, exact quiescence detection) with a fake llm.LlamaServer
// whose load outcome, health and Close are controlled/recorded by the harness.
// See /verif/DESIGN.md §2.3 and §3 "Engine schedbubble".

import (
	"bytes"
	"context"
	"errors"
	"fmt"
	"math"
	"os"
	"path/filepath"
	"reflect"
	"runtime"
	"sync"
	"sync/atomic"
	"syscall"
	"testing/synctest"
	"time"

	"github.com/ollama/ollama/api"
	"github.com/ollama/ollama/discover"
	"github.com/ollama/ollama/envconfig"
	"github.com/ollama/ollama/fs/ggml"
	"github.com/ollama/ollama/llm"
	"pgregory.net/rapid"
)

// ------------------------------------------------------------------------------------------ case

type sbAction struct {
	Kind    string `json:"k"`           // submit finish cancel loadok loadfail ping unload advance settle
	Model   int    `json:"m,omitempty"` // model index (submit, ping, unload)
	Variant int    `json:"v,omitempty"` // option variant (submit)
	Keep    int    `json:"ka,omitempty"`
	Idx     int    `json:"i,omitempty"` // intent index, taken modulo the live candidates
	Dur     int    `json:"d,omitempty"` // index into sbDurations (advance)
	Fail    bool   `json:"f,omitempty"` // ping: make it fail
	Burst   bool   `json:"b,omitempty"` // do not settle after this action
	Twin    bool   `json:"t,omitempty"` // submit: a second client submits the same request at the same instant, from its own goroutine
	AtPing  bool   `json:"p,omitempty"` // submit: the client gives up at the moment the scheduler health-checks the loaded runner (needsReload's Ping)
}

type sbCase struct {
	MaxRunners  int        `json:"max_runners"`  // 0 = unset (automatic)
	NumParallel int        `json:"num_parallel"` // 0 = automatic
	MaxQueue    int        `json:"max_queue"`
	KeepAlive   int        `json:"keep_alive"` // index into sbKeepEnv
	Inventory   int        `json:"inventory"`  // 0 cpu, 1..3 = that many single-GPU "metal" libraries
	Room        int        `json:"room"`       // index into sbRoom: GPU size as a multiple of the largest model
	Layout      int        `json:"layout,omitempty"` // 0 every GPU its own library; 1 all GPUs in one library (a model may span them); 2 = 1 with OLLAMA_SCHED_SPREAD=1
	NModels     int        `json:"n_models"`
	Free        int        `json:"free,omitempty"`       // index into sbFree: what a GPU reports as free, as a fraction of its total memory (other programs use the rest)
	Unreliable  bool       `json:"unreliable,omitempty"` // the GPUs are flagged UnreliableFreeMemory (AMD on Windows)
	Overhead    int        `json:"overhead,omitempty"` // index into sbOverhead: OLLAMA_GPU_OVERHEAD as a fraction of the largest model
	Gated       []bool     `json:"gated"`     // per model: its loads wait for an explicit loadok/loadfail action
	AutoFail    []bool     `json:"auto_fail"` // outcome script of the loads of non-gated models (by birth order)
	CloseUs     int        `json:"close_us"`  // how long a runner takes to exit (real microseconds)
	EnvStyle    int        `json:"env_style,omitempty"` // how the numeric environment values are written: 0 plain, 1 "quoted", 2 'quoted', 3 padded with blanks (the documented reader trims and unquotes)
	CloseErr    []bool     `json:"close_err,omitempty"` // by instance id: Close does its work but reports an error (the real one returns Process.Kill's, e.g. "process already finished" after a crash)
	Perturb     uint32     `json:"perturb"`   // 0 = none; otherwise seed of the schedule perturbation at the scheduler's log points
	Actions     []sbAction `json:"actions"`
}

var (
	sbDurations = []time.Duration{1, time.Millisecond, 10 * time.Millisecond, 30*time.Millisecond - 1, 30 * time.Millisecond,
		250 * time.Millisecond, 2 * time.Second, time.Minute}
	sbKeepEnv = []string{"", "30ms", "2s", "-1", "0"}
	// request keep-alive: nil, 0, 30ms, 2s, 1m, infinite (what api.Duration decoding yields for a negative value)
	sbKeepReq = []*api.Duration{nil, {Duration: 0}, {Duration: 30 * time.Millisecond}, {Duration: 2 * time.Second},
		{Duration: time.Minute}, {Duration: time.Duration(math.MaxInt64)}}
	sbRoom = []float64{1.15, 2.3, 12, 0.55, 0.4}
	sbOverhead = []float64{0, 0.05, 0.3, 1.0}
	sbFree     = []float64{1, 1, 1, 0.75, 0.5}
)

const sbNumVariants = 7

func sbGen(t *rapid.T) sbCase {
	var c sbCase
	c.MaxRunners = rapid.SampledFrom([]int{0, 1, 1, 2, 2, 3}).Draw(t, "max_runners")
	c.NumParallel = rapid.SampledFrom([]int{0, 1, 2}).Draw(t, "num_parallel")
	c.MaxQueue = rapid.IntRange(4, 8).Draw(t, "max_queue")
	c.KeepAlive = rapid.IntRange(0, len(sbKeepEnv)-1).Draw(t, "keep_alive")
	c.Inventory = rapid.SampledFrom([]int{0, 1, 1, 2, 3}).Draw(t, "inventory")
	c.Room = rapid.IntRange(0, len(sbRoom)-1).Draw(t, "room")
	if c.Inventory >= 2 {
		c.Layout = rapid.SampledFrom([]int{0, 1, 1, 2}).Draw(t, "layout")
	}
	if c.Inventory >= 1 {
		c.Overhead = rapid.SampledFrom([]int{0, 0, 0, 1, 2, 3}).Draw(t, "overhead")
		c.Free = rapid.IntRange(0, len(sbFree)-1).Draw(t, "free")
		c.Unreliable = rapid.IntRange(0, 3).Draw(t, "unreliable") == 0
	}
	c.NModels = rapid.IntRange(1, 4).Draw(t, "n_models")
	for i := 0; i < 4; i++ {
		c.Gated = append(c.Gated, rapid.IntRange(0, 2).Draw(t, "gated") == 0)
	}
	c.AutoFail = rapid.SliceOfN(rapid.SampledFrom([]bool{false, false, false, true}), 6, 6).Draw(t, "auto_fail")
	c.CloseUs = rapid.SampledFrom([]int{0, 0, 40, 150, 400}).Draw(t, "close_us")
	c.EnvStyle = rapid.SampledFrom([]int{0, 0, 0, 0, 1, 2, 3}).Draw(t, "env_style")
	if rapid.IntRange(0, 2).Draw(t, "has_close_err") == 0 {
		c.CloseErr = rapid.SliceOfN(rapid.SampledFrom([]bool{true, true, false}), 4, 4).Draw(t, "close_err")
	}
	if rapid.IntRange(0, 2).Draw(t, "perturbed") > 0 {
		c.Perturb = rapid.Uint32Range(1, 1<<30).Draw(t, "perturb")
	}
	n := rapid.IntRange(1, 40).Draw(t, "n_actions")
	for i := 0; i < n; i++ {
		var a sbAction
		a.Kind = rapid.SampledFrom([]string{"submit", "submit", "submit", "submit", "finish", "finish", "finish", "cancel",
			"loadok", "loadok", "loadok", "loadfail", "ping", "unload", "unload", "unloadfinish", "advance", "advance", "advance", "settle"}).Draw(t, "kind")
		switch a.Kind {
		case "submit":
			a.Model = rapid.IntRange(0, c.NModels-1).Draw(t, "model")
			a.Variant = rapid.SampledFrom([]int{0, 0, 0, 0, 1, 2, 3, 4, 5, 6, 6}).Draw(t, "variant")
			a.Keep = rapid.IntRange(0, len(sbKeepReq)-1).Draw(t, "keep")
			a.AtPing = rapid.IntRange(0, 9).Draw(t, "at_ping") == 0
			a.Twin = rapid.IntRange(0, 7).Draw(t, "twin") == 0
		case "finish", "cancel", "loadok", "loadfail":
			a.Idx = rapid.IntRange(0, 5).Draw(t, "idx")
		case "ping":
			a.Model = rapid.IntRange(0, c.NModels-1).Draw(t, "model")
			a.Fail = rapid.Bool().Draw(t, "fail")
		case "unload":
			a.Model = rapid.IntRange(0, c.NModels-1).Draw(t, "model")
		case "unloadfinish":
			a.Model = rapid.IntRange(0, c.NModels-1).Draw(t, "model")
			a.Idx = rapid.IntRange(0, 5).Draw(t, "idx")
		case "advance":
			a.Dur = rapid.IntRange(0, len(sbDurations)-1).Draw(t, "dur")
		}
		if a.Kind != "settle" && a.Kind != "advance" {
			a.Burst = rapid.IntRange(0, 3).Draw(t, "burst") == 0
		}
		c.Actions = append(c.Actions, a)
	}
	return c
}

// ---------------------------------------------------------------------------------------- models

type sbModelFiles struct {
	dir   string
	paths []string
	f     []*ggml.GGML
	need  uint64 // VRAM the largest model needs at parallel 4, default context
}

var (
	sbFilesOnce sync.Once
	sbFiles     sbModelFiles
)

func sbInitFiles() {
	sbFilesOnce.Do(func() {
		dir, err := os.MkdirTemp("", "sb-models-")
		if err != nil {
			panic(err)
		}
		sbFiles.dir = dir
		embd := []uint32{1024, 2048, 4096, 3072}
		for i := 0; i < 4; i++ {
			p := filepath.Join(dir, fmt.Sprintf("m%d.gguf", i))
			fh, err := os.Create(p)
			if err != nil {
				panic(err)
			}
			kv := ggml.KV{
				"general.architecture":          "llama",
				"llama.context_length":          uint32(8192),
				"llama.embedding_length":        embd[i],
				"llama.block_count":             uint32(1 + i%2),
				"llama.attention.head_count":    uint32(32),
				"llama.attention.head_count_kv": uint32(32),
				"tokenizer.ggml.tokens":         []string{" "},
				"tokenizer.ggml.scores":         []float32{0},
				"tokenizer.ggml.token_type":     []int32{0},
			}
			if i == 3 {
				kv["llama.pooling_type"] = uint32(1) // embedding model: the scheduler forces parallel = 1
			}
			ts := []ggml.Tensor{
				{Name: "blk.0.attn.weight", Kind: 0, Shape: []uint64{1, 1, 1, 8}, WriterTo: bytes.NewReader(make([]byte, 32))},
				{Name: "output.weight", Kind: 0, Shape: []uint64{1, 1, 1, 8}, WriterTo: bytes.NewReader(make([]byte, 32))},
			}
			if i%2 == 1 {
				ts = append(ts, ggml.Tensor{Name: "blk.1.attn.weight", Kind: 0, Shape: []uint64{1, 1, 1, 8}, WriterTo: bytes.NewReader(make([]byte, 32))})
			}
			if err := ggml.WriteGGUF(fh, kv, ts); err != nil {
				panic(err)
			}
			fh.Close()
			f, err := llm.LoadModel(p, 0)
			if err != nil {
				panic(err)
			}
			sbFiles.paths = append(sbFiles.paths, p)
			sbFiles.f = append(sbFiles.f, f)
			huge := discover.GpuInfo{Library: "metal", ID: "0"}
			huge.TotalMemory, huge.FreeMemory = 1<<50, 1<<50
			o := api.DefaultOptions()
			o.NumCtx = 2048 * 4
			e := llm.EstimateGPULayers([]discover.GpuInfo{huge}, f, nil, o, 4)
			if e.VRAMSize > sbFiles.need {
				sbFiles.need = e.VRAMSize
			}
		}
	})
}

// ---------------------------------------------------------------------------------- fake server

type sbSrv struct {
	eng         *sbEngine
	id          int
	model       int
	path        string
	adapters    []string
	opts        api.Options
	numParallel int
	gpuIDs      []string
	byGPU       map[string]uint64
	vram, total uint64
	cpu         bool

	gated      bool
	gate       chan error
	resolved   bool // harness decided the load outcome (or the loader gave up)
	loadOK     bool
	pingFail   bool
	everInfinite bool // some request it was handed to asked for an infinite keep-alive
	closes     int // Close has returned
	closeBegun int // Close has been entered
	bornAt     int
}

func (s *sbSrv) Ping(ctx context.Context) error {
	sbPerturbPoint("fake: ping") // called by needsReload with the runner's mutex held
	s.eng.mu.Lock()
	// clients that give up exactly now: the scheduler has taken their request off the queue (its cancelled-check is
	// behind it) and is evaluating the loaded runner for it
	var gone []*sbReq
	for _, r := range s.eng.reqs {
		if r.atPing && r.model == s.model && r.replies == 0 && !r.finished {
			r.finished, r.cancelled = true, true
			s.eng.logf("cancel req=%d (during the health check of inst=%d)", r.id, s.id)
			s.eng.flag("cancel_unreplied")
			s.eng.flag("cancel_during_health_check")
			gone = append(gone, r)
		}
	}
	s.eng.mu.Unlock()
	for _, r := range gone {
		r.cancel()
	}
	s.eng.mu.Lock()
	defer s.eng.mu.Unlock()
	if !s.loadOK || s.pingFail || s.closeBegun > 0 {
		return errors.New("fake: runner not responding")
	}
	return nil
}

func (s *sbSrv) WaitUntilRunning(ctx context.Context) error {
	if !s.gated {
		// scripted outcome, decided at birth: never blocks, so the scheduler never holds the runner's mutex across a
		// durable wait and synctest.Wait stays usable (DESIGN 2.3)
		if err := ctx.Err(); err != nil {
			return err // the real WaitUntilRunning gives up as soon as the request's context is done
		}
		if s.loadOK {
			return nil
		}
		return errors.New("fake: llama runner process has terminated")
	}
	select {
	case err := <-s.gate:
		return err
	case <-ctx.Done():
		s.eng.mu.Lock()
		if !s.resolved {
			s.resolved = true
			s.eng.unresolved--
			s.eng.logf("load-abandoned inst=%d", s.id)
		}
		s.eng.mu.Unlock()
		return ctx.Err()
	}
}

func (s *sbSrv) Completion(ctx context.Context, req llm.CompletionRequest, fn func(llm.CompletionResponse)) error {
	return nil
}
func (s *sbSrv) Embedding(ctx context.Context, input string) ([]float32, error) { return nil, nil }
func (s *sbSrv) Tokenize(ctx context.Context, content string) ([]int, error)    { return nil, nil }
func (s *sbSrv) Detokenize(ctx context.Context, tokens []int) (string, error)   { return "", nil }
func (s *sbSrv) EstimatedVRAM() uint64                                          { return s.vram }
func (s *sbSrv) EstimatedTotal() uint64                                         { return s.total }
func (s *sbSrv) EstimatedVRAMByGPU(id string) uint64 {
	sbPerturbPoint("fake: estimate by gpu") // called by updateFreeSpace for every loaded runner
	return s.byGPU[id]
}

func (s *sbSrv) Close() error {
	e := s.eng
	e.mu.Lock()
	s.closeBegun++
	e.logf("close inst=%d model=%d", s.id, s.model)
	if s.closeBegun > 1 {
		e.violate("C01", "runner instance %d (model %d) shut down %d times", s.id, s.model, s.closeBegun)
	}
	if !s.resolved {
		e.violate("C01", "runner instance %d (model %d) shut down while its load is still in progress for the request that started it", s.id, s.model)
	}
	for _, r := range e.reqs {
		if r.granted == s && !r.finished {
			e.violate("C01", "runner instance %d (model %d) shut down while request %d still uses it", s.id, s.model, r.id)
		}
	}
	pause := e.c.CloseUs
	if len(s.gpuIDs) > 1 {
		// sched.go waitForVRAMRecovery: after shutting down a runner that spans GPUs the completed loop waits until the
		// (real) free memory has recovered, for up to 5 s; it handles no other finished request or expiry meanwhile
		e.recoverUntil = time.Now().Add(5500 * time.Millisecond)
		e.flag("vram_recovery_wait")
	}
	e.mu.Unlock()
	// A runner process takes a while to exit; until Close returns it still occupies memory and counts as running.
	// Real time (the scheduler holds its locks here, virtual time could not advance): stretches the window, decides nothing.
	if pause > 0 {
		for i := 0; i < 10; i++ {
			runtime.Gosched()
		}
		ts := syscall.Timespec{Nsec: int64(pause) * 1000}
		syscall.Nanosleep(&ts, nil)
	}
	e.mu.Lock()
	s.closes++
	e.closeCount++
	fail := len(e.c.CloseErr) > 0 && e.c.CloseErr[s.id%len(e.c.CloseErr)]
	if fail {
		e.flag("close_reports_error")
	}
	e.mu.Unlock()
	if fail {
		return errors.New("os: process already finished")
	}
	return nil
}

// --------------------------------------------------------------------------------------- engine

type sbReq struct {
	id        int
	model     int
	variant   int
	opts      api.Options
	mdl       *Model
	cancel    context.CancelFunc
	replies   int
	granted   *sbSrv
	err       error
	finished  bool // harness cancelled the context (finish or cancel), logged before the cancel
	cancelled bool // cancelled before any reply had been observed
	expectI   *sbSrv
	submitted bool // GetRunner has returned to its caller (it must never block: "busy" is an answer)
	atPing    bool // cancelled by the fake runner's Ping: after the scheduler has dequeued the request, before the hand-off
	keepInf   bool // the keep-alive this request asks for (its own, or the configured one if it names none) is infinite
}

type sbViolation struct{ prop, msg string }

type sbEngine struct {
	c     sbCase
	mu    sync.Mutex
	log   []string
	viol  []sbViolation
	sched *Scheduler
	insts []*sbSrv
	reqs  []*sbReq
	done  chan struct{}

	unresolved int // instances whose load outcome is still undecided
	unloading  atomic.Int32
	recoverUntil time.Time // virtual time until which the scheduler's completed loop may be waiting for VRAM recovery
	closeCount int
	bornCount  int

	models  []*Model
	modelsA []*Model // same files with an adapter
	inv     discover.GpuInfoList
	cpu     discover.GpuInfo

	flags map[string]bool
	softs int
	hards int
	quiet bool // the last thing that happened was a hard settle
	prop  string

	draining   bool // from now on every load succeeds at once
	autoBirths int

	noop, skippedAdvance int
	drainIncomplete      bool
	bubblePanic          string
}

func (e *sbEngine) logf(f string, a ...any) {
	if len(e.log) < 4000 {
		e.log = append(e.log, fmt.Sprintf(f, a...))
	}
}

func (e *sbEngine) violate(prop, f string, a ...any) {
	m := fmt.Sprintf(f, a...)
	e.logf("VIOLATION %s: %s", prop, m)
	e.viol = append(e.viol, sbViolation{prop, m})
}

func (e *sbEngine) flag(s string) { e.flags[s] = true }

func (e *sbEngine) live() []*sbSrv {
	var l []*sbSrv
	for _, i := range e.insts {
		if i.closes == 0 {
			l = append(l, i)
		}
	}
	return l
}

func (e *sbEngine) holders(i *sbSrv) int {
	n := 0
	for _, r := range e.reqs {
		if r.granted == i && !r.finished {
			n++
		}
	}
	return n
}

// sbCompat re-implements "compatible load options" from the statement: same adapters/projectors, same
// runner options where a request with num_gpu < 0 accepts any GPU count, context compared per parallel slot.
func sbCompat(i *sbSrv, r *sbReq) bool {
	if !reflect.DeepEqual(i.adapters, r.mdl.AdapterPaths) {
		return false
	}
	a, b := i.opts.Runner, r.opts.Runner
	if b.NumGPU < 0 {
		a.NumGPU, b.NumGPU = -1, -1
	}
	if i.numParallel > 0 {
		a.NumCtx = a.NumCtx / i.numParallel
	}
	return reflect.DeepEqual(a, b)
}

func (e *sbEngine) newServer(gpus discover.GpuInfoList, model string, f *ggml.GGML, adapters []string, projectors []string, opts api.Options, numParallel int) (llm.LlamaServer, error) {
	est := llm.EstimateGPULayers(gpus, f, projectors, opts, numParallel)
	e.mu.Lock()
	defer e.mu.Unlock()
	s := &sbSrv{eng: e, id: len(e.insts), path: model, adapters: adapters, opts: opts, numParallel: numParallel,
		byGPU: map[string]uint64{}, gate: make(chan error, 1), vram: est.VRAMSize, total: est.TotalSize, bornAt: len(e.log)}
	s.model = -1
	for i, p := range sbFiles.paths {
		if p == model {
			s.model = i
		}
	}
	for i, g := range gpus {
		s.gpuIDs = append(s.gpuIDs, g.ID)
		if i < len(est.GPUSizes) {
			s.byGPU[g.ID] = est.GPUSizes[i]
		}
		if g.Library == "cpu" {
			s.cpu = true
		}
	}
	others := e.live()
	e.insts = append(e.insts, s)
	if s.model >= 0 && s.model < len(e.c.Gated) && e.c.Gated[s.model] && !e.draining {
		s.gated = true
		e.unresolved++
		e.flag("gated_load")
	} else {
		s.resolved = true
		s.loadOK = e.draining || len(e.c.AutoFail) == 0 || !e.c.AutoFail[e.autoBirths%len(e.c.AutoFail)]
		e.autoBirths++
		if !s.loadOK {
			e.flag("failed_load")
		}
	}
	e.bornCount++
	if len(gpus) > 1 {
		e.flag("runner_spans_gpus")
		if numParallel > 1 {
			e.flag("runner_spans_gpus_parallel")
		}
	}
	e.logf("born inst=%d model=%d gpus=%v parallel=%d ctx=%d numgpu=%d vram=%d", s.id, s.model, s.gpuIDs, numParallel, opts.NumCtx, opts.NumGPU, s.vram)

	// C11 (a): never more live runners than the configured maximum (the scheduler has fixed the automatic value by now)
	if mx := e.maxRunners(); mx > 0 && len(others)+1 > mx {
		e.violate("C11", "runner %d for model %d started while %d runners are live; maximum is %d", s.id, s.model, len(others), mx)
	}
	// C11 (b): one runner per model
	for _, o := range others {
		if o.path == s.path {
			e.violate("C11", "second runner (%d) started for model %d while runner %d of the same model is still live", s.id, s.model, o.id)
		}
	}
	// C11 (f): with other models loaded, start only where the model is predicted to fit in what they leave free
	if len(others) > 0 && !s.cpu && len(gpus) > 0 {
		mine := make(discover.GpuInfoList, len(gpus))
		for i, g := range gpus {
			mine[i] = g
			var base uint64
			for _, iv := range e.inv {
				if iv.ID == g.ID {
					base = iv.FreeMemory
				}
			}
			var used uint64
			for _, o := range others {
				used += o.byGPU[g.ID]
			}
			if used > base {
				mine[i].FreeMemory = 0
			} else {
				mine[i].FreeMemory = base - used
			}
		}
		// C11 (g): independent of the estimator's own comparisons - what the live runners and the new one are recorded
		// to occupy on a GPU cannot exceed that GPU's memory
		for i, g := range gpus {
			var base, used uint64
			for _, iv := range e.inv {
				if iv.ID == g.ID {
					base = iv.FreeMemory
				}
			}
			for _, o := range others {
				used += o.byGPU[g.ID]
			}
			if i < len(est.GPUSizes) && est.GPUSizes[i] > 0 && used+est.GPUSizes[i] > base {
				e.violate("C11", "runner %d for model %d started on GPU %s with an estimated %d bytes there although the %d loaded models occupy %d of its %d bytes", s.id, s.model, g.ID, est.GPUSizes[i], len(others), used, base)
			}
		}
		if ok, _ := llm.PredictServerFit(mine, f, adapters, projectors, opts, numParallel); !ok {
			e.violate("C11", "runner %d for model %d started on GPUs %v although it is not predicted to fit in the memory the %d loaded models leave free there", s.id, s.model, s.gpuIDs, len(others))
		}
		e.flag("fit_checked")
	}
	return s, nil
}

// maxRunners: the configured limit (the case's own number, however the environment spells it); with no configured limit
// the automatic value the scheduler has fixed by now.
func (e *sbEngine) maxRunners() int {
	if e.c.MaxRunners > 0 {
		return e.c.MaxRunners
	}
	return int(envconfig.MaxRunners())
}

// sbEnvNum writes a number the way the case says the environment spells it.
func sbEnvNum(style int, n int) string {
	switch style {
	case 1:
		return fmt.Sprintf("%q", fmt.Sprint(n))
	case 2:
		return "'" + fmt.Sprint(n) + "'"
	case 3:
		return " " + fmt.Sprint(n) + " "
	}
	return fmt.Sprint(n)
}

func (e *sbEngine) getGpus() discover.GpuInfoList {
	if e.c.Inventory == 0 {
		return e.getCpus()
	}
	// a GPU reports as free what it had at the start minus what the live runners occupy on it
	out := append(discover.GpuInfoList{}, e.inv...)
	e.mu.Lock()
	for i := range out {
		var used uint64
		for _, r := range e.live() {
			used += r.byGPU[out[i].ID]
		}
		if used > out[i].FreeMemory {
			out[i].FreeMemory = 0
		} else {
			out[i].FreeMemory -= used
		}
	}
	e.mu.Unlock()
	return out
}

func (e *sbEngine) getCpus() discover.GpuInfoList {
	g := e.cpu
	e.mu.Lock()
	var used uint64
	for _, i := range e.live() {
		if i.cpu {
			used += i.total
		}
	}
	e.mu.Unlock()
	if used > g.FreeMemory {
		g.FreeMemory = 0
	} else {
		g.FreeMemory -= used
	}
	return discover.GpuInfoList{g}
}

// requester does what routes.go scheduleRunner does (waits on both channels) and keeps listening to see a second reply.
func (e *sbEngine) requester(r *sbReq, okCh chan *runnerRef, errCh chan error) {
	for {
		select {
		case rr := <-okCh:
			var ls llm.LlamaServer
			if rr != nil {
				ls = rr.llama // what scheduleRunner reads right after the receive
			}
			e.mu.Lock()
			r.replies++
			inst, _ := ls.(*sbSrv)
			e.logf("grant req=%d inst=%v", r.id, sbInstID(inst))
			if r.replies > 1 {
				e.violate("C02", "request %d received %d replies", r.id, r.replies)
			}
			switch {
			case r.finished:
				// the request was cancelled before this reply was seen: whatever it is handed is released at once
				// by the scheduler and is no longer "in progress" for C01
				if inst != nil && inst.closeBegun == 0 {
					r.granted = inst
					inst.everInfinite = inst.everInfinite || r.keepInf
				}
			case inst == nil:
				e.violate("C01", "request %d was handed a runner without a server (already unloaded)", r.id)
			case inst.closeBegun > 0:
				e.violate("C01", "request %d was handed runner instance %d after it had been shut down", r.id, inst.id)
			case inst.path != r.mdl.ModelPath:
				e.violate("C01", "request %d for model %d was handed a runner of model %d", r.id, r.model, inst.model)
			default:
				r.granted = inst
				inst.everInfinite = inst.everInfinite || r.keepInf
				if !sbCompat(inst, r) {
					e.violate("C11", "request %d (ctx=%d numgpu=%d batch=%d adapters=%v) was handed runner %d started with incompatible options (ctx=%d parallel=%d numgpu=%d batch=%d adapters=%v)",
						r.id, r.opts.NumCtx, r.opts.NumGPU, r.opts.NumBatch, r.mdl.AdapterPaths, inst.id, inst.opts.NumCtx, inst.numParallel, inst.opts.NumGPU, inst.opts.NumBatch, inst.adapters)
				}
			}
			e.mu.Unlock()
		case err := <-errCh:
			e.mu.Lock()
			r.replies++
			r.err = err
			e.logf("error req=%d err=%v", r.id, err)
			if r.replies > 1 {
				e.violate("C02", "request %d received %d replies", r.id, r.replies)
			}
			e.mu.Unlock()
		case <-e.done:
			return
		}
	}
}

func sbInstID(i *sbSrv) any {
	if i == nil {
		return nil
	}
	return i.id
}

// ------------------------------------------------------------------------------------- settling

var sbProgress atomic.Int64 // bumped by the harness goroutine; the watchdog looks at it

// canHard: synctest.Wait is safe only if no goroutine can end up waiting for ever on a runner mutex held across a
// gated load: no undecided load, and no request still to be scheduled that could start one.
func (e *sbEngine) canHard() bool {
	e.mu.Lock()
	defer e.mu.Unlock()
	if e.unresolved != 0 {
		return false
	}
	if e.draining {
		return true
	}
	for _, r := range e.reqs {
		// a cancelled request never waits on the gate (WaitUntilRunning returns as soon as its context is done)
		if r.replies == 0 && e.c.Gated[r.model] && !r.cancelled {
			return false
		}
	}
	return true
}

// settle lets the scheduler run until it is quiescent. With a load in flight the scheduler holds the
// runner's mutex and other goroutines may wait on it, which synctest cannot see through (DESIGN §2.3):
// then only a bounded soft settle is possible and no quiescence-based oracle is evaluated.
func (e *sbEngine) settle() bool {
	sbProgress.Add(1)
	if e.canHard() && e.unloading.Load() == 0 {
		synctest.Wait()
		e.hards++
		e.quiet = true
		sbProgress.Add(1)
		return true
	}
	e.soft()
	if e.canHard() && e.unloading.Load() == 0 {
		synctest.Wait()
		e.hards++
		e.quiet = true
		sbProgress.Add(1)
		return true
	}
	return false
}

func (e *sbEngine) soft() {
	e.softs++
	for i := 0; i < 6; i++ {
		for j := 0; j < 20; j++ {
			runtime.Gosched()
		}
		ts := syscall.Timespec{Nsec: 30000}
		syscall.Nanosleep(&ts, nil) // real time, not an oracle: only gives other goroutines a chance to run
	}
	sbProgress.Add(1)
}

// --------------------------------------------------------------------------------------- actions

func (e *sbEngine) submit(a sbAction) {
	m := a.Model % e.c.NModels
	mdl := e.models[m]
	opts := api.DefaultOptions()
	opts.NumCtx = 2048
	switch a.Variant % sbNumVariants {
	case 1:
		opts.NumCtx = 4096
	case 2:
		opts.NumGPU = 1
	case 3:
		opts.NumGPU = 0
	case 4:
		mdl = e.modelsA[m]
	case 5:
		opts.NumBatch = 256
	case 6:
		// a pointer-valued runner option (use_mmap): every request carries its own allocation of the same value, as
		// api.Options.FromMap makes one per request - equal values are compatible options
		b := true
		opts.UseMMap = &b
	}
	ctx, cancel := context.WithCancel(context.Background())
	r := &sbReq{id: len(e.reqs), model: m, variant: a.Variant, opts: opts, mdl: mdl, cancel: cancel, atPing: a.AtPing}
	if k := sbKeepReq[a.Keep%len(sbKeepReq)]; k != nil {
		r.keepInf = k.Duration == time.Duration(math.MaxInt64)
	} else {
		r.keepInf = sbKeepEnv[e.c.KeepAlive%len(sbKeepEnv)] == "-1"
	}

	e.mu.Lock()
	unanswered := 0
	for _, o := range e.reqs {
		if o.replies == 0 {
			unanswered++
		}
	}
	// expectations evaluated only from a quiescent, untainted state (DESIGN C11 (c), (e))
	var reuse *sbSrv
	needRoom := false
	if e.quietLocked() {
		var mine *sbSrv
		idle := 0
		lv := e.live()
		for _, i := range lv {
			if i.path == mdl.ModelPath {
				mine = i
			}
			if i.loadOK && e.holders(i) == 0 {
				idle++
			}
		}
		if mine != nil && mine.loadOK && !mine.pingFail && sbCompat(mine, r) {
			reuse = mine
		}
		if mx := e.maxRunners(); mine == nil && mx > 0 && len(lv) >= mx && idle > 0 {
			needRoom = true
		}
		if mine != nil && !sbCompat(mine, r) {
			e.flag("incompatible_submit")
			if e.holders(mine) > 0 {
				e.flag("close_candidate_while_held")
			}
		}
		if mine == nil && len(lv) > 0 {
			if mx := e.maxRunners(); mx > 0 && len(lv) >= mx {
				e.flag("at_capacity_submit")
				if idle == 0 {
					e.flag("eviction_wait")
					e.flag("close_candidate_while_held")
				}
			}
		}
	}
	closesBefore, bornBefore := e.closeCount, e.bornCount
	e.quiet = false
	e.reqs = append(e.reqs, r)
	e.logf("submit req=%d model=%d variant=%d keep=%d", r.id, m, a.Variant%sbNumVariants, a.Keep%len(sbKeepReq))
	// one client's call of GetRunner and what it sees at once. C02 (b): the caller is told "busy" only when the queue really
	// is full (slack: requests submitted at the same instant that may or may not have been queued before this one)
	fire := func(r *sbReq, ctx context.Context, twin bool) {
		okCh, errCh := e.sched.GetRunner(ctx, mdl, opts, sbKeepReq[a.Keep%len(sbKeepReq)])
		e.mu.Lock()
		r.submitted = true
		e.mu.Unlock()
		select {
		case err := <-errCh:
			e.mu.Lock()
			r.replies++
			r.err = err
			e.logf("error req=%d err=%v (immediate)", r.id, err)
			if errors.Is(err, ErrMaxQueue) {
				e.flag("max_queue")
				// a twin call runs on its own goroutine, at a moment the harness does not control: how many requests were
				// unanswered when it reached the queue is not known, so "busy" is not judged for it
				if !twin && unanswered < e.c.MaxQueue {
					e.violate("C02", "request %d was refused with 'server busy' although only %d requests are unanswered (queue limit %d)", r.id, unanswered, e.c.MaxQueue)
				}
			}
			e.mu.Unlock()
		default:
		}
		go e.requester(r, okCh, errCh)
	}
	if a.Twin {
		// two clients at the same instant: each calls GetRunner from its own goroutine and neither call may block (a caller
		// that is neither queued nor told "busy" shows as a request whose GetRunner never returned)
		ctx2, cancel2 := context.WithCancel(context.Background())
		r2 := &sbReq{id: len(e.reqs), model: m, variant: a.Variant, opts: opts, mdl: mdl, cancel: cancel2, keepInf: r.keepInf}
		e.reqs = append(e.reqs, r2)
		e.logf("submit req=%d model=%d variant=%d keep=%d (twin of req=%d)", r2.id, m, a.Variant%sbNumVariants, a.Keep%len(sbKeepReq), r.id)
		e.flag("twin_submit")
		e.mu.Unlock()
		go fire(r2, ctx2, true)
		go fire(r, ctx, true)
		if !a.Burst {
			e.settle()
		}
		return
	}
	e.mu.Unlock()
	fire(r, ctx, false)

	if a.Burst || (reuse == nil && !needRoom) {
		if !a.Burst {
			e.settle()
		}
		return
	}
	if !e.settle() {
		return
	}
	e.mu.Lock()
	defer e.mu.Unlock()
	if len(e.sched.pendingReqCh) != 0 {
		return // the pending loop is still busy with an earlier (cancelled) request; nothing can be concluded
	}
	if r.cancelled {
		return // the client gave up while the scheduler was evaluating the runner for it (AtPing): it need not be served
	}
	if reuse != nil {
		e.flag("reuse_checked")
		if r.granted != reuse {
			e.violate("C11", "request %d for model %d with compatible options was not served by the loaded, healthy runner %d (granted: %v, error: %v, new runners started: %d)",
				r.id, m, reuse.id, sbInstID(r.granted), r.err, e.bornCount-bornBefore)
		} else if e.bornCount != bornBefore {
			e.violate("C11", "a new runner was started although request %d could reuse runner %d", r.id, reuse.id)
		}
	}
	if needRoom {
		e.flag("idle_first_checked")
		if e.closeCount == closesBefore && e.bornCount == bornBefore && r.replies == 0 {
			e.violate("C11", "request %d needs room, an idle runner exists, yet nothing was evicted and nothing started (the scheduler is waiting on a busy runner)", r.id)
		}
	}
}

// quietLocked: the last settle was a hard one, every earlier request has been answered or cancelled, no load is
// undecided. A cancelled request may still occupy the scheduler's pending loop (it keeps waiting for an eviction on
// its behalf), so the expectations are additionally evaluated only if the new request was dequeued (see submit).
func (e *sbEngine) quietLocked() bool {
	if e.unresolved != 0 || e.unloading.Load() != 0 || !e.quiet || time.Now().Before(e.recoverUntil) {
		return false
	}
	for _, r := range e.reqs {
		if r.replies == 0 && !r.cancelled {
			return false
		}
	}
	return len(e.sched.pendingReqCh) == 0
}
