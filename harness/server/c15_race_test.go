package server

// C15 — concurrent API use causes no data race, no panic and no torn view of running models. Generated workloads of
// concurrent clients against one live router with the real scheduler (real time: the instrument is the Go race
// detector, the binary is built with -race) and a fake runner. DESIGN.md §3 C15.

import (
	"errors"
	"strconv"
	"regexp"
	"bytes"
	"context"
	"encoding/json"
	"flag"
	"fmt"
	"io"
	"net/http/httptest"
	"os"
	"runtime"
	"sort"
	"strings"
	"sync"
	"sync/atomic"
	"testing"
	"time"

	"github.com/gin-gonic/gin"
	"github.com/ollama/ollama/api"
	"github.com/ollama/ollama/discover"
	"github.com/ollama/ollama/fs/ggml"
	"github.com/ollama/ollama/llm"
	"pgregory.net/rapid"
	"verif.local/vfkit"
)

type c15Req struct {
	Kind  string `json:"k"` // generate chat embed ps tags show create createfrom copy delete blob unload
	Model int    `json:"m,omitempty"`
	To    int    `json:"to,omitempty"`
	Keep  int    `json:"ka,omitempty"`
	GGUF  int    `json:"g,omitempty"`
	Strm  bool   `json:"s,omitempty"`
	Quit  int    `json:"q,omitempty"` // the client gives up (closes the connection) after this many microseconds; 0 = never
}

type c15Case struct {
	MaxLoaded int        `json:"max_loaded"`
	KeepAlive int        `json:"keep_alive"`
	LoadUs    int        `json:"load_us"`
	FailEvery int        `json:"fail_every,omitempty"` // every n-th runner fails to load (the process dies while loading); 0 = none
	ChunkUs   int        `json:"chunk_us,omitempty"`   // real microseconds the runner takes per generated piece
	Linger    int        `json:"linger,omitempty"`     // pieces the runner still produces after the request's context has ended (aborting a computation takes time)
	Perturb   uint32     `json:"perturb,omitempty"`    // 0 = off; otherwise yields / short real pauses at the instrumented lock and channel operations of sched.go and routes.go
	Clients   [][]c15Req `json:"clients"`
}

var (
	c15Models = []string{"m0", "m1", "m2", "ns/m3"}
	c15Extra  = []string{"x0", "x1", "X0", "ns/x2"}
	c15Keep   = []any{nil, 0, "5ms", "20ms", "1s", -1}
	c15KeepEv = []string{"", "10ms", "30ms", "0"}
)

func c15Gen(t *rapid.T) c15Case {
	var c c15Case
	c.MaxLoaded = rapid.IntRange(1, 3).Draw(t, "max_loaded")
	c.KeepAlive = rapid.IntRange(0, len(c15KeepEv)-1).Draw(t, "keep_alive")
	c.LoadUs = rapid.SampledFrom([]int{0, 100, 1000, 3000}).Draw(t, "load_us")
	c.FailEvery = rapid.SampledFrom([]int{0, 0, 2, 3, 5}).Draw(t, "fail_every")
	c.ChunkUs = rapid.SampledFrom([]int{0, 0, 30, 200}).Draw(t, "chunk_us")
	c.Linger = rapid.SampledFrom([]int{0, 0, 1, 3}).Draw(t, "linger")
	if rapid.IntRange(0, 2).Draw(t, "perturbed") > 0 {
		c.Perturb = rapid.Uint32Range(1, 1<<30).Draw(t, "perturb")
	}
	nc := rapid.IntRange(3, 10).Draw(t, "clients")
	for i := 0; i < nc; i++ {
		n := rapid.IntRange(3, 20).Draw(t, "n_req")
		var rs []c15Req
		for j := 0; j < n; j++ {
			var r c15Req
			r.Kind = rapid.SampledFrom([]string{"generate", "generate", "generate", "chat", "chat", "embed", "ps", "ps", "ps", "tags", "show",
				"create", "createfrom", "copy", "delete", "blob", "unload", "unload"}).Draw(t, "kind")
			r.Model = rapid.IntRange(0, len(c15Models)-1).Draw(t, "model")
			r.To = rapid.IntRange(0, len(c15Extra)-1).Draw(t, "to")
			r.Keep = rapid.IntRange(0, len(c15Keep)-1).Draw(t, "keep")
			r.GGUF = rapid.IntRange(0, 2).Draw(t, "gguf")
			r.Strm = rapid.Bool().Draw(t, "stream")
			if rapid.IntRange(0, 4).Draw(t, "quits") == 0 {
				r.Quit = rapid.SampledFrom([]int{1, 50, 200, 1000, 3000}).Draw(t, "quit_us")
			}
			rs = append(rs, r)
		}
		c.Clients = append(c.Clients, rs)
	}
	return c
}

// The driver overlays copies of sched.go and routes.go with a verifYield call in front of every stand-alone lock statement
// and channel operation (CHECK key yield_points). In this real-time check the hook stretches those windows as a function of
// the case's perturbation seed and the call's ordinal: which goroutine gets there first still is the Go scheduler's choice.
var (
	c15PerturbSeed  atomic.Uint32
	c15PerturbCalls atomic.Uint32
)

func init() { verifYield = c15Yield }

func c15Yield(where string) {
	seed := c15PerturbSeed.Load()
	if seed == 0 {
		return
	}
	h := seed*2654435761 + c15PerturbCalls.Add(1)*40503
	for _, b := range []byte(where) {
		h = (h ^ uint32(b)) * 16777619
	}
	switch h >> 28 {
	case 0:
		time.Sleep(time.Duration(20+h%180) * time.Microsecond)
	case 1, 2, 3, 4:
		for i := uint32(0); i < 1+h%4; i++ {
			runtime.Gosched()
		}
	}
}

// c15Runner is the fake runner process. Events (birth, close, ps start/end) are stamped with one atomic counter.
type c15Runner struct {
	w     *c15World
	name  string
	born  int64
	close atomic.Int64
	delay time.Duration
	fail  bool // the load fails
}

func (r *c15Runner) Ping(context.Context) error { return nil }
func (r *c15Runner) WaitUntilRunning(ctx context.Context) error {
	if r.delay > 0 {
		select {
		case <-time.After(r.delay):
		case <-ctx.Done():
			return ctx.Err()
		}
	}
	if r.fail {
		return errors.New("fake: llama runner process has terminated")
	}
	return nil
}
func (r *c15Runner) Completion(ctx context.Context, req llm.CompletionRequest, fn func(llm.CompletionResponse)) error {
	late := 0
	for _, s := range []string{"Hel", "lo ", "wor", "ld", "!", " Bye"} {
		if ctx.Err() != nil {
			// the client has gone: the runner notices after a few more pieces
			if late >= r.w.linger {
				return ctx.Err()
			}
			late++
		}
		if r.w.chunkUs > 0 {
			time.Sleep(time.Duration(r.w.chunkUs) * time.Microsecond)
		}
		fn(llm.CompletionResponse{Content: s})
	}
	fn(llm.CompletionResponse{Done: true, DoneReason: llm.DoneReasonStop, PromptEvalCount: 3, EvalCount: 4, PromptEvalDuration: 1, EvalDuration: 1})
	return nil
}
func (r *c15Runner) Embedding(context.Context, string) ([]float32, error) {
	return []float32{0.1, 0.2, 0.3}, nil
}
func (r *c15Runner) Tokenize(_ context.Context, s string) (tokens []int, err error) {
	for range strings.Fields(s) {
		tokens = append(tokens, len(tokens))
	}
	return
}
func (r *c15Runner) Detokenize(context.Context, []int) (string, error) { return "", nil }
func (r *c15Runner) Close() error {
	r.close.CompareAndSwap(0, r.w.clock.Add(1))
	return nil
}
func (r *c15Runner) EstimatedVRAM() uint64            { return 1 << 20 }
func (r *c15Runner) EstimatedTotal() uint64           { return 1 << 20 }
func (r *c15Runner) EstimatedVRAMByGPU(string) uint64 { return 1 << 20 }

type c15World struct {
	clock   atomic.Int64
	mu      sync.Mutex
	runners []*c15Runner
	loadUs  int
	failN   int
	chunkUs int
	linger  int
}

func (w *c15World) newServer(_ discover.GpuInfoList, model string, _ *ggml.GGML, _, _ []string, _ api.Options, _ int) (llm.LlamaServer, error) {
	r := &c15Runner{w: w, name: model, born: w.clock.Add(1), delay: time.Duration(w.loadUs) * time.Microsecond}
	w.mu.Lock()
	w.runners = append(w.runners, r)
	r.fail = w.failN > 0 && len(w.runners)%w.failN == 0
	w.mu.Unlock()
	return r, nil
}

type c15ErrWriter struct {
	mu  sync.Mutex
	buf bytes.Buffer
}

func (e *c15ErrWriter) Write(p []byte) (int, error) {
	e.mu.Lock()
	defer e.mu.Unlock()
	if e.buf.Len() < 1<<20 {
		e.buf.Write(p)
	}
	return len(p), nil
}

func c15Run(c c15Case) (classes []string, nontrivial bool, err error) {
	c04Init()
	frHome()
	gin.SetMode(gin.TestMode)
	ew := &c15ErrWriter{}
	gin.DefaultWriter, gin.DefaultErrorWriter = io.Discard, ew
	dir, derr := os.MkdirTemp("", "c15-")
	if derr != nil {
		return nil, false, nil
	}
	defer os.RemoveAll(dir)
	os.Setenv("OLLAMA_MODELS", dir)
	os.Setenv("OLLAMA_MAX_LOADED_MODELS", fmt.Sprint(c.MaxLoaded))
	os.Setenv("OLLAMA_MAX_QUEUE", "64")
	os.Setenv("OLLAMA_NUM_PARALLEL", "2")
	if ka := c15KeepEv[c.KeepAlive%len(c15KeepEv)]; ka != "" {
		os.Setenv("OLLAMA_KEEP_ALIVE", ka)
	} else {
		os.Unsetenv("OLLAMA_KEEP_ALIVE")
	}
	c15PerturbSeed.Store(c.Perturb)
	defer c15PerturbSeed.Store(0)
	w := &c15World{loadUs: c.LoadUs, failN: c.FailEvery, chunkUs: c.ChunkUs, linger: c.Linger}
	ctx, cancel := context.WithCancel(context.Background())
	defer cancel()
	s := Server{sched: InitScheduler(ctx)}
	s.sched.newServerFn = w.newServer
	gpu := discover.GpuInfo{Library: "metal", ID: "0"}
	gpu.TotalMemory, gpu.FreeMemory = 1<<40, 1<<40
	s.sched.getGpuFn = func() discover.GpuInfoList { return discover.GpuInfoList{gpu} }
	s.sched.getCpuFn = func() discover.GpuInfoList { return discover.GpuInfoList{gpu} }
	s.sched.Run(ctx)
	h, herr := s.GenerateRoutes(nil)
	if herr != nil {
		return nil, false, nil
	}
	var outstanding, served, abandoned atomic.Int64
	doQ := func(method, path string, body any, quitUs int) (int, []byte) {
		var rd io.Reader = bytes.NewReader(nil)
		switch b := body.(type) {
		case nil:
		case []byte:
			rd = bytes.NewReader(b)
		default:
			js, _ := json.Marshal(b)
			rd = bytes.NewReader(js)
		}
		rctx, rcancel := context.WithCancel(context.Background())
		defer rcancel() // as a connection: the request context ends when the handler has returned
		if quitUs > 0 {
			tm := time.AfterFunc(time.Duration(quitUs)*time.Microsecond, rcancel) // the client goes away mid-request
			defer tm.Stop()
		}
		req := httptest.NewRequest(method, path, rd).WithContext(rctx)
		rw := &c04Recorder{ResponseRecorder: httptest.NewRecorder()}
		if quitUs == 0 {
			outstanding.Add(1)
			h.ServeHTTP(rw, req)
			outstanding.Add(-1)
			served.Add(1)
			return rw.Code, rw.Body.Bytes()
		}
		// A client that gives up does not wait for the handler: a request cancelled while it is queued gets no reply
		// from the scheduler at all (allowed: "a cancelled request receives at most one") and its handler never returns.
		fin := make(chan struct{})
		go func() {
			defer close(fin)
			h.ServeHTTP(rw, req)
			served.Add(1)
		}()
		select {
		case <-fin:
			return rw.Code, rw.Body.Bytes()
		case <-rctx.Done():
		}
		select {
		case <-fin:
			return rw.Code, rw.Body.Bytes()
		case <-time.After(2 * time.Millisecond):
			abandoned.Add(1)
			return -1, nil // gone; the response, if any, is never looked at
		}
	}
	do := func(method, path string, body any) (int, []byte) { return doQ(method, path, body, 0) }
	// the models every client uses exist before the concurrent phase
	for i, name := range c15Models {
		g := c04GGUFs[i%len(c04GGUFs)]
		do("POST", "/api/blobs/"+frDigest(g), g)
		creq := map[string]any{"model": name, "files": map[string]string{"m.gguf": frDigest(g)}, "stream": false,
			"template": "{{ .System }} {{ .Prompt }}", "system": "be brief", "license": "L" + fmt.Sprint(i),
			// MESSAGE and PARAMETER entries: per-model slices and maps that every request for the model reads (and chat / show
			// extend) - they must not be shared between requests
			"messages":   []map[string]string{{"role": "user", "content": "q1"}, {"role": "assistant", "content": "a1"}, {"role": "user", "content": "q2"}}[:1+2*(i%2)],
			"parameters": map[string]any{"temperature": 0.5, "stop": []string{"<stop>"}}}
		if i >= 2 {
			delete(creq, "template") // models without a TEMPLATE layer all use the one package-level default template
		}
		if code, body := do("POST", "/api/create", creq); code != 200 {
			return nil, false, fmt.Errorf("set-up create of %s failed: %d %s", name, code, body)
		}
	}

	paths := map[string]string{}
	for _, name := range c15Models {
		if m, gerr := GetModel(name); gerr == nil {
			paths[name] = m.ModelPath
		}
	}
	var mu sync.Mutex
	cls := map[string]bool{}
	var firstErr error
	fail := func(f string, a ...any) {
		mu.Lock()
		if firstErr == nil {
			firstErr = fmt.Errorf(f, a...)
		}
		mu.Unlock()
	}
	var wg sync.WaitGroup
	for ci, reqs := range c.Clients {
		wg.Add(1)
		go func(ci int, reqs []c15Req) {
			defer wg.Done()
			for ri, r := range reqs {
				name := c15Models[r.Model%len(c15Models)]
				extra := c15Extra[r.To%len(c15Extra)]
				keep := c15Keep[r.Keep%len(c15Keep)]
				var code int
				var body []byte
				switch r.Kind {
				case "generate":
					req := map[string]any{"model": name, "prompt": "hello there", "stream": r.Strm}
					if keep != nil {
						req["keep_alive"] = keep
					}
					code, body = doQ("POST", "/api/generate", req, r.Quit)
				case "chat":
					req := map[string]any{"model": name, "messages": []map[string]string{{"role": "user", "content": "hi you"}}, "stream": r.Strm}
					if keep != nil {
						req["keep_alive"] = keep
					}
					code, body = doQ("POST", "/api/chat", req, r.Quit)
				case "embed":
					code, body = doQ("POST", "/api/embed", map[string]any{"model": name, "input": "some text"}, r.Quit)
				case "unload":
					code, body = do("POST", "/api/generate", map[string]any{"model": name, "keep_alive": 0})
				case "ps":
					before := w.clock.Add(1)
					code, body = do("GET", "/api/ps", nil)
					after := w.clock.Add(1)
					var pr api.ProcessResponse
					if code == 200 && json.Unmarshal(body, &pr) == nil {
						w.mu.Lock()
						rs := append([]*c15Runner{}, w.runners...)
						w.mu.Unlock()
						for _, m := range pr.Models {
							path, known := paths[strings.TrimSuffix(m.Name, ":latest")]
							if !known {
								continue
							}
							ok := false
							for _, rn := range rs {
								// a listed model must have had a live runner at some moment of the call
								if cl := rn.close.Load(); rn.name == path && rn.born < after && (cl == 0 || cl > before) {
									ok = true
								}
							}
							if !ok {
								fail("GET /api/ps listed %q although no runner of that model was alive at any moment of the call (every one had been shut down before it began or was started after it ended)", m.Name)
							}
						}
						mu.Lock()
						if len(pr.Models) > 0 {
							cls["ps_nonempty"] = true
						}
						mu.Unlock()
					}
				case "tags":
					code, body = do("GET", "/api/tags", nil)
				case "show":
					sreq := map[string]any{"model": name}
					if (ci+ri)%2 == 1 { // the rarely used per-request overrides of show
						sreq["options"] = map[string]any{"temperature": float64(ci), "seed": ri}
						sreq["system"] = fmt.Sprint("sys ", ci)
					}
					code, body = do("POST", "/api/show", sreq)
				case "create":
					g := c04GGUFs[r.GGUF%len(c04GGUFs)]
					do("POST", "/api/blobs/"+frDigest(g), g)
					code, body = do("POST", "/api/create", map[string]any{"model": extra, "files": map[string]string{"m.gguf": frDigest(g)}, "stream": r.Strm, "system": fmt.Sprint("s", ci)})
				case "createfrom":
					code, body = do("POST", "/api/create", map[string]any{"model": extra, "from": name, "stream": r.Strm, "system": fmt.Sprint("t", ci)})
				case "copy":
					code, body = do("POST", "/api/copy", map[string]any{"source": name, "destination": extra})
				case "delete":
					code, body = do("DELETE", "/api/delete", map[string]any{"model": extra})
				case "blob":
					g := c04GGUFs[r.GGUF%len(c04GGUFs)]
					code, body = do("POST", "/api/blobs/"+frDigest(g), g)
				}
				if code == -1 {
					mu.Lock()
					cls["client_gave_up_unanswered"] = true
					mu.Unlock()
					continue
				}
				if code >= 600 || code == 0 && r.Kind != "ps" {
					fail("%s answered with status %d: %s", r.Kind, code, body)
				}
				mu.Lock()
				cls["req_"+r.Kind] = true
				if code >= 500 {
					cls["status_5xx_"+r.Kind] = true
				}
				mu.Unlock()
			}
		}(ci, reqs)
	}
	waitDone := make(chan struct{})
	go func() { wg.Wait(); close(waitDone) }()
	// Liveness: a workload takes a fraction of a second. If requests are still outstanding after a long real-time budget
	// AND no goroutine of the process can run (two dumps, seconds apart, nothing running or runnable and no request
	// served in between), the server has wedged: every remaining request would wait for ever.
	for waiting := true; waiting; {
		select {
		case <-waitDone:
			waiting = false
		case <-time.After(20 * time.Second):
			before := served.Load()
			s1, ok1 := c15Parked()
			time.Sleep(3 * time.Second)
			s2, ok2 := c15Parked()
			if ok1 && ok2 && s1 == s2 && served.Load() == before && outstanding.Load() > 0 {
				return nil, true, fmt.Errorf("the server wedged: %d request(s) have been waiting for more than 20 s and no goroutine can run any more; ollama goroutines are parked at: %s", outstanding.Load(), s2)
			}
		}
	}
	// wind down: unload everything, let the scheduler go idle
	for _, name := range c15Models {
		do("POST", "/api/generate", map[string]any{"model": name, "keep_alive": 0})
	}
	for i := 0; i < 200; i++ {
		s.sched.loadedMu.Lock()
		n := len(s.sched.loaded)
		s.sched.loadedMu.Unlock()
		if n == 0 {
			break
		}
		time.Sleep(2 * time.Millisecond) // budget only: a non-empty list after it is not a verdict of this property
	}
	if code, _ := do("GET", "/api/version", nil); code != 200 {
		fail("the server no longer answers GET /api/version after the workload (%d)", code)
	}
	ew.mu.Lock()
	logged := ew.buf.String()
	ew.mu.Unlock()
	if i := strings.Index(logged, "panic recovered"); i >= 0 {
		fail("a request made the server panic (recovered by gin):\n%s", logged[i:min(len(logged), i+3000)])
	}
	w.mu.Lock()
	nr := len(w.runners)
	w.mu.Unlock()
	if nr >= 2 {
		cls["several_loads"] = true
	}
	nontrivial = nr >= 2 && cls["req_ps"]
	for k := range cls {
		classes = append(classes, k)
	}
	sort.Strings(classes)
	return classes, nontrivial, firstErr
}

// c15Parked summarises where ollama's goroutines are parked; ok=false if any goroutine (other than the caller) is
// running or runnable, i.e. the process is merely slow.
func c15Parked() (string, bool) {
	buf := make([]byte, 8<<20)
	buf = buf[:runtime.Stack(buf, true)]
	ok := true
	var parts []string
	for i, g := range strings.Split(string(buf), "\n\n") {
		if i == 0 {
			continue // the caller
		}
		head, _, _ := strings.Cut(g, "\n")
		a, b := strings.Index(head, "["), strings.Index(head, "]")
		if a < 0 || b < a {
			continue
		}
		state := head[a+1 : b]
		if strings.HasPrefix(state, "running") || strings.HasPrefix(state, "runnable") {
			ok = false
		}
		for _, l := range strings.Split(g, "\n") {
			if strings.HasPrefix(l, "github.com/ollama/ollama/server.(") && !strings.Contains(l, ".c15") {
				fn := l[len("github.com/ollama/ollama/"):]
				if j := strings.LastIndex(fn, "("); j > 0 {
					fn = fn[:j]
				}
				st, _, _ := strings.Cut(state, ",")
				parts = append(parts, fn+"@"+strings.TrimSpace(st))
				break
			}
		}
	}
	sort.Strings(parts)
	return strings.Join(parts, "; "), ok
}

// ---- race reports. The binary runs with GORACE="halt_on_error=0 log_path=<prefix>": the detector appends every report
// (one per pair of code locations per process) to <prefix>.<pid>; after each case the new reports are read and
// classified by the pair of innermost ollama functions. Listed findings are counted and skipped, anything else is
// a violation attributed to the case that was running.

var c15RaceOff int64

var c15KnownRaces = map[string]string{ // signature substring -> known finding name
	"read in server.(*Server).PsHandler <-> write in server.(*Scheduler).processCompleted":                   "sched-runner-fields-read-without-refmu",
	"read in server.(*Server).PsHandler <-> write in server.(*Scheduler).processPending":                     "sched-runner-fields-read-without-refmu",
	"read in server.(*Server).PsHandler <-> write in server.(*LlmRequest).useLoadedRunner":                   "sched-runner-fields-read-without-refmu",
	"read in server.(*Server).PsHandler <-> write in server.(*Scheduler).expireRunner":                       "sched-runner-fields-read-without-refmu",
	"read in server.ByDurationAndName.Less <-> write in server.":                                             "sched-runner-fields-read-without-refmu",
	"read in server.(*Scheduler).filterGPUsWithoutLoadingModels <-> write in server.(*Scheduler).load.func1": "sched-runner-fields-read-without-refmu",
}

// c15RunnerFields: the fields of runnerRef (sched.go); a race signature names the one both racing source lines mention.
var c15RunnerFields = []string{"refCount", "llama", "loading", "gpus", "estimatedVRAM", "estimatedTotal", "sessionDuration", "expireTimer",
	"expiresAt", "model", "modelPath", "numParallel", "Options"}

// c15KnownRaceFields: the fields the listed finding is about; a race on another field between the same functions is new.
var c15KnownRaceFields = map[string]bool{"expiresAt": true, "sessionDuration": true, "loading": true, "gpus": true}

var c15FieldRe = regexp.MustCompile(`\.([A-Za-z_][A-Za-z0-9_]*)`)

// c15RaceSig: "read in F [line tokens] <-> write in G [line tokens] {field}": the innermost ollama function of each
// access, and the runnerRef field that both racing source lines mention ({} if none or the source cannot be read).
func c15RaceSig(report string) string {
	var tops []string
	var toks []map[string]bool
	for _, blk := range strings.Split(report, "\n\n") {
		head := strings.SplitN(strings.TrimSpace(blk), "\n", 2)[0]
		if !(strings.Contains(head, "by goroutine") || strings.Contains(head, "by main goroutine")) {
			continue
		}
		acc := "write"
		if strings.Contains(strings.ToLower(head), "read") {
			acc = "read"
		}
		top := "?"
		fields := map[string]bool{}
		lines := strings.Split(blk, "\n")
		for i, l := range lines {
			l = strings.TrimSpace(l)
			if strings.HasPrefix(l, "github.com/ollama/ollama/") && !strings.Contains(l, "zz_verif") && !strings.Contains(l, ".c15") && !strings.Contains(l, ".c04") {
				top = strings.TrimSuffix(strings.TrimPrefix(l, "github.com/ollama/ollama/"), "()")
				if i+1 < len(lines) { // "      /path/file.go:123 +0x1f"
					loc := strings.Fields(strings.TrimSpace(lines[i+1]))
					if len(loc) > 0 {
						if j := strings.LastIndexByte(loc[0], ':'); j > 0 {
							n, _ := strconv.Atoi(loc[0][j+1:])
							if src, err := os.ReadFile(c15SourceOf(loc[0][:j])); err == nil && n > 0 {
								if sl := strings.Split(string(src), "\n"); n <= len(sl) {
									for _, m := range c15FieldRe.FindAllStringSubmatch(sl[n-1], -1) {
										fields[m[1]] = true
									}
								}
							}
						}
					}
				}
				break
			}
		}
		tops = append(tops, acc+" in "+top)
		toks = append(toks, fields)
	}
	var common []string
	if len(toks) == 2 {
		for _, f := range c15RunnerFields {
			if toks[0][f] && toks[1][f] {
				common = append(common, f)
			}
		}
	}
	sort.Strings(tops)
	return strings.Join(tops, " <-> ") + " {" + strings.Join(common, ",") + "}"
}

// c15SourceOf: the file a reported line number refers to. sched.go and routes.go are compiled from instrumented copies
// (yield_points): the report names the original path, the line is a line of the copy (VERIF_YIELD_FILES, set by the driver).
var c15YieldFiles = sync.OnceValue(func() map[string]string {
	m := map[string]string{}
	json.Unmarshal([]byte(os.Getenv("VERIF_YIELD_FILES")), &m)
	return m
})

func c15SourceOf(path string) string {
	if p, ok := c15YieldFiles()[path]; ok {
		return p
	}
	return path
}

// c15RaceIsKnown: the function pair is one of the listed finding's and the field both lines mention is one of its fields.
func c15RaceIsKnown(sig, sub string) bool {
	if !strings.Contains(sig, sub) {
		return false
	}
	i, j := strings.LastIndexByte(sig, '{'), strings.LastIndexByte(sig, '}')
	if i < 0 || j <= i+1 {
		return false
	}
	for _, f := range strings.Split(sig[i+1:j], ",") {
		if !c15KnownRaceFields[f] {
			return false
		}
	}
	return true
}

// c15NewRaces returns the reports written since the last call.
func c15NewRaces() []string {
	prefix := os.Getenv("C15_RACE_LOG")
	if prefix == "" {
		return nil
	}
	b, err := os.ReadFile(fmt.Sprintf("%s.%d", prefix, os.Getpid()))
	if err != nil || int64(len(b)) <= c15RaceOff {
		return nil
	}
	txt := string(b[c15RaceOff:])
	c15RaceOff = int64(len(b))
	var out []string
	for _, part := range strings.Split(txt, "WARNING: DATA RACE")[1:] {
		if i := strings.Index(part, "=================="); i >= 0 {
			part = part[:i]
		}
		out = append(out, strings.TrimSpace(part))
	}
	return out
}

func c15CheckRaces(rec *vfkit.Recorder, strict bool) error {
	time.Sleep(5 * time.Millisecond) // the detector writes its report from the racing goroutine; budget only
	for _, rep := range c15NewRaces() {
		sig := c15RaceSig(rep)
		if lf := os.Getenv("C15_LIST_ALL"); lf != "" { // development aid: every signature, listed finding or not
			if f, err := os.OpenFile(lf, os.O_APPEND|os.O_CREATE|os.O_WRONLY, 0o644); err == nil {
				fmt.Fprintf(f, "RACE-SIG %s\n", sig)
				f.Close()
			}
		}
		known := ""
		for sub, name := range c15KnownRaces {
			if c15RaceIsKnown(sig, sub) && rec.Known(name) && !strict {
				known = name
			}
		}
		if known != "" {
			rec.Excluded(known)
			continue
		}
		if lf := os.Getenv("C15_LIST_ONLY"); lf != "" { // development aid: list every race (to that file) instead of stopping at the first
			if f, err := os.OpenFile(lf, os.O_APPEND|os.O_CREATE|os.O_WRONLY, 0o644); err == nil {
				fmt.Fprintf(f, "RACE-SIG %s\n", sig)
				f.Close()
			}
			continue
		}
		if len(rep) > 5000 {
			rep = rep[:5000]
		}
		return fmt.Errorf("data race: %s\n%s", sig, rep)
	}
	return nil
}

// The workload cannot run inside a testing.T: the testing package fails any test during which the race detector
// reported something, known finding or not. It runs from TestMain instead, on a minimal rapid.TB of its own.

type c15TB struct {
	mu     sync.Mutex
	failed bool
	msgs   []string
}

func (t *c15TB) Helper()      {}
func (t *c15TB) Name() string { return "TestC15Race" }
func (t *c15TB) Logf(f string, a ...any) {
	t.mu.Lock()
	if len(t.msgs) < 200 {
		t.msgs = append(t.msgs, fmt.Sprintf(f, a...))
	}
	t.mu.Unlock()
}
func (t *c15TB) Log(a ...any)              { t.Logf("%s", fmt.Sprint(a...)) }
func (t *c15TB) Skipf(f string, a ...any)  { t.Logf(f, a...); runtime.Goexit() }
func (t *c15TB) Skip(a ...any)             { t.Log(a...); runtime.Goexit() }
func (t *c15TB) SkipNow()                  { runtime.Goexit() }
func (t *c15TB) Errorf(f string, a ...any) { t.Logf(f, a...); t.Fail() }
func (t *c15TB) Error(a ...any)            { t.Log(a...); t.Fail() }
func (t *c15TB) Fatalf(f string, a ...any) { t.Logf(f, a...); t.FailNow() }
func (t *c15TB) Fatal(a ...any)            { t.Log(a...); t.FailNow() }
func (t *c15TB) FailNow()                  { t.Fail(); runtime.Goexit() }
func (t *c15TB) Fail()                     { t.mu.Lock(); t.failed = true; t.mu.Unlock() }
func (t *c15TB) Failed() bool              { t.mu.Lock(); defer t.mu.Unlock(); return t.failed }

func TestC15Race(t *testing.T) { t.Skip("runs from TestMain") }

func TestMain(m *testing.M) {
	flag.Parse()
	if os.Getenv("VERIF_ID") != "C15" {
		os.Exit(m.Run())
	}
	const target = "TestC15Race"
	rec := vfkit.Open(target)
	tb := &c15TB{}
	done := make(chan struct{})
	go func() {
		defer close(done)
		var rc c15Case
		if rp, ok, err := vfkit.ReplayCase(target, &rc); ok {
			if err != nil {
				tb.Fatalf("replay: %v", err)
			}
			rec.Current(target, rc)
			for i := 0; i < max(1, rp.Repeat); i++ {
				_, _, err := c15Run(rc)
				if err == nil {
					err = c15CheckRaces(rec, true) // a replay is judged strictly: listed findings are not excused
				}
				if err != nil {
					rec.Fail(target, rc, err.Error())
					tb.Fatalf("C15 violated: %v", err)
				}
			}
			return
		}
		rapid.Check(tb, func(rt *rapid.T) {
			if rec.OverBudget() {
				return
			}
			c := c15Gen(rt)
			rec.Current(target, c)
			classes, nt, err := c15Run(c)
			if err == nil {
				err = c15CheckRaces(rec, false)
			}
			rec.Case(c, nt, classes...)
			if err != nil {
				rec.Fail(target, c, err.Error())
				rt.Fatalf("C15 violated: %v", err)
			}
		})
	}()
	<-done
	rec.Flush()
	for _, l := range tb.msgs {
		fmt.Println(l)
	}
	if tb.Failed() {
		os.Exit(1)
	}
	os.Exit(0)
}
