package server

import (
	"context"
	"errors"
	"fmt"
	"log/slog"
	"os"
	"runtime"
	"sort"
	"strings"
	"sync/atomic"
	"testing"
	"testing/synctest"
	"time"

	"github.com/ollama/ollama/discover"
	"pgregory.net/rapid"
	"verif.local/vfkit"
)

type sbrInfo struct {
	flags   map[string]bool
	classes []string
	log     []string
	// the end-state oracle ran in a state in which the scheduler's two loops wait for each other on their full event
	// channels (known finding sbrKnownEventCycle); endStateFrom = index of the first violation recorded by that oracle
	eventCycle   bool
	endStateFrom int
}

// Finding of this target (server/sched.go, repaired in /repo as ea907bcc6): processCompleted waited to post on a full
// unloadedCh while processPending (the only reader of unloadedCh) waited to post on a full expiredCh (whose only reader is
// processCompleted); handlers calling expireRunner piled up behind. Reached with OLLAMA_MAX_QUEUE=2 (the capacity of both
// channels) after several failed or abandoned loads. replays/C02/sched-event-channels-full-cycle.json is its regression.
// The signature stays next to the oracle: it only excludes anything while the finding is listed in known_findings.json.
const sbrKnownEventCycle = "sched-event-channels-full-cycle"

type sbrPendingViol struct {
	c    sbrCase
	viol []sbViolation
}

var (
	sbrPending atomic.Pointer[sbrPendingViol]
	sbrCurrent atomic.Pointer[sbEngine] // the running case's engine, for the watchdog's report
)

// sbrLogTail is called by the watchdog when every goroutine is parked: the log's mutex is free unless its holder is
// itself parked, hence TryLock.
func sbrLogTail() string {
	e := sbrCurrent.Load()
	if e == nil || !e.mu.TryLock() {
		return ""
	}
	defer e.mu.Unlock()
	tail := e.log
	if len(tail) > 70 {
		tail = tail[len(tail)-70:]
	}
	return "\n  event log (tail):\n    " + strings.Join(tail, "\n    ")
}

// OLLAMA_LOAD_TIMEOUT values of the route-level cases: requests that outlast it are frequent with the short ones
var sbrLoadTimeouts = []string{"", "", "1s", "45s"}

func sbrRun(t *testing.T, c sbrCase, prop string) (info sbrInfo, viol []sbViolation, err error) {
	sbrInit()
	setenv := func(k, v string) {
		if v == "" {
			os.Unsetenv(k)
		} else {
			os.Setenv(k, v)
		}
	}
	setenv("OLLAMA_MAX_LOADED_MODELS", map[bool]string{true: fmt.Sprint(c.MaxRunners), false: ""}[c.MaxRunners > 0])
	setenv("OLLAMA_NUM_PARALLEL", map[bool]string{true: fmt.Sprint(c.NumParallel), false: ""}[c.NumParallel > 0])
	setenv("OLLAMA_MAX_QUEUE", fmt.Sprint(c.MaxQueue))
	setenv("OLLAMA_KEEP_ALIVE", sbKeepEnv[c.KeepAlive%len(sbKeepEnv)])
	setenv("OLLAMA_SCHED_SPREAD", "")
	setenv("OLLAMA_LOAD_TIMEOUT", sbrLoadTimeouts[c.LoadTimeout%len(sbrLoadTimeouts)])
	defer os.Unsetenv("OLLAMA_LOAD_TIMEOUT")
	setenv("OLLAMA_GPU_OVERHEAD", "")
	setenv("OLLAMA_CONTEXT_LENGTH", "")
	frHome()

	if c.NModels < 1 {
		c.NModels = 1
	}
	c.NModels = min(c.NModels, 4)
	for len(c.Gated) < 4 {
		c.Gated = append(c.Gated, false)
	}
	e := &sbEngine{flags: map[string]bool{}, prop: prop}
	e.c = sbCase{MaxRunners: c.MaxRunners, NumParallel: c.NumParallel, MaxQueue: c.MaxQueue, KeepAlive: c.KeepAlive, Inventory: c.Inventory,
		Room: c.Room, NModels: c.NModels, Gated: c.Gated, AutoFail: c.AutoFail, CloseUs: c.CloseUs, CloseErr: c.CloseErr, Perturb: c.Perturb}
	x := &sbrEngine{e: e, c: c, ew: &sbrErrWriter{}}
	sbrGinSetup(x.ew)
	sbPerturbSeed.Store(0)
	dir, cerr := x.createModels()
	if dir != "" {
		defer os.RemoveAll(dir)
	}
	if cerr != nil {
		return info, nil, fmt.Errorf("harness set-up: %v", cerr)
	}
	sbPerturbSeed.Store(c.Perturb)
	defer sbPerturbSeed.Store(0)

	room := uint64(float64(sbFiles.need) * sbRoom[c.Room%len(sbRoom)])
	for g := 0; g < c.Inventory; g++ {
		gi := discover.GpuInfo{Library: "metal", Variant: fmt.Sprintf("v%d", g), ID: fmt.Sprint(g)}
		gi.TotalMemory, gi.FreeMemory = room, room
		e.inv = append(e.inv, gi)
	}
	e.cpu = discover.GpuInfo{Library: "cpu", ID: "cpu"}
	e.cpu.TotalMemory, e.cpu.FreeMemory = room, room
	for i := 0; i < 4; i++ { // only used to classify a request against a live runner (sbCompat)
		p := ""
		if i < len(x.paths) {
			p = x.paths[i]
		}
		e.models = append(e.models, &Model{Name: sbrName(i), ShortName: sbrName(i), ModelPath: p})
	}

	sbrCurrent.Store(e)
	defer sbrCurrent.Store(nil)
	sbInCase.Store(1)
	defer sbInCase.Store(0)
	func() {
		defer func() {
			if r := recover(); r != nil {
				e.mu.Lock()
				e.logf("bubble ended with: %v", r)
				e.bubblePanic = fmt.Sprint(r)
				e.mu.Unlock()
			}
		}()
		synctest.Test(t, func(st *testing.T) {
			e.done = make(chan struct{})
			ctx, cancel := context.WithCancel(context.Background())
			s := InitScheduler(ctx)
			s.newServerFn = x.newServer
			s.getGpuFn = e.getGpus
			s.getCpuFn = e.getCpus
			e.sched = s
			srv := &Server{sched: s}
			h, herr := srv.GenerateRoutes(nil)
			if herr != nil {
				err = fmt.Errorf("harness set-up: GenerateRoutes: %v", herr)
				cancel()
				return
			}
			x.h = h
			s.Run(ctx)
			for _, a := range c.Actions {
				x.do(a)
				if x.violated() {
					break
				}
			}
			if !x.violated() {
				x.drain()
				x.violated() // a panic recovered during the drain
			}
			// clean-up: let every goroutine of the case end (handlers of requests that were cancelled while queued never do)
			e.mu.Lock()
			e.draining = true
			x.releaseAll = true
			if len(e.viol) > 0 {
				sbrPending.Store(&sbrPendingViol{c: c, viol: append([]sbViolation{}, e.viol...)})
			}
			var loads []*sbSrv
			for _, i := range e.insts {
				if !i.resolved {
					i.resolved = true
					e.unresolved--
					loads = append(loads, i)
				}
			}
			var gates []chan struct{}
			for _, r := range x.reqs {
				// the case is over: what the handlers answer once their contexts are cancelled is not judged
				r.sb.finished, r.gaveUp = true, true
				if r.gate != nil && !r.released {
					r.released = true
					gates = append(gates, r.gate)
				}
			}
			e.mu.Unlock()
			for _, i := range loads {
				i.gate <- errors.New("fake: case over")
			}
			for _, g := range gates {
				close(g)
			}
			for _, r := range x.reqs {
				r.sb.cancel()
			}
			e.soft()
			cancel()
			close(e.done)
		})
	}()
	sbrPending.Store(nil)

	e.mu.Lock()
	defer e.mu.Unlock()
	info.flags = e.flags
	info.log = e.log
	info.eventCycle, info.endStateFrom = x.eventCycle, x.endStateFrom
	for f := range e.flags {
		info.classes = append(info.classes, "rt_"+f)
	}
	sort.Strings(info.classes)
	if x.softsBeforeDrain > 0 || (!x.releaseAll && e.softs > 0) {
		info.classes = append(info.classes, "rt_had_soft_settle")
	}
	if e.drainIncomplete {
		info.classes = append(info.classes, "rt_drain_incomplete")
	}
	if e.bubblePanic != "" && len(e.viol) == 0 {
		info.classes = append(info.classes, "rt_bubble_leftover_goroutines")
	}
	if len(e.insts) >= 2 {
		info.classes = append(info.classes, "rt_several_loads")
	}
	return info, e.viol, err
}

// sbrWatchdog is sbWatchdog for this target's case type: a wedged server (every goroutine parked while the harness
// waits for quiescence) becomes a reported outcome. Handlers of clients that gave up are parked in scheduleRunner for
// ever on the unchanged tree too: they are durably blocked, never keep the harness waiting and are not part of the signature.
// sbrBlockedSignature is sbBlockedSignature with this file's watchdog excluded and with the handlers that wait on a
// runner's mutex (scheduleRunner, expireRunner called from a handler) added to the signature. With ownBubble (caller
// inside a bubble) only goroutines of the caller's bubble are listed: what earlier cases left parked is not this case's state.
func sbrBlockedSignature(ownBubble bool) (sig string, ok bool, dump string) {
	buf := make([]byte, 4<<20)
	buf = buf[:runtime.Stack(buf, true)]
	dump = string(buf)
	ok = true
	bubble := ""
	var parts []string
	for gi, g := range strings.Split(dump, "\n\n") {
		m := sbHdr.FindStringSubmatch(g)
		if m == nil {
			continue
		}
		state := m[2]
		if gi == 0 && ownBubble { // the caller comes first
			if i := strings.Index(state, "synctest bubble "); i >= 0 {
				bubble = strings.TrimSpace(state[i:])
			}
			continue
		}
		if strings.Contains(g, "sbrWatchdog") || bubble != "" && !strings.HasSuffix(state, bubble) {
			continue
		}
		if strings.HasPrefix(state, "running") || strings.HasPrefix(state, "runnable") || strings.HasPrefix(state, "syscall") {
			ok = false
		}
		st := state
		if i := strings.IndexAny(st, ",("); i > 0 {
			st = strings.TrimSpace(st[:i])
		}
		for _, l := range strings.Split(g, "\n") {
			sched := strings.Contains(l, "ollama/server.(*Scheduler)") || strings.Contains(l, "ollama/server.(*runnerRef)") || strings.Contains(l, "ollama/server.(*LlmRequest)")
			handler := strings.Contains(l, "ollama/server.(*Server)") && strings.HasPrefix(st, "sync.")
			if !sched && !handler {
				continue
			}
			fn := strings.TrimSpace(l)
			if j := strings.LastIndex(fn, "("); j > 0 {
				fn = fn[:j]
			}
			fn = fn[strings.LastIndex(fn, "/")+1:]
			parts = append(parts, fn+"@"+st)
			break
		}
	}
	sort.Strings(parts)
	return strings.Join(parts, "; "), ok, dump
}

func sbrWatchdog(rec *vfkit.Recorder, target, prop string, cur func() (sbrCase, bool)) {
	go func() {
		last := sbProgress.Load()
		lastChange := time.Now()
		for {
			time.Sleep(500 * time.Millisecond)
			p := sbProgress.Load()
			if p != last || sbInCase.Load() == 0 {
				last, lastChange = p, time.Now()
				continue
			}
			if time.Since(lastChange) < 6*time.Second {
				continue
			}
			s1, ok1, _ := sbrBlockedSignature(false)
			time.Sleep(3 * time.Second)
			s2, ok2, dump := sbrBlockedSignature(false)
			if sbProgress.Load() != last || !ok1 || !ok2 || s1 != s2 {
				continue
			}
			if pv := sbrPending.Load(); pv != nil {
				for _, v := range pv.viol {
					if v.prop == prop {
						rec.Fail(target, pv.c, v.msg+" (the server then wedged during clean-up: "+s2+")")
						rec.Flush()
						fmt.Printf("%s violated: %s\n", prop, v.msg)
						os.Exit(1)
					}
				}
			}
			c, have := cur()
			fmt.Printf("WEDGE: no goroutine can run; scheduler goroutines parked at: %s\n", s2)
			os.Stderr.WriteString(dump)
			if prop == "C02" && have {
				rec.Fail(target, c, "the server wedged (every goroutine parked for ever, requests can no longer be answered): "+s2+sbrLogTail())
				rec.Flush()
				os.Exit(1)
			}
			rec.Flush()
			os.Exit(4) // not this property's concern: the driver reports INCONCLUSIVE
		}
	}()
}

func sbrNontrivial(prop string, info sbrInfo) bool {
	f := info.flags
	switch prop {
	case "C01":
		return f["close_candidate_while_held"]
	case "C02":
		return f["failed_load"] || f["giveup_unanswered"] || f["eviction_wait"] || f["max_queue"]
	}
	return false
}

func sbrTest(t *testing.T, target, prop string) {
	rec := vfkit.Open(target)
	defer rec.Flush()
	if os.Getenv("VERIF_VERBOSE") == "" {
		slog.SetDefault(slog.New(sbPerturb{}))
	}
	var curCase atomic.Pointer[sbrCase]
	sbrWatchdog(rec, target, prop, func() (sbrCase, bool) {
		if p := curCase.Load(); p != nil {
			return *p, true
		}
		return sbrCase{}, false
	})
	check := func(c sbrCase, strict bool) (sbrInfo, error) {
		curCase.Store(&c)
		rec.Current(target, c)
		info, viol, err := sbrRun(t, c, prop)
		if err != nil {
			// the harness could not set the case up (temporary directory, model creation): not a verdict
			info.classes = append(info.classes, "rt_setup_failed")
			fmt.Println("sbr:", err)
			return info, nil
		}
		if os.Getenv("SBR_LOG") != "" { // development aid
			fmt.Printf("---- case\n    %s\n", strings.Join(info.log, "\n    "))
		}
		if info.eventCycle && !strict && rec.Known(sbrKnownEventCycle) {
			// listed finding: its class (an end state in which the two scheduler loops wait for each other) is excluded from
			// the generated search; what the case showed before that state is still judged. A replay is judged strictly.
			rec.Excluded(sbrKnownEventCycle)
			info.classes = append(info.classes, "rt_excluded_known_event_cycle")
			viol = viol[:min(len(viol), info.endStateFrom)]
		}
		for _, v := range viol {
			if v.prop == prop {
				tail := info.log
				if len(tail) > 70 {
					tail = tail[len(tail)-70:]
				}
				return info, fmt.Errorf("%s\n  event log (tail):\n    %s", v.msg, strings.Join(tail, "\n    "))
			}
		}
		for _, v := range viol {
			info.classes = append(info.classes, "rt_stopped_by_other_property_"+v.prop)
			break
		}
		return info, nil
	}
	var rc sbrCase
	if rp, ok, err := vfkit.ReplayCase(target, &rc); ok {
		if err != nil {
			t.Fatalf("replay: %v", err)
		}
		n := max(1, rp.Repeat)
		if v := os.Getenv("VERIF_REPLAY_REPEAT"); v != "" {
			fmt.Sscan(v, &n)
		}
		for i := 0; i < n; i++ {
			if _, err := check(rc, os.Getenv("SBR_REPLAY_LENIENT") == ""); err != nil { // a replay is judged strictly (the variable is a development aid)
				rec.Fail(target, rc, err.Error())
				t.Fatalf("%s violated: %v", prop, err)
			}
		}
		return
	}
	rapid.Check(t, func(rt *rapid.T) {
		if rec.OverBudget() {
			return
		}
		c := sbrGen(rt)
		info, err := check(c, false)
		rec.Case(c, sbrNontrivial(prop, info), info.classes...)
		if err != nil {
			rec.Fail(target, c, err.Error())
			rt.Fatalf("%s violated: %v", prop, err)
		}
	})
}

func TestC01Routes(t *testing.T) { sbrTest(t, "TestC01Routes", "C01") }
func TestC02Routes(t *testing.T) { sbrTest(t, "TestC02Routes", "C02") }
