package server

import (
	"context"
	"errors"
	"fmt"
	"log/slog"
	"os"
	"regexp"
	"runtime"
	"sort"
	"strings"
	"sync/atomic"
	"syscall"
	"testing"
	"testing/synctest"
	"time"

	"github.com/ollama/ollama/discover"
	"pgregory.net/rapid"
	"verif.local/vfkit"
)

func (e *sbEngine) do(a sbAction) {
	if a.Kind == "submit" {
		e.submit(a) // reads e.quiet itself: its expectations need the pre-state
		return
	}
	e.quiet = false
	switch a.Kind {
	case "finish":
		e.mu.Lock()
		var cand []*sbReq
		for _, r := range e.reqs {
			if r.granted != nil && !r.finished {
				cand = append(cand, r)
			}
		}
		if len(cand) == 0 {
			e.mu.Unlock()
			e.noop++
			return
		}
		r := cand[a.Idx%len(cand)]
		r.finished = true
		e.logf("finish req=%d", r.id)
		e.mu.Unlock()
		r.cancel()
	case "cancel":
		e.mu.Lock()
		var cand []*sbReq
		for _, r := range e.reqs {
			if r.replies == 0 && !r.finished {
				cand = append(cand, r)
			}
		}
		if len(cand) == 0 {
			e.mu.Unlock()
			e.noop++
			return
		}
		r := cand[a.Idx%len(cand)]
		r.finished, r.cancelled = true, true
		e.logf("cancel req=%d", r.id)
		e.flag("cancel_unreplied")
		e.mu.Unlock()
		r.cancel()
	case "loadok", "loadfail":
		e.mu.Lock()
		var cand []*sbSrv
		for _, i := range e.insts {
			if !i.resolved {
				cand = append(cand, i)
			}
		}
		if len(cand) == 0 {
			e.mu.Unlock()
			e.noop++
			return
		}
		i := cand[a.Idx%len(cand)]
		i.resolved = true
		e.unresolved--
		var err error
		if a.Kind == "loadok" {
			i.loadOK = true
		} else {
			err = errors.New("fake: llama runner process has terminated")
			e.flag("failed_load")
		}
		e.logf("%s inst=%d", a.Kind, i.id)
		e.mu.Unlock()
		i.gate <- err
	case "ping":
		e.mu.Lock()
		for _, i := range e.live() {
			if i.model == a.Model%e.c.NModels {
				i.pingFail = a.Fail
				e.logf("ping inst=%d fail=%v", i.id, a.Fail)
				if a.Fail {
					e.flag("ping_fail")
				}
			}
		}
		e.mu.Unlock()
	case "unload", "unloadfinish":
		m := a.Model % e.c.NModels
		e.mu.Lock()
		for _, i := range e.live() {
			if i.model == m {
				e.flag("unload_loaded")
				if e.holders(i) > 0 || !i.resolved {
					e.flag("close_candidate_while_held")
				}
			}
		}
		e.logf("unload model=%d", m)
		e.mu.Unlock()
		e.unloading.Add(1)
		go func() { // routes.go calls expireRunner on the handler goroutine; it can block while the model loads
			e.sched.expireRunner(e.models[m])
			e.unloading.Add(-1)
		}()
		if a.Kind == "unloadfinish" {
			// the explicit unload races with the end of the last request(s) that use the runner: every request holding a
			// runner of this model finishes right now, without waiting for the unload call to return
			e.mu.Lock()
			var held []*sbReq
			for _, r := range e.reqs {
				if r.granted != nil && !r.finished && r.model == m {
					held = append(held, r)
					r.finished = true
					e.logf("finish req=%d", r.id)
				}
			}
			if len(held) > 0 {
				e.flag("unload_races_with_last_finish")
			}
			e.mu.Unlock()
			for i := 0; i < a.Idx%3; i++ {
				runtime.Gosched()
			}
			for _, r := range held {
				r.cancel()
			}
		}
	case "advance":
		d := sbDurations[a.Dur%len(sbDurations)]
		if e.settle() {
			e.mu.Lock()
			e.logf("advance %v", d)
			e.mu.Unlock()
			time.Sleep(d)
		} else {
			e.skippedAdvance++
		}
		e.settle()
		return
	case "settle":
		e.settle()
		return
	}
	if !a.Burst {
		e.settle()
	}
}

// violated: a violation of the property under check has been recorded (violations of the other properties served by
// this engine do not end the case: what follows from them may be this property's concern, e.g. a leaked runner that
// is later shut down under a request).
func (e *sbEngine) violated() bool {
	e.mu.Lock()
	defer e.mu.Unlock()
	for _, v := range e.viol {
		if v.prop == e.prop || e.prop == "" {
			return true
		}
	}
	return false
}

// drain discharges the proviso of C02 ("loads in flight finish, requests ahead complete") and then lets every keep-alive elapse.
func (e *sbEngine) drain() {
	e.mu.Lock()
	e.draining = true
	e.mu.Unlock()
	for round := 0; round < 100; round++ {
		e.mu.Lock()
		var loads []*sbSrv
		var held []*sbReq
		waiting := 0
		for _, i := range e.insts {
			if !i.resolved {
				loads = append(loads, i)
				i.resolved, i.loadOK = true, true
				e.unresolved--
				e.logf("drain: loadok inst=%d", i.id)
			}
		}
		for _, r := range e.reqs {
			if r.granted != nil && !r.finished {
				held = append(held, r)
				r.finished = true
				e.logf("drain: finish req=%d", r.id)
			}
			if r.replies == 0 && !r.cancelled {
				waiting++
			}
		}
		e.mu.Unlock()
		if len(loads) == 0 && len(held) == 0 && waiting == 0 && e.unloading.Load() == 0 {
			break
		}
		for _, i := range loads {
			i.gate <- nil
		}
		for _, r := range held {
			r.cancel()
		}
		if e.settle() {
			time.Sleep(300 * time.Millisecond) // reschedule delay and expiry retries of the scheduler (virtual time)
			if e.c.Layout > 0 {
				time.Sleep(5500 * time.Millisecond) // one VRAM-recovery wait of the completed loop (runner spanning GPUs)
			}
			e.settle()
		}
		if e.violated() {
			return
		}
	}
	if !e.settle() {
		e.mu.Lock()
		e.logf("drain: could not reach a quiescent state")
		e.mu.Unlock()
		e.drainIncomplete = true
		return
	}
	time.Sleep(6 * time.Minute) // every finite keep-alive has elapsed (the longest is the default of 5 minutes)
	if e.settle() {
		// a runner that is still there must owe it to a request that asked for an infinite keep-alive
		e.mu.Lock()
		for _, i := range e.insts {
			if i.closeBegun == 0 && i.resolved && !i.everInfinite {
				e.violate("C02", "runner instance %d (model %d) is still running 6 minutes after the last request finished although no request it served asked for an infinite keep-alive", i.id, i.model)
			}
		}
		e.mu.Unlock()
		if e.violated() {
			return
		}
	}
	for _, m := range e.models { // infinite keep-alive: explicit unload, as `ollama stop` does
		e.sched.expireRunner(m)
	}
	e.settle()
	time.Sleep(time.Second)
	if e.c.Layout > 0 {
		time.Sleep(40 * time.Second) // up to 5 s of VRAM-recovery wait per runner that spans GPUs, one after the other
	}
	if !e.settle() {
		e.drainIncomplete = true
		return
	}
	e.sched.loadedMu.Lock()
	nLoaded := len(e.sched.loaded)
	e.sched.loadedMu.Unlock()
	e.mu.Lock()
	defer e.mu.Unlock()
	for _, r := range e.reqs {
		if !r.submitted {
			e.violate("C02", "the caller of request %d (model %d) is still inside GetRunner: it was neither queued nor told that the server is busy", r.id, r.model)
		}
	}
	for _, r := range e.reqs {
		if r.replies == 0 && !r.cancelled {
			e.violate("C02", "request %d (model %d) was never answered although every load finished and every other request completed", r.id, r.model)
		}
	}
	for _, i := range e.insts {
		if i.closes == 0 {
			e.violate("C02", "runner instance %d (model %d) was started but never shut down after all requests finished and all keep-alives elapsed", i.id, i.model)
		}
	}
	if nLoaded != 0 {
		e.violate("C02", "%d runner(s) still reported as loaded after all requests finished and all keep-alives elapsed", nLoaded)
	}
}

type sbInfo struct {
	flags   map[string]bool
	classes []string
	log     []string
	nReq    int
	nInst   int
}

var (
	sbInCase  atomic.Int32
	sbPending atomic.Pointer[sbPendingViol]
)

type sbPendingViol struct {
	c    sbCase
	viol []sbViolation
	log  []string
}

func sbRun(t *testing.T, c sbCase, prop string) (info sbInfo, viol []sbViolation) {
	sbInitFiles()
	setenv := func(k, v string) {
		if v == "" {
			os.Unsetenv(k)
		} else {
			os.Setenv(k, v)
		}
	}
	setenv("OLLAMA_MAX_LOADED_MODELS", map[bool]string{true: sbEnvNum(c.EnvStyle, c.MaxRunners), false: ""}[c.MaxRunners > 0])
	setenv("OLLAMA_NUM_PARALLEL", map[bool]string{true: sbEnvNum(c.EnvStyle, c.NumParallel), false: ""}[c.NumParallel > 0])
	setenv("OLLAMA_MAX_QUEUE", sbEnvNum(c.EnvStyle, c.MaxQueue))
	setenv("OLLAMA_KEEP_ALIVE", sbKeepEnv[c.KeepAlive%len(sbKeepEnv)])
	setenv("OLLAMA_SCHED_SPREAD", map[bool]string{true: "1", false: ""}[c.Layout == 2])
	setenv("OLLAMA_GPU_OVERHEAD", "")
	if ov := sbOverhead[c.Overhead%len(sbOverhead)]; ov > 0 && c.Inventory > 0 {
		setenv("OLLAMA_GPU_OVERHEAD", fmt.Sprint(uint64(float64(sbFiles.need)*ov)))
	}
	setenv("OLLAMA_CONTEXT_LENGTH", "")

	e := &sbEngine{c: c, flags: map[string]bool{}, prop: prop}
	sbPerturbSeed.Store(c.Perturb)
	room := uint64(float64(sbFiles.need) * sbRoom[c.Room%len(sbRoom)])
	for g := 0; g < c.Inventory; g++ {
		gi := discover.GpuInfo{Library: "metal", Variant: fmt.Sprintf("v%d", g), ID: fmt.Sprint(g)}
		if c.Layout > 0 {
			// one library: a model that fits on no single GPU may be spread over all of them. A runner on more than
			// one GPU makes the scheduler call the real discover.GetGPUInfo while unloading (waitForVRAMRecovery):
			// the unload then takes 0.25-5 s of virtual time depending on the machine's real free memory.
			gi.Variant = "v0"
		}
		gi.TotalMemory, gi.FreeMemory = room, uint64(float64(room)*sbFree[c.Free%len(sbFree)])
		gi.UnreliableFreeMemory = c.Unreliable
		e.inv = append(e.inv, gi)
	}
	e.cpu = discover.GpuInfo{Library: "cpu", ID: "cpu"}
	e.cpu.TotalMemory, e.cpu.FreeMemory = room, room
	for i := 0; i < 4; i++ {
		e.models = append(e.models, &Model{Name: fmt.Sprintf("m%d", i), ShortName: fmt.Sprintf("m%d", i), ModelPath: sbFiles.paths[i]})
		e.modelsA = append(e.modelsA, &Model{Name: fmt.Sprintf("m%d", i), ShortName: fmt.Sprintf("m%d", i), ModelPath: sbFiles.paths[i], AdapterPaths: []string{"/nonexistent/adapter.gguf"}})
	}

	sbInCase.Store(1)
	defer sbInCase.Store(0)
	func() {
		defer func() {
			if r := recover(); r != nil {
				e.mu.Lock()
				e.logf("bubble ended with: %v", r)
				e.bubblePanic = fmt.Sprint(r)
				e.mu.Unlock()
			}
		}()
		synctest.Test(t, func(st *testing.T) {
			e.done = make(chan struct{}) // channels must be made inside the bubble to block durably
			ctx, cancel := context.WithCancel(context.Background())
			s := InitScheduler(ctx)
			s.newServerFn = e.newServer
			s.getGpuFn = e.getGpus
			s.getCpuFn = e.getCpus
			e.sched = s
			s.Run(ctx)
			for _, a := range c.Actions {
				e.do(a)
				if e.violated() {
					break
				}
			}
			if !e.violated() {
				e.drain()
			}
			// cleanup: let every goroutine of the case end
			e.mu.Lock()
			e.draining = true
			if len(e.viol) > 0 {
				sbPending.Store(&sbPendingViol{c: c, viol: append([]sbViolation{}, e.viol...), log: append([]string{}, e.log...)})
			}
			var gates []*sbSrv
			for _, i := range e.insts {
				if !i.resolved {
					i.resolved = true
					e.unresolved--
					gates = append(gates, i)
				}
			}
			e.mu.Unlock()
			for _, i := range gates {
				i.gate <- errors.New("fake: case over")
			}
			e.mu.Lock()
			for _, r := range e.reqs {
				r.finished = true
			}
			e.mu.Unlock()
			for _, r := range e.reqs {
				r.cancel()
			}
			e.soft()
			cancel()
			close(e.done)
		})
	}()
	sbPending.Store(nil)

	e.mu.Lock()
	defer e.mu.Unlock()
	info.flags = e.flags
	info.log = e.log
	info.nReq, info.nInst = len(e.reqs), len(e.insts)
	for f := range e.flags {
		info.classes = append(info.classes, f)
	}
	sort.Strings(info.classes)
	if e.softs > 0 {
		info.classes = append(info.classes, "had_soft_settle")
	}
	if e.drainIncomplete {
		info.classes = append(info.classes, "drain_incomplete")
	}
	if e.bubblePanic != "" && len(e.viol) == 0 {
		info.classes = append(info.classes, "bubble_leftover_goroutines")
	}
	return info, e.viol
}

// --------------------------------------------------------------------------------- perturbation

// sbPerturb is installed as the slog handler: the scheduler logs (at debug level) right before and after most of its
// lock operations, so yielding or pausing inside the handler stretches exactly the windows between them. What happens
// at a call is a pure function of the case's drawn perturbation seed, the message and the call's ordinal.
var (
	sbPerturbSeed  atomic.Uint32
	sbPerturbCalls atomic.Uint32
)

type sbPerturb struct{}

func (sbPerturb) Enabled(context.Context, slog.Level) bool { return sbPerturbSeed.Load() != 0 }
func (sbPerturb) WithAttrs([]slog.Attr) slog.Handler       { return sbPerturb{} }
func (sbPerturb) WithGroup(string) slog.Handler            { return sbPerturb{} }
func (sbPerturb) Handle(_ context.Context, r slog.Record) error {
	seed := sbPerturbSeed.Load()
	if seed == 0 {
		return nil
	}
	h := seed*2654435761 + sbPerturbCalls.Add(1)*40503
	for _, b := range []byte(r.Message) {
		h = (h ^ uint32(b)) * 16777619
	}
	switch h >> 28 {
	case 0, 1:
		ts := syscall.Timespec{Nsec: int64(20000 + h%180000)} // real time: stretches the window, decides nothing
		syscall.Nanosleep(&ts, nil)
	case 2, 3, 4, 5:
		for i := uint32(0); i < 1+h%8; i++ {
			runtime.Gosched()
		}
	}
	return nil
}

// The driver overlays a copy of sched.go with a verifYield call in front of every stand-alone Lock()/RLock()
// statement (CHECK key yield_points): the windows between two critical sections that have no log call in them (for
// example between needsReload returning and useLoadedRunner locking) become perturbation points too.
func init() { verifYield = sbPerturbPoint }

// sbPerturbPoint lets the fake runner's methods act as additional perturbation points.
func sbPerturbPoint(msg string) {
	if sbPerturbSeed.Load() != 0 {
		sbPerturb{}.Handle(context.Background(), slog.Record{Message: msg})
	}
}

// ------------------------------------------------------------------------------------- watchdog

var sbHdr = regexp.MustCompile(`(?m)^goroutine (\d+) \[([^\]]+)\]:`)

// sbBlockedSignature summarises where the scheduler's goroutines are parked. ok=false when any goroutine other than
// the watchdog is running or runnable (then the process is merely slow, not wedged).
func sbBlockedSignature() (sig string, ok bool, dump string) {
	buf := make([]byte, 4<<20)
	buf = buf[:runtime.Stack(buf, true)]
	dump = string(buf)
	ok = true
	var parts []string
	for _, g := range strings.Split(dump, "\n\n") {
		m := sbHdr.FindStringSubmatch(g)
		if m == nil {
			continue
		}
		state := m[2]
		if strings.Contains(g, "sbWatchdog") {
			continue
		}
		if strings.HasPrefix(state, "running") || strings.HasPrefix(state, "runnable") || strings.HasPrefix(state, "syscall") {
			ok = false
		}
		fn := ""
		for _, l := range strings.Split(g, "\n") {
			if strings.Contains(l, "ollama/server.(*Scheduler)") || strings.Contains(l, "ollama/server.(*runnerRef)") || strings.Contains(l, "ollama/server.(*LlmRequest)") {
				fn = strings.TrimSpace(l)
				if i := strings.Index(fn, "("); i > 0 && strings.HasPrefix(fn, "github.com") {
					fn = fn[strings.LastIndex(fn[:strings.LastIndex(fn, "(")], "/")+1 : strings.LastIndex(fn, "(")]
				}
				break
			}
		}
		if fn != "" {
			st := state
			if i := strings.IndexAny(st, ",("); i > 0 {
				st = strings.TrimSpace(st[:i])
			}
			parts = append(parts, fn+"@"+st)
		}
	}
	sort.Strings(parts)
	return strings.Join(parts, "; "), ok, dump
}

// sbWatchdog turns a wedged scheduler (every goroutine parked, harness waiting for quiescence for ever) into a
// reported outcome instead of a hang. It runs outside the bubble, on real time; a slow machine never looks like a
// wedge because a wedge requires that no goroutine is runnable in two dumps taken seconds apart.
func sbWatchdog(rec *vfkit.Recorder, target, prop string, cur func() (sbCase, bool)) {
	go func() {
		last := sbProgress.Load()
		lastChange := time.Now()
		for {
			time.Sleep(500 * time.Millisecond)
			p := sbProgress.Load()
			if p != last || sbInCase.Load() == 0 {
				last, lastChange = p, time.Now()
				continue
			}
			if time.Since(lastChange) < 6*time.Second {
				continue
			}
			s1, ok1, _ := sbBlockedSignature()
			time.Sleep(3 * time.Second)
			s2, ok2, dump := sbBlockedSignature()
			if sbProgress.Load() != last || !ok1 || !ok2 || s1 != s2 {
				continue
			}
			// confirmed: nothing can run any more
			if pv := sbPending.Load(); pv != nil {
				for _, v := range pv.viol {
					if v.prop == prop {
						rec.Fail(target, pv.c, v.msg+" (the scheduler then wedged during clean-up: "+s2+")")
						rec.Flush()
						fmt.Printf("%s violated: %s\n", prop, v.msg)
						os.Exit(1)
					}
				}
			}
			c, have := cur()
			fmt.Printf("WEDGE: no goroutine can run; scheduler goroutines parked at: %s\n", s2)
			os.Stderr.WriteString(dump)
			if prop == "C02" && have {
				rec.Fail(target, c, "the scheduler wedged (every goroutine parked for ever, requests can no longer be answered): "+s2)
				rec.Flush()
				os.Exit(1)
			}
			rec.Flush()
			os.Exit(4) // not this property's concern: the driver reports INCONCLUSIVE
		}
	}()
}

// ---------------------------------------------------------------------------------------- tests

func sbNontrivial(prop string, c sbCase, info sbInfo) bool {
	f := info.flags
	switch prop {
	case "C01":
		return f["close_candidate_while_held"]
	case "C02":
		return f["failed_load"] || f["cancel_unreplied"] || f["eviction_wait"] || f["max_queue"]
	case "C11":
		return c.NModels >= 2 && (f["at_capacity_submit"] || f["incompatible_submit"] || f["fit_checked"])
	}
	return false
}

func sbTest(t *testing.T, target, prop string) {
	rec := vfkit.Open(target)
	defer rec.Flush()
	if os.Getenv("VERIF_VERBOSE") == "" {
		slog.SetDefault(slog.New(sbPerturb{}))
	}
	var curCase atomic.Pointer[sbCase]
	sbWatchdog(rec, target, prop, func() (sbCase, bool) {
		if p := curCase.Load(); p != nil {
			return *p, true
		}
		return sbCase{}, false
	})
	check := func(c sbCase) (sbInfo, error) {
		curCase.Store(&c)
		rec.Current(target, c)
		info, viol := sbRun(t, c, prop)
		for _, v := range viol {
			if v.prop == prop {
				tail := info.log
				if len(tail) > 60 {
					tail = tail[len(tail)-60:]
				}
				return info, fmt.Errorf("%s\n  event log (tail):\n    %s", v.msg, strings.Join(tail, "\n    "))
			}
		}
		for _, v := range viol {
			info.classes = append(info.classes, "stopped_by_other_property_"+v.prop)
			break
		}
		return info, nil
	}
	var rc sbCase
	if rp, ok, err := vfkit.ReplayCase(target, &rc); ok {
		if err != nil {
			t.Fatalf("replay: %v", err)
		}
		n := max(1, rp.Repeat)
		if v := os.Getenv("VERIF_REPLAY_REPEAT"); v != "" {
			fmt.Sscan(v, &n)
		}
		for i := 0; i < n; i++ {
			if _, err := check(rc); err != nil {
				rec.Fail(target, rc, err.Error())
				t.Fatalf("%s violated: %v", prop, err)
			}
		}
		return
	}
	rapid.Check(t, func(rt *rapid.T) {
		if rec.OverBudget() {
			return
		}
		c := sbGen(rt)
		info, err := check(c)
		rec.Case(c, sbNontrivial(prop, c, info), info.classes...)
		if err != nil {
			rec.Fail(target, c, err.Error())
			rt.Fatalf("%s violated: %v", prop, err)
		}
	})
}

func TestC01Sched(t *testing.T) { sbTest(t, "TestC01Sched", "C01") }
func TestC02Sched(t *testing.T) { sbTest(t, "TestC02Sched", "C02") }
func TestC11Sched(t *testing.T) { sbTest(t, "TestC11Sched", "C11") }
