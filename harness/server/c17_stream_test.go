package server

// C17 — streaming = non-streaming = OpenAI-compatible (see /verif/DESIGN.md §3 C17).
//
// Set-up, once per process: gin test mode, OLLAMA_MODELS in a temp dir, a Server with the real scheduler
// (InitScheduler + Run) whose newServerFn returns a scripted mock runner, four models created through the real
// /api/create handler (plain legacy template, tool template with an "arguments" key, tool template with a
// "parameters" key, suffix template). Every request goes through the real router (Server.GenerateRoutes) by way of
// an in-process http.RoundTripper (no sockets; the request context is cancelled when the handler returns, as
// net/http does): native endpoints through api.Client (its stream scanner is part of the anchors), the
// OpenAI-compatible endpoints through raw JSON / SSE parsing. The raw body of every response is kept as well.
//
// Mock runner: replays the case's chunks as llm/server.go does (content-only responses, then one content-free
// response carrying Done, DoneReason and the token counts) or returns an error after j chunks; optionally its
// Tokenize fails once Done has been delivered (the runner dies right after its last message).
//
// Oracle (metamorphic / differential), per case:
//   R1  the non-streamed native result is the same under two different chunkings of the same output
//   R2  concatenated streamed text = non-streamed text; concatenated streamed tool calls = non-streamed tool calls
//       as (name, canonical arguments) sequences — the streaming-only "index" field is NOT compared; final
//       done_reason and token counts equal
//   R3  /v1/chat/completions and /v1/completions, streamed and not, carry the same text / tool calls /
//       finish_reason ("tool_calls" when calls are present, the native done_reason otherwise) / usage
//   R4  a native stream has exactly one done:true line and it is last, or exactly one error line and it is last,
//       never both; an SSE stream ends with exactly one [DONE] after exactly one chunk with a finish_reason, or
//       carries exactly one error event and no finish_reason
// plus the ground truth the mock knows (non-tool text = model output, done_reason, counts).

import (
	"bytes"
	"context"
	"encoding/json"
	"errors"
	"fmt"
	"io"
	"net/http"
	"net/http/httptest"
	"net/url"
	"os"
	"path/filepath"
	"slices"
	"sort"
	"strings"
	"sync"
	"testing"
	"unicode/utf8"

	"github.com/gin-gonic/gin"
	"pgregory.net/rapid"
	"verif.local/vfkit"

	"github.com/ollama/ollama/api"
	"github.com/ollama/ollama/discover"
	"github.com/ollama/ollama/fs/ggml"
	"github.com/ollama/ollama/llm"
)

const (
	// streaming chat with tools parses the accumulated buffer after every chunk and, once a call is found,
	// throws the whole buffer away — including the beginning of a following JSON value
	c17KnownReset = "stream-toolcall-buffer-reset"
	// the OpenAI stream writers re-encode a mid-stream {"error":…} line as an empty chunk
	c17KnownSwallow = "openai-stream-error-swallowed"

	c17FailMsg    = "c17: the runner failed"
	c17TokFailMsg = "c17: tokenize failed after the final response"
	c17StopSeq    = "<|eot|>"
)

// ------------------------------------------------------------------------------------------ case

type c17Case struct {
	Shape  string `json:"shape"` // see c17Shapes
	Prompt string `json:"prompt"`
	System string `json:"system,omitempty"` // chat shapes, gen_tmpl, gen_format
	Suffix string `json:"suffix,omitempty"` // gen_suffix only
	Kind   string `json:"kind,omitempty"`   // what the generator meant the output to be (class label only)
	Text   string `json:"text"`             // the model output
	// chunk boundaries as rune offsets into Text, taken modulo (runes+1) and sorted at run time: k cuts make k+1
	// chunks, equal cuts make empty chunks
	Cuts  []int `json:"cuts"`
	Cuts2 []int `json:"cuts2"` // a second chunking of the same output (R1)
	// done reason and counts carried by the runner's final response
	Reason  string `json:"reason"`
	PromptN int    `json:"prompt_n"`
	EvalN   int    `json:"eval_n"`
	// 0: no failure; k > 0: Completion returns an error after (k-1) mod (chunks+1) chunks
	FailAfter int  `json:"fail_after,omitempty"`
	Usage     bool `json:"usage,omitempty"` // stream_options.include_usage on the OpenAI streams
	// the runner's Tokenize fails once Completion has delivered its Done response in the current request (the runner
	// dies right after its last message). Only a non-raw /api/generate tokenizes at that point (prompt+response, for
	// the "context" field); prompt-side Tokenize calls (chat truncation) come earlier and still work.
	TokFail bool `json:"tok_fail,omitempty"`
	// the native streamed request leaves "stream" out (streaming is the default) instead of sending true
	StreamNil bool `json:"stream_nil,omitempty"`
	// a stop sequence is sent (options.stop / OpenAI "stop"): stopping is the runner's job, the option must only reach it
	Stop bool `json:"stop,omitempty"`
	// number of generated cuts moved out of the class of a known finding (generator bookkeeping only)
	Snapped int `json:"snapped,omitempty"`
	// long-output class (shapes without tools): the output is followed by Pad repetitions of "lorem ipsum " (60-300 KB),
	// so that a non-streamed response, and the final message of a streamed generate with its context array, is one
	// line far above 64 KiB (and below the 512 KiB limit of api.Client's scanner); the case stores the count only
	Pad int `json:"pad,omitempty"`
}

type c17Shape struct {
	chat   bool
	model  string
	tools  bool
	argKey string // key of the arguments object in the model's template ("" = not a tool model)
	format string // "", "json", "schema"
	raw    bool
	suffix bool
	openai bool // an equivalent request exists on the OpenAI-compatible endpoint
}

var c17Shapes = map[string]c17Shape{
	"gen_raw":           {model: "c17-plain", raw: true},
	"gen_tmpl":          {model: "c17-plain", openai: true},
	"gen_suffix":        {model: "c17-suffix", suffix: true, openai: true},
	"gen_format":        {model: "c17-plain", format: "json"},
	"chat_plain":        {chat: true, model: "c17-plain", openai: true},
	"chat_format":       {chat: true, model: "c17-plain", format: "json", openai: true},
	"chat_schema":       {chat: true, model: "c17-plain", format: "schema", openai: true},
	"chat_tools":        {chat: true, model: "c17-tools", tools: true, argKey: "arguments", openai: true},
	"chat_params":       {chat: true, model: "c17-params", tools: true, argKey: "parameters", openai: true},
	"chat_tools_format": {chat: true, model: "c17-tools", tools: true, argKey: "arguments", format: "json", openai: true},
	"chat_notools":      {chat: true, model: "c17-tools", argKey: "arguments", openai: true}, // tool-capable model, no tools sent
}

const c17ToolsJSON = `[{"type":"function","function":{"name":"get_weather","description":"Get the current weather",` +
	`"parameters":{"type":"object","required":["location"],"properties":{"location":{"type":"string","description":"The city"},` +
	`"unit":{"type":"string","description":"unit","enum":["celsius","fahrenheit"]}}}}},` +
	`{"type":"function","function":{"name":"search","description":"Search the web",` +
	`"parameters":{"type":"object","required":["q"],"properties":{"q":{"type":"string","description":"query"}}}}}]`

const c17SchemaJSON = `{"type":"object","properties":{"answer":{"type":"string"}}}`

// ------------------------------------------------------------------------------------ mock runner

type c17Script struct {
	chunks    []string
	reason    llm.DoneReason
	promptN   int
	evalN     int
	failAfter int  // -1: none
	tokFail   bool // Tokenize fails after Done has been delivered
}

type c17Runner struct {
	mu      sync.Mutex
	script  c17Script
	prompts []string
	formats []string // format and stop sequences the runner was given
	// doneSent: Done has been handed to the callback in the current request; tokenizeFailed: Tokenize errors returned in it
	doneSent       bool
	tokenizeFailed int
}

func (m *c17Runner) set(s c17Script) {
	m.mu.Lock()
	m.script = s
	m.prompts = m.prompts[:0]
	m.formats = m.formats[:0]
	m.doneSent = false
	m.tokenizeFailed = 0
	m.mu.Unlock()
}

func (m *c17Runner) tokenizeFailures() int {
	m.mu.Lock()
	defer m.mu.Unlock()
	return m.tokenizeFailed
}

func (m *c17Runner) seen() (prompts, formats []string) {
	m.mu.Lock()
	defer m.mu.Unlock()
	return slices.Clone(m.prompts), slices.Clone(m.formats)
}

func (m *c17Runner) Completion(_ context.Context, req llm.CompletionRequest, fn func(llm.CompletionResponse)) error {
	m.mu.Lock()
	s := m.script
	m.prompts = append(m.prompts, req.Prompt)
	stops := ""
	if req.Options != nil {
		stops = strings.Join(req.Options.Stop, "|")
	}
	m.formats = append(m.formats, string(req.Format)+" stop="+stops)
	m.mu.Unlock()
	for i, c := range s.chunks {
		if s.failAfter == i {
			return errors.New(c17FailMsg)
		}
		fn(llm.CompletionResponse{Content: c})
	}
	if s.failAfter == len(s.chunks) {
		return errors.New(c17FailMsg)
	}
	m.mu.Lock()
	m.doneSent = true // the handler tokenizes inside the callback that receives Done
	m.mu.Unlock()
	fn(llm.CompletionResponse{Done: true, DoneReason: s.reason, PromptEvalCount: s.promptN, PromptEvalDuration: 1,
		EvalCount: s.evalN, EvalDuration: 1})
	return nil
}

func (m *c17Runner) Ping(context.Context) error             { return nil }
func (m *c17Runner) WaitUntilRunning(context.Context) error { return nil }
func (m *c17Runner) Embedding(context.Context, string) ([]float32, error) {
	return nil, errors.New("c17: no embeddings")
}

func (m *c17Runner) Tokenize(_ context.Context, s string) ([]int, error) {
	m.mu.Lock()
	fail := m.script.tokFail && m.doneSent
	if fail {
		m.tokenizeFailed++
	}
	m.mu.Unlock()
	if fail {
		return nil, errors.New(c17TokFailMsg)
	}
	f := strings.Fields(s)
	out := make([]int, len(f))
	for i, w := range f {
		out[i] = len(w)
	}
	return out, nil
}

func (m *c17Runner) Detokenize(_ context.Context, t []int) (string, error) {
	return strings.Repeat("x ", len(t)), nil
}
func (m *c17Runner) Close() error                     { return nil }
func (m *c17Runner) EstimatedVRAM() uint64            { return 0 }
func (m *c17Runner) EstimatedTotal() uint64           { return 0 }
func (m *c17Runner) EstimatedVRAMByGPU(string) uint64 { return 0 }

// ------------------------------------------------------------------------- in-process transport

type c17Recorder struct {
	*httptest.ResponseRecorder
}

func (c17Recorder) CloseNotify() <-chan bool { return make(chan bool) }

type c17Transport struct {
	h http.Handler

	mu     sync.Mutex
	status int
	body   []byte
}

// RoundTrip serves the request with the router on the calling goroutine; the request context ends when the
// handler returns (this is what releases the runner reference in the scheduler).
func (t *c17Transport) RoundTrip(req *http.Request) (*http.Response, error) {
	ctx, cancel := context.WithCancel(req.Context())
	defer cancel()
	r2 := req.Clone(ctx)
	if r2.Host == "" {
		r2.Host = req.URL.Host
	}
	r2.RequestURI = req.URL.RequestURI()
	if r2.Body == nil {
		r2.Body = http.NoBody
	}
	rec := c17Recorder{httptest.NewRecorder()}
	t.h.ServeHTTP(rec, r2)
	res := rec.Result()
	res.Request = req
	t.mu.Lock()
	t.status = res.StatusCode
	t.body = slices.Clone(rec.Body.Bytes())
	t.mu.Unlock()
	return res, nil
}

func (t *c17Transport) last() (int, []byte) {
	t.mu.Lock()
	defer t.mu.Unlock()
	return t.status, t.body
}

// --------------------------------------------------------------------------------- environment

type c17Env struct {
	mock   *c17Runner
	tr     *c17Transport
	client *api.Client
	httpc  *http.Client
	tools  []api.Tool
}

var (
	c17EnvOnce sync.Once
	c17TheEnv  *c17Env
	c17EnvErr  error
)

const c17TmplPlain = `
{{- if .System }}System: {{ .System }} {{ end }}
{{- if .Prompt }}User: {{ .Prompt }} {{ end }}
{{- if .Response }}Assistant: {{ .Response }} {{ end }}
`

// the tool template of the repository's own TestGenerateChat
const c17TmplTools = `
{{- if .Tools }}
{{ .Tools }}
{{ end }}
{{- range .Messages }}
{{- .Role }}: {{ .Content }}
{{- range .ToolCalls }}{"name": "{{ .Function.Name }}", "arguments": {{ .Function.Arguments }}}
{{- end }}
{{ end }}`

const c17TmplSuffix = `{{- if .Suffix }}<PRE> {{ .Prompt }} <SUF>{{ .Suffix }} <MID>
{{- else }}{{ .Prompt }}
{{- end }}`

func c17GetEnv() (*c17Env, error) {
	c17EnvOnce.Do(func() { c17TheEnv, c17EnvErr = c17Setup() })
	return c17TheEnv, c17EnvErr
}

func c17Setup() (*c17Env, error) {
	gin.SetMode(gin.TestMode)
	gin.DefaultWriter = io.Discard
	gin.DefaultErrorWriter = io.Discard
	dir, err := os.MkdirTemp("", "c17-models-")
	if err != nil {
		return nil, err
	}
	os.Setenv("OLLAMA_MODELS", dir)
	os.Setenv("OLLAMA_MAX_LOADED_MODELS", "8")
	os.Unsetenv("OLLAMA_ORIGINS")

	e := &c17Env{mock: &c17Runner{}}
	if err := json.Unmarshal([]byte(c17ToolsJSON), &e.tools); err != nil {
		return nil, fmt.Errorf("tools literal: %v", err)
	}
	sched := InitScheduler(context.Background())
	sched.newServerFn = func(discover.GpuInfoList, string, *ggml.GGML, []string, []string, api.Options, int) (llm.LlamaServer, error) {
		return e.mock, nil
	}
	cpu := discover.GpuInfo{Library: "cpu", ID: "0"}
	cpu.TotalMemory, cpu.FreeMemory = 1<<40, 1<<40
	sched.getGpuFn = func() discover.GpuInfoList { return discover.GpuInfoList{cpu} }
	sched.getCpuFn = func() discover.GpuInfoList { return discover.GpuInfoList{cpu} }
	sched.Run(context.Background())
	s := &Server{sched: sched}
	h, err := s.GenerateRoutes(nil)
	if err != nil {
		return nil, err
	}
	e.tr = &c17Transport{h: h}
	e.httpc = &http.Client{Transport: e.tr}
	e.client = api.NewClient(&url.URL{Scheme: "http", Host: "127.0.0.1:11434"}, e.httpc)

	models := []struct{ name, tmpl string }{
		{"c17-plain", c17TmplPlain},
		{"c17-tools", c17TmplTools},
		{"c17-params", strings.Replace(c17TmplTools, `"arguments": {{`, `"parameters": {{`, 1)},
		{"c17-suffix", c17TmplSuffix},
	}
	for _, m := range models {
		digest, err := c17WriteBlob(dir, m.name)
		if err != nil {
			return nil, err
		}
		no := false
		body, _ := json.Marshal(api.CreateRequest{Model: m.name, Files: map[string]string{"file.gguf": digest}, Template: m.tmpl, Stream: &no})
		status, out, err := e.post("/api/create", body)
		if err != nil || status != http.StatusOK {
			return nil, fmt.Errorf("create %s: status %d err %v body %s", m.name, status, err, out)
		}
	}
	return e, nil
}

// c17WriteBlob is the existing tests' createBinFile: a minimal llama GGUF placed in the blob store.
func c17WriteBlob(dir, name string) (string, error) {
	var ts []ggml.Tensor
	for _, n := range []string{"token_embd.weight", "blk.0.attn_norm.weight", "blk.0.ffn_down.weight", "blk.0.ffn_gate.weight",
		"blk.0.ffn_up.weight", "blk.0.ffn_norm.weight", "blk.0.attn_k.weight", "blk.0.attn_output.weight", "blk.0.attn_q.weight",
		"blk.0.attn_v.weight", "output.weight"} {
		ts = append(ts, ggml.Tensor{Name: n, Shape: []uint64{1}, WriterTo: bytes.NewReader(make([]byte, 4))})
	}
	f, err := os.CreateTemp(dir, "gguf-")
	if err != nil {
		return "", err
	}
	defer f.Close()
	if err := ggml.WriteGGUF(f, ggml.KV{
		"general.architecture":          "llama",
		"general.name":                  name,
		"llama.block_count":             uint32(1),
		"llama.context_length":          uint32(8192),
		"llama.embedding_length":        uint32(4096),
		"llama.attention.head_count":    uint32(32),
		"llama.attention.head_count_kv": uint32(8),
		"tokenizer.ggml.tokens":         []string{""},
		"tokenizer.ggml.scores":         []float32{0},
		"tokenizer.ggml.token_type":     []int32{0},
	}, ts); err != nil {
		return "", err
	}
	if _, err := f.Seek(0, 0); err != nil {
		return "", err
	}
	digest, _ := GetSHA256Digest(f)
	dst := filepath.Join(dir, "blobs", "sha256-"+strings.TrimPrefix(digest, "sha256:"))
	if err := os.MkdirAll(filepath.Dir(dst), 0o755); err != nil {
		return "", err
	}
	if err := os.Rename(f.Name(), dst); err != nil {
		return "", err
	}
	return digest, nil
}

func (e *c17Env) post(path string, body []byte) (int, []byte, error) {
	req, err := http.NewRequest(http.MethodPost, "http://127.0.0.1:11434"+path, bytes.NewReader(body))
	if err != nil {
		return 0, nil, err
	}
	req.Header.Set("Content-Type", "application/json")
	res, err := e.httpc.Do(req)
	if err != nil {
		return 0, nil, err
	}
	defer res.Body.Close()
	b, err := io.ReadAll(res.Body)
	return res.StatusCode, b, err
}

// ------------------------------------------------------------------------------------- generator

// c17Seg is a piece of generated output. fragile: a complete JSON value or a quoted word — a chunk boundary
// strictly inside it splits a JSON token or structure. call: it holds at least one tool call for the model's key.
type c17Seg struct {
	text    string
	fragile bool
	call    bool
}

var (
	// no opening brace, no unbalanced double quote: usable around tool calls without changing what a left-to-right
	// JSON scan of the whole text finds in the segments the generator marked as calls
	c17SafeWords = []string{"the", "weather", "in", "Zürich", "is", "naïve", "café", "日本語", "東京", "😀", "👍🏽", "ok.", "42", "3.14",
		"true", "null", "it's", "a<b", "&amp;", "—", `"hi"`, "\u2028", "Ω", "Sure!", "call:", `"日本"`, "}", "]", "[x]"}
	c17WildWords = []string{`5"`, "{", "}", "[x]", `{"a":`, `\`, "\t", "}{", `"`, "<|im_end|>", `{"name":`, "]", "\u0001", "é"}
	c17Seps      = []string{" ", " ", " ", " ", "\n", "\n\n", "  "}
	c17Names     = []string{"get_weather", "search", "f", "天気", "do-it", "get_weather"}
	c17ArgKeys   = []string{"location", "unit", "n", "q", "città", "k", "name"}
	c17StrVals   = []string{"Paris", "東京", "São Paulo", "😀", `say "hi"`, "a}b", "{", "]", "line\nbreak", `back\slash`, "", "celsius",
		"x y z", "<b>&</b>", "Ünï", `"`, "}}", `{"name":"x"}`}
	c17NestKeys = []string{"lat", "lon", "unit", "id", "name"}
)

func c17GenVal(t *rapid.T, depth int) any {
	hi := 9
	if depth > 0 {
		hi = 6
	}
	switch rapid.IntRange(0, hi).Draw(t, "valkind") {
	case 0, 1, 2:
		return rapid.SampledFrom(c17StrVals).Draw(t, "str")
	case 3:
		if rapid.IntRange(0, 5).Draw(t, "bigint") == 0 {
			// integers a float64 cannot hold: every endpoint must serve the same digits for them
			return rapid.SampledFrom([]int64{1234567890123456789, 9007199254740993, -9223372036854775807, 9007199254740992}).Draw(t, "big")
		}
		return rapid.IntRange(-3, 1000).Draw(t, "int")
	case 4:
		return rapid.SampledFrom([]float64{2.5, -0.125, 1e21, 0.1, 37.7749}).Draw(t, "float")
	case 5:
		return rapid.Bool().Draw(t, "bool")
	case 6:
		return nil
	case 7, 8:
		n := rapid.IntRange(0, 3).Draw(t, "arrlen")
		a := make([]any, n)
		for i := range a {
			a[i] = c17GenVal(t, depth+1)
		}
		return a
	default:
		ks := rapid.SliceOfNDistinct(rapid.SampledFrom(c17NestKeys), 0, 3, rapid.ID[string]).Draw(t, "nestkeys")
		m := map[string]any{}
		for _, k := range ks {
			m[k] = c17GenVal(t, depth+1)
		}
		return m
	}
}

func c17GenArgs(t *rapid.T) map[string]any {
	ks := rapid.SliceOfNDistinct(rapid.SampledFrom(c17ArgKeys), 0, 3, rapid.ID[string]).Draw(t, "argkeys")
	m := map[string]any{}
	for _, k := range ks {
		m[k] = c17GenVal(t, 0)
	}
	return m
}

func c17JSON(v any) string {
	var b bytes.Buffer
	enc := json.NewEncoder(&b)
	enc.SetEscapeHTML(false)
	if err := enc.Encode(v); err != nil {
		panic(err)
	}
	return strings.TrimSuffix(b.String(), "\n")
}

// c17GenCall renders one tool-call object with the given arguments key, in one of several spellings.
func c17GenCall(t *rapid.T, key string) string {
	name := c17JSON(rapid.SampledFrom(c17Names).Draw(t, "name"))
	args := c17GenArgs(t)
	style := rapid.SampledFrom([]string{"compact", "compact", "spaced", "spaced", "pretty"}).Draw(t, "style")
	nameFirst := rapid.IntRange(0, 3).Draw(t, "order") != 0
	extra := rapid.SampledFrom([]string{"", "", "", "", `"id":"call_1"`, `"type":"function"`}).Draw(t, "extra")
	var fields []string
	switch style {
	case "compact":
		fields = []string{`"name":` + name, `"` + key + `":` + c17JSON(args)}
	case "spaced":
		fields = []string{`"name": ` + name, `"` + key + `": ` + c17JSON(args)}
	default:
		ind, _ := json.MarshalIndent(args, "  ", "  ")
		fields = []string{`"name": ` + name, `"` + key + `": ` + string(ind)}
	}
	if !nameFirst {
		fields[0], fields[1] = fields[1], fields[0]
	}
	if extra != "" {
		fields = append(fields, extra)
	}
	switch style {
	case "compact":
		return "{" + strings.Join(fields, ",") + "}"
	case "spaced":
		return "{" + strings.Join(fields, ", ") + "}"
	}
	return "{\n  " + strings.Join(fields, ",\n  ") + "\n}"
}

// c17GenNonCall is JSON that is not a tool call for a template whose arguments key is key.
func c17GenNonCall(t *rapid.T, key string) string {
	other := "parameters"
	if key == "parameters" || key == "" {
		other = "arguments"
	}
	if key == "" {
		key = "parameters"
	}
	s := rapid.SampledFrom([]string{`{"foo":1}`, `{"name":"lonely"}`, `{"name":5,"K":{}}`, `{"name":"x","K":"str"}`, `{"name":"x","K":[1,2]}`,
		`[1,2,3]`, `"just a string"`, `{"a":{"b":[true,null]}}`, `{}`, `{"K":{"q":"x"}}`, `{"name":"x","OTHER":{"q":1}}`,
		`{"function":"x","args":{}}`, `{"answer": "東京 😀"}`, `{"name":null,"K":{"q":"x"}}`, `[]`}).Draw(t, "noncall")
	s = strings.ReplaceAll(s, "OTHER", other)
	return strings.ReplaceAll(s, "K", key)
}

func c17GenProse(t *rapid.T, label string, wild bool, minw, maxw int) []c17Seg {
	n := rapid.IntRange(minw, maxw).Draw(t, label+"_n")
	var segs []c17Seg
	for i := 0; i < n; i++ {
		var w string
		if wild && rapid.IntRange(0, 3).Draw(t, label+"_wild") == 0 {
			w = rapid.SampledFrom(c17WildWords).Draw(t, label+"_ww")
		} else {
			w = rapid.SampledFrom(c17SafeWords).Draw(t, label+"_w")
		}
		if i > 0 {
			segs = append(segs, c17Seg{text: rapid.SampledFrom(c17Seps).Draw(t, label+"_sep")})
		}
		segs = append(segs, c17Seg{text: w, fragile: strings.HasPrefix(w, `"`) && len(w) > 1})
	}
	return segs
}

// c17GenOutput draws a model output as segments. key: the arguments key of the model's template ("" = the model
// has no tool template; calls are then rendered with a drawn key). tools: the request carries tools, i.e. the
// server will look for tool calls. wild: prose may hold braces, brackets and unbalanced quotes.
func c17GenOutput(t *rapid.T, key string, tools, wild bool) (segs []c17Seg, kind string) {
	callKey := key
	if callKey == "" {
		callKey = rapid.SampledFrom([]string{"arguments", "parameters"}).Draw(t, "callkey")
	}
	kinds := []string{"plain", "calls_bare", "mixed", "plain", "nontool_json", "calls_array", "truncated", "plain", "calls_fenced", "plain"}
	if tools {
		kinds = []string{"calls_bare", "mixed", "calls_array", "calls_bare", "calls_tagged", "calls_wrapper", "truncated", "calls_bare",
			"calls_fenced", "nontool_json", "mixed", "calls_array", "plain", "mixed", "calls_bare"}
	}
	kind = rapid.SampledFrom(kinds).Draw(t, "kind")
	ws := func(s string) c17Seg { return c17Seg{text: s} }
	call := func() c17Seg { return c17Seg{text: c17GenCall(t, callKey), fragile: true, call: true} }
	ncalls := func() int { return rapid.SampledFrom([]int{1, 1, 2, 2, 2, 3}).Draw(t, "ncalls") }
	sep := func() string {
		return rapid.SampledFrom([]string{"", " ", "\n", "\n\n", ", ", " and then "}).Draw(t, "callsep")
	}
	var body []c17Seg
	switch kind {
	case "plain":
		return c17GenProse(t, "plain", wild, 0, 12), kind
	case "nontool_json":
		body = []c17Seg{{text: c17GenNonCall(t, key), fragile: true}}
	case "calls_bare", "truncated":
		for i, n := 0, ncalls(); i < n; i++ {
			if i > 0 {
				if s := sep(); s != "" {
					body = append(body, ws(s))
				}
			}
			body = append(body, call())
		}
	case "calls_array", "calls_wrapper":
		var objs []string
		for i, n := 0, ncalls(); i < n; i++ {
			objs = append(objs, c17GenCall(t, callKey))
		}
		s := "[" + strings.Join(objs, rapid.SampledFrom([]string{",", ", ", ",\n"}).Draw(t, "arrsep")) + "]"
		if kind == "calls_wrapper" {
			s = `{"tool_calls": ` + s + `}`
		}
		body = []c17Seg{{text: s, fragile: true, call: true}}
	case "calls_fenced":
		body = append(body, ws("```json\n"))
		for i, n := 0, ncalls(); i < n; i++ {
			if i > 0 {
				body = append(body, ws("\n"))
			}
			body = append(body, call())
		}
		body = append(body, ws("\n```"))
	case "calls_tagged":
		for i, n := 0, ncalls(); i < n; i++ {
			if i > 0 {
				body = append(body, ws("\n"))
			}
			body = append(body, ws("<tool_call>\n"), call(), ws("\n</tool_call>"))
		}
	case "mixed":
		for i, n := 0, rapid.IntRange(2, 5).Draw(t, "nmixed"); i < n; i++ {
			if i > 0 {
				body = append(body, ws(rapid.SampledFrom([]string{" ", "\n", "  "}).Draw(t, "mixsep")))
			}
			switch rapid.IntRange(0, 3).Draw(t, "mixkind") {
			case 0, 1:
				body = append(body, call())
			case 2:
				body = append(body, c17Seg{text: c17GenNonCall(t, key), fragile: true})
			default:
				body = append(body, c17GenProse(t, "mixprose", wild, 1, 3)...)
			}
		}
	}
	// a separator always stands between prose and a following JSON value: a word ending in t, f or n directly before
	// a bracket makes the server's scanner (invalid literal) skip the bracket as well
	if rapid.IntRange(0, 2).Draw(t, "pre") == 0 {
		segs = append(segs, c17GenProse(t, "pre", wild, 1, 5)...)
		segs = append(segs, ws(rapid.SampledFrom([]string{" ", "\n", ": ", "\n\n"}).Draw(t, "presep")))
	}
	segs = append(segs, body...)
	if rapid.IntRange(0, 2).Draw(t, "post") == 0 {
		segs = append(segs, ws(rapid.SampledFrom([]string{" ", "\n", ". ", ""}).Draw(t, "postsep")))
		segs = append(segs, c17GenProse(t, "post", wild, 1, 5)...)
	}
	if key == "" {
		for i := range segs {
			segs[i].call = false
		}
	}
	if kind == "truncated" {
		total := 0
		for _, s := range segs {
			total += utf8.RuneCountInString(s.text)
		}
		keep := rapid.IntRange(1, max(1, total-1)).Draw(t, "truncate")
		var out []c17Seg
		for _, s := range segs {
			n := utf8.RuneCountInString(s.text)
			if n <= keep {
				out = append(out, s)
				keep -= n
				continue
			}
			if keep > 0 {
				out = append(out, c17Seg{text: string([]rune(s.text)[:keep])})
			}
			break
		}
		segs = out
	}
	return segs, kind
}

type c17GenOpts struct {
	knownReset bool
}

func c17GenCuts(t *rapid.T, label string, n int, interesting []int) []int {
	k := rapid.SampledFrom([]int{0, 1, 2, 2, 3, 3, 4, 5, 6, 8, 11}).Draw(t, label+"_k")
	cuts := make([]int, 0, k)
	for i := 0; i < k; i++ {
		mode := rapid.IntRange(0, 9).Draw(t, label+"_mode")
		switch {
		case mode >= 4 && mode <= 7 && len(interesting) > 0:
			cuts = append(cuts, rapid.SampledFrom(interesting).Draw(t, label+"_ipos"))
		case mode == 8 && len(cuts) > 0:
			cuts = append(cuts, cuts[rapid.IntRange(0, len(cuts)-1).Draw(t, label+"_dup")])
		case mode == 9:
			cuts = append(cuts, rapid.SampledFrom([]int{0, n}).Draw(t, label+"_edge"))
		default:
			cuts = append(cuts, rapid.IntRange(0, n).Draw(t, label+"_pos"))
		}
	}
	return cuts
}

func c17Gen(t *rapid.T, o c17GenOpts) c17Case {
	var c c17Case
	// (rapid favours the front of a list)
	c.Shape = rapid.SampledFrom([]string{"chat_tools", "chat_params", "chat_tools", "chat_tools_format", "chat_notools", "chat_plain", "gen_tmpl",
		"gen_suffix", "chat_tools", "chat_format", "gen_raw", "gen_format", "chat_schema", "chat_params", "chat_plain", "gen_tmpl",
		"chat_tools"}).Draw(t, "shape")
	sh := c17Shapes[c.Shape]
	join := func(segs []c17Seg) string {
		var sb strings.Builder
		for _, s := range segs {
			sb.WriteString(s.text)
		}
		return sb.String()
	}
	c.Prompt = join(c17GenProse(t, "prompt", false, 1, 5))
	if (sh.chat || c.Shape == "gen_tmpl" || c.Shape == "gen_format") && rapid.IntRange(0, 2).Draw(t, "hassys") == 0 {
		c.System = join(c17GenProse(t, "system", false, 1, 4))
	}
	if sh.suffix {
		c.Suffix = join(c17GenProse(t, "suffix", false, 1, 4))
	}
	// prose with braces, brackets and unbalanced quotes next to tool calls makes the generator's knowledge of which
	// segments are calls unreliable; that knowledge is only needed to exclude the known class below
	segs, kind := c17GenOutput(t, sh.argKey, sh.tools, !sh.tools || !o.knownReset)
	c.Kind = kind
	c.Text = join(segs)
	if !sh.tools && rapid.IntRange(0, 39).Draw(t, "long") == 0 {
		c.Pad = rapid.IntRange(5500, 25000).Draw(t, "pad")
	}
	runes := []rune(c.Text)
	n := len(runes)

	// positions worth cutting at: strictly inside a JSON value / quoted word, or next to a multi-byte character
	var interesting []int
	type span struct {
		lo, hi        int
		fragile, call bool
	}
	var spans []span
	pos := 0
	for _, s := range segs {
		l := utf8.RuneCountInString(s.text)
		spans = append(spans, span{pos, pos + l, s.fragile, s.call})
		if s.fragile {
			for p := pos + 1; p < pos+l; p++ {
				interesting = append(interesting, p)
			}
		}
		pos += l
	}
	for p := 1; p < n; p++ {
		if utf8.RuneLen(runes[p-1]) > 1 || utf8.RuneLen(runes[p]) > 1 {
			interesting = append(interesting, p)
		}
	}
	c.Cuts = c17GenCuts(t, "cuts", n, interesting)
	c.Cuts2 = c17GenCuts(t, "cuts2", n, interesting)

	c.Reason = rapid.SampledFrom([]string{"stop", "stop", "stop", "length"}).Draw(t, "reason")
	c.PromptN = rapid.IntRange(0, 500).Draw(t, "prompt_n")
	c.EvalN = rapid.IntRange(0, 500).Draw(t, "eval_n")
	if rapid.IntRange(0, 3).Draw(t, "fails") == 0 {
		c.FailAfter = rapid.IntRange(1, 13).Draw(t, "fail_after")
	}
	c.Usage = rapid.Bool().Draw(t, "usage")
	// drawn for every shape (for chat and raw generate requests it must change nothing), more often where it bites
	if !sh.chat && !sh.raw {
		c.TokFail = rapid.IntRange(0, 4).Draw(t, "tok_fail") <= 1
	} else {
		c.TokFail = rapid.IntRange(0, 7).Draw(t, "tok_fail") == 0
	}
	c.StreamNil = rapid.IntRange(0, 3).Draw(t, "stream_nil") == 0
	c.Stop = rapid.IntRange(0, 3).Draw(t, "stop") == 0

	if o.knownReset && sh.tools {
		// Known finding stream-toolcall-buffer-reset, excluded by construction: once the first call-bearing value
		// is complete the server emits it and drops its whole buffer, so a chunk boundary after that point which
		// falls strictly inside a JSON value or quoted word that is (or is followed by) another call-bearing value
		// loses or garbles that call. Such boundaries are moved to the end of the value they fall in.
		first := -1
		lastCall := -1
		for i, s := range spans {
			if s.call {
				if first < 0 {
					first = i
				}
				lastCall = i
			}
		}
		if first >= 0 {
			snap := func(cuts []int) {
				for ci, p := range cuts {
					for i := first + 1; i <= lastCall; i++ {
						if s := spans[i]; s.fragile && s.lo < p && p < s.hi {
							cuts[ci] = s.hi
							c.Snapped++
						}
					}
				}
			}
			snap(c.Cuts)
			// the second chunking is only used without streaming: nothing to exclude there
		}
	}
	return c
}

// ------------------------------------------------------------------------------- observations

type c17Call struct {
	Name string
	Args string // canonical JSON (sorted keys) of the arguments object
}

func c17CallsString(cs []c17Call) string {
	var sb strings.Builder
	sb.WriteString("[")
	for i, c := range cs {
		if i > 0 {
			sb.WriteString(" ")
		}
		fmt.Fprintf(&sb, "%s(%s)", c.Name, c.Args)
	}
	sb.WriteString("]")
	return sb.String()
}

func c17Canon(v any) string {
	b, err := json.Marshal(v)
	if err != nil {
		return "!" + err.Error()
	}
	return string(b)
}

// c17Result is what one response (streamed or not) carries, reduced to the fields the statement names.
type c17Result struct {
	what    string
	status  int
	errMsg  string // error reported (HTTP error body, error line, error event, or error returned by api.Client)
	text    string
	calls   []c17Call
	reason  string // native done_reason / OpenAI finish_reason
	promptN int
	evalN   int
	usage   bool // counts were reported
	lines   int  // messages received before the end
	// the number literals inside tool-call arguments exactly as served (digits, not float64 values), in document order;
	// nil = not extracted. Both endpoints encode the same float64 values with the same encoder, so the literals agree.
	numLits []string
}

func c17NativeCalls(tcs []api.ToolCall) []c17Call {
	var out []c17Call
	for _, tc := range tcs {
		out = append(out, c17Call{Name: tc.Function.Name, Args: c17Canon(map[string]any(tc.Function.Arguments))})
	}
	return out
}

// c17NumLits collects, from a raw response body (one JSON document, NDJSON lines or SSE "data:" lines), the number
// literals inside the arguments of every tool call, as served: native arguments are objects, OpenAI arguments are
// strings holding JSON. Keys are visited in sorted order.
func c17NumLits(raw []byte) []string {
	out := []string{}
	var walkArgs func(v any)
	walkArgs = func(v any) {
		switch x := v.(type) {
		case json.Number:
			out = append(out, x.String())
		case []any:
			for _, e := range x {
				walkArgs(e)
			}
		case map[string]any:
			ks := make([]string, 0, len(x))
			for k := range x {
				ks = append(ks, k)
			}
			sort.Strings(ks)
			for _, k := range ks {
				walkArgs(x[k])
			}
		}
	}
	var find func(v any)
	find = func(v any) {
		switch x := v.(type) {
		case []any:
			for _, e := range x {
				find(e)
			}
		case map[string]any:
			ks := make([]string, 0, len(x))
			for k := range x {
				ks = append(ks, k)
			}
			sort.Strings(ks)
			for _, k := range ks {
				if k == "arguments" {
					switch a := x[k].(type) {
					case string:
						d := json.NewDecoder(strings.NewReader(a))
						d.UseNumber()
						var av any
						if d.Decode(&av) == nil {
							walkArgs(av)
						}
					default:
						walkArgs(a)
					}
					continue
				}
				find(x[k])
			}
		}
	}
	for _, line := range bytes.Split(raw, []byte("\n")) {
		line = bytes.TrimSpace(bytes.TrimPrefix(bytes.TrimSpace(line), []byte("data:")))
		if len(line) == 0 || line[0] != '{' {
			continue
		}
		d := json.NewDecoder(bytes.NewReader(line))
		d.UseNumber()
		var v any
		if d.Decode(&v) == nil {
			find(v)
		}
	}
	return out
}

// c17CheckNativeRaw is R4 on the raw body of a native response and the agreement of api.Client's view with it.
func c17CheckNativeRaw(what string, stream bool, status int, raw []byte, r *c17Result, clientErr error) error {
	r.numLits = c17NumLits(raw)
	if !bytes.HasSuffix(raw, []byte("\n")) && stream {
		return fmt.Errorf("%s: body does not end with a newline: %q", what, c17Tail(raw))
	}
	lines := bytes.Split(bytes.TrimSuffix(raw, []byte("\n")), []byte("\n"))
	var dones, errs, firstErr int
	firstErr = -1
	var errMsg string
	for i, l := range lines {
		var m struct {
			Error *string `json:"error"`
			Done  bool    `json:"done"`
		}
		if err := json.Unmarshal(l, &m); err != nil {
			return fmt.Errorf("%s: line %d is not a JSON object: %v: %q", what, i, err, c17Tail(l))
		}
		if m.Error != nil {
			errs++
			if firstErr < 0 {
				firstErr, errMsg = i, *m.Error
			}
			if i != len(lines)-1 {
				return fmt.Errorf("%s: error line %d is not the last of %d lines", what, i, len(lines))
			}
		}
		if m.Done {
			dones++
			if i != len(lines)-1 {
				return fmt.Errorf("%s: done:true on line %d, which is not the last of %d lines", what, i, len(lines))
			}
		}
		if m.Error != nil && m.Done {
			return fmt.Errorf("%s: line %d is both an error and done:true", what, i)
		}
	}
	if dones+errs != 1 {
		return fmt.Errorf("%s: %d done:true lines and %d error lines in %d lines, want exactly one final message or one error; body ends %q",
			what, dones, errs, len(lines), c17Tail(raw))
	}
	if !stream && len(lines) != 1 {
		return fmt.Errorf("%s: non-streamed response has %d lines", what, len(lines))
	}
	if errs == 0 && status != http.StatusOK {
		return fmt.Errorf("%s: status %d without an error body", what, status)
	}
	// api.Client's view
	if errs == 1 {
		if clientErr == nil || clientErr.Error() != errMsg {
			return fmt.Errorf("%s: api.Client returned %v for a response whose error line says %q", what, clientErr, errMsg)
		}
		if r.lines != firstErr {
			return fmt.Errorf("%s: api.Client delivered %d messages, the body has %d lines before the error", what, r.lines, firstErr)
		}
	} else {
		if clientErr != nil {
			return fmt.Errorf("%s: api.Client returned %v for a response without error line", what, clientErr)
		}
		if r.lines != len(lines) {
			return fmt.Errorf("%s: api.Client delivered %d messages, the body has %d lines", what, r.lines, len(lines))
		}
	}
	return nil
}

func c17Tail(b []byte) string {
	if len(b) > 300 {
		b = b[len(b)-300:]
		for len(b) > 0 && !utf8.RuneStart(b[0]) {
			b = b[1:]
		}
		return "…" + string(b)
	}
	return string(b)
}

func (e *c17Env) native(c c17Case, sh c17Shape, stream bool, what string) (c17Result, error) {
	r := c17Result{what: what}
	var cerr error
	ctx := context.Background()
	var format json.RawMessage
	switch sh.format {
	case "json":
		format = json.RawMessage(`"json"`)
	case "schema":
		format = json.RawMessage(c17SchemaJSON)
	}
	sawDone := false
	streamField := &stream
	if stream && c.StreamNil {
		streamField = nil
	}
	var options map[string]any
	if c.Stop {
		options = map[string]any{"stop": []string{c17StopSeq}}
	}
	if sh.chat {
		req := &api.ChatRequest{Model: sh.model, Stream: streamField, Format: format, Options: options}
		if c.System != "" {
			req.Messages = append(req.Messages, api.Message{Role: "system", Content: c.System})
		}
		req.Messages = append(req.Messages, api.Message{Role: "user", Content: c.Prompt})
		if sh.tools {
			req.Tools = e.tools
		}
		cerr = e.client.Chat(ctx, req, func(m api.ChatResponse) error {
			r.lines++
			r.text += m.Message.Content
			r.calls = append(r.calls, c17NativeCalls(m.Message.ToolCalls)...)
			if m.Done {
				sawDone = true
				r.reason, r.promptN, r.evalN, r.usage = m.DoneReason, m.PromptEvalCount, m.EvalCount, true
			}
			return nil
		})
	} else {
		req := &api.GenerateRequest{Model: sh.model, Prompt: c.Prompt, System: c.System, Suffix: c.Suffix, Raw: sh.raw, Stream: streamField,
			Format: format, Options: options}
		cerr = e.client.Generate(ctx, req, func(m api.GenerateResponse) error {
			r.lines++
			r.text += m.Response
			if m.Done {
				sawDone = true
				r.reason, r.promptN, r.evalN, r.usage = m.DoneReason, m.PromptEvalCount, m.EvalCount, true
			}
			return nil
		})
	}
	status, raw := e.tr.last()
	r.status = status
	if cerr != nil {
		r.errMsg = cerr.Error()
	}
	if err := c17CheckNativeRaw(what, stream, status, raw, &r, cerr); err != nil {
		return r, err
	}
	if cerr == nil && !sawDone {
		return r, fmt.Errorf("%s: api.Client saw no done:true message", what)
	}
	return r, nil
}

type c17OAToolCall struct {
	Index    *int   `json:"index"`
	ID       string `json:"id"`
	Type     string `json:"type"`
	Function struct {
		Name      string `json:"name"`
		Arguments string `json:"arguments"`
	} `json:"function"`
}

type c17OAChunk struct {
	Error *struct {
		Message string `json:"message"`
	} `json:"error"`
	Choices []struct {
		Text  string `json:"text"`
		Delta struct {
			Content   *string         `json:"content"`
			ToolCalls []c17OAToolCall `json:"tool_calls"`
		} `json:"delta"`
		Message struct {
			Content   *string         `json:"content"`
			ToolCalls []c17OAToolCall `json:"tool_calls"`
		} `json:"message"`
		FinishReason *string `json:"finish_reason"`
	} `json:"choices"`
	Usage *struct {
		PromptTokens     int `json:"prompt_tokens"`
		CompletionTokens int `json:"completion_tokens"`
		TotalTokens      int `json:"total_tokens"`
	} `json:"usage"`
}

func c17OACalls(what string, tcs []c17OAToolCall) ([]c17Call, error) {
	var out []c17Call
	for _, tc := range tcs {
		var args map[string]any
		if err := json.Unmarshal([]byte(tc.Function.Arguments), &args); err != nil {
			return nil, fmt.Errorf("%s: tool call %q has arguments that are not a JSON object: %q", what, tc.Function.Name, tc.Function.Arguments)
		}
		out = append(out, c17Call{Name: tc.Function.Name, Args: c17Canon(args)})
	}
	return out, nil
}

func (e *c17Env) openaiBody(c c17Case, sh c17Shape, stream bool) (string, []byte) {
	m := map[string]any{"model": sh.model}
	if stream {
		m["stream"] = true
		if c.Usage {
			m["stream_options"] = map[string]any{"include_usage": true}
		}
	}
	if c.Stop {
		m["stop"] = c17StopSeq
	}
	path := "/v1/completions"
	if sh.chat {
		path = "/v1/chat/completions"
		var msgs []map[string]any
		if c.System != "" {
			msgs = append(msgs, map[string]any{"role": "system", "content": c.System})
		}
		msgs = append(msgs, map[string]any{"role": "user", "content": c.Prompt})
		m["messages"] = msgs
		if sh.tools {
			m["tools"] = json.RawMessage(c17ToolsJSON)
		}
		switch sh.format {
		case "json":
			m["response_format"] = map[string]any{"type": "json_object"}
		case "schema":
			m["response_format"] = map[string]any{"type": "json_schema", "json_schema": map[string]any{"schema": json.RawMessage(c17SchemaJSON)}}
		}
	} else {
		m["prompt"] = c.Prompt
		if c.Suffix != "" {
			m["suffix"] = c.Suffix
		}
	}
	b, _ := json.Marshal(m)
	return path, b
}

// openai performs the OpenAI-compatible request and applies R4 to an SSE body. failing: the runner was scripted
// to fail; tolerateSwallow: known finding openai-stream-error-swallowed is switched on.
func (e *c17Env) openai(c c17Case, sh c17Shape, stream, failing, tolerateSwallow bool, what string) (c17Result, error) {
	r := c17Result{what: what}
	path, body := e.openaiBody(c, sh, stream)
	status, raw, err := e.post(path, body)
	if err != nil {
		return r, fmt.Errorf("%s: transport: %v", what, err)
	}
	r.status = status
	r.numLits = c17NumLits(raw)
	seenIdx := map[int]bool{}
	add := func(ch *c17OAChunk, streamed bool) error {
		if len(ch.Choices) > 1 {
			return fmt.Errorf("%s: %d choices", what, len(ch.Choices))
		}
		for _, cc := range ch.Choices {
			var tcs []c17OAToolCall
			if sh.chat {
				p := cc.Message.Content
				tcs = cc.Message.ToolCalls
				if streamed {
					p, tcs = cc.Delta.Content, cc.Delta.ToolCalls
				}
				if p != nil {
					r.text += *p
				}
			} else {
				r.text += cc.Text
			}
			calls, err := c17OACalls(what, tcs)
			if err != nil {
				return err
			}
			if streamed {
				// "the concatenation of the streamed chunks" of an OpenAI stream is defined by the protocol: a client assembles
				// tool-call deltas by their index, so two calls of one response that carry the same index are fused into one
				for _, tc := range tcs {
					if tc.Index == nil {
						continue
					}
					if seenIdx[*tc.Index] {
						return fmt.Errorf("%s: two tool calls of one streamed response carry index %d (the second is %s): a client that assembles the deltas by index, as the protocol says, fuses them into one call", what, *tc.Index, tc.Function.Name)
					}
					seenIdx[*tc.Index] = true
				}
			}
			r.calls = append(r.calls, calls...)
		}
		return nil
	}
	if status != http.StatusOK {
		var ch c17OAChunk
		if err := json.Unmarshal(raw, &ch); err != nil || ch.Error == nil {
			return r, fmt.Errorf("%s: status %d with a body that is not an OpenAI error object: %q", what, status, c17Tail(raw))
		}
		r.errMsg = ch.Error.Message
		return r, nil
	}
	if !stream {
		var ch c17OAChunk
		if err := json.Unmarshal(raw, &ch); err != nil {
			return r, fmt.Errorf("%s: body is not JSON: %v: %q", what, err, c17Tail(raw))
		}
		if ch.Error != nil {
			return r, fmt.Errorf("%s: status 200 with an error body %q", what, ch.Error.Message)
		}
		if len(ch.Choices) != 1 {
			return r, fmt.Errorf("%s: %d choices, want 1", what, len(ch.Choices))
		}
		if err := add(&ch, false); err != nil {
			return r, err
		}
		if fr := ch.Choices[0].FinishReason; fr != nil {
			r.reason = *fr
		}
		if ch.Usage != nil {
			r.usage, r.promptN, r.evalN = true, ch.Usage.PromptTokens, ch.Usage.CompletionTokens
			if ch.Usage.TotalTokens != ch.Usage.PromptTokens+ch.Usage.CompletionTokens {
				return r, fmt.Errorf("%s: usage total %d != %d + %d", what, ch.Usage.TotalTokens, ch.Usage.PromptTokens, ch.Usage.CompletionTokens)
			}
		}
		r.lines = 1
		return r, nil
	}

	// SSE
	s := string(raw)
	if !strings.HasSuffix(s, "\n\n") {
		return r, fmt.Errorf("%s: SSE body does not end with a blank line: %q", what, c17Tail(raw))
	}
	events := strings.Split(strings.TrimSuffix(s, "\n\n"), "\n\n")
	var finishes, dones, errsN, usages int
	finishAt, doneAt, errAt, usageAt, lastChoiceAt := -1, -1, -1, -1, -1
	for i, ev := range events {
		if !strings.HasPrefix(ev, "data: ") {
			return r, fmt.Errorf("%s: event %d does not start with \"data: \": %q", what, i, c17Tail([]byte(ev)))
		}
		payload := strings.TrimPrefix(ev, "data: ")
		if payload == "[DONE]" {
			dones++
			doneAt = i
			continue
		}
		var ch c17OAChunk
		if err := json.Unmarshal([]byte(payload), &ch); err != nil {
			return r, fmt.Errorf("%s: event %d is not JSON: %v: %q", what, i, err, c17Tail([]byte(payload)))
		}
		r.lines++
		if ch.Error != nil {
			errsN++
			errAt = i
			r.errMsg = ch.Error.Message
			continue
		}
		if len(ch.Choices) == 0 {
			if ch.Usage != nil {
				usages++
				usageAt = i
				r.usage, r.promptN, r.evalN = true, ch.Usage.PromptTokens, ch.Usage.CompletionTokens
				if ch.Usage.TotalTokens != ch.Usage.PromptTokens+ch.Usage.CompletionTokens {
					return r, fmt.Errorf("%s: usage total %d != %d + %d", what, ch.Usage.TotalTokens, ch.Usage.PromptTokens, ch.Usage.CompletionTokens)
				}
			}
			continue
		}
		lastChoiceAt = i
		if err := add(&ch, true); err != nil {
			return r, err
		}
		if fr := ch.Choices[0].FinishReason; fr != nil {
			finishes++
			finishAt = i
			r.reason = *fr
		}
	}
	desc := fmt.Sprintf("%d events, %d with a finish_reason, %d [DONE], %d error events; body ends %q", len(events), finishes, dones, errsN, c17Tail(raw))
	if failing {
		if finishes != 0 {
			return r, fmt.Errorf("%s: the runner failed but the stream carries a finish_reason (%s)", what, desc)
		}
		if errsN == 0 {
			if tolerateSwallow {
				return r, nil
			}
			return r, fmt.Errorf("[%s] %s: the runner failed mid-stream but the SSE stream carries no error: it just stops (%s)", c17KnownSwallow, what, desc)
		}
		if errsN != 1 || !(errAt == len(events)-1 || (errAt == len(events)-2 && doneAt == len(events)-1)) {
			return r, fmt.Errorf("%s: want exactly one error event at the end of the stream (%s)", what, desc)
		}
		return r, nil
	}
	if errsN != 0 {
		return r, fmt.Errorf("%s: error event %q in a stream whose runner did not fail (%s)", what, r.errMsg, desc)
	}
	if dones != 1 || doneAt != len(events)-1 {
		return r, fmt.Errorf("%s: want exactly one [DONE] and it must be the last event (%s)", what, desc)
	}
	if finishes != 1 || finishAt != lastChoiceAt {
		return r, fmt.Errorf("%s: want exactly one chunk with a finish_reason and it must be the last chunk with a choice (%s)", what, desc)
	}
	if c.Usage {
		if usages != 1 || usageAt < finishAt {
			return r, fmt.Errorf("%s: include_usage was requested: want exactly one usage chunk after the finish_reason chunk, got %d (%s)", what, usages, desc)
		}
	}
	return r, nil
}

// ----------------------------------------------------------------------------------- the oracle

type c17Info struct {
	nontrivial bool
	classes    []string
	excluded   []string
	summary    string
}

type c17Opts struct {
	knownSwallow bool
}

func c17Split(text string, cuts []int) []string {
	runes := []rune(text)
	n := len(runes)
	ps := make([]int, 0, len(cuts))
	for _, p := range cuts {
		ps = append(ps, ((p%(n+1))+(n+1))%(n+1))
	}
	sort.Ints(ps)
	var out []string
	prev := 0
	for _, p := range ps {
		out = append(out, string(runes[prev:p]))
		prev = p
	}
	return append(out, string(runes[prev:]))
}

type c17Span struct {
	lo, hi int // byte offsets
	v      any
}

// c17Spans finds the top-level JSON objects and arrays of a text (class counting and failure diagnosis only).
func c17Spans(text string) []c17Span {
	var out []c17Span
	for i := 0; i < len(text); {
		if text[i] != '{' && text[i] != '[' {
			i++
			continue
		}
		dec := json.NewDecoder(strings.NewReader(text[i:]))
		var v any
		if err := dec.Decode(&v); err != nil {
			i++
			continue
		}
		hi := i + int(dec.InputOffset())
		out = append(out, c17Span{i, hi, v})
		i = hi
	}
	return out
}

func c17HasCall(v any, key string) bool {
	switch o := v.(type) {
	case map[string]any:
		_, nok := o["name"].(string)
		_, aok := o[key].(map[string]any)
		if nok && aok {
			return true
		}
		for _, x := range o {
			if c17HasCall(x, key) {
				return true
			}
		}
	case []any:
		for _, x := range o {
			if c17HasCall(x, key) {
				return true
			}
		}
	}
	return false
}

func c17Same(a, b *c17Result, text, calls, reason, counts bool) error {
	if text && a.text != b.text {
		return fmt.Errorf("text differs: %s has %q, %s has %q", a.what, a.text, b.what, b.text)
	}
	if calls && !slices.Equal(a.calls, b.calls) {
		return fmt.Errorf("tool calls differ (name, arguments; index not compared): %s has %s, %s has %s",
			a.what, c17CallsString(a.calls), b.what, c17CallsString(b.calls))
	}
	if calls && a.numLits != nil && b.numLits != nil && !slices.Equal(a.numLits, b.numLits) {
		return fmt.Errorf("numbers inside tool-call arguments differ as served: %s has %v, %s has %v", a.what, a.numLits, b.what, b.numLits)
	}
	if reason && a.reason != b.reason {
		return fmt.Errorf("finish reason differs: %s has %q, %s has %q", a.what, a.reason, b.what, b.reason)
	}
	if counts && (a.promptN != b.promptN || a.evalN != b.evalN) {
		return fmt.Errorf("token counts differ: %s has prompt=%d eval=%d, %s has prompt=%d eval=%d", a.what, a.promptN, a.evalN, b.what, b.promptN, b.evalN)
	}
	return nil
}

func c17Run(c c17Case, o c17Opts) (info c17Info, err error) {
	invalid := func(why string) (c17Info, error) {
		info.classes = append(info.classes, "invalid_case_"+why)
		return info, nil
	}
	sh, ok := c17Shapes[c.Shape]
	if !ok {
		return invalid("shape")
	}
	if c.Prompt == "" || len(c.Prompt) > 4096 || len(c.System) > 4096 || len(c.Suffix) > 4096 {
		return invalid("prompt")
	}
	if len(c.Text) > 64<<10 || !utf8.ValidString(c.Text) {
		return invalid("text") // both runners only ever emit valid UTF-8; the client scanner limit is 512 KiB
	}
	if len(c.Cuts) > 64 || len(c.Cuts2) > 64 {
		return invalid("cuts")
	}
	var reason llm.DoneReason
	switch c.Reason {
	case "stop":
		reason = llm.DoneReasonStop
	case "length":
		reason = llm.DoneReasonLength
	default:
		return invalid("reason")
	}
	if c.PromptN < 0 || c.EvalN < 0 || c.PromptN > 1<<30 || c.EvalN > 1<<30 || c.FailAfter < 0 {
		return invalid("counts")
	}
	if sh.suffix != (c.Suffix != "") || (c.System != "" && (sh.raw || sh.suffix)) {
		return invalid("fields")
	}
	if !sh.chat && c.System != "" {
		sh.openai = false // /v1/completions has no system prompt
	}
	e, err := c17GetEnv()
	if err != nil {
		return info, fmt.Errorf("harness set-up failed: %v", err)
	}

	if c.Pad > 0 {
		if sh.tools || c.Pad > 25000 {
			return invalid("pad")
		}
		c.Text += strings.Repeat("lorem ipsum ", c.Pad)
		info.classes = append(info.classes, "long_output_over_64k")
	}
	chunksA := c17Split(c.Text, c.Cuts)
	chunksB := c17Split(c.Text, c.Cuts2)
	failA, failB := -1, -1
	if c.FailAfter > 0 {
		failA = (c.FailAfter - 1) % (len(chunksA) + 1)
		failB = (c.FailAfter - 1) % (len(chunksB) + 1)
	}
	// the Tokenize fault bites only where the handler tokenizes after Done: /api/generate without raw, and only if
	// the runner got as far as Done
	tokFails := c.TokFail && !sh.chat && !sh.raw && failA < 0
	failing := failA >= 0 || tokFails
	wantErr := c17FailMsg
	if tokFails {
		wantErr = c17TokFailMsg
	}

	// ---- classes
	cl := func(s string) {
		if !slices.Contains(info.classes, s) {
			info.classes = append(info.classes, s)
		}
	}
	cl("shape_" + c.Shape)
	if c.Kind != "" {
		cl("kind_" + c.Kind)
	}
	spans := c17Spans(c.Text)
	var insideJSON, nextToMultibyte, emptyChunk bool
	firstCallEnd := -1
	if sh.tools {
		for _, s := range spans {
			if c17HasCall(s.v, sh.argKey) {
				firstCallEnd = s.hi
				break
			}
		}
	}
	cutAfterFirstCall := false
	off := 0
	for i, ch := range chunksA {
		if ch == "" {
			emptyChunk = true
		}
		off += len(ch)
		if i == len(chunksA)-1 || off == 0 || off == len(c.Text) {
			continue
		}
		for _, s := range spans {
			if s.lo < off && off < s.hi {
				insideJSON = true
			}
		}
		if r, _ := utf8.DecodeLastRuneInString(c.Text[:off]); utf8.RuneLen(r) > 1 {
			nextToMultibyte = true
		}
		if r, _ := utf8.DecodeRuneInString(c.Text[off:]); utf8.RuneLen(r) > 1 {
			nextToMultibyte = true
		}
		if firstCallEnd >= 0 && off > firstCallEnd {
			cutAfterFirstCall = true
		}
	}
	switch n := len(chunksA); {
	case n == 1:
		cl("chunks_1")
	case n == 2:
		cl("chunks_2")
	default:
		cl("chunks_ge3")
	}
	if insideJSON {
		cl("boundary_inside_json")
	}
	if nextToMultibyte {
		cl("boundary_at_multibyte_char")
	}
	if emptyChunk {
		cl("empty_chunk")
	}
	if len(spans) > 0 {
		cl("output_has_json")
	}
	if len(c.Text) != utf8.RuneCountInString(c.Text) {
		cl("output_has_multibyte")
	}
	if c.Text == "" {
		cl("output_empty")
	}
	if c.Reason == "length" {
		cl("reason_length")
	}
	if c.StreamNil {
		cl("stream_field_omitted")
	}
	if c.Stop {
		cl("stop_option_sent")
	}
	if c.System != "" {
		cl("system_prompt")
	}
	if tokFails {
		cl("tokenize_failure_after_done")
	} else if c.TokFail {
		cl("tokenize_fault_without_effect") // chat, raw generate, or the runner failed before Done
	}
	if failA >= 0 {
		switch {
		case failA == 0:
			cl("failure_before_first_chunk")
		case failA == len(chunksA):
			cl("failure_after_last_chunk")
		default:
			cl("failure_mid_stream")
		}
		cl("failure")
	}
	if cutAfterFirstCall {
		cl("boundary_after_first_call")
	}
	info.nontrivial = (len(chunksA) >= 3 && (insideJSON || nextToMultibyte)) || failA > 0 || tokFails

	script := func(chunks []string, fail int) {
		e.mock.set(c17Script{chunks: chunks, reason: reason, promptN: c.PromptN, evalN: c.EvalN, failAfter: fail, tokFail: c.TokFail})
	}
	var prompts, formats []string
	note := func(what string) error {
		p, f := e.mock.seen()
		if len(p) != 1 {
			return fmt.Errorf("%s: the runner was asked for %d completions, want 1", what, len(p))
		}
		prompts = append(prompts, p[0])
		formats = append(formats, f[0])
		if n := e.mock.tokenizeFailures(); (n > 0) != tokFails {
			return fmt.Errorf("%s: harness expectation wrong: Tokenize failed %d times after Done, expected to bite: %v", what, n, tokFails)
		}
		if prompts[0] != p[0] || formats[0] != f[0] {
			return fmt.Errorf("%s: the runner was given prompt %q format %q, but %q format %q for the first request of the case — the requests are not equivalent",
				what, p[0], f[0], prompts[0], formats[0])
		}
		return nil
	}

	// ---- native, non-streamed, two chunkings (R1) and the ground truth
	script(chunksA, failA)
	ns, err := e.native(c, sh, false, "native non-streamed")
	if err == nil {
		err = note(ns.what)
	}
	if err != nil {
		return info, err
	}
	script(chunksB, failB)
	ns2, err := e.native(c, sh, false, "native non-streamed (second chunking)")
	if err == nil {
		err = note(ns2.what)
	}
	if err != nil {
		return info, err
	}
	info.summary = fmt.Sprintf("chunks=%q fail=%d prompt=%.120q non-streamed: status=%d err=%q text=%q calls=%s reason=%q counts=%d/%d",
		chunksA, failA, prompts[0], ns.status, ns.errMsg, ns.text, c17CallsString(ns.calls), ns.reason, ns.promptN, ns.evalN)
	if failing {
		for _, r := range []*c17Result{&ns, &ns2} {
			if r.status != http.StatusInternalServerError || r.errMsg != wantErr {
				return info, fmt.Errorf("%s: the runner failed with %q but the response is status %d error %q", r.what, wantErr, r.status, r.errMsg)
			}
		}
	} else {
		if ns.status != http.StatusOK || ns2.status != http.StatusOK {
			return info, fmt.Errorf("non-streamed requests answered %d and %d (%q, %q)", ns.status, ns2.status, ns.errMsg, ns2.errMsg)
		}
		if err := c17Same(&ns, &ns2, true, true, true, true); err != nil {
			return info, fmt.Errorf("R1 (re-chunking %q -> %q): %v", chunksA, chunksB, err)
		}
		if ns.reason != c.Reason || ns.promptN != c.PromptN || ns.evalN != c.EvalN {
			return info, fmt.Errorf("%s: done_reason %q counts %d/%d, the runner reported %q %d/%d", ns.what, ns.reason, ns.promptN, ns.evalN, c.Reason, c.PromptN, c.EvalN)
		}
		switch {
		case len(ns.calls) > 0 && !sh.tools:
			return info, fmt.Errorf("%s: tool calls %s in a request without tools", ns.what, c17CallsString(ns.calls))
		case len(ns.calls) > 0 && ns.text != "":
			return info, fmt.Errorf("%s: both tool calls %s and content %q", ns.what, c17CallsString(ns.calls), ns.text)
		case len(ns.calls) == 0 && ns.text != c.Text:
			return info, fmt.Errorf("%s: text %q is not the model output %q", ns.what, ns.text, c.Text)
		}
		if len(ns.calls) > 0 {
			cl("tool_calls_present")
			cl(fmt.Sprintf("tool_calls_%d", min(len(ns.calls), 4)))
			if insideJSON {
				cl("tool_calls_with_boundary_inside_json")
			}
		} else if sh.tools {
			cl("tools_sent_no_call_found")
		}
	}

	// ---- native, streamed (R2, R4)
	script(chunksA, failA)
	st, err := e.native(c, sh, true, "native streamed")
	if err == nil {
		err = note(st.what)
	}
	if err != nil {
		return info, err
	}
	if st.status != http.StatusOK {
		return info, fmt.Errorf("%s: status %d", st.what, st.status)
	}
	partial := strings.Join(chunksA[:max(failA, 0)], "")
	if tokFails {
		partial = c.Text // every chunk had been delivered when Tokenize failed
	}
	if failing {
		if st.errMsg != wantErr {
			return info, fmt.Errorf("%s: the runner failed with %q but the stream ended with error %q", st.what, wantErr, st.errMsg)
		}
		if !sh.tools && st.text != partial {
			return info, fmt.Errorf("%s: text before the error is %q, the runner had produced %q", st.what, st.text, partial)
		}
	} else {
		if st.errMsg != "" {
			return info, fmt.Errorf("%s: error %q although the runner did not fail", st.what, st.errMsg)
		}
		if err := c17Same(&st, &ns, true, true, true, true); err != nil {
			if sh.tools && cutAfterFirstCall && !slices.Equal(st.calls, ns.calls) {
				return info, fmt.Errorf("[%s] R2: %v; chunks %q (a chunk boundary lies after the end of the first tool call)", c17KnownReset, err, chunksA)
			}
			return info, fmt.Errorf("R2: %v; chunks %q", err, chunksA)
		}
	}

	// ---- OpenAI-compatible (R3, R4)
	if sh.openai {
		cl("openai_compared")
		wantFinish := ns.reason
		if len(ns.calls) > 0 {
			wantFinish = "tool_calls"
		}
		script(chunksA, failA)
		ons, err := e.openai(c, sh, false, failing, false, "openai non-streamed")
		if err == nil {
			err = note(ons.what)
		}
		if err != nil {
			return info, err
		}
		if failing {
			if ons.status != http.StatusInternalServerError || ons.errMsg != wantErr {
				return info, fmt.Errorf("%s: the runner failed with %q but the response is status %d error %q", ons.what, wantErr, ons.status, ons.errMsg)
			}
		} else {
			if ons.status != http.StatusOK {
				return info, fmt.Errorf("%s: status %d error %q", ons.what, ons.status, ons.errMsg)
			}
			if err := c17Same(&ons, &ns, true, true, false, true); err != nil {
				return info, fmt.Errorf("R3: %v", err)
			}
			if !ons.usage {
				return info, fmt.Errorf("R3: %s carries no usage", ons.what)
			}
			if ons.reason != wantFinish {
				return info, fmt.Errorf("R3: %s has finish_reason %q, want %q (native done_reason %q, %d tool calls)", ons.what, ons.reason, wantFinish, ns.reason, len(ns.calls))
			}
		}

		script(chunksA, failA)
		if failing && o.knownSwallow {
			info.excluded = append(info.excluded, c17KnownSwallow)
		}
		ost, err := e.openai(c, sh, true, failing, o.knownSwallow, "openai streamed")
		if err == nil {
			err = note(ost.what)
		}
		if err != nil {
			return info, err
		}
		if ost.status != http.StatusOK {
			return info, fmt.Errorf("%s: status %d error %q", ost.what, ost.status, ost.errMsg)
		}
		if failing {
			if ost.errMsg != "" && ost.errMsg != wantErr {
				return info, fmt.Errorf("%s: the runner failed with %q but the stream's error event says %q", ost.what, wantErr, ost.errMsg)
			}
			if !sh.tools && ost.text != partial {
				return info, fmt.Errorf("%s: text before the failure is %q, the runner had produced %q", ost.what, ost.text, partial)
			}
		} else {
			if err := c17Same(&ost, &ns, true, true, false, c.Usage); err != nil {
				if sh.tools && cutAfterFirstCall && !slices.Equal(ost.calls, ns.calls) {
					return info, fmt.Errorf("[%s] R3: %v; chunks %q", c17KnownReset, err, chunksA)
				}
				return info, fmt.Errorf("R3: %v; chunks %q", err, chunksA)
			}
			if c.Usage {
				cl("openai_stream_usage_compared")
			}
			if ost.reason != wantFinish {
				return info, fmt.Errorf("R3: %s has finish_reason %q, want %q (native done_reason %q, %d tool calls)", ost.what, ost.reason, wantFinish, ns.reason, len(ns.calls))
			}
		}
	}
	return info, nil
}

// ------------------------------------------------------------------------------------------ test

func c17Assumed(name string) bool {
	return slices.Contains(strings.Split(os.Getenv("VERIF_ASSUME_KNOWN"), ","), name)
}

func TestC17StreamEquivalence(t *testing.T) {
	const target = "TestC17StreamEquivalence"
	rec := vfkit.Open(target)
	defer rec.Flush()
	_, envErr := c17GetEnv()
	var rc c17Case
	if rp, ok, err := vfkit.ReplayCase(target, &rc); ok {
		if err != nil {
			t.Fatalf("replay: %v", err)
		}
		if envErr != nil {
			t.Skipf("INCONCLUSIVE harness set-up: %v", envErr) // an environment problem is never a verdict; the search shard reports it
		}
		// replays run the strict oracle: the replay of a known finding must fail while the defect exists
		info, err := c17Run(rc, c17Opts{})
		t.Logf("replay: %s classes=%v", info.summary, info.classes)
		if err != nil {
			for _, k := range []string{c17KnownReset, c17KnownSwallow} {
				if rp.Expect == "known:"+k && strings.HasPrefix(err.Error(), "["+k+"]") {
					rec.KnownHit(k, err.Error())
					if c17Assumed(k) { // development aid: the driver does not know the finding yet
						t.Logf("KNOWN-FINDING (assumed): property=C17 %v", err)
						return
					}
				}
			}
			rec.Fail(target, rc, err.Error())
			t.Fatalf("C17 violated: %v", err)
		}
		return
	}
	if envErr != nil {
		t.Fatalf("INCONCLUSIVE harness set-up (no case was run, the driver reports a worker death): %v", envErr)
	}
	gopts := c17GenOpts{knownReset: rec.Known(c17KnownReset)}
	opts := c17Opts{knownSwallow: rec.Known(c17KnownSwallow)}
	rapid.Check(t, func(rt *rapid.T) {
		if rec.OverBudget() {
			return
		}
		c := c17Gen(rt, gopts)
		rec.Current(target, c) // the handlers parse the output on a goroutine of their own: a panic there kills the process
		info, err := c17Run(c, opts)
		if c.Snapped > 0 {
			rec.Excluded(c17KnownReset)
		}
		for _, e := range info.excluded {
			rec.Excluded(e)
		}
		rec.Case(c, info.nontrivial, info.classes...)
		if err != nil {
			rec.Fail(target, c, err.Error())
			rt.Fatalf("C17 violated: %v", err)
		}
	})
}
