package server

// Fake registry + CDN used by the pull/store/crash harnesses (C03, C04, C12): an http.RoundTripper installed as
// http.DefaultTransport, so that both makeRequest's clients and download.go's http.DefaultClient reach it without
// sockets. Responses are scripted: the generator draws a fault for "the k-th request of kind K", and response
// bodies are delivered through readers that can truncate, reset, flip a byte or stall (virtual time).

import (
	"bytes"
	"context"
	"crypto/ed25519"
	"crypto/rand"
	"crypto/sha256"
	"encoding/json"
	"encoding/pem"
	"errors"
	"fmt"
	"io"
	"net/http"
	"os"
	"path/filepath"
	"strconv"
	"strings"
	"sync"
	"time"

	"golang.org/x/crypto/ssh"
)

const (
	frRegHost = "reg.test"
	frCDNHost = "cdn.test"
	frAuthURL = "https://auth.test/token"
)

type frFault struct {
	Kind      string `json:"kind"`  // manifest head blob cdn token
	Ord       int    `json:"ord"`   // the Ord-th request of that kind, counted over the whole case
	Fault     string `json:"fault"` // see frFaultsFor
	Arg       int    `json:"arg,omitempty"`
	Challenge int    `json:"challenge,omitempty"`
}

// faults that make sense per request kind
var frFaultsFor = map[string][]string{
	// size0/sizes0/sizeplus/sizeminus: a well-formed manifest whose size members do not describe the layers
	// (one layer 0, all 0 - the same as leaving the member out -, one layer larger, one layer smaller)
	"manifest": {"s500", "s503", "s404", "s401", "connerr", "trunc", "reset", "badjson", "stall", "size0", "sizes0", "sizeplus", "sizeminus",
		// a well-formed manifest whose digest members are unusual: one empty / too short / not hex, or all spelled in
		// the second form GetBlobsPath accepts ("sha256-<hex>") or in upper-case hex
		"digest_empty", "digest_short", "digest_garbage", "digest_dash", "digest_upper"},
	"head":  {"s500", "s404", "s401", "connerr", "lenplus", "lenminus", "nolen"},
	"blob":  {"s500", "s502", "s404", "s401", "connerr", "samehost", "noredirect", "chain"},
	"cdn":   {"s500", "s503", "s404", "s416", "connerr", "trunc", "reset", "flip", "stall", "stallforever", "norange"},
	"token": {"s500", "s401", "connerr", "badjson", "trunc", "s401loop"},
}

var frChallenges = []string{
	`Bearer realm="` + frAuthURL + `",service="reg.test",scope="repository:ns/m:pull"`,
	`Bearer realm=` + frAuthURL + `,service=reg.test,scope=repository:ns/m:pull`,
	`Bearer realm=`,
	`Bearer realm="` + frAuthURL + `" service="reg.test" scope="x"`,
	``,
	`Bearer realm="::::",service="reg.test"`,
	`Bearer realm="` + frAuthURL,
	`Basic realm="x"`,
	`Bearer service="reg.test",realm="` + frAuthURL + `"`,
	`Bearer realm="` + frAuthURL + `",scope=`,
	`realm`,
	`Bearer scope="a b c",realm="` + frAuthURL + `?x=1",service=""`,
}

type frBlob struct {
	Digest    string
	Data      []byte
	MediaType string
}

type frModel struct {
	Layers []frBlob
	Config *frBlob
}

func frDigest(b []byte) string { return fmt.Sprintf("sha256:%x", sha256.Sum256(b)) }

func (m *frModel) manifest() Manifest {
	var mf Manifest
	mf.SchemaVersion = 2
	mf.MediaType = "application/vnd.docker.distribution.manifest.v2+json"
	for _, l := range m.Layers {
		mf.Layers = append(mf.Layers, Layer{MediaType: l.MediaType, Digest: l.Digest, Size: int64(len(l.Data))})
	}
	if m.Config != nil {
		mf.Config = Layer{MediaType: m.Config.MediaType, Digest: m.Config.Digest, Size: int64(len(m.Config.Data))}
	}
	return mf
}

type frRegistry struct {
	mu        sync.Mutex
	models    map[string]*frModel // "ns/repo:tag"
	blobs     map[string][]byte
	faults    []frFault
	counts    map[string]int
	used      []string // faults actually applied
	log       []string
	needTok   bool // every registry request must carry the bearer token
	foldNames bool // repository names are looked up case-insensitively (as the real registry does)
	chunk     int  // bytes delivered per body Read (default 4096)

	lastManifest    map[string]Manifest   // per "ns/repo:tag": the manifest most recently served with status 200
	servedManifests map[string][]Manifest // ... and all of them, in order
	sizeLied        map[string]bool       // digests whose size a served manifest misstated

	// hook is called (without the lock) at every request and before every body chunk; it may block (crash harness)
	hook func(ev string)
}

func frNewRegistry() *frRegistry {
	return &frRegistry{models: map[string]*frModel{}, blobs: map[string][]byte{}, counts: map[string]int{}}
}

func (r *frRegistry) publish(name string, m *frModel) {
	r.mu.Lock()
	defer r.mu.Unlock()
	r.models[name] = m
	for _, l := range m.Layers {
		r.blobs[l.Digest] = l.Data
	}
	if m.Config != nil {
		r.blobs[m.Config.Digest] = m.Config.Data
	}
}

func (r *frRegistry) clearFaults() {
	r.mu.Lock()
	r.faults = nil
	r.mu.Unlock()
}

func (r *frRegistry) logf(f string, a ...any) {
	if len(r.log) < 2000 {
		r.log = append(r.log, fmt.Sprintf(f, a...))
	}
}

// take returns the fault scripted for this request, if any.
func (r *frRegistry) take(kind string) *frFault {
	n := r.counts[kind]
	r.counts[kind]++
	for i := range r.faults {
		f := r.faults[i]
		if f.Kind == kind && f.Ord == n {
			r.used = append(r.used, kind+":"+f.Fault)
			return &f
		}
		// s401loop: from its ordinal on, every request of that kind is answered 401 with the same challenge (a token
		// endpoint that itself demands authorisation, for good - until the faults are cleared)
		if f.Kind == kind && f.Fault == "s401loop" && n > f.Ord {
			g := f
			g.Fault = "s401"
			return &g
		}
	}
	return nil
}

type frBody struct {
	ctx    context.Context
	reg    *frRegistry
	data   []byte
	pos    int
	fault  string
	at     int
	passed bool
	label  string
}

func (b *frBody) Read(p []byte) (int, error) {
	if err := b.ctx.Err(); err != nil {
		return 0, err
	}
	if b.reg.hook != nil {
		b.reg.hook(fmt.Sprintf("body %s @%d", b.label, b.pos))
	}
	limit := len(b.data)
	if !b.passed && (b.fault == "trunc" || b.fault == "reset" || b.fault == "stall" || b.fault == "stallforever") && b.at < limit {
		limit = b.at
	}
	if b.pos >= limit {
		if limit == len(b.data) {
			return 0, io.EOF
		}
		switch b.fault {
		case "trunc":
			return 0, io.ErrUnexpectedEOF
		case "reset":
			return 0, errors.New("read tcp 10.0.0.1:1->10.0.0.2:443: read: connection reset by peer")
		case "stall":
			t := time.NewTimer(45 * time.Second)
			defer t.Stop()
			select {
			case <-b.ctx.Done():
				return 0, b.ctx.Err()
			case <-t.C:
				b.passed = true
				return b.Read(p)
			}
		case "stallforever":
			<-b.ctx.Done()
			return 0, b.ctx.Err()
		}
	}
	piece := 4096
	if b.reg.chunk > 0 {
		piece = b.reg.chunk
	}
	n := min(len(p), limit-b.pos, piece)
	copy(p, b.data[b.pos:b.pos+n])
	b.pos += n
	return n, nil
}

func (b *frBody) Close() error { return nil }

func (r *frRegistry) resp(req *http.Request, status int, hdr http.Header, body io.ReadCloser, length int64) *http.Response {
	if hdr == nil {
		hdr = http.Header{}
	}
	if body == nil {
		body = io.NopCloser(bytes.NewReader(nil))
	}
	if length >= 0 && hdr.Get("Content-Length") == "" {
		hdr.Set("Content-Length", strconv.FormatInt(length, 10))
	}
	return &http.Response{Status: fmt.Sprintf("%d %s", status, http.StatusText(status)), StatusCode: status, Proto: "HTTP/1.1", ProtoMajor: 1, ProtoMinor: 1,
		Header: hdr, Body: body, ContentLength: length, Request: req}
}

func (r *frRegistry) text(req *http.Request, status int, s string) *http.Response {
	return r.resp(req, status, nil, io.NopCloser(strings.NewReader(s)), int64(len(s)))
}

func (r *frRegistry) RoundTrip(req *http.Request) (*http.Response, error) {
	if err := req.Context().Err(); err != nil {
		return nil, err
	}
	if req.Body != nil {
		defer req.Body.Close()
	}
	kind, arg := r.classify(req)
	if r.hook != nil {
		r.hook("request " + kind + " " + req.Method + " " + req.URL.Path)
	}
	r.mu.Lock()
	defer r.mu.Unlock()
	f := r.take(kind)
	r.logf("%s %s %s range=%q fault=%v", kind, req.Method, req.URL.String(), req.Header.Get("Range"), f)
	fault := ""
	if f != nil {
		fault = f.Fault
		switch fault {
		case "s500", "s502", "s503", "s416":
			code, _ := strconv.Atoi(fault[1:])
			return r.text(req, code, `{"errors":[{"code":"INTERNAL","message":"scripted"}]}`), nil
		case "s404":
			return r.text(req, 404, `{"errors":[{"code":"NOT_FOUND"}]}`), nil
		case "s401", "s401loop":
			h := http.Header{}
			if c := frChallenges[f.Challenge%len(frChallenges)]; c != "" {
				h.Set("Www-Authenticate", c)
			}
			return r.resp(req, 401, h, io.NopCloser(strings.NewReader("unauthorized")), 12), nil
		case "connerr":
			return nil, errors.New("dial tcp 10.0.0.2:443: connect: connection refused")
		}
	}
	body := func(data []byte, label string) *frBody {
		b := &frBody{ctx: req.Context(), reg: r, data: data, fault: fault, label: label}
		if f != nil {
			if len(data) > 0 {
				b.at = f.Arg % (len(data) + 1)
			}
			if fault == "flip" && len(data) > 0 {
				d := append([]byte{}, data...)
				d[f.Arg%len(d)] ^= 0x40
				b.data = d
			}
		}
		return b
	}
	switch kind {
	case "token":
		js := []byte(`{"token":"tok-` + strconv.Itoa(r.counts["token"]) + `"}`)
		if fault == "badjson" {
			js = []byte(`{"token":`)
		}
		return r.resp(req, 200, nil, body(js, "token"), int64(len(js))), nil
	case "manifest":
		m := r.models[arg]
		if m == nil && r.foldNames {
			m = r.models[strings.ToLower(arg)]
		}
		if m == nil {
			return r.text(req, 404, `{"errors":[{"code":"MANIFEST_UNKNOWN"}]}`), nil
		}
		mf := m.manifest()
		if ls := frSizeFault(&mf, fault, f); len(ls) > 0 {
			if r.sizeLied == nil {
				r.sizeLied = map[string]bool{}
			}
			for _, d := range ls {
				r.sizeLied[d] = true
			}
		}
		frDigestFault(&mf, fault, f)
		if r.lastManifest == nil {
			r.lastManifest = map[string]Manifest{}
		}
		r.lastManifest[arg] = mf
		if r.servedManifests == nil {
			r.servedManifests = map[string][]Manifest{}
		}
		r.servedManifests[arg] = append(r.servedManifests[arg], mf)
		js, _ := json.Marshal(mf)
		if fault == "badjson" {
			js = js[:len(js)/2]
		}
		return r.resp(req, 200, http.Header{"Content-Type": {"application/vnd.docker.distribution.manifest.v2+json"}}, body(js, "manifest"), int64(len(js))), nil
	case "head":
		data, ok := r.blobs[arg]
		if !ok {
			return r.text(req, 404, ""), nil
		}
		n := int64(len(data))
		h := http.Header{}
		switch fault {
		case "lenplus":
			n += int64(1 + f.Arg%64)
		case "lenminus":
			n -= int64(1 + f.Arg%64)
			if n < 0 {
				n = 0
			}
		case "nolen":
			return &http.Response{StatusCode: 200, Status: "200 OK", Proto: "HTTP/1.1", ProtoMajor: 1, ProtoMinor: 1, Header: h, Body: http.NoBody, ContentLength: -1, Request: req}, nil
		}
		return r.resp(req, 200, h, nil, n), nil
	case "blob":
		data, ok := r.blobs[arg]
		if !ok {
			return r.text(req, 404, `{"errors":[{"code":"BLOB_UNKNOWN"}]}`), nil
		}
		loc := "https://" + frCDNHost + "/blobs/" + arg
		switch fault {
		case "samehost":
			loc = "https://" + frRegHost + "/v2/mirror/" + arg
		case "noredirect":
			return r.resp(req, 200, nil, body(data, "blob-direct"), int64(len(data))), nil
		case "chain":
			loc = "https://" + frRegHost + "/chain/0/" + arg
		}
		return r.resp(req, 307, http.Header{"Location": {loc}}, nil, 0), nil
	case "mirror": // same-host redirect target: the real registry would now redirect to the CDN
		return r.resp(req, 307, http.Header{"Location": {"https://" + frCDNHost + "/blobs/" + arg}}, nil, 0), nil
	case "chain":
		parts := strings.SplitN(arg, "/", 2)
		n, _ := strconv.Atoi(parts[0])
		return r.resp(req, 307, http.Header{"Location": {fmt.Sprintf("https://%s/chain/%d/%s", frRegHost, n+1, parts[1])}}, nil, 0), nil
	case "cdn":
		data, ok := r.blobs[arg]
		if !ok {
			return r.text(req, 404, ""), nil
		}
		start, end := 0, len(data)-1
		status := 200
		if rg := req.Header.Get("Range"); rg != "" && fault != "norange" {
			var a, b int
			if _, err := fmt.Sscanf(rg, "bytes=%d-%d", &a, &b); err == nil {
				if a >= len(data) {
					return r.text(req, 416, ""), nil
				}
				start, end, status = a, min(b, len(data)-1), 206
			}
		}
		part := data[start : end+1]
		h := http.Header{}
		if status == 206 {
			h.Set("Content-Range", fmt.Sprintf("bytes %d-%d/%d", start, end, len(data)))
		}
		return r.resp(req, status, h, body(part, "cdn"), int64(len(part))), nil
	}
	return r.text(req, 404, "not found"), nil
}

func (r *frRegistry) classify(req *http.Request) (kind, arg string) {
	p := req.URL.Path
	switch {
	case req.URL.Host == "auth.test":
		return "token", ""
	case req.URL.Host == frCDNHost:
		return "cdn", strings.TrimPrefix(p, "/blobs/")
	case strings.HasPrefix(p, "/v2/mirror/"):
		return "mirror", strings.TrimPrefix(p, "/v2/mirror/")
	case strings.HasPrefix(p, "/chain/"):
		return "chain", strings.TrimPrefix(p, "/chain/")
	case strings.Contains(p, "/manifests/"):
		i := strings.Index(p, "/manifests/")
		return "manifest", strings.TrimPrefix(p[:i], "/v2/") + ":" + p[i+len("/manifests/"):]
	case strings.Contains(p, "/blobs/"):
		d := p[strings.Index(p, "/blobs/")+len("/blobs/"):]
		if req.Method == http.MethodHead {
			return "head", d
		}
		return "blob", d
	}
	return "other", p
}

// frInstall makes the registry the process-wide default transport and returns the undo function.
func frInstall(r *frRegistry) func() {
	old := http.DefaultTransport
	http.DefaultTransport = r
	return func() { http.DefaultTransport = old }
}

var frKeyOnce sync.Once

// frHome gives the process a throw-away HOME with an ed25519 key, for the registry token flow.
func frHome() {
	frKeyOnce.Do(func() {
		home, err := os.MkdirTemp("", "fr-home-")
		if err != nil {
			panic(err)
		}
		os.Setenv("HOME", home)
		_, priv, err := ed25519.GenerateKey(rand.Reader)
		if err != nil {
			panic(err)
		}
		blk, err := ssh.MarshalPrivateKey(priv, "")
		if err != nil {
			panic(err)
		}
		os.MkdirAll(filepath.Join(home, ".ollama"), 0o755)
		if err := os.WriteFile(filepath.Join(home, ".ollama", "id_ed25519"), pem.EncodeToMemory(blk), 0o600); err != nil {
			panic(err)
		}
	})
}

// frSizeFault rewrites size members of a manifest about to be served and returns the digests it lied about.
func frSizeFault(mf *Manifest, fault string, f *frFault) (lied []string) {
	if f == nil {
		return nil
	}
	all := make([]*Layer, 0, len(mf.Layers)+1)
	for i := range mf.Layers {
		all = append(all, &mf.Layers[i])
	}
	if mf.Config.Digest != "" {
		all = append(all, &mf.Config)
	}
	if len(all) == 0 {
		return nil
	}
	set := func(l *Layer, n int64) {
		if l.Size != n {
			l.Size = n
			lied = append(lied, l.Digest)
		}
	}
	one := all[f.Arg%len(all)]
	switch fault {
	case "size0":
		set(one, 0)
	case "sizes0":
		for _, l := range all {
			set(l, 0)
		}
	case "sizeplus":
		set(one, one.Size+1+int64(f.Arg%5000))
	case "sizeminus":
		set(one, max(0, one.Size-1-int64(f.Arg%5000)))
	}
	return lied
}

// frModelsDir returns the directory a case uses as OLLAMA_MODELS inside its scratch directory: on odd shards (and in
// replays) its name is full of pattern metacharacters - a models directory such as "/data/models [v2]" is legitimate,
// and code that lets the directory's own path take part in a glob stops finding what is there.
func frModelsDir(scratch string) string {
	leaf := "models"
	if sh, _ := strconv.Atoi(os.Getenv("VERIF_SHARD")); sh%2 == 1 || os.Getenv("VERIF_REPLAY") != "" {
		leaf = `mod[e-l]s *v?\\2 {a,b}`
	}
	// a replay file may ask for the plain directory ("models_dir": "plain"): the download code globs for its resume
	// files with the blob's path as the pattern, so in the metacharacter directory a download never resumes - and a
	// finding that lives in the resume path does not reproduce there
	if p := os.Getenv("VERIF_REPLAY"); p != "" {
		if raw, err := os.ReadFile(p); err == nil {
			var rp struct {
				ModelsDir string `json:"models_dir"`
			}
			if json.Unmarshal(raw, &rp) == nil && rp.ModelsDir == "plain" {
				leaf = "models"
			}
		}
	}
	d := filepath.Join(scratch, leaf)
	os.MkdirAll(d, 0o755)
	return d
}

// frDigestFault rewrites digest members of a manifest about to be served.
func frDigestFault(mf *Manifest, fault string, f *frFault) {
	if f == nil || !strings.HasPrefix(fault, "digest_") {
		return
	}
	all := make([]*Layer, 0, len(mf.Layers)+1)
	for i := range mf.Layers {
		all = append(all, &mf.Layers[i])
	}
	if mf.Config.Digest != "" {
		all = append(all, &mf.Config)
	}
	if len(all) == 0 {
		return
	}
	one := all[f.Arg%len(all)]
	switch fault {
	case "digest_empty":
		one.Digest = ""
	case "digest_short":
		one.Digest = one.Digest[:min(len(one.Digest), 7+f.Arg%12)]
	case "digest_garbage":
		one.Digest = "sha256:" + strings.Repeat("zz", 32)
	case "digest_dash":
		for _, l := range all {
			l.Digest = strings.Replace(l.Digest, "sha256:", "sha256-", 1)
		}
	case "digest_upper":
		for _, l := range all {
			l.Digest = "sha256:" + strings.ToUpper(strings.TrimPrefix(l.Digest, "sha256:"))
		}
	}
}

// frCheckStore verifies that every layer of the manifest the name resolves to is present with the right size and hash.
// sizeLied: digests whose size a served manifest misstated - for those only the hash decides (no file can have both
// the manifest's size and the manifest's digest).
func frCheckStore(name string, want *Manifest, sizeLied ...map[string]bool) error {
	mp := ParseModelPath(name)
	got, _, err := GetManifest(mp)
	if err != nil {
		return fmt.Errorf("stored manifest of %s unreadable: %v", name, err)
	}
	if want != nil {
		if len(got.Layers) != len(want.Layers) || strings.Replace(got.Config.Digest, "sha256-", "sha256:", 1) != strings.Replace(want.Config.Digest, "sha256-", "sha256:", 1) {
			return fmt.Errorf("stored manifest of %s has %d layers / config %s, served manifest has %d layers / config %s", name, len(got.Layers), got.Config.Digest, len(want.Layers), want.Config.Digest)
		}
		for i := range want.Layers {
			// (digests compared modulo the separator: a manifest served with "sha256-<hex>" is stored with the canonical "sha256:<hex>")
			if strings.Replace(got.Layers[i].Digest, "sha256-", "sha256:", 1) != strings.Replace(want.Layers[i].Digest, "sha256-", "sha256:", 1) || got.Layers[i].Size != want.Layers[i].Size || got.Layers[i].MediaType != want.Layers[i].MediaType {
				return fmt.Errorf("stored manifest of %s: layer %d is %+v, served %+v", name, i, got.Layers[i], want.Layers[i])
			}
		}
	}
	ls := append([]Layer{}, got.Layers...)
	if got.Config.Digest != "" {
		ls = append(ls, got.Config)
	}
	for _, l := range ls {
		fp, err := GetBlobsPath(l.Digest)
		if err != nil {
			return fmt.Errorf("layer %s of %s: %v", l.Digest, name, err)
		}
		b, err := os.ReadFile(fp)
		if err != nil {
			return fmt.Errorf("layer %s of %s is missing from the store: %v", l.Digest[:19], name, err)
		}
		if int64(len(b)) != l.Size && !(len(sizeLied) > 0 && sizeLied[0][l.Digest]) {
			return fmt.Errorf("layer %s of %s has %d bytes in the store, manifest says %d", l.Digest[:19], name, len(b), l.Size)
		}
		// a digest may be spelled with either separator and in either case (GetBlobsPath accepts all): the hash decides
		if d := frDigest(b); d != strings.ToLower(strings.Replace(l.Digest, "sha256-", "sha256:", 1)) {
			return fmt.Errorf("layer %s of %s is corrupt in the store (content hashes to %s)", l.Digest[:min(19, len(l.Digest))], name, d[:19])
		}
	}
	return nil
}
