package server

// C10 layer 3 — untrusted Hugging Face style model directories and LoRA adapters through the API
// (see /verif/DESIGN.md §3 C10). POST /api/create accepts `files` = {config.json, tokenizer files,
// *.safetensors} and `adapters` = {adapter_config.json, *.safetensors}; they are parsed by package
// convert on the goroutine CreateHandler starts, which nothing recovers.
//
// Per case: every file is uploaded with POST /api/blobs/:digest; then
//
//  1. pre-flight: the very call the create goroutine makes, convertModelFromFiles(files, base,
//     isAdapter, fn), is made directly on a watched goroutine under recover. A panic there is what
//     kills the server in step 2, but observed this way the process survives, rapid can shrink the
//     case, and the innermost ollama function on the panicking stack is the signature by which
//     listed findings are excluded (rec.Known). Runaway allocation and non-termination cannot be
//     recovered from: the listed ones are excluded by construction from the bytes (c10cPredict);
//     a new one is reported and the process is abandoned (it cannot be stopped from outside).
//  2. the request itself: POST /api/create (stream drawn) on the real router under the observers of
//     TestC10API (answered within the liveness bound, no recovered panic, allocation budget, the
//     process survives - rec.Current lets the driver attribute a death), then POST /api/show (plain,
//     verbose) if create reported success, then GET /api/version and /api/tags.
//
// Nothing is asserted about which inputs must be rejected.

import (
	"bytes"
	"context"
	"crypto/sha256"
	"encoding/json"
	"errors"
	"fmt"
	"net/http"
	"os"
	"regexp"
	"runtime/debug"
	"sort"
	"strings"
	"testing"
	"time"

	"github.com/ollama/ollama/api"
	"github.com/ollama/ollama/types/model"
	c10hf "github.com/ollama/ollama/verifc10hf"
	"pgregory.net/rapid"
	"verif.local/vfkit"
)

// c10cFacts are properties of the uploaded bytes that tell root causes with the same panic text apart.
type c10cFacts struct {
	adapter  bool
	mismatch bool // a tensor whose byte size is not product(shape) * element size
	rankNot2 bool // a tensor whose shape does not have exactly two dimensions
	zeroDim  bool // a tensor with a dimension of 0
}

// c10cClassify maps the signature of a recovered panic (innermost ollama function on the stack, text
// of the panic value, facts about the input) to the slug of a finding. It decides nothing: the slug
// is only used to exclude findings that are listed (rec.Known) and to name replays.
func c10cClassify(fn, msg string, f c10cFacts) string {
	has := strings.Contains
	switch {
	case has(fn, "convert.parseSafetensors") && has(msg, "makeslice"):
		return "safetensors-header-length"
	case has(fn, "convert.parseSafetensors") && has(msg, "index out of range"):
		return "safetensors-data-offsets"
	case has(fn, "convert.safetensor.WriteTo") && has(msg, "makeslice"):
		return "safetensors-data-offsets"
	case has(fn, "Adapter).Tensors") && has(msg, "index out of range"):
		return "adapter-tensor-rank"
	case f.zeroDim && (has(fn, ").repack") || has(fn, ").addOne")) && has(msg, "index out of range [0] with length 0"):
		return "empty-tensor-repack"
	case f.mismatch && (has(msg, "Shape mismatch") || has(msg, "negative dimension") || (has(fn, "convert.safetensor.WriteTo") && has(msg, "index out of range"))):
		return "safetensors-shape-size-mismatch"
	case f.adapter && f.rankNot2 && has(fn, "Adapter).repack") && has(msg, "Shape mismatch"):
		return "adapter-tensor-rank"
	case has(fn, "convert.(*llamaAdapter).repack") && has(msg, "integer divide by zero"):
		return "llama-adapter-head-count"
	case has(fn, "convert.(*llamaAdapter).KV") && has(msg, "interface conversion"):
		return "llama-adapter-head-count"
	case has(fn, "Model).repack") && has(msg, "integer divide by zero"):
		return "repack-head-count-zero"
	case has(fn, "convert.(*gemmaModel).addOne") && (has(msg, "Shape mismatch") || has(msg, "negative dimension")):
		return "gemma-norm-rank"
	case has(fn, "convert.(*llamaModel).KV") && has(msg, "integer divide by zero"):
		return "llama3-rope-head-dim"
	case has(fn, "convert.parseAdditionalSpecialTokens") && has(msg, "interface conversion"):
		return "special-tokens-map-type"
	case has(fn, "convert.parseSentencePiece") && has(msg, "index out of range [-"):
		return "added-tokens-negative-id"
	case has(fn, "Model).KV") && has(msg, "unknown rope scaling type"):
		return "rope-scaling-type-panic"
	case has(fn, "Model).KV") && has(msg, "integer divide by zero"):
		return "config-zero-divisor"
	}
	return ""
}

var c10cStackRe = regexp.MustCompile(`(?m)^(.+)\([^()\n]*\)\n\t(/\S+\.go):(\d+)`)

// c10cInnermost returns the innermost function of the repository under test on a debug.Stack() dump.
func c10cInnermost(stack string) (fn, where string) {
	for _, m := range c10cStackRe.FindAllStringSubmatch(stack, -1) {
		f, file := m[1], m[2]
		if !strings.Contains(f, "github.com/ollama/ollama/") || strings.Contains(file, "zz_verif_") || strings.Contains(f, "/verifc10") {
			continue
		}
		f = strings.TrimPrefix(f, "github.com/ollama/ollama/")
		return f, fmt.Sprintf("%s (%s:%s)", f, file[strings.LastIndex(file, "/")+1:], m[3])
	}
	return "", "(no ollama frame)"
}

type c10cPre struct {
	panicMsg string // "" = no panic
	fn       string // innermost ollama function of the panic
	where    string
	stuck    string
	alloc    uint64
	err      error
}

// c10cPreflight makes the call of the create goroutine directly (see the file comment).
// detectModelTypeFromFiles walks the request's map in Go's random order and gives up at the first
// file it cannot read four bytes of, so a directory with an empty member is converted or rejected
// as "unknown type" by chance; the pre-flight takes the branch that reads the files whenever some
// order leads there (a *.safetensors name is present).
func (e *c10Env) c10cPreflight(files map[string]string, base []*layerGGML, isAdapter bool) (p c10cPre) {
	direct := false
	for name := range files {
		if strings.HasSuffix(name, ".safetensors") {
			direct = true
		}
	}
	type result struct {
		err   error
		pv    any
		stack string
	}
	done := make(chan result, 1)
	a0, h0 := c10Mem()
	go func() {
		var r result
		defer func() {
			if v := recover(); v != nil {
				r.pv, r.stack = v, string(debug.Stack())
			}
			done <- r
		}()
		if direct {
			_, r.err = convertFromSafetensors(files, base, isAdapter, func(api.ProgressResponse) {})
		} else {
			_, r.err = convertModelFromFiles(files, base, isAdapter, func(api.ProgressResponse) {})
		}
	}()
	tick := time.NewTicker(100 * time.Millisecond)
	defer tick.Stop()
	start := time.Now()
	for {
		select {
		case r := <-done:
			a1, _ := c10Mem()
			p.alloc = a1 - a0
			p.err = r.err
			if r.pv != nil {
				p.panicMsg = fmt.Sprint(r.pv)
				if len(p.panicMsg) > 300 {
					p.panicMsg = p.panicMsg[:300] + "..."
				}
				p.fn, p.where = c10cInnermost(r.stack)
			}
			return p
		case <-tick.C:
			_, h1 := c10Mem()
			switch {
			case h1 > h0+c10HeapBound:
				p.stuck = fmt.Sprintf("still running after %.1fs with the heap grown from %d to %d MiB", time.Since(start).Seconds(), h0>>20, h1>>20)
			case time.Since(start) > c10RequestBound:
				p.stuck = fmt.Sprintf("not finished within %s", c10RequestBound)
			}
			if p.stuck != "" {
				p.stuck += "; a goroutine is inside " + c10StacksContain("ollama/convert.", "ollama/fs/ggml.", "ollama/server.")
				return p
			}
		}
	}
}

// c10cPredict names, from the bytes alone, the listed finding classes that cannot be observed
// under recover (allocation sized by a number in the file, loops bounded by a number in the file).
func c10cPredict(c c10hf.Case, d c10hf.Dir) []string {
	var out []string
	seen := map[string]bool{}
	hit := func(s string) {
		if !seen[s] {
			seen[s] = true
			out = append(out, s)
		}
	}
	for _, f := range d.Files {
		if !strings.HasSuffix(f.Name, ".safetensors") || strings.Contains(f.Name, "/") || len(f.Data) < 8 {
			continue // not matched by the converter's *.safetensors glob, or the length cannot be read
		}
		in := c10hf.Inspect(f.Name, f.Data)
		// parseSafetensors sizes a buffer by the declared header length before reading anything
		if in.HdrLen < 0 || (in.HdrLen > in.Size-8 && in.HdrLen > 32<<20) {
			hit("safetensors-header-length")
		}
		// safetensor.WriteTo sizes its buffers by end-begin of data_offsets before reading anything
		if in.HdrOK && in.MaxTensor > 32<<20 {
			hit("safetensors-data-offsets")
		}
	}
	// numbers in config.json that bound loops which allocate per iteration
	for _, f := range d.Files {
		if f.Name != "config.json" {
			continue
		}
		var a struct {
			Architectures []string `json:"architectures"`
		}
		if json.Unmarshal(f.Data, &a) != nil || len(a.Architectures) == 0 {
			break
		}
		u32 := func(path ...string) uint32 {
			var m map[string]json.RawMessage
			cur := f.Data
			for _, k := range path[:len(path)-1] {
				if json.Unmarshal(cur, &m) != nil {
					return 0
				}
				cur, m = m[k], nil
			}
			if json.Unmarshal(cur, &m) != nil {
				return 0
			}
			var v uint32
			json.Unmarshal(m[path[len(path)-1]], &v)
			return v
		}
		if vs := max(u32("vocab_size"), u32("text_config", "vocab_size")); vs > 500000 {
			hit("vocab-size-padding") // ConvertModel pads the vocabulary with vocab_size - len(tokens) dummy tokens
		}
		switch a.Architectures[0] {
		case "LlamaForCausalLM", "MixtralForCausalLM":
			var r struct {
				RopeScaling struct {
					RopeType string `json:"rope_type"`
				} `json:"rope_scaling"`
			}
			json.Unmarshal(f.Data, &r)
			if h, n := u32("hidden_size"), u32("num_attention_heads"); r.RopeScaling.RopeType == "llama3" && n > 0 && h/n > 1<<20 {
				hit("llama3-rope-head-dim") // one rope factor per two head dimensions, head dimension = hidden_size / num_attention_heads
			}
			if a.Architectures[0] == "MixtralForCausalLM" && u32("num_local_experts") > 1<<14 {
				hit("mixtral-experts-unbounded") // one replacer pair per declared expert
			}
		}
	}
	return out
}

var errC10cFatal = errors.New("c10: runaway goroutine, process must be abandoned")

func c10cBudget(n int) uint64 { return uint64(128<<20 + 64*n) }

// c10cRun is the deterministic part (apart from the liveness bound). survey: unlisted panics of the
// pre-flight are counted instead of reported (development aid, VERIF_C10_SURVEY=1).
func c10cRun(e *c10Env, c c10hf.Case, known func(string) bool, excluded func(string), survey bool) (info c10Info, err error) {
	d := c10hf.Build(c)
	cls := map[string]bool{}
	add := func(s string) { cls[s] = true }
	defer func() {
		for k := range cls {
			info.classes = append(info.classes, k)
		}
		sort.Strings(info.classes)
		e.reset()
	}()
	add("hf")
	add("hf:arch:" + c.Arch)
	add(fmt.Sprintf("hf:muts_%d", len(c.Muts)))
	for _, k := range d.Kinds {
		add("hfmut:" + k)
		add("hfmut:" + k[:strings.Index(k, ":")])
	}
	if c.Adapter != nil {
		add("hf:adapter")
	} else {
		add("hf:tok:" + c.Tok.Kind)
		add(fmt.Sprintf("hf:stfiles_%d", c.ST.NFiles))
	}
	if !d.Changed {
		add("hf:unmutated")
		if c.Adapter == nil {
			add("hf:unmutated_model")
		}
	}
	info.nontrivial = d.Changed

	for _, class := range c10cPredict(c, d) {
		add("hfpred:" + class)
		if known != nil && known(class) {
			excluded(class)
			return info, nil
		}
	}

	request := func(step, method, path string, body []byte) (c10Resp, error) {
		r, stuck, viol := e.do(method, path, body, d.Bytes)
		if stuck != "" {
			if strings.HasSuffix(stuck, "inside ") { // nothing of ollama on any stack: not attributable, no verdict
				add("hf:slow_request_unattributed")
				return r, errC10Abandon
			}
			return r, fmt.Errorf("%w: %s: %s %s did not finish on a %d-byte directory: %s", errC10cFatal, step, method, path, d.Bytes, stuck)
		}
		if viol != "" {
			return r, fmt.Errorf("%s: %s", step, viol)
		}
		return r, nil
	}
	abandon := func(err error) (c10Info, error) {
		if errors.Is(err, errC10Abandon) {
			return info, nil
		}
		return info, err
	}
	upload := func(data []byte) (string, bool, error) {
		digest := fmt.Sprintf("sha256:%x", sha256.Sum256(data))
		r, err := request("upload", http.MethodPost, "/api/blobs/"+digest, data)
		if err != nil {
			return "", false, err
		}
		if r.code != http.StatusCreated && r.code != http.StatusOK {
			add(fmt.Sprintf("hf:upload_status_%d", r.code)) // environment (disk), not a verdict
			return "", false, nil
		}
		return digest, true, nil
	}

	files := map[string]string{}
	for _, f := range d.Files {
		dg, ok, err := upload(f.Data)
		if err != nil {
			return abandon(err)
		}
		if !ok {
			return info, nil
		}
		files[f.Name] = dg
	}
	f := false
	body := map[string]any{"model": "c10hf", "stream": &c.Stream}
	var baseLayers []*layerGGML
	if c.Adapter != nil {
		baseFiles := map[string]string{}
		if c.Adapter.HFBase {
			add("hf:adapter:hfbase")
			for _, f := range d.BaseDir {
				dg, ok, err := upload(f.Data)
				if err != nil {
					return abandon(err)
				}
				if !ok {
					return info, nil
				}
				baseFiles[f.Name] = dg
			}
		} else {
			dg, ok, err := upload(d.Base)
			if err != nil {
				return abandon(err)
			}
			if !ok {
				return info, nil
			}
			baseFiles["base.gguf"] = dg
		}
		if c.Adapter.ViaFrom {
			add("hf:adapter:from")
			breq := map[string]any{"model": "c10base", "files": baseFiles, "stream": &f}
			if c.Adapter.Rank%2 == 0 { // a base with a layer that is not a model file
				breq["system"] = "You are the base model."
			}
			r, err := request("create base", http.MethodPost, "/api/create", c10JSON(breq))
			if err != nil {
				return abandon(err)
			}
			if r.code != 200 {
				add("hf:adapter:base_rejected") // `from` an absent model would be pulled from the network
				if survey {
					add(fmt.Sprintf("survey-base:%s tensors=%d kv=%d", r.body[:min(len(r.body), 80)], len(c.Adapter.Base.Tensors), len(c.Adapter.Base.KV)))
				}
				return info, nil
			}
			body["from"] = "c10base"
			ctx, cancel := context.WithCancel(context.Background())
			baseLayers, err = parseFromModel(ctx, model.ParseName("c10base"), func(api.ProgressResponse) {})
			cancel()
			if err != nil {
				add("hf:adapter:base_unreadable")
				return info, nil
			}
		} else {
			add("hf:adapter:files")
			body["files"] = baseFiles
			var err error
			if c.Adapter.HFBase {
				baseLayers, err = convertFromSafetensors(baseFiles, nil, false, func(api.ProgressResponse) {})
			} else {
				baseLayers, err = convertModelFromFiles(baseFiles, nil, false, func(api.ProgressResponse) {})
			}
			if err != nil {
				add("hf:adapter:base_rejected")
			}
		}
		body["adapters"] = files
	} else {
		body["files"] = files
	}

	// ---- 1. pre-flight
	if c.Adapter == nil || baseLayers != nil {
		p := e.c10cPreflight(files, baseLayers, c.Adapter != nil)
		what := "convertModelFromFiles(files) -> convert.ConvertModel"
		if c.Adapter != nil {
			what = "convertModelFromFiles(adapters) -> convert.ConvertAdapter"
		}
		switch {
		case p.stuck != "":
			return info, fmt.Errorf("%w: %s on a %d-byte directory, called as the create goroutine of POST /api/create calls it: %s [%s]", errC10cFatal, what, d.Bytes, p.stuck, c10hf.Describe(d))
		case p.panicMsg != "":
			facts := c10cFacts{adapter: c.Adapter != nil}
			for _, f := range d.Files {
				if strings.HasSuffix(f.Name, ".safetensors") {
					in := c10hf.Inspect(f.Name, f.Data)
					facts.mismatch = facts.mismatch || in.Mismatch
					facts.rankNot2 = facts.rankNot2 || in.RankNot2
					facts.zeroDim = facts.zeroDim || in.ZeroDim
				}
			}
			slug := c10cClassify(p.fn, p.panicMsg, facts)
			if slug != "" {
				add("hfpanic:" + slug)
			}
			if slug != "" && known != nil && known(slug) {
				add("hf:preflight:known_panic")
				excluded(slug)
				return info, nil
			}
			if survey {
				add("survey:" + p.where + ": " + p.panicMsg)
				c10cSurveySample(c, p.fn+" "+p.panicMsg)
				return info, nil
			}
			return info, fmt.Errorf("%s panics on a %d-byte directory: %q at %s; POST /api/create makes this call on a goroutine nothing recovers, so the server process dies [%s]",
				what, d.Bytes, p.panicMsg, p.where, c10hf.Describe(d))
		case p.alloc > c10cBudget(d.Bytes):
			return info, fmt.Errorf("%s allocated %d bytes for a %d-byte directory (budget 128 MiB + 64*len = %d) [%s]", what, p.alloc, d.Bytes, c10cBudget(d.Bytes), c10hf.Describe(d))
		case p.err != nil:
			add("hf:preflight:error")
		default:
			add("hf:preflight:ok")
		}
	}

	// ---- 2. the request
	r, err := request("create", http.MethodPost, "/api/create", c10JSON(body))
	if err != nil {
		return abandon(err)
	}
	created := false
	if c.Stream {
		lines := bytes.Split(bytes.TrimSpace(r.body), []byte("\n"))
		last := string(lines[len(lines)-1])
		switch {
		case r.code != 200:
			add(fmt.Sprintf("hf:create_stream_status_%d", r.code))
		case strings.Contains(last, `"error"`):
			add("hf:create_stream_error_line")
		case strings.Contains(last, `"success"`):
			add("hf:create_stream_ok")
			created = true
		default:
			add("hf:create_stream_other")
		}
	} else {
		created = r.code == 200
		if !created {
			add(fmt.Sprintf("hf:create_status_%d", r.code))
		}
	}
	if created {
		add("hf:create_ok")
		switch {
		case c.Adapter != nil:
			add("hf:adapter_create_ok")
		case !d.Changed:
			add("hf:unmutated_converts_ok")
		default:
			add("hf:mutated_converts_ok")
		}
		r, err = request("show", http.MethodPost, "/api/show", c10JSON(map[string]any{"model": "c10hf"}))
		if err != nil {
			return abandon(err)
		}
		add(fmt.Sprintf("hf:show_status_%d", r.code))
		r, err = request("show(verbose)", http.MethodPost, "/api/show", c10JSON(map[string]any{"model": "c10hf", "verbose": true}))
		if err != nil {
			return abandon(err)
		}
		add(fmt.Sprintf("hf:show_verbose_status_%d", r.code))
	} else if c.Adapter == nil && !d.Changed {
		add("hf:unmutated_rejected")
	}
	for _, path := range []string{"/api/version", "/api/tags"} {
		r, err = request("liveness after create", http.MethodGet, path, nil)
		if err != nil {
			return abandon(err)
		}
		if path == "/api/version" && r.code != 200 {
			return info, fmt.Errorf("GET /api/version answered %d after create", r.code)
		}
	}
	return info, nil
}

var c10cDigits = regexp.MustCompile(`[0-9]+|[^A-Za-z0-9]+`)

// c10cSurveySample keeps one case per panic signature under $VERIF_C10_SURVEY (development aid).
func c10cSurveySample(c c10hf.Case, sig string) {
	dir := os.Getenv("VERIF_C10_SURVEY")
	if !strings.HasPrefix(dir, "/") {
		return
	}
	name := c10cDigits.ReplaceAllString(sig, "_")
	if len(name) > 120 {
		name = name[:120]
	}
	p := dir + "/" + name + ".json"
	if _, err := os.Stat(p); err == nil {
		return
	}
	os.MkdirAll(dir, 0o755)
	os.WriteFile(p, c10JSON(map[string]any{"property": "C10", "target": "TestC10Convert", "message": sig, "case": c}), 0o644)
}

// c10cFatal reports a violation after which the process cannot go on (a goroutine of the code under
// test is running away and cannot be stopped): the failing case is saved and the process exits, so
// that neither shrinking nor later cases are judged on a process that is being eaten.
func c10cFatal(rec *vfkit.Recorder, target string, c any, msg string) {
	rec.Fail(target, c, msg)
	rec.Flush()
	fmt.Fprintf(os.Stderr, "C10 violated (process abandoned): %s\n", msg)
	os.Exit(1)
}

func TestC10Convert(t *testing.T) {
	const target = "TestC10Convert"
	rec := vfkit.Open(target)
	defer rec.Flush()
	e := c10NewEnv(t)
	survey := os.Getenv("VERIF_C10_SURVEY") != ""
	var rc c10hf.Case
	if rp, ok, err := vfkit.ReplayCase(target, &rc); ok {
		if err != nil {
			t.Fatalf("replay: %v", err)
		}
		rec.Current(target, rc)
		// a replay demonstrates its own finding; other *listed* findings stay excluded
		own := ""
		if rp != nil {
			own = strings.TrimPrefix(rp.Expect, "known:")
		}
		known := func(s string) bool { return s != own && rec.Known(s) }
		if _, err := c10cRun(e, rc, known, func(string) {}, false); err != nil {
			if errors.Is(err, errC10cFatal) {
				c10cFatal(rec, target, rc, err.Error())
			}
			rec.Fail(target, rc, err.Error())
			t.Fatalf("C10 violated: %v", err)
		}
		return
	}
	rapid.Check(t, func(rt *rapid.T) {
		if rec.OverBudget() {
			return
		}
		c := c10hf.Gen(rt)
		rec.Current(target, c) // the create goroutine is outside gin's recovery: a panic there kills the process
		info, err := c10cRun(e, c, rec.Known, rec.Excluded, survey)
		rec.Case(c, info.nontrivial, info.classes...)
		if err != nil {
			if errors.Is(err, errC10cFatal) {
				c10cFatal(rec, target, c, err.Error())
			}
			rec.Fail(target, c, err.Error())
			rt.Fatalf("C10 violated: %v", err)
		}
	})
}
