package blob

// C08 engine: runs one c08Case against the real DiskCache.
//
// Writers (Put, Import, Chunker.Put) run in their own goroutines and read from harness-owned STEP
// READERS: every Read call first reports "parked" to the harness and then waits for a token. The
// harness releases exactly one Read at a time and then waits for that writer's next event (parked
// again, or operation returned). File I/O is synchronous, so at every point where the harness runs,
// every writer is parked between a completed write(2) and its next Read: the interleaving of 1–4
// concurrent writers is exactly the drawn order, and a copy of the directory taken at such a point
// is the state a `kill -9` at that byte position leaves behind.
//
// Oracles (statement of C08), evaluated on the live directory after every step and on every crash copy:
//   O1  Get(d) succeeds and reports the blob's true length  ⇒  SHA-256(file) == d
//   O2  Put/Import returned nil (true length claimed, > 0)  ⇒  Get succeeds, right size, right content;
//       and the blob stays so until something that legitimately removes it (a later failing/mis-sized
//       Put of the same digest — pinned by cache_test.go TestPut)
//   O3  all chunks of a partition stored successfully through Chunker ⇒ as O2
//   L1  Link returned nil ⇒ the blob existed (Get succeeds) and the link file holds exactly its bytes
//   L2  Resolve(name) = digest last linked under that name (case-insensitively), error if none;
//       the returned digest is gettable with right content; spellings differing in case agree
//   L3  no link file exists for a name that was never linked successfully
//
// Narrowing (documented, pinned by cache_test.go TestPutZero/TestPutGetZero/entryChecker): a
// zero-length file is the cache's representation of "absent", so the empty blob is never reported
// as present; O2/L1/L2 are asserted for blobs of length > 0 only.

import (
	"bytes"
	"errors"
	"fmt"
	"io"
	"io/fs"
	"os"
	"path/filepath"
	"sort"
	"strings"
	"syscall"
)

// known-finding slugs (signatures next to the guards below)
const (
	c08KTrunc     = "put-truncates-under-concurrent-writer"
	c08KOverwrite = "put-overwrites-bytes-of-concurrent-writer"
	c08KChunked   = "chunked-full-size-before-content"
	c08KLinkEmpty = "link-accepts-zero-length-blob-file"
	c08KLinkFail  = "failed-link-leaves-empty-manifest"
	c08KRelink    = "link-same-size-manifest-not-updated"
)

type c08Viol struct {
	slug string
	msg  string
}

func (v *c08Viol) Error() string {
	if v.slug != "" {
		return "[" + v.slug + "] " + v.msg
	}
	return v.msg
}

const (
	c08Data = iota
	c08EOF
	c08Err
)

type c08Peek struct {
	kind      int
	n         int
	off       int64 // absolute file offset of the write this step performs (if writes)
	writes    bool
	fails     bool
	truncs    bool // fails and truncates the file to 0 (copyNamedFile)
	completes bool
}

type c08Ev struct {
	done   bool
	err    error
	buflen int
	digest Digest
}

type c08Chunker struct {
	ino    uint64 // inode of the file the Chunker holds open
	parts  int    // the blob is to be stored in this many equal chunks
	id     int
	blob   int
	d      Digest
	gen    int
	noop   bool
	closed bool
	h      *Chunker
}

type c08Writer struct {
	id       int
	kind     string // put chunk import instant
	blob     int
	d        Digest
	claimed  int64
	base     int64
	src      []byte
	srcKind  string
	errAt    int
	okHash   bool
	reads    []int
	ri       int
	pos      int
	buflen   int
	next     c08Peek
	req      chan struct{}
	ev       chan c08Ev
	done     bool
	err      error
	gen      int
	startSeq int
	endSeq   int
	lo, hi   int64 // extent this writer has put into the file and that has not been wiped since
	ck       *c08Chunker
	blocked  string
	fast     bool
}

type c08Reader struct{ w *c08Writer }

func (r c08Reader) Read(p []byte) (int, error) {
	w := r.w
	w.ev <- c08Ev{buflen: len(p)}
	<-w.req
	pk := w.next
	switch pk.kind {
	case c08Err:
		return 0, errors.New("c08: injected read error")
	case c08EOF:
		return 0, io.EOF
	}
	n := copy(p, w.src[w.pos:w.pos+pk.n])
	w.pos += n
	w.ri++
	return n, nil
}

func (w *c08Writer) written() bool { return w.hi > w.lo }

func (w *c08Writer) peek() c08Peek {
	var pk c08Peek
	trunc := w.kind == "put"
	if w.errAt >= 0 && w.pos == w.errAt {
		pk.kind, pk.fails, pk.truncs = c08Err, true, trunc
		return pk
	}
	if w.pos >= len(w.src) {
		pk.kind = c08EOF
		switch w.kind {
		case "put":
			if int64(w.pos) < w.claimed {
				pk.fails, pk.truncs = true, true
			} else {
				pk.completes = true
			}
		case "chunk":
			pk.fails = true
		case "import":
			if int64(w.pos) == w.claimed {
				pk.completes = true
			} else {
				pk.fails = true
			}
		}
		return pk
	}
	want := w.reads[w.ri%len(w.reads)]
	if w.fast {
		want = 1 << 30
	}
	if floor := (len(w.src) + 23) / 24; want < floor { // any writer ends within ~24 steps
		want = floor
	}
	n := min(want, w.buflen, len(w.src)-w.pos)
	if w.errAt > w.pos {
		n = min(n, w.errAt-w.pos)
	}
	pk.kind, pk.n, pk.off = c08Data, n, w.base+int64(w.pos)
	if w.kind == "import" {
		return pk
	}
	next := int64(w.pos + n)
	switch {
	case next > w.claimed:
		pk.fails, pk.truncs = true, trunc
	case next == w.claimed:
		if w.okHash {
			pk.writes = true
			pk.completes = w.kind == "chunk" // CopyN does not read past the chunk
		} else {
			pk.fails, pk.truncs = true, trunc
		}
	default:
		pk.writes = true
	}
	return pk
}

type c08Link struct {
	d Digest
}

type c08Info struct {
	nontrivial bool
	classes    []string
	summary    string
}

type c08Engine struct {
	c        c08Case
	known    func(string) bool
	excluded func(string)
	root     string
	dir      string
	cache    *DiskCache
	truth    [][]byte
	dig      []Digest

	order   []Digest // every digest the case has used, in first-use order
	content map[Digest][]byte
	stored  map[Digest]bool
	gen     map[Digest]int
	taint   map[Digest]string
	cover   map[Digest][][2]int64 // successful chunk ranges since the file was last wiped

	writers  []*c08Writer
	chunkers []*c08Chunker
	links    map[string]c08Link
	ntaint   map[string]string // folded name → slug explaining a deviation
	names    []string          // valid spellings used, first-use order
	nameSeen map[string]bool

	seq      int
	crashes  int
	classes  map[string]bool
	nt       bool
	teardown bool
	sameDig  map[Digest]int
}

func (e *c08Engine) class(s string) { e.classes[s] = true }

func (e *c08Engine) file(d Digest) string { return e.cache.GetFile(d) }

func (e *c08Engine) track(d Digest, content []byte) {
	if _, ok := e.content[d]; ok {
		return
	}
	e.content[d] = content
	e.order = append(e.order, d)
}

func (e *c08Engine) viol(d Digest, format string, a ...any) error {
	return &c08Viol{slug: e.taint[d], msg: fmt.Sprintf(format, a...)}
}

func (e *c08Engine) nviol(fold string, format string, a ...any) error {
	return &c08Viol{slug: e.ntaint[fold], msg: fmt.Sprintf(format, a...)}
}

// guard implements "exclude by construction": if the finding is listed, the step is not taken and
// counted; otherwise the step is taken and what it damages is attributed to the signature.
func (e *c08Engine) guardDigest(slug string, d Digest) (skip bool) {
	if e.teardown {
		return false
	}
	if e.known(slug) {
		e.excluded(slug)
		return true
	}
	if e.taint[d] == "" {
		e.taint[d] = slug
	}
	return false
}

func (e *c08Engine) guardName(slug, fold string) (skip bool) {
	if e.known(slug) {
		e.excluded(slug)
		return true
	}
	if e.ntaint[fold] == "" {
		e.ntaint[fold] = slug
	}
	return false
}

// ------------------------------------------------------------------------------------- oracles

func c08Describe(got, want []byte) string {
	if len(got) != len(want) {
		return fmt.Sprintf("length %d, want %d", len(got), len(want))
	}
	first, n, zeros := -1, 0, 0
	for i := range got {
		if got[i] != want[i] {
			if first < 0 {
				first = i
			}
			n++
			if got[i] == 0 {
				zeros++
			}
		}
	}
	return fmt.Sprintf("%d of %d bytes differ, first at offset %d, %d of them are zero (hole)", n, len(got), first, zeros)
}

// checkBlobs evaluates O1 and the persistence half of O2/O3 on a cache directory.
func (e *c08Engine) checkBlobs(c *DiskCache, where string) error {
	for _, d := range e.order {
		want := e.content[d]
		L := int64(len(want))
		ent, gerr := c.Get(d)
		fi, serr := os.Stat(c.GetFile(d))
		present := serr == nil && fi.Size() > 0
		if (gerr == nil) != present {
			return e.viol(d, "%s: Get(%s) = %v but stat says size=%v err=%v", where, d.Short(), gerr, c08Size(fi), serr)
		}
		if gerr == nil && (ent.Size != fi.Size() || ent.Digest != d) {
			return e.viol(d, "%s: Get(%s) reports size %d digest %s, file has %d bytes", where, d.Short(), ent.Size, ent.Digest.Short(), fi.Size())
		}
		if e.stored[d] && L > 0 {
			if gerr != nil {
				return e.viol(d, "%s: blob %s (%d bytes) was stored successfully and nothing removed it, but Get fails: %v", where, d.Short(), L, gerr)
			}
			if ent.Size != L {
				return e.viol(d, "%s: blob %s was stored successfully with %d bytes, Get now reports %d", where, d.Short(), L, ent.Size)
			}
		}
		if gerr == nil && ent.Size == L {
			got, err := os.ReadFile(c.GetFile(d))
			if err != nil {
				return e.viol(d, "%s: reading blob %s: %v", where, d.Short(), err)
			}
			if c08Sum(got) != d {
				return e.viol(d, "%s: RIGHT SIZE, WRONG CONTENT: Get(%s) reports the blob present with its true size %d, but SHA-256(file) = %s (%s)",
					where, d.Short(), L, c08Sum(got).Short(), c08Describe(got, want))
			}
		}
	}
	return nil
}

func c08Size(fi os.FileInfo) any {
	if fi == nil {
		return nil
	}
	return fi.Size()
}

// checkLinks evaluates L2/L3 without calling Resolve (which writes): the link files themselves.
func (e *c08Engine) checkLinks(dir, where string) error {
	files, err := filepath.Glob(filepath.Join(dir, "manifests", "*", "*", "*", "*"))
	if err != nil {
		return err
	}
	sort.Strings(files)
	seen := map[string]int{}
	for _, f := range files {
		rel, _ := filepath.Rel(dir, f)
		parts := strings.Split(filepath.ToSlash(rel), "/")
		fold := c08Fold(strings.Join(parts[1:4], "/") + ":" + parts[4])
		seen[fold]++
		l, ok := e.links[fold]
		if !ok {
			fi, _ := os.Stat(f)
			return e.nviol(fold, "%s: link file %s (%v bytes) exists, but no Link of that name has succeeded (or it was unlinked)", where, rel, c08Size(fi))
		}
		b, err := os.ReadFile(f)
		if err != nil {
			return e.nviol(fold, "%s: reading link %s: %v", where, rel, err)
		}
		if c08Sum(b) != l.d {
			return e.nviol(fold, "%s: link file %s holds %d bytes with digest %s, but the name was last linked to %s (%d bytes)",
				where, rel, len(b), c08Sum(b).Short(), l.d.Short(), len(e.content[l.d]))
		}
	}
	folds := make([]string, 0, len(e.links))
	for f := range e.links {
		folds = append(folds, f)
	}
	sort.Strings(folds)
	for _, f := range folds {
		if seen[f] != 1 {
			return e.nviol(f, "%s: name %s is linked to %s but %d link files match it", where, f, e.links[f].d.Short(), seen[f])
		}
	}
	return nil
}

func (e *c08Engine) observe(where string) error {
	if err := e.checkBlobs(e.cache, where); err != nil {
		return err
	}
	return e.checkLinks(e.dir, where)
}

// resolveCheck calls the real Resolve on cache c for one spelling and compares with the model.
func (e *c08Engine) resolveCheck(c *DiskCache, name, where string) error {
	fold := c08Fold(name)
	got, err := c.Resolve(name)
	l, linked := e.links[fold]
	if !linked {
		if err == nil {
			return e.nviol(fold, "%s: Resolve(%q) = %s, but the name is not linked", where, name, got.Short())
		}
		if !errors.Is(err, fs.ErrNotExist) {
			return e.nviol(fold, "%s: Resolve(%q) of an unlinked name: %v, want fs.ErrNotExist (documented)", where, name, err)
		}
		return nil
	}
	if err != nil {
		return e.nviol(fold, "%s: Resolve(%q) failed: %v; the name is linked to %s", where, name, err, l.d.Short())
	}
	if got != l.d {
		return e.nviol(fold, "%s: Resolve(%q) = %s, but the bytes linked have digest %s", where, name, got.Short(), l.d.Short())
	}
	if want := e.content[l.d]; len(want) > 0 {
		ent, gerr := c.Get(got)
		if gerr != nil || ent.Size != int64(len(want)) {
			return e.viol(l.d, "%s: Resolve(%q) = %s but Get of it: size %d err %v", where, name, got.Short(), ent.Size, gerr)
		}
		b, _ := os.ReadFile(c.GetFile(got))
		if c08Sum(b) != got {
			return e.viol(l.d, "%s: Resolve(%q) = %s whose blob has wrong content (%s)", where, name, got.Short(), c08Describe(b, want))
		}
	}
	return nil
}

// ------------------------------------------------------------------------------ writer control

func (e *c08Engine) live() []*c08Writer {
	var out []*c08Writer
	for _, w := range e.writers {
		if !w.done && w.kind != "instant" {
			out = append(out, w)
		}
	}
	return out
}

// same reports the writers other than w of the same file (same digest, same inode generation).
func (e *c08Engine) same(w *c08Writer) []*c08Writer {
	var out []*c08Writer
	for _, x := range e.writers {
		if x != w && x.kind != "import" && x.d == w.d && x.gen == w.gen {
			out = append(out, x)
		}
	}
	return out
}

func (e *c08Engine) wipe(d Digest, gen int) {
	for _, x := range e.writers {
		if x.kind != "import" && x.d == d && x.gen == gen {
			x.lo, x.hi = 0, 0
		}
	}
	if gen == e.gen[d] {
		e.stored[d] = false
		e.cover[d] = nil
	}
}

func (e *c08Engine) start(w *c08Writer, run func() (Digest, error)) c08Ev {
	w.id = len(e.writers)
	w.req = make(chan struct{})
	w.ev = make(chan c08Ev)
	e.seq++
	w.startSeq = e.seq
	e.writers = append(e.writers, w)
	go func() {
		d, err := run()
		w.ev <- c08Ev{done: true, err: err, digest: d}
	}()
	ev := <-w.ev
	w.buflen = ev.buflen
	return ev
}

// stepGuards decides whether releasing the next Read of w falls into a known finding's signature.
func (e *c08Engine) stepGuards(w *c08Writer, pk c08Peek) string {
	if e.orphaned(w) {
		return "" // writes a private file / an orphaned inode: cannot damage the named file
	}
	others := e.same(w)
	if pk.truncs {
		// signature: a failing Put truncates the shared file to 0 after a writer of the same digest
		// that overlaps it in time has written at least one byte
		var victims []*c08Writer
		for _, x := range others {
			if x.written() && (!x.done || x.endSeq > w.startSeq) {
				victims = append(victims, x)
			}
		}
		if slug := c08TruncSlug(victims); slug != "" {
			return slug
		}
	}
	if pk.writes {
		// signature: an in-place writer puts a byte that differs from the blob's content at an offset
		// that another writer of the same digest has written (and that has not been wiped since)
		truth := e.content[w.d]
		for i := 0; i < pk.n; i++ {
			p := pk.off + int64(i)
			if p >= int64(len(truth)) || w.src[w.pos+i] == truth[p] {
				continue
			}
			for _, x := range others {
				if x.lo <= p && p < x.hi {
					if w.kind == "chunk" {
						return c08KChunked
					}
					return c08KOverwrite
				}
			}
		}
		if w.kind == "chunk" {
			// signature: a Chunker write leaves the file at its full length while some byte of it is
			// missing or wrong (file length is the only completeness marker)
			cur, err := os.ReadFile(e.file(w.d))
			if err == nil {
				end := pk.off + int64(pk.n)
				after := cur
				if int64(len(after)) < end {
					after = append(after, make([]byte, end-int64(len(after)))...)
				}
				copy(after[pk.off:end], w.src[w.pos:w.pos+pk.n])
				if len(after) == len(truth) && !bytes.Equal(after, truth) {
					return c08KChunked
				}
			}
		}
	}
	return ""
}

type c08StepResult int

const (
	c08Stepped c08StepResult = iota
	c08Blocked
)

func (e *c08Engine) stepOnce(w *c08Writer) (c08StepResult, error) {
	pk := w.peek()
	if !e.teardown {
		if slug := e.stepGuards(w, pk); slug != "" {
			first := w.blocked == ""
			if e.known(slug) {
				if first {
					e.excluded(slug)
					w.blocked = slug
				}
				return c08Blocked, nil
			}
			if e.taint[w.d] == "" {
				e.taint[w.d] = slug
			}
		}
	}
	w.blocked = ""
	w.next = pk
	w.req <- struct{}{}
	ev := <-w.ev
	if pk.writes {
		if !w.written() {
			w.lo, w.hi = pk.off, pk.off
		}
		w.hi = max(w.hi, pk.off+int64(pk.n))
	}
	if pk.truncs && ev.done && ev.err != nil {
		e.wipe(w.d, w.gen)
	}
	if !ev.done {
		w.buflen = ev.buflen
		return c08Stepped, nil
	}
	return c08Stepped, e.finished(w, ev)
}

// finished handles the return of a writer's operation (O2/O3).
func (e *c08Engine) finished(w *c08Writer, ev c08Ev) error {
	w.done, w.err = true, ev.err
	e.seq++
	w.endSeq = e.seq
	if e.teardown {
		return nil
	}
	if ev.err != nil {
		e.class("fail_" + w.kind + "_" + w.srcKind)
		// an undisturbed writer with a faultless source must succeed
		if w.srcKind == "exact" && w.kind != "chunk" && w.claimed == int64(len(e.content[w.d])) || w.kind == "chunk" && w.srcKind == "exact" {
			alone := true
			if w.kind != "import" {
				for _, x := range e.same(w) {
					if x.kind != "instant" && (!x.done || x.endSeq > w.startSeq) {
						alone = false
					}
				}
			}
			if alone {
				return e.viol(w.d, "%s of %s from a faultless source with no concurrent writer failed: %v", w.kind, w.d.Short(), ev.err)
			}
		}
		return nil
	}
	switch w.kind {
	case "put":
		L := int64(len(e.content[w.d]))
		if w.claimed != L {
			e.class("put_nil_wrong_claim") // claim 0, or a file of the claimed length was in the way: no statement applies
			return nil
		}
		e.class("put_ok")
		if L == 0 {
			e.class("put_ok_empty_blob")
			return nil
		}
		if w.gen != e.gen[w.d] {
			// an Import renamed another file over the name while this Put was in flight: what is under
			// the name now is no longer this writer's file (and may legitimately have been removed since)
			e.class("put_ok_orphaned_by_import")
			return nil
		}
		if err := e.mustHave(w.d, fmt.Sprintf("Put(%s, %s source, %d) returned nil", w.d.Short(), w.srcKind, L)); err != nil {
			return err
		}
		e.stored[w.d] = true
	case "import":
		want := c08Sum(w.src)
		if ev.digest != want {
			return &c08Viol{msg: fmt.Sprintf("Import returned digest %s for content with digest %s", ev.digest.Short(), want.Short())}
		}
		e.class("import_ok")
		if _, ok := e.content[want]; ok {
			// the rename put a new inode under the name: writers of the old one are orphans from now on
			e.gen[want]++
			e.cover[want] = nil
			e.class("import_over_existing_digest")
		}
		e.track(want, append([]byte{}, w.src...))
		if len(w.src) == 0 {
			return nil
		}
		if err := e.mustHave(want, "Import returned nil"); err != nil {
			return err
		}
		e.stored[want] = true
	case "chunk":
		if w.ck.noop {
			e.class("chunk_noop")
			return nil
		}
		e.class("chunk_ok")
		if e.orphaned(w) {
			e.class("chunk_ok_orphaned")
			return nil
		}
		L := int64(len(e.content[w.d]))
		e.cover[w.d] = append(e.cover[w.d], [2]int64{w.base, w.base + w.claimed})
		if c08Covers(e.cover[w.d], L) {
			e.class("chunked_complete")
			if err := e.mustHave(w.d, fmt.Sprintf("every chunk of %s (%d bytes) was stored successfully through Chunker", w.d.Short(), L)); err != nil {
				return err
			}
			e.stored[w.d] = true
		}
	}
	return nil
}

func c08Covers(rs [][2]int64, L int64) bool {
	s := append([][2]int64{}, rs...)
	sort.Slice(s, func(i, j int) bool { return s[i][0] < s[j][0] })
	var at int64
	for _, r := range s {
		if r[0] > at {
			return false
		}
		at = max(at, r[1])
	}
	return at >= L
}

func (e *c08Engine) mustHave(d Digest, why string) error {
	want := e.content[d]
	ent, err := e.cache.Get(d)
	if err != nil {
		return e.viol(d, "%s, but Get fails: %v", why, err)
	}
	if ent.Size != int64(len(want)) {
		return e.viol(d, "%s, but Get reports %d bytes", why, ent.Size)
	}
	got, err := os.ReadFile(e.file(d))
	if err != nil || c08Sum(got) != d {
		return e.viol(d, "%s, but the file content is wrong: %v %s", why, err, c08Describe(got, want))
	}
	return nil
}

// instant registers an atomic (not stepped) faultless write of d's whole content — Resolve's PutBytes.
func (e *c08Engine) instant(d Digest) {
	e.seq++
	w := &c08Writer{id: len(e.writers), kind: "instant", d: d, gen: e.gen[d], done: true, startSeq: e.seq, endSeq: e.seq + 1,
		lo: 0, hi: int64(len(e.content[d])), srcKind: "exact"}
	e.seq++
	e.writers = append(e.writers, w)
}

// c08Ino is the inode under a path (0 if none): a Chunker whose file is no longer the one under the
// blob's name (an Import — or any writer that renames a finished file into place — replaced it)
// writes into an orphan; nothing it does can be expected to show under the name.
func c08Ino(path string) uint64 {
	fi, err := os.Stat(path)
	if err != nil {
		return 0
	}
	if st, ok := fi.Sys().(*syscall.Stat_t); ok {
		return st.Ino
	}
	return 0
}

func (e *c08Engine) orphaned(w *c08Writer) bool {
	if w.kind == "import" {
		return true
	}
	if w.gen != e.gen[w.d] {
		return true
	}
	return w.ck != nil && !w.ck.noop && w.ck.ino != c08Ino(e.file(w.d))
}

// c08TruncSlug names the finding that explains emptying a file in which the given writers have bytes:
// if a Put/PutBytes writer is among them it is copyNamedFile's shared in-place file; if all of them
// are Chunker writers it is the Chunker's in-place file at the final name.
func c08TruncSlug(victims []*c08Writer) string {
	if len(victims) == 0 {
		return ""
	}
	for _, x := range victims {
		if x.kind != "chunk" {
			return c08KTrunc
		}
	}
	return c08KChunked
}

// activeWritten: the parked writers of d's current file that have bytes in it.
func (e *c08Engine) activeWritten(d Digest) []*c08Writer {
	var out []*c08Writer
	for _, x := range e.writers {
		if !x.done && x.kind != "import" && x.d == d && x.gen == e.gen[d] && x.written() {
			out = append(out, x)
		}
	}
	return out
}

// openTruncates: copyNamedFile(name, …, claimed) opens with O_TRUNC iff the file is longer than claimed.
func (e *c08Engine) openTruncates(d Digest, claimed int64) bool {
	fi, err := os.Stat(e.file(d))
	return err == nil && fi.Size() > claimed
}

// --------------------------------------------------------------------------------------- actions

func (e *c08Engine) do(i int, a c08Action) error {
	nb := len(e.c.Blobs)
	b := c08Mod(a.Blob, nb)
	where := fmt.Sprintf("after action %d (%s)", i, a.Op)
	switch a.Op {
	case "put":
		d, truth := e.dig[b], e.truth[b]
		L := int64(len(truth))
		claimed := L + int64(min(a.Delta, 0)) // never above the true length, see c08Gen
		if claimed < 0 {
			claimed = 0
		}
		if len(e.live()) >= 4 {
			e.class("noop_too_many_writers")
			return nil
		}
		fi, serr := os.Stat(e.file(d))
		noop := serr == nil && fi.Size() == claimed
		if !noop && e.openTruncates(d, claimed) {
			// same signature as a failing Put: the O_TRUNC open empties the file under a writer
			if slug := c08TruncSlug(e.activeWritten(d)); slug != "" && e.guardDigest(slug, d) {
				return nil
			}
		}
		if !noop && e.openTruncates(d, claimed) {
			e.wipe(d, e.gen[d])
		}
		if !noop && claimed != L {
			e.stored[d] = false // pinned by TestPut: a mis-sized Put removes the blob
			e.class("put_wrong_claim")
		}
		src, errAt := c08Source(a.Src, a.K, truth, 0)
		w := &c08Writer{kind: "put", blob: b, d: d, claimed: claimed, src: src, srcKind: a.Src, errAt: errAt,
			reads: c08Reads(a.Reads), gen: e.gen[d]}
		w.okHash = int64(len(src)) >= claimed && c08Sum(src[:claimed]) == d
		for _, x := range e.same(w) {
			if !x.done {
				e.class("concurrent_same_digest")
				e.sameDig[d]++
			}
		}
		ev := e.start(w, func() (Digest, error) { return Digest{}, e.cache.Put(d, c08Reader{w}, claimed) })
		e.class("put_" + a.Src)
		if L > 32768 {
			e.class("blob_over_32k")
		}
		if ev.done {
			if noop {
				e.class("put_noop_already_right_size")
			}
			if err := e.finished(w, ev); err != nil {
				return err
			}
		}
	case "import":
		truth := e.truth[b]
		if len(e.live()) >= 4 {
			e.class("noop_too_many_writers")
			return nil
		}
		src, errAt := c08Source(a.Src, a.K, truth, 0)
		w := &c08Writer{kind: "import", blob: b, claimed: int64(len(truth)), src: src, srcKind: a.Src, errAt: errAt, reads: c08Reads(a.Reads)}
		ev := e.start(w, func() (Digest, error) { return e.cache.Import(c08Reader{w}, int64(len(truth))) })
		e.class("import_" + a.Src)
		if ev.done {
			if err := e.finished(w, ev); err != nil {
				return err
			}
		}
	case "step":
		lv := e.live()
		if len(lv) == 0 {
			e.class("noop_step")
			return nil
		}
		w := lv[c08Mod(a.W, len(lv))]
		for k := 0; k < max(1, a.N) && !w.done; k++ {
			r, err := e.stepOnce(w)
			if err != nil {
				return err
			}
			if r == c08Blocked {
				break
			}
			e.class("step")
			if err := e.observe(fmt.Sprintf("%s, Read %d of writer %d (%s %s)", where, k+1, w.id, w.kind, w.srcKind)); err != nil {
				return err
			}
		}
		return nil
	case "crash":
		return e.crash(where)
	case "get":
		d := e.dig[b]
		ent, err := e.cache.Get(d)
		fi, serr := os.Stat(e.file(d))
		if (err == nil) != (serr == nil && fi.Size() > 0) || err == nil && ent.Size != fi.Size() {
			return e.viol(d, "%s: Get(%s) = %+v, %v; stat: %v %v", where, d.Short(), ent, err, c08Size(fi), serr)
		}
		if _, err := e.cache.Get(Digest{}); err == nil {
			return &c08Viol{msg: "Get of the zero digest succeeded"}
		}
	case "link":
		if a.Ensure {
			if err := e.do(i, c08Action{Op: "store", Blob: a.Blob}); err != nil {
				return err
			}
			e.class("link_after_store")
		}
		if err := e.link(a, b, where); err != nil {
			return err
		}
	case "unlink":
		name, valid := e.nameOf(a)
		ok, err := e.cache.Unlink(name)
		if !valid {
			if err == nil || ok {
				return &c08Viol{msg: fmt.Sprintf("Unlink(%q) of an invalid name = %v, %v", name, ok, err)}
			}
			e.class("invalid_name_rejected")
			return nil
		}
		fold := c08Fold(name)
		_, linked := e.links[fold]
		if err != nil || ok != linked {
			return e.nviol(fold, "%s: Unlink(%q) = %v, %v; the name was linked: %v", where, name, ok, err, linked)
		}
		if linked {
			e.class("unlink_ok")
		}
		delete(e.links, fold)
		e.useName(name)
	case "resolve":
		if err := e.resolve(a, b, where); err != nil {
			return err
		}
	case "copen":
		if _, err := e.copen(b, a.Parts); err != nil {
			return err
		}
	case "store":
		// PutBytes: bytes.Reader hands the whole blob to checkWriter in ONE Write (io.WriterTo), so the
		// store is atomic at the harness's granularity: an instant faultless writer
		d, truth := e.dig[b], e.truth[b]
		L := int64(len(truth))
		fi, serr := os.Stat(e.file(d))
		if !(serr == nil && fi.Size() == L) {
			e.instant(d)
		} else {
			e.class("store_noop_already_right_size")
		}
		if err := PutBytes(e.cache, d, truth); err != nil {
			return e.viol(d, "PutBytes(%s) of the right content failed: %v", d.Short(), err)
		}
		e.class("store_ok")
		if L > 0 {
			if err := e.mustHave(d, fmt.Sprintf("PutBytes(%s, %d bytes) returned nil", d.Short(), L)); err != nil {
				return err
			}
			e.stored[d] = true
		}
	case "cput":
		return e.cput(a, where)
	case "cclose":
		var open []*c08Chunker
		for _, ck := range e.chunkers {
			if !ck.closed && !e.chunkerBusy(ck) {
				open = append(open, ck)
			}
		}
		if len(open) == 0 {
			e.class("noop_cclose")
			return nil
		}
		ck := open[c08Mod(a.W, len(open))]
		ck.closed = true
		if !ck.noop { // Close of a pre-validated Chunker calls (*os.File)(nil).Close: returns an error, harmless
			if err := ck.h.Close(); err != nil {
				return e.viol(ck.d, "Chunker.Close: %v", err)
			}
		}
		e.class("chunker_close")
	}
	return e.observe(where)
}

func c08Reads(r []int) []int {
	if len(r) == 0 {
		return []int{1 << 20}
	}
	out := make([]int, len(r))
	for i, v := range r {
		out[i] = max(1, v)
	}
	return out
}

func (e *c08Engine) chunkerBusy(ck *c08Chunker) bool {
	for _, w := range e.writers {
		if w.ck == ck && !w.done {
			return true
		}
	}
	return false
}

// nameOf resolves the action's name intent: a fresh spelling from the pools, or a respelling of a
// name the case has already used.
func (e *c08Engine) nameOf(a c08Action) (string, bool) {
	if a.Bad == 0 && a.Used > 0 && len(e.names) > 0 {
		cand := e.names
		var linked []string
		for _, n := range e.names {
			if _, ok := e.links[c08Fold(n)]; ok {
				linked = append(linked, n)
			}
		}
		if len(linked) > 0 && a.Used <= 3 { // mostly a name that is linked right now
			cand = linked
		}
		n := cand[c08Mod(a.Used-1, len(cand))]
		switch c08Mod(a.Case, 3) {
		case 1:
			n = strings.ToLower(n)
		case 2:
			n = strings.ToUpper(n)
		}
		return n, true
	}
	return c08NameOf(a)
}

func (e *c08Engine) useName(name string) {
	if !e.nameSeen[name] {
		e.nameSeen[name] = true
		e.names = append(e.names, name)
	}
}

func (e *c08Engine) copen(b, parts int) (*c08Chunker, error) {
	d := e.dig[b]
	L := int64(len(e.truth[b]))
	open := 0
	for _, ck := range e.chunkers {
		if !ck.closed {
			open++
		}
	}
	if open >= 3 || L == 0 {
		e.class("noop_copen")
		return nil, nil
	}
	fi, serr := os.Stat(e.file(d))
	noop := serr == nil && fi.Size() == L // Chunked then returns a pre-validated Chunker that ignores every Put
	h, err := e.cache.Chunked(d, L)
	if err != nil {
		return nil, e.viol(d, "Chunked(%s, %d): %v", d.Short(), L, err)
	}
	ck := &c08Chunker{id: len(e.chunkers), blob: b, d: d, gen: e.gen[d], noop: noop, h: h, parts: max(1, min(parts, 4)), ino: c08Ino(e.file(d))}
	e.chunkers = append(e.chunkers, ck)
	e.class("chunker_open")
	if ck.noop {
		e.class("chunker_noop_already_right_size")
	}
	return ck, nil
}

func (e *c08Engine) cput(a c08Action, where string) error {
	var open []*c08Chunker
	for _, ck := range e.chunkers {
		if !ck.closed {
			open = append(open, ck)
		}
	}
	if len(e.live()) >= 4 {
		e.class("noop_cput")
		return nil
	}
	if len(open) == 0 {
		ck, err := e.copen(c08Mod(a.Blob, len(e.c.Blobs)), a.Parts)
		if ck == nil || err != nil {
			return err
		}
		open = append(open, ck)
	}
	ck := open[c08Mod(a.W, len(open))]
	truth := e.truth[ck.blob]
	L := len(truth)
	var lo, hi int // [lo, hi)
	part := func(p int) (int, int) { return p * L / ck.parts, (p + 1) * L / ck.parts }
	switch {
	case a.Part == -2:
		lo = c08Mod(a.A, L)
		hi = lo + 1 + c08Mod(a.B, L-lo)
		e.class("chunk_free_range")
	case a.Part < 0:
		// first part of the partition that no chunk writer of this chunker has stored or is storing
		p := 0
		for ; p < ck.parts; p++ {
			plo, phi := part(p)
			taken := phi <= plo
			for _, x := range e.writers {
				if x.ck == ck && x.base == int64(plo) && x.claimed == int64(phi-plo) && (!x.done || x.err == nil) {
					taken = true
				}
			}
			if !taken {
				break
			}
		}
		if p == ck.parts {
			e.class("noop_cput")
			return nil
		}
		lo, hi = part(p)
		e.class("chunk_next_missing_part")
	default:
		lo, hi = part(c08Mod(a.Part, ck.parts))
		e.class("chunk_any_part")
	}
	if hi <= lo {
		e.class("noop_cput")
		return nil
	}
	data := truth[lo:hi]
	cd := c08Sum(data)
	if a.Src == "baddigest" {
		cd = c08Sum(append([]byte("x"), data...))
	}
	src, errAt := c08Source(a.Src, a.K, data, 0)
	w := &c08Writer{kind: "chunk", blob: ck.blob, d: ck.d, claimed: int64(hi - lo), base: int64(lo), src: src, srcKind: a.Src,
		errAt: errAt, reads: c08Reads(a.Reads), gen: ck.gen, ck: ck}
	w.okHash = len(src) >= hi-lo && c08Sum(src[:hi-lo]) == cd
	for _, x := range e.same(w) {
		if !x.done {
			e.class("concurrent_same_digest")
			e.sameDig[w.d]++
		}
	}
	ev := e.start(w, func() (Digest, error) {
		return Digest{}, ck.h.Put(Chunk{Start: int64(lo), End: int64(hi) - 1}, cd, c08Reader{w})
	})
	e.class("cput_" + a.Src)
	if ev.done {
		if err := e.finished(w, ev); err != nil {
			return err
		}
	}
	return e.observe(where)
}

func (e *c08Engine) link(a c08Action, b int, where string) error {
	name, valid := e.nameOf(a)
	d, truth := e.dig[b], e.truth[b]
	if !valid {
		if err := e.cache.Link(name, d); err == nil {
			return &c08Viol{msg: fmt.Sprintf("Link(%q) of an invalid name succeeded", name)}
		}
		e.class("invalid_name_rejected")
		return nil
	}
	fold := c08Fold(name)
	// what is under the blob's file name right now?
	state := "absent"
	cur, rerr := os.ReadFile(e.file(d))
	switch {
	case rerr != nil:
	case bytes.Equal(cur, truth): // includes the empty blob
		state = "right"
	case len(cur) == 0:
		state = "empty"
	default:
		state = "other"
	}
	switch state {
	case "empty":
		// signature: Link(name, d) while d's file exists with length 0 (left by a failed Put)
		if e.guardName(c08KLinkEmpty, fold) {
			return nil
		}
	case "other":
		// signature: Link(name, d) while d's file holds something else than d's content (a write in
		// progress, or the remains of one): Link fails but creates/truncates the link file
		if e.guardName(c08KLinkFail, fold) {
			return nil
		}
	case "right":
		// signature: the name already has a link file of exactly the new blob's length, other content
		if l, ok := e.links[fold]; ok && l.d != d && len(e.content[l.d]) == len(truth) {
			if e.guardName(c08KRelink, fold) {
				return nil
			}
		}
	}
	e.useName(name)
	err := e.cache.Link(name, d)
	e.class("link_blob_" + state)
	if err == nil {
		if _, gerr := e.cache.Get(d); gerr != nil && len(truth) > 0 {
			return e.nviol(fold, "%s: Link(%q, %s) returned nil although the blob does not exist: Get: %v (blob file: %s, %d bytes)",
				where, name, d.Short(), gerr, state, len(cur))
		}
		if state != "right" {
			return e.nviol(fold, "%s: Link(%q, %s) returned nil although the blob file does not hold the blob (%s)", where, name, d.Short(), c08Describe(cur, truth))
		}
		if _, was := e.links[fold]; was {
			e.class("relink")
		}
		e.links[fold] = c08Link{d: d}
		e.class("link_ok")
		return nil
	}
	if state == "right" && len(truth) == 0 {
		e.class("link_refused_empty_blob") // the empty blob is never "present" (Get), refusing it is consistent
		return nil
	}
	if state == "right" {
		return e.nviol(fold, "%s: Link(%q, %s) failed although the blob is present and right: %v", where, name, d.Short(), err)
	}
	if state == "absent" {
		e.class("link_refused_blob_absent")
	}
	return nil
}

func (e *c08Engine) resolve(a c08Action, b int, where string) error {
	name, valid := e.nameOf(a)
	d := e.dig[b]
	switch a.Form {
	case 1, 2:
		s := name + "@" + d.String()
		if a.Form == 2 {
			s = "@" + strings.Replace(d.String(), ":", "-", 1)
		}
		got, err := e.cache.Resolve(s)
		if err != nil || got != d {
			return &c08Viol{msg: fmt.Sprintf("Resolve(%q) = %s, %v; want the digest as given", s, got.Short(), err)}
		}
		e.class("resolve_digest_form")
		return nil
	case 3:
		if _, err := e.cache.Resolve(name + "@sha256:zz"); err == nil {
			return &c08Viol{msg: "Resolve with a malformed digest succeeded"}
		}
		return nil
	}
	if !valid {
		if got, err := e.cache.Resolve(name); err == nil {
			return &c08Viol{msg: fmt.Sprintf("Resolve(%q) of an invalid name = %s", name, got.Short())}
		}
		e.class("invalid_name_rejected")
		return nil
	}
	fold := c08Fold(name)
	e.useName(name)
	if l, ok := e.links[fold]; ok {
		// Resolve re-stores the manifest as a blob (PutBytes): an atomic faultless writer of l.d
		L := int64(len(e.content[l.d]))
		fi, serr := os.Stat(e.file(l.d))
		if !(serr == nil && fi.Size() == L) {
			if e.openTruncates(l.d, L) {
				if slug := c08TruncSlug(e.activeWritten(l.d)); slug != "" && e.guardDigest(slug, l.d) {
					return nil
				}
			}
			if e.openTruncates(l.d, L) {
				e.wipe(l.d, e.gen[l.d])
			}
			e.instant(l.d)
			e.class("resolve_restores_blob")
			defer func() {
				if L > 0 {
					e.stored[l.d] = true
				}
			}()
		}
		e.class("resolve_linked")
	} else {
		e.class("resolve_unlinked")
	}
	for i, s := range []string{name, strings.ToLower(name), strings.ToUpper(name)} {
		if i > 0 && s == name {
			continue
		}
		if err := e.resolveCheck(e.cache, s, where); err != nil {
			return err
		}
		if i > 0 {
			e.class("resolve_case_variant")
		}
	}
	return nil
}

// ----------------------------------------------------------------------------------------- crash

func c08CopyTree(src, dst string) error {
	return filepath.Walk(src, func(p string, fi os.FileInfo, err error) error {
		if err != nil {
			return err
		}
		rel, _ := filepath.Rel(src, p)
		if fi.IsDir() {
			return os.MkdirAll(filepath.Join(dst, rel), 0o777)
		}
		b, err := os.ReadFile(p)
		if err != nil {
			return err
		}
		return os.WriteFile(filepath.Join(dst, rel), b, 0o666)
	})
}

// crash copies the directory as it is while every writer is parked (= what kill -9 leaves), opens a
// fresh DiskCache on the copy and checks it; then checks that the cache recovers: a faultless Put of
// every blob succeeds and yields the right content.
func (e *c08Engine) crash(where string) error {
	e.crashes++
	dst := filepath.Join(e.root, fmt.Sprintf("crash%d", e.crashes))
	defer os.RemoveAll(dst)
	if err := c08CopyTree(e.dir, dst); err != nil {
		return fmt.Errorf("harness: copy: %v", err)
	}
	e.class("crash_copy")
	mid := false
	for _, w := range e.live() {
		if w.kind != "import" && w.gen == e.gen[w.d] && w.written() {
			mid = true
		}
	}
	if mid {
		e.class("crash_mid_write")
		e.nt = true
	}
	c2, err := Open(dst)
	if err != nil {
		return &c08Viol{msg: "Open on crash copy: " + err.Error()}
	}
	where = "on the crash copy taken " + where
	if err := e.checkBlobs(c2, where); err != nil {
		return err
	}
	if err := e.checkLinks(dst, where); err != nil {
		return err
	}
	for _, n := range e.names {
		if err := e.resolveCheck(c2, n, where); err != nil {
			return err
		}
	}
	for i, d := range e.dig {
		truth := e.truth[i]
		if len(truth) == 0 {
			continue
		}
		if err := PutBytes(c2, d, truth); err != nil {
			return e.viol(d, "%s: recovery Put(%s) from a faultless source failed: %v", where, d.Short(), err)
		}
		got, _ := os.ReadFile(c2.GetFile(d))
		if ent, err := c2.Get(d); err != nil || ent.Size != int64(len(truth)) || !bytes.Equal(got, truth) {
			return e.viol(d, "%s: after a successful recovery Put(%s): Get size %d err %v, content %s", where, d.Short(), ent.Size, err, c08Describe(got, truth))
		}
	}
	return nil
}

// ------------------------------------------------------------------------------------------- run

func c08Run(c c08Case, known func(string) bool, excluded func(string)) (info c08Info, err error) {
	if known == nil {
		known = func(string) bool { return false }
	}
	if excluded == nil {
		excluded = func(string) {}
	}
	root, merr := os.MkdirTemp("", "c08-")
	if merr != nil {
		return info, fmt.Errorf("harness: %v", merr)
	}
	e := &c08Engine{c: c, known: known, excluded: excluded, root: root, dir: filepath.Join(root, "cache"),
		content: map[Digest][]byte{}, stored: map[Digest]bool{}, gen: map[Digest]int{}, taint: map[Digest]string{},
		cover: map[Digest][][2]int64{}, links: map[string]c08Link{}, ntaint: map[string]string{},
		nameSeen: map[string]bool{}, classes: map[string]bool{}, sameDig: map[Digest]int{}}
	defer func() {
		// let every goroutine of the case end, whatever happened
		e.teardown = true
		for _, w := range e.live() {
			w.fast = true
			for !w.done {
				if _, terr := e.stepOnce(w); terr != nil {
					break
				}
			}
		}
		for _, ck := range e.chunkers {
			if !ck.closed && !ck.noop {
				ck.h.Close()
			}
		}
		os.RemoveAll(root)
		for k := range e.classes {
			info.classes = append(info.classes, k)
		}
		sort.Strings(info.classes)
		info.nontrivial = e.nt
	}()
	if len(c.Blobs) == 0 {
		return info, nil
	}
	e.cache, merr = Open(e.dir)
	if merr != nil {
		return info, fmt.Errorf("harness: %v", merr)
	}
	for _, b := range c.Blobs {
		t := c08Bytes(b.Seed, max(0, min(b.Size, 256*1024)))
		e.truth = append(e.truth, t)
		e.dig = append(e.dig, c08Sum(t))
		e.track(c08Sum(t), t)
	}
	for i, a := range c.Actions {
		if err := e.do(i, a); err != nil {
			return info, err
		}
	}
	// drain: round-robin, one Read at a time, observing after each
	for progress := true; progress; {
		progress = false
		for _, w := range e.live() {
			r, err := e.stepOnce(w)
			if err != nil {
				return info, err
			}
			if r == c08Blocked {
				continue
			}
			progress = true
			if err := e.observe(fmt.Sprintf("while draining writer %d (%s %s)", w.id, w.kind, w.srcKind)); err != nil {
				return info, err
			}
		}
	}
	// non-triviality: two or more writers of one digest overlapped and at least one of them failed
	for _, w := range e.writers {
		if w.kind == "import" || w.kind == "instant" || !w.done || w.err == nil {
			continue
		}
		for _, x := range e.same(w) {
			if x.kind != "instant" && x.startSeq < w.endSeq && (!x.done || x.endSeq > w.startSeq) {
				e.class("concurrent_same_digest_one_fails")
				e.nt = true
			}
		}
	}
	for _, n := range e.names {
		if err := e.resolveCheck(e.cache, n, "at the end"); err != nil {
			return info, err
		}
	}
	if err := e.observe("at the end"); err != nil {
		return info, err
	}
	if err := e.crash("at the end"); err != nil {
		return info, err
	}
	return info, nil
}
