package blob

// C08 — blob cache: "right size ⇒ right content" (see /verif/DESIGN.md §3 C08).
//
// This file: the case data (plain JSON-serialisable structs), the rapid generator and the small
// pure helpers (deterministic blob contents, source scripts, name pool). The engine that runs a
// case against the real DiskCache is in c08_engine_test.go.
//
// A case is a pool of 1–4 blobs (size + content seed) and a list of actions. Actions that refer to
// run-time state (writers, chunkers) carry *intents*: indices taken modulo the live candidates.

import (
	"fmt"
	"strings"

	"pgregory.net/rapid"
)

type c08Blob struct {
	Size int    `json:"size"`
	Seed uint32 `json:"seed"`
}

type c08Action struct {
	// put store import step crash link unlink resolve get copen cput cclose
	Op   string `json:"op"`
	Blob int    `json:"blob,omitempty"`
	// source of a put / import / cput: exact short long flip err wrong (wrong = right length, other
	// bytes; for cput also "baddigest" = right bytes, lying chunk digest)
	Src    string `json:"src,omitempty"`
	K      int    `json:"k,omitempty"`      // fault parameter (position / amount), reduced modulo what applies
	Delta  int    `json:"delta,omitempty"`  // put: claimed size − true size, ≤ 0 (−1000000 = claim 0)
	Reads  []int  `json:"reads,omitempty"`  // sizes of the pieces successive Read calls deliver (cycled)
	W      int    `json:"w,omitempty"`      // intent: which live writer (step) / chunker (cput, cclose)
	N      int    `json:"n,omitempty"`      // step: how many Read calls to release
	Name   []int  `json:"name,omitempty"`   // indices into the host/namespace/model/tag pools
	Bad    int    `json:"bad,omitempty"`    // >0: an invalid spelling instead
	Used   int    `json:"used,omitempty"`   // >0: intent — the (Used-1)-th name already used in this case …
	Case   int    `json:"case,omitempty"`   // … respelled: 0 as is, 1 lower case, 2 upper case
	Ensure bool   `json:"ensure,omitempty"` // link: PutBytes the blob first, as Registry.Pull does with the manifest
	Form   int    `json:"form,omitempty"`   // resolve: 0 name, 1 name@digest, 2 @digest, 3 name@garbage
	Parts  int    `json:"parts,omitempty"`  // copen: the blob is to be stored in this many chunks (equal cuts)
	Part   int    `json:"part,omitempty"`   // cput: which of them; -1 = first one missing; -2 = free range from A, B
	A      int    `json:"a,omitempty"`
	B      int    `json:"b,omitempty"`
}

type c08Case struct {
	Blobs   []c08Blob   `json:"blobs"`
	Actions []c08Action `json:"actions"`
}

// ----------------------------------------------------------------------------------- contents

// c08Bytes is the content of a blob: a pure function of (seed, n); no byte is zero, so that a
// zero-filled hole can never be mistaken for content.
func c08Bytes(seed uint32, n int) []byte {
	b := make([]byte, n)
	x := uint64(seed)*0x9E3779B97F4A7C15 + 0x1234567
	for i := range b {
		x ^= x << 13
		x ^= x >> 7
		x ^= x << 17
		b[i] = byte(x%255) + 1
	}
	return b
}

func c08Sum(b []byte) Digest { return DigestFromBytes(b) }

// c08Source builds the byte stream a misbehaving source delivers for a blob (or chunk) whose true
// content is truth and whose claimed length is claimed. errAt ≥ 0: the Read call at that stream
// position returns an error instead of data.
func c08Source(kind string, k int, truth []byte, claimed int) (src []byte, errAt int) {
	errAt = -1
	n := len(truth)
	switch kind {
	case "short":
		if n == 0 {
			return nil, -1
		}
		cut := 1 + c08Mod(k, n) // 1…n bytes missing
		return append([]byte{}, truth[:n-cut]...), -1
	case "long":
		extra := 1 + c08Mod(k, 9)
		src = append(append([]byte{}, truth...), c08Bytes(uint32(k)+77, extra)...)
		return src, -1
	case "flip":
		if n == 0 {
			return []byte{}, -1
		}
		src = append([]byte{}, truth...)
		src[c08Mod(k, n)] ^= 0x80 // stays non-zero? 0x80^0x80 = 0 only for 0x80
		if src[c08Mod(k, n)] == 0 {
			src[c08Mod(k, n)] = 0x7f
		}
		return src, -1
	case "err":
		return append([]byte{}, truth...), c08Mod(k, n+1) // error after 0…n good bytes
	case "wrong":
		src = c08Bytes(uint32(k)*2654435761+99, n)
		if n > 0 && src[0] == truth[0] {
			src[0] = src[0]%255 + 1
		}
		return src, -1
	}
	return append([]byte{}, truth...), -1 // exact, baddigest
}

func c08Mod(a, n int) int {
	if n <= 0 {
		return 0
	}
	a %= n
	if a < 0 {
		a += n
	}
	return a
}

// -------------------------------------------------------------------------------------- names

var (
	c08Hosts  = []string{"h", "H", "example.com", "EXAMPLE.com"}
	c08Spaces = []string{"n", "N", "lib"}
	c08Models = []string{"m", "M", "m2"}
	c08Tags   = []string{"t", "T", "latest", "LATEST"}
	// spellings nameToPath must reject (not fully qualified, or invalid parts)
	c08BadNames = []string{"", "m", "m:t", "n/m", "n/m:t", "h/n/m/t", "%/%/%:%", "h/n/m:", "h/n.x/m:t", "h/n/-m:t"}
)

func c08NameOf(a c08Action) (name string, valid bool) {
	if a.Bad > 0 {
		return c08BadNames[c08Mod(a.Bad-1, len(c08BadNames))], false
	}
	var ix [4]int
	copy(ix[:], a.Name)
	return fmt.Sprintf("%s/%s/%s:%s",
		c08Hosts[c08Mod(ix[0], len(c08Hosts))],
		c08Spaces[c08Mod(ix[1], len(c08Spaces))],
		c08Models[c08Mod(ix[2], len(c08Models))],
		c08Tags[c08Mod(ix[3], len(c08Tags))]), true
}

func c08Fold(name string) string { return strings.ToLower(name) }

// ---------------------------------------------------------------------------------- generator

func c08GenSize(rt *rapid.T, prev []c08Blob) int {
	// same length as an earlier blob, different content: re-linking a name to it is the interesting case
	if len(prev) > 0 && rapid.IntRange(0, 99).Draw(rt, "samesize") < 35 {
		return prev[rapid.IntRange(0, len(prev)-1).Draw(rt, "as")].Size
	}
	// (rapid's integer generators favour small values: the classes wanted most come first)
	switch p := rapid.IntRange(0, 99).Draw(rt, "sizeclass"); {
	case p < 56:
		return rapid.IntRange(1, 64).Draw(rt, "size")
	case p < 76:
		return rapid.IntRange(65, 4096).Draw(rt, "size")
	case p < 86:
		return rapid.SampledFrom([]int{32767, 32768, 32769, 65535, 65536, 65537}).Draw(rt, "size")
	case p < 93:
		return rapid.IntRange(32769, 100000).Draw(rt, "size")
	case p < 96:
		return rapid.IntRange(100000, 200*1024).Draw(rt, "size")
	}
	return 0
}

func c08GenReads(rt *rapid.T) []int {
	n := rapid.IntRange(1, 3).Draw(rt, "nreads")
	out := make([]int, n)
	for i := range out {
		switch p := rapid.IntRange(0, 99).Draw(rt, "readclass"); {
		case p < 45:
			out[i] = rapid.IntRange(1, 16).Draw(rt, "read")
		case p < 70:
			out[i] = rapid.IntRange(17, 2048).Draw(rt, "read")
		case p < 85:
			out[i] = rapid.IntRange(2049, 32767).Draw(rt, "read")
		default:
			out[i] = 1 << 20 // whatever the buffer holds (32 KiB in io.Copy)
		}
	}
	return out
}

var c08PutSrc = []string{"exact", "exact", "exact", "exact", "exact", "exact", "short", "long", "flip", "flip", "err", "err", "wrong"}
var c08ChunkSrc = []string{"exact", "exact", "exact", "exact", "exact", "exact", "exact", "short", "long", "flip", "err", "wrong", "baddigest"}

func c08GenName(rt *rapid.T, a *c08Action, reuse int) {
	if rapid.IntRange(0, 99).Draw(rt, "badname") < 6 {
		a.Bad = rapid.IntRange(1, len(c08BadNames)).Draw(rt, "bad")
		return
	}
	if rapid.IntRange(0, 99).Draw(rt, "reuse") < reuse {
		a.Used = rapid.IntRange(1, 4).Draw(rt, "used")
		a.Case = rapid.IntRange(0, 2).Draw(rt, "case")
	}
	// few distinct folded names (2 hosts × 2 ns × 2 models × 2 tags after folding), many spellings
	a.Name = []int{
		rapid.IntRange(0, len(c08Hosts)-1).Draw(rt, "h"),
		rapid.IntRange(0, len(c08Spaces)-1).Draw(rt, "ns"),
		rapid.IntRange(0, len(c08Models)-1).Draw(rt, "mod"),
		rapid.IntRange(0, len(c08Tags)-1).Draw(rt, "tag"),
	}
	if rapid.IntRange(0, 99).Draw(rt, "commonname") < 60 { // concentrate on one model name
		a.Name[0] &= 1
		a.Name[1] &= 1
		a.Name[2] &= 1
		a.Name[3] &= 1
	}
}

func c08Gen(rt *rapid.T) c08Case {
	var c c08Case
	nb := rapid.IntRange(1, 4).Draw(rt, "nblobs")
	for i := 0; i < nb; i++ {
		c.Blobs = append(c.Blobs, c08Blob{Size: c08GenSize(rt, c.Blobs), Seed: rapid.Uint32Range(1, 1<<20).Draw(rt, "seed")})
	}
	na := rapid.IntRange(1, 44).Draw(rt, "nactions")
	for i := 0; i < na; i++ {
		var a c08Action
		blob := func() { a.Blob = rapid.IntRange(0, nb-1).Draw(rt, "blob") }
		// rapid's integer generators favour small values: rotate so that the favoured draws are puts and steps
		switch p := (rapid.IntRange(0, 99).Draw(rt, "op") + 7) % 100; {
		case p < 15:
			a.Op = "put"
			blob()
			a.Src = rapid.SampledFrom(c08PutSrc).Draw(rt, "src")
			a.K = rapid.IntRange(0, 1<<18).Draw(rt, "k")
			// claimed size: the true length, sometimes less (cache_test.go TestPut/TestPutZero do that).
			// Never more: by Put's contract only the claimed size is protected, so a claim above the
			// true length lets the file pass through its true length with unverified bytes — outside
			// the property's domain (every caller takes digest and size from the same manifest).
			switch q := rapid.IntRange(0, 99).Draw(rt, "delta"); {
			case q < 88:
			case q < 96:
				a.Delta = -rapid.IntRange(1, 8).Draw(rt, "deltav")
			default:
				a.Delta = -1000000
			}
			a.Reads = c08GenReads(rt)
		case p < 45:
			a.Op = "step"
			a.W = rapid.IntRange(0, 7).Draw(rt, "w")
			a.N = rapid.IntRange(1, 6).Draw(rt, "n")
		case p < 50:
			a.Op = "crash"
		case p < 59:
			a.Op = "link"
			blob()
			c08GenName(rt, &a, 50)
			a.Ensure = rapid.IntRange(0, 99).Draw(rt, "ensure") < 55
		case p < 62:
			a.Op = "unlink"
			c08GenName(rt, &a, 75)
		case p < 69:
			a.Op = "resolve"
			blob()
			c08GenName(rt, &a, 85)
			if rapid.IntRange(0, 99).Draw(rt, "formp") >= 88 {
				a.Form = rapid.IntRange(1, 3).Draw(rt, "form")
			}
		case p < 71:
			a.Op = "get"
			blob()
		case p < 75:
			a.Op = "import"
			blob()
			a.Src = rapid.SampledFrom([]string{"exact", "exact", "exact", "short", "long", "flip", "err"}).Draw(rt, "src")
			a.K = rapid.IntRange(0, 1<<18).Draw(rt, "k")
			a.Reads = c08GenReads(rt)
		case p < 84:
			a.Op = "store" // PutBytes: the whole blob in one Write, as the registry client stores manifests
			blob()
		case p < 87:
			a.Op = "copen"
			blob()
			a.Parts = rapid.IntRange(1, 4).Draw(rt, "parts")
		case p < 98:
			a.Op = "cput"
			blob() // used (with Parts) to open a chunker when none is open
			a.Parts = rapid.IntRange(1, 4).Draw(rt, "parts")
			a.W = rapid.IntRange(0, 3).Draw(rt, "w")
			a.Src = rapid.SampledFrom(c08ChunkSrc).Draw(rt, "src")
			a.K = rapid.IntRange(0, 1<<18).Draw(rt, "k")
			switch q := rapid.IntRange(0, 99).Draw(rt, "which"); {
			case q < 60: // the first part of the chunker's partition not yet stored or in flight
				a.Part = -1
			case q < 88: // any part: out of order, repeated
				a.Part = rapid.IntRange(0, 3).Draw(rt, "part")
			default: // free range: overlapping, not aligned with the partition
				a.Part = -2
				a.A = rapid.IntRange(0, 1<<18).Draw(rt, "a")
				a.B = rapid.IntRange(0, 1<<18).Draw(rt, "b")
			}
			a.Reads = c08GenReads(rt)
		default:
			a.Op = "cclose"
			a.W = rapid.IntRange(0, 3).Draw(rt, "w")
		}
		c.Actions = append(c.Actions, a)
	}
	return c
}
