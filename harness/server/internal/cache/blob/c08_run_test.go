package blob

import (
	"os"
	"slices"
	"strings"
	"testing"

	"pgregory.net/rapid"
	"verif.local/vfkit"
)

var c08Slugs = []string{c08KTrunc, c08KOverwrite, c08KChunked, c08KLinkEmpty, c08KLinkFail, c08KRelink}

func c08Assumed(name string) bool {
	return slices.Contains(strings.Split(os.Getenv("VERIF_ASSUME_KNOWN"), ","), name)
}

func TestC08BlobCache(t *testing.T) {
	const target = "TestC08BlobCache"
	rec := vfkit.Open(target)
	defer rec.Flush()
	// Cases are dominated by file-system calls: keep cache directories AND Import's temporary files
	// (os.CreateTemp("") = $TMPDIR; Import renames from there into the cache, so both must be on one
	// file system) on tmpfs when there is one.
	if fi, err := os.Stat("/dev/shm"); err == nil && fi.IsDir() {
		if base, err := os.MkdirTemp("/dev/shm", "verif-c08-"); err == nil {
			os.Setenv("TMPDIR", base)
			defer os.RemoveAll(base)
		}
	}
	var rc c08Case
	if rp, ok, err := vfkit.ReplayCase(target, &rc); ok {
		if err != nil {
			t.Fatalf("replay: %v", err)
		}
		// a replay of a known finding runs with that finding's guard off (it must fail while the defect
		// exists) and every other listed finding's guard on
		own := strings.TrimPrefix(rp.Expect, "known:")
		known := func(s string) bool { return s != own && rec.Known(s) }
		info, err := c08Run(rc, known, nil)
		t.Logf("replay classes: %v", info.classes)
		if err != nil {
			if own != "" && slices.Contains(c08Slugs, own) && strings.HasPrefix(err.Error(), "["+own+"]") {
				rec.KnownHit(own, err.Error())
				if c08Assumed(own) { // development aid: the driver does not list the finding yet
					t.Logf("KNOWN-FINDING (assumed): property=C08 %v", err)
					return
				}
			}
			rec.Fail(target, rc, err.Error())
			t.Fatalf("C08 violated: %v", err)
		}
		return
	}
	rapid.Check(t, func(rt *rapid.T) {
		if rec.OverBudget() {
			return
		}
		c := c08Gen(rt)
		info, err := c08Run(c, rec.Known, rec.Excluded)
		rec.Case(c, info.nontrivial, info.classes...)
		if err != nil {
			rec.Fail(target, c, err.Error())
			rt.Fatalf("C08 violated: %v", err)
		}
	})
}
