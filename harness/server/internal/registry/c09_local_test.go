package registry

// C09 — registry client: success means every layer verified; manifest committed last
// (see /verif/DESIGN.md §3 C09). This file drives registry.Local's POST /api/pull handler
// (non-streaming: one Registry.Pull; streaming: the handler's own retry loop around Registry.Pull
// with backoff, and its progress ticker) against the scripted fake registry of package
// verifc09reg, inside a testing/synctest bubble (backoff and ticker run on the virtual clock).

import (
	"bytes"
	"context"
	"encoding/json"
	"errors"
	"fmt"
	"io"
	"log/slog"
	"net/http"
	"net/http/httptest"
	"os"
	"slices"
	"strings"
	"sync"
	"testing"
	"testing/synctest"
	"time"

	"pgregory.net/rapid"
	"verif.local/vfkit"

	"github.com/ollama/ollama/server/internal/cache/blob"
	"github.com/ollama/ollama/server/internal/client/ollama"
	c09reg "github.com/ollama/ollama/verifc09reg"
)

type c09LocalDriver struct {
	s      *Local
	stream bool
}

// c09Verdict reads the handler's answer the way a client of the API does: success is the final
// {"status":"success"} object with no error object anywhere.
func c09Verdict(code int, body []byte) error {
	var last struct {
		Status string `json:"status"`
		Error  string `json:"error"`
	}
	ok := false
	for _, line := range bytes.Split(bytes.TrimSpace(body), []byte("\n")) {
		if len(bytes.TrimSpace(line)) == 0 {
			continue
		}
		last.Status, last.Error = "", ""
		if err := json.Unmarshal(line, &last); err != nil {
			return fmt.Errorf("unparsable line %q", line)
		}
		if last.Error != "" {
			return fmt.Errorf("handler reported error %q (http %d)", last.Error, code)
		}
		ok = last.Status == "success"
	}
	if code != 200 {
		return fmt.Errorf("http %d", code)
	}
	if !ok {
		return errors.New("no final success status")
	}
	return nil
}

// c09SafeWriter serialises the handler's writes. The streaming handler writes its response from two
// goroutines (the first progress flush happens on the Pull goroutine through Trace.Update, while the
// handler goroutine encodes "pulling manifest" / ticker flushes); httptest.ResponseRecorder dies of
// "concurrent map writes" on that. It is a defect of the handler, but not one C09 is about (reported
// separately), so the harness keeps the process alive the way a real connection mostly does.
type c09SafeWriter struct {
	mu sync.Mutex
	w  *httptest.ResponseRecorder
}

func (s *c09SafeWriter) Header() http.Header { s.mu.Lock(); defer s.mu.Unlock(); return s.w.Header() }
func (s *c09SafeWriter) WriteHeader(c int)   { s.mu.Lock(); defer s.mu.Unlock(); s.w.WriteHeader(c) }
func (s *c09SafeWriter) Flush()              { s.mu.Lock(); defer s.mu.Unlock(); s.w.Flush() }
func (s *c09SafeWriter) Write(p []byte) (int, error) {
	s.mu.Lock()
	defer s.mu.Unlock()
	return s.w.Write(p)
}

func (d *c09LocalDriver) Begin(ctx context.Context) <-chan error {
	ch := make(chan error, 1)
	go func() {
		body := fmt.Sprintf(`{"model":%q,"stream":%v}`, c09reg.Name, d.stream)
		req := httptest.NewRequestWithContext(ctx, "POST", "/api/pull", strings.NewReader(body))
		w := &c09SafeWriter{w: httptest.NewRecorder()}
		d.s.ServeHTTP(w, req)
		ch <- c09Verdict(w.w.Code, w.w.Body.Bytes())
	}()
	return ch
}

func c09Bubble(t *testing.T, f func()) (err error) {
	defer func() {
		if r := recover(); r != nil {
			err = fmt.Errorf("bubble ended with: %v", r)
		}
	}()
	synctest.Test(t, func(*testing.T) { f() })
	return nil
}

func c09WithLog(err error, log []string) string {
	if len(log) > 70 {
		log = log[len(log)-70:]
	}
	return fmt.Sprintf("%v\n  event log (tail):\n    %s", err, strings.Join(log, "\n    "))
}

func c09RunLocal(t *testing.T, c c09reg.PullCase, known func(string) bool, excluded func(string)) (info c09reg.Info, err error) {
	env := c09reg.PullEnv{
		New: func(rt http.RoundTripper, dir string, c *c09reg.PullCase) c09reg.PullDriver {
			cache, err := blob.Open(dir)
			if err != nil {
				panic(err)
			}
			rc := &ollama.Registry{
				Cache:             cache,
				HTTPClient:        &http.Client{Transport: rt},
				MaxStreams:        c.MaxStreams,
				ChunkingThreshold: int64(c.Threshold),
				ReadTimeout:       time.Duration(c.ReadTimeoutS) * time.Second,
			}
			s := &Local{Client: rc, Logger: slog.New(slog.NewTextHandler(io.Discard, nil))}
			return &c09LocalDriver{s: s, stream: c.Via == "local-stream"}
		},
		Resolve: func(dir string) (string, error) {
			cache, err := blob.Open(dir)
			if err != nil {
				return "", err
			}
			d, err := cache.Resolve(c09reg.Name)
			return strings.TrimPrefix(d.String(), "sha256:"), err
		},
		Known:    known,
		Excluded: excluded,
	}
	berr := c09Bubble(t, func() { info, err = c09reg.RunPull(c, env) })
	if err == nil && berr != nil {
		err = berr
	}
	info.Classes = append(info.Classes, "via_"+c.Via)
	return info, err
}

func c09Assumed(name string) bool {
	return slices.Contains(strings.Split(os.Getenv("VERIF_ASSUME_KNOWN"), ","), name)
}

func TestC09LocalPull(t *testing.T) {
	const target = "TestC09LocalPull"
	rec := vfkit.Open(target)
	defer rec.Flush()
	var rc c09reg.PullCase
	if rp, ok, err := vfkit.ReplayCase(target, &rc); ok {
		if err != nil {
			t.Fatalf("replay: %v", err)
		}
		own, _ := strings.CutPrefix(rp.Expect, "known:")
		known := func(s string) bool { return s != own && rec.Known(s) }
		info, err := c09RunLocal(t, rc, known, func(string) {})
		t.Logf("classes: %v", info.Classes)
		if err != nil {
			var v *c09reg.Violation
			if own != "" && errors.As(err, &v) && v.Slug == own {
				rec.KnownHit(own, err.Error())
				if c09Assumed(own) { // development aid: the driver does not know the finding yet
					t.Logf("KNOWN-FINDING (assumed): property=C09 %v", err)
					return
				}
			}
			rec.Fail(target, rc, c09WithLog(err, info.Log))
			t.Fatalf("C09 violated: %s", c09WithLog(err, info.Log))
		}
		return
	}
	rapid.Check(t, func(rt *rapid.T) {
		if rec.OverBudget() {
			return
		}
		c := c09reg.GenPull(rt, []string{"local", "local-stream", "local-stream"})
		rec.Current(target, c) // the handler runs goroutines of its own: a crash there kills the process
		info, err := c09RunLocal(t, c, rec.Known, rec.Excluded)
		rec.Case(c, info.Nontrivial, info.Classes...)
		if err != nil {
			rec.Fail(target, c, c09WithLog(err, info.Log))
			rt.Fatalf("C09 violated: %v", err)
		}
	})
}
