package ollama

// Native coverage-guided fuzz target for C13 (thorough tier only; DESIGN.md §3 C13): arbitrary byte strings
// as model names through the same oracles as TestC13ModelName / TestC13RegistryName. The rapid generator
// builds names from a grammar; the fuzzer instead follows coverage inside model.ParseName, names.Parse,
// Registry.parseNameExtended and the cache's Link/Resolve, so it reaches inputs the grammar has no rule for.

import (
	"strings"
	"testing"

	c13gen "github.com/ollama/ollama/verifc13gen"
)

var c13FuzzSeeds = []string{
	"llama3", "library/llama3:latest", "registry.ollama.ai/library/llama3:8b", "h.example.com:5000/ns/m:t",
	"http://h/n/m:t", "https://h/n/m:t@sha256:" + "0123456789abcdef0123456789abcdef0123456789abcdef0123456789abcdef",
	"h//m", "../x", "a/../b:c", "n/m:..", "H/N/M:T", "m:", ":t", "/m", "m/", "a/b/c/d/e", "a\\b", "a\x00b", "%2e%2e/m",
	"m@sha256-" + "0123456789abcdef0123456789abcdef0123456789abcdef0123456789abcdef", "ns/m:t:u", "-m", ".m", "m.", "_",
	strings.Repeat("a", 80) + "/" + strings.Repeat("b", 80) + ":" + strings.Repeat("c", 80),
	strings.Repeat("h", 350) + "/n/m:t", "é/ñ:ü", "http+insecure://h/n/m", "file://h/n/m",
}

func FuzzC13Names(f *testing.F) {
	for _, s := range c13FuzzSeeds {
		f.Add(s)
	}
	never := func(string) bool { return false }
	f.Fuzz(func(t *testing.T, s string) {
		if len(s) > 2048 {
			t.Skip()
		}
		c := c13gen.Case{Q: c13gen.Quote(s)}
		if _, err := c13RunModelName(c); err != nil {
			t.Fatalf("C13 violated (model.ParseName side): %v", err)
		}
		if _, err := c13RunRegistryName(c, never); err != nil {
			t.Fatalf("C13 violated (names.Parse / registry side): %v", err)
		}
	})
}
