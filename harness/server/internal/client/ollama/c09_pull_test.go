package ollama

// C09 — registry client: success means every layer verified; manifest committed last
// (see /verif/DESIGN.md §3 C09). This file drives Registry.Pull; c09_push_test.go drives
// Registry.Push. The scripted fake registry, the case model and the oracles live in the overlay-only
// package verifc09reg (shared with the harnesses of server/internal/registry and server).

import (
	"context"
	"errors"
	"fmt"
	"net/http"
	"os"
	"slices"
	"strings"
	"testing"
	"testing/synctest"
	"time"

	"pgregory.net/rapid"
	"verif.local/vfkit"

	"github.com/ollama/ollama/server/internal/cache/blob"
	c09reg "github.com/ollama/ollama/verifc09reg"
)

type c09PullDriver struct{ rc *Registry }

func (d *c09PullDriver) Begin(ctx context.Context) <-chan error {
	ch := make(chan error, 1)
	go func() { ch <- d.rc.Pull(ctx, c09reg.Name) }()
	return ch
}

func c09NewRegistry(rt http.RoundTripper, dir string, maxStreams, threshold, readTimeoutS int) *Registry {
	cache, err := blob.Open(dir)
	if err != nil {
		panic(err)
	}
	return &Registry{
		Cache:             cache,
		HTTPClient:        &http.Client{Transport: rt},
		MaxStreams:        maxStreams,
		ChunkingThreshold: int64(threshold),
		ReadTimeout:       time.Duration(readTimeoutS) * time.Second,
	}
}

func c09Resolve(dir string) (string, error) {
	cache, err := blob.Open(dir)
	if err != nil {
		return "", err
	}
	d, err := cache.Resolve(c09reg.Name)
	if err != nil {
		return "", err
	}
	return strings.TrimPrefix(d.String(), "sha256:"), nil
}

// c09Bubble runs f in a synctest bubble and turns a bubble-level panic (goroutines left blocked
// for ever) into an error.
func c09Bubble(t *testing.T, f func()) (err error) {
	defer func() {
		if r := recover(); r != nil {
			err = fmt.Errorf("bubble ended with: %v", r)
		}
	}()
	synctest.Test(t, func(*testing.T) { f() })
	return nil
}

// c09WithLog is the long form of a failure for the replay file and the log. The event log's order
// depends on the scheduler, so it must never be part of the message rapid compares between runs.
func c09WithLog(err error, log []string) string {
	if len(log) > 70 {
		log = log[len(log)-70:]
	}
	return fmt.Sprintf("%v\n  event log (tail):\n    %s", err, strings.Join(log, "\n    "))
}

func c09RunPull(t *testing.T, c c09reg.PullCase, known func(string) bool, excluded func(string)) (info c09reg.Info, err error) {
	env := c09reg.PullEnv{
		New: func(rt http.RoundTripper, dir string, c *c09reg.PullCase) c09reg.PullDriver {
			return &c09PullDriver{rc: c09NewRegistry(rt, dir, c.MaxStreams, c.Threshold, c.ReadTimeoutS)}
		},
		Resolve:  c09Resolve,
		Known:    known,
		Excluded: excluded,
	}
	berr := c09Bubble(t, func() { info, err = c09reg.RunPull(c, env) })
	if err == nil && berr != nil {
		err = berr
	}
	return info, err
}

func c09Assumed(name string) bool {
	return slices.Contains(strings.Split(os.Getenv("VERIF_ASSUME_KNOWN"), ","), name)
}

// c09Replay handles the replay tier for every C09 target: a replay that demonstrates a listed
// finding runs with that finding's exclusion switched off and must fail with that signature.
func c09Replay(t *testing.T, rec *vfkit.Recorder, target string, rp *vfkit.Replay, c any, run func(known func(string) bool) (c09reg.Info, error)) {
	own := ""
	if rp != nil {
		own, _ = strings.CutPrefix(rp.Expect, "known:")
	}
	known := func(s string) bool { return s != own && rec.Known(s) }
	info, err := run(known)
	t.Logf("classes: %v", info.Classes)
	if err == nil {
		return
	}
	var v *c09reg.Violation
	if own != "" && errors.As(err, &v) && v.Slug == own {
		rec.KnownHit(own, err.Error())
		if c09Assumed(own) { // development aid: the driver does not know the finding yet
			t.Logf("KNOWN-FINDING (assumed): property=C09 %v", err)
			return
		}
	}
	rec.Fail(target, c, c09WithLog(err, info.Log))
	t.Fatalf("C09 violated: %s", c09WithLog(err, info.Log))
}

func TestC09Pull(t *testing.T) {
	const target = "TestC09Pull"
	rec := vfkit.Open(target)
	defer rec.Flush()
	var rc c09reg.PullCase
	if rp, ok, err := vfkit.ReplayCase(target, &rc); ok {
		if err != nil {
			t.Fatalf("replay: %v", err)
		}
		c09Replay(t, rec, target, rp, rc, func(known func(string) bool) (c09reg.Info, error) {
			return c09RunPull(t, rc, known, func(string) {})
		})
		return
	}
	rapid.Check(t, func(rt *rapid.T) {
		if rec.OverBudget() {
			return
		}
		c := c09reg.GenPull(rt, []string{""})
		info, err := c09RunPull(t, c, rec.Known, rec.Excluded)
		rec.Case(c, info.Nontrivial, info.Classes...)
		if err != nil {
			rec.Fail(target, c, c09WithLog(err, info.Log))
			rt.Fatalf("C09 violated: %v", err)
		}
	})
}
