package ollama

// C09, push side: Registry.Push against the recording fake registry of package verifc09reg. The
// oracle lives in the fake: when the manifest PUT arrives every layer of the manifest must have been
// accepted by the registry in this push (upload PUT answered 2xx after the registry verified the
// bytes, or upload start answered without Location) and no request about a layer may be open.

import (
	"context"
	"net/http"
	"testing"

	"pgregory.net/rapid"
	"verif.local/vfkit"

	c09reg "github.com/ollama/ollama/verifc09reg"
)

type c09PushDriver struct{ rc *Registry }

func (d *c09PushDriver) Begin(ctx context.Context) <-chan error {
	ch := make(chan error, 1)
	go func() { ch <- d.rc.Push(ctx, c09reg.Name, nil) }()
	return ch
}

func c09RunPush(t *testing.T, c c09reg.PushCase, known func(string) bool, excluded func(string)) (info c09reg.Info, err error) {
	env := c09reg.PushEnv{Known: known, Excluded: excluded, New: func(rt http.RoundTripper, dir string, c *c09reg.PushCase) c09reg.PullDriver {
		return &c09PushDriver{rc: c09NewRegistry(rt, dir, c.MaxStreams, 64, 0)}
	}}
	berr := c09Bubble(t, func() { info, err = c09reg.RunPush(c, env) })
	if err == nil && berr != nil {
		err = berr
	}
	return info, err
}

func TestC09Push(t *testing.T) {
	const target = "TestC09Push"
	rec := vfkit.Open(target)
	defer rec.Flush()
	var rc c09reg.PushCase
	if rp, ok, err := vfkit.ReplayCase(target, &rc); ok {
		if err != nil {
			t.Fatalf("replay: %v", err)
		}
		c09Replay(t, rec, target, rp, rc, func(known func(string) bool) (c09reg.Info, error) { return c09RunPush(t, rc, known, func(string) {}) })
		return
	}
	rapid.Check(t, func(rt *rapid.T) {
		if rec.OverBudget() {
			return
		}
		c := c09reg.GenPush(rt, "")
		info, err := c09RunPush(t, c, rec.Known, rec.Excluded)
		rec.Case(c, info.Nontrivial, info.Classes...)
		if err != nil {
			rec.Fail(target, c, c09WithLog(err, info.Log))
			rt.Fatalf("C09 violated: %v", err)
		}
	})
}
