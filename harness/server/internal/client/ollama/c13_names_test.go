package ollama

// C13 — model names cannot address anything outside the model store (see /verif/DESIGN.md §3 C13).
//
// This file holds the targets that need the new client's name package
// (server/internal/internal/names is only importable below server/internal):
//
//	TestC13ModelName     model.ParseName: reject, or documented grammar + Filepath confinement +
//	                     print/parse round trip + names.Parse reads the print back with the same parts
//	TestC13RegistryName  names.Parse, Registry.parseNameExtended and blob.DiskCache Link/Resolve/Unlink:
//	                     reject, or grammar + round trip + model.ParseName reads the print back + the
//	                     manifest file lands at manifests/<h>/<n>/<m>/<t> and nowhere else
//	TestC13CaseFold      names that differ only in letter case address the same manifest
//
// The generator, the reference grammar and the sandbox auditor live in the overlay-only package
// verifc13gen (shared with harness/server/c13_paths_test.go).

import (
	"errors"
	"fmt"
	"io/fs"
	"os"
	"path/filepath"
	"slices"
	"strings"
	"sync"
	"testing"

	"pgregory.net/rapid"
	"verif.local/vfkit"

	"github.com/ollama/ollama/server/internal/cache/blob"
	"github.com/ollama/ollama/server/internal/internal/names"
	"github.com/ollama/ollama/types/model"
	c13gen "github.com/ollama/ollama/verifc13gen"
)

// c13KnownHostNoNamespace: names.Parse accepts "<host>//<model>" (host present, namespace empty)
// and prints it as "<host>/<model>", which reads back as namespace=<host>.
const c13KnownHostNoNamespace = "names-host-without-namespace"

type c13Info struct {
	nontrivial bool
	classes    []string
}

type c13Env struct {
	sb    *c13gen.Sandbox
	cache *blob.DiskCache
	d     [3]blob.Digest // blobs of sizes 1, 2, 3 present in the cache
}

var (
	c13EnvOnce sync.Once
	c13EnvVal  *c13Env
	c13EnvErr  error
)

func c13GetEnv() (*c13Env, error) {
	c13EnvOnce.Do(func() {
		sb, err := c13gen.NewSandbox()
		if err != nil {
			c13EnvErr = err
			return
		}
		c, err := blob.Open(sb.Root)
		if err != nil {
			c13EnvErr = err
			return
		}
		e := &c13Env{sb: sb, cache: c}
		for i, data := range []string{"1", "22", "333"} {
			e.d[i] = blob.DigestFromBytes(data)
			if err := blob.PutBytes(c, e.d[i], data); err != nil {
				c13EnvErr = err
				return
			}
		}
		c13EnvVal = e
	})
	return c13EnvVal, c13EnvErr
}

func c13ModelParts(n model.Name) [4]string {
	return [4]string{n.Host, n.Namespace, n.Model, n.Tag}
}

func c13NameParts(n names.Name) [4]string {
	return [4]string{n.Host(), n.Namespace(), n.Model(), n.Tag()}
}

// c13IsFSError reports an error that comes from the file system (e.g. ENAMETOOLONG for a 350 byte
// host on a NAME_MAX=255 file system), as opposed to a validation verdict.
func c13IsFSError(err error) bool {
	var pe *fs.PathError
	return errors.As(err, &pe)
}

func c13NearAccepted(c c13gen.Case, accepted func(string) bool) bool {
	return len(c.Steps) == 1 && accepted(c.BaseS())
}

// ------------------------------------------------------------------------- model.ParseName

// c13CheckRelPath reads rel "as a name relative path" (what Manifests() does with the files it finds):
// ParseNameFromFilepath rejects it (zero Name), or it is exactly four grammatical parts whose
// Filepath() is rel again.
func c13CheckRelPath(rel, mdir string, info *c13Info) error {
	n := model.ParseNameFromFilepath(rel)
	if n == (model.Name{}) {
		return nil
	}
	info.classes = append(info.classes, "relpath_accepted")
	got := c13ModelParts(n)
	if !n.IsValid() {
		return fmt.Errorf("ParseNameFromFilepath(%q) = %q: neither zero nor valid", rel, got)
	}
	for k, p := range got {
		if !c13gen.AcceptedPartOK(k, p) {
			return fmt.Errorf("ParseNameFromFilepath(%q) is valid but its %s %q violates the documented grammar", rel, c13gen.KindName[k], p)
		}
	}
	if n.Filepath() != rel {
		return fmt.Errorf("ParseNameFromFilepath(%q).Filepath() = %q", rel, n.Filepath())
	}
	if err := c13gen.CheckStorePath(mdir, filepath.Join(mdir, rel), got); err != nil {
		return fmt.Errorf("ParseNameFromFilepath(%q): %v", rel, err)
	}
	return nil
}

func c13RunModelName(c c13gen.Case) (info c13Info, err error) {
	env, e := c13GetEnv()
	if e != nil {
		return info, nil // environment problem, not a verdict
	}
	s := c.S()
	cls, sepOrNonAlnum := c13gen.Classify(s)
	info.classes = cls

	// the same bytes as a name relative path: as they are, and with the tag colon turned into a separator
	if err := c13CheckRelPath(s, filepath.Join(env.sb.Root, "manifests"), &info); err != nil {
		return info, err
	}
	if i := strings.LastIndex(s, ":"); i > strings.LastIndex(s, "/") {
		if err := c13CheckRelPath(s[:i]+string(filepath.Separator)+s[i+1:], filepath.Join(env.sb.Root, "manifests"), &info); err != nil {
			return info, err
		}
	}
	n := model.ParseName(s)
	valid := n.IsValid()
	want, pure := c.Pure()
	if pure {
		info.classes = append(info.classes, "pure_documented_form")
	}
	info.nontrivial = sepOrNonAlnum && (valid || slices.Contains(info.classes, "relpath_accepted") || c13NearAccepted(c, func(b string) bool { return model.ParseName(b).IsValid() }))
	if !valid {
		info.classes = append(info.classes, "rejected")
		if pure {
			return info, fmt.Errorf("model.ParseName(%q) is invalid, but the input is the documented form of parts %q", s, want)
		}
		return info, nil
	}
	info.classes = append(info.classes, "accepted")
	got := c13ModelParts(n)
	if pure && got != c13gen.WithDefaults(want) {
		return info, fmt.Errorf("model.ParseName(%q) = %q, documented parse is %q", s, got, c13gen.WithDefaults(want))
	}
	for k, p := range got {
		if !c13gen.AcceptedPartOK(k, p) {
			return info, fmt.Errorf("model.ParseName(%q) is valid but its %s %q violates the documented grammar", s, c13gen.KindName[k], p)
		}
	}
	if strings.Contains(got[0], ":") {
		info.classes = append(info.classes, "accepted_host_with_colon")
	}
	if !n.IsFullyQualified() {
		return info, fmt.Errorf("model.ParseName(%q) is valid but not fully qualified", s)
	}

	// confinement, as strings
	fp := n.Filepath()
	if fp != strings.Join(got[:], string(filepath.Separator)) || filepath.IsAbs(fp) {
		return info, fmt.Errorf("model.ParseName(%q).Filepath() = %q, want the four parts %q joined", s, fp, got)
	}
	mdir := filepath.Join(env.sb.Root, "manifests")
	full := filepath.Join(mdir, fp)
	if err := c13gen.CheckStorePath(mdir, full, got); err != nil {
		return info, fmt.Errorf("model.ParseName(%q): %v", s, err)
	}
	if back := model.ParseNameFromFilepath(fp); back != n {
		return info, fmt.Errorf("ParseNameFromFilepath(%q) = %q, want %q (from %q)", fp, c13ModelParts(back), got, s)
	}

	// print / parse round trip
	printed := n.String()
	if printed != c13gen.JoinName(got) {
		return info, fmt.Errorf("model.ParseName(%q).String() = %q, want %q", s, printed, c13gen.JoinName(got))
	}
	if again := model.ParseName(printed); again != n {
		return info, fmt.Errorf("model round trip: ParseName(%q) = %q; printed %q; parsed again %q", s, got, printed, c13ModelParts(again))
	}
	// the short print (what pull and push hand on, and what the CLI shows) leaves out a default host and namespace; read
	// back, the defaults are filled in again and the same model is addressed
	short := n.DisplayShortest()
	if again := model.ParseName(short); !again.EqualFold(n) {
		return info, fmt.Errorf("model short print: ParseName(%q) = %q; DisplayShortest() = %q; parsed again %q", s, got, short, c13ModelParts(again))
	}
	if strings.EqualFold(got[0], "library") || strings.EqualFold(got[1], "registry.ollama.ai") {
		info.classes = append(info.classes, "default_word_in_another_part")
	}
	// a Name value assembled from the same parts must print and parse identically
	if direct := (model.Name{Host: got[0], Namespace: got[1], Model: got[2], Tag: got[3]}); !direct.IsValid() || model.ParseName(direct.String()) != direct {
		return info, fmt.Errorf("model.Name%q does not survive String/ParseName", got)
	}

	// the other parser reads the print back with the same parts
	o := names.Parse(printed)
	if !o.IsFullyQualified() || c13NameParts(o) != got {
		return info, fmt.Errorf("cross parser: model.ParseName(%q) printed %q; names.Parse reads %q (fully qualified %v), want %q",
			s, printed, c13NameParts(o), o.IsFullyQualified(), got)
	}
	info.classes = append(info.classes, "cross_model_to_names")

	// confinement, as a file-system fact
	env.sb.ResetManifests()
	if err := os.MkdirAll(filepath.Dir(full), 0o755); err == nil {
		err = os.WriteFile(full, []byte("{}"), 0o644)
		if err == nil {
			info.classes = append(info.classes, "fs_created")
			ms, aerr := env.sb.Audit()
			if aerr != nil {
				return info, fmt.Errorf("model.ParseName(%q): %v", s, aerr)
			}
			if !slices.Equal(ms, []string{strings.Join(got[:], "/")}) {
				return info, fmt.Errorf("model.ParseName(%q): manifest files on disk %q, want exactly %q", s, ms, strings.Join(got[:], "/"))
			}
		}
	}
	if len(got[0]) > 255 {
		info.classes = append(info.classes, "host_longer_than_name_max")
	}
	env.sb.ResetManifests()
	return info, nil
}

// ---------------------------------------------------- names.Parse, parseNameExtended, DiskCache

var c13Mask = names.Parse(DefaultMask)

func c13RunRegistryName(c c13gen.Case, exclude func(string) bool) (info c13Info, err error) {
	env, e := c13GetEnv()
	if e != nil {
		return info, nil
	}
	s := c.S()
	cls, sepOrNonAlnum := c13gen.Classify(s)
	info.classes = cls
	want, pure := c.Pure()
	if pure {
		info.classes = append(info.classes, "pure_documented_form")
	}

	n := names.Parse(s)
	valid, fq := n.IsValid(), n.IsFullyQualified()
	got := c13NameParts(n)
	r := &Registry{Cache: env.cache}
	scheme, xn, xd, xerr := r.parseNameExtended(s)
	info.nontrivial = sepOrNonAlnum && (valid || xerr == nil || c13NearAccepted(c, func(b string) bool { return names.Parse(b).IsValid() }))

	checkFQ := func(what string, m names.Name) error {
		p := c13NameParts(m)
		for k, v := range p {
			if !c13gen.AcceptedPartOK(k, v) {
				return fmt.Errorf("%s: fully qualified name %q has %s %q, which violates the documented grammar", what, p, c13gen.KindName[k], v)
			}
		}
		printed := m.String()
		if printed != c13gen.JoinName(p) {
			return fmt.Errorf("%s: %q prints as %q", what, p, printed)
		}
		if again := names.Parse(printed); c13NameParts(again) != p || again.Compare(m) != 0 || !again.IsFullyQualified() {
			return fmt.Errorf("%s: names round trip: %q printed %q, parsed again %q", what, p, printed, c13NameParts(again))
		}
		o := model.ParseName(printed)
		if !o.IsValid() || c13ModelParts(o) != p {
			return fmt.Errorf("cross parser: %s: names %q printed %q; model.ParseName reads %q (valid %v)", what, p, printed, c13ModelParts(o), o.IsValid())
		}
		return nil
	}

	switch {
	case !valid:
		info.classes = append(info.classes, "rejected")
		if pure {
			return info, fmt.Errorf("names.Parse(%q) is invalid, but the input is the documented form of parts %q", s, want)
		}
	default:
		info.classes = append(info.classes, "accepted")
		if pure && got != want {
			return info, fmt.Errorf("names.Parse(%q) = %q, documented parse is %q", s, got, want)
		}
		if n.String() != s {
			info.classes = append(info.classes, "accepted_print_differs_from_input") // e.g. "/m", "m:", "m:x:t"
		}
		for k, p := range got {
			if p == "" && k != c13gen.KModel {
				continue // absent part of a valid, not fully qualified name
			}
			if !c13gen.AcceptedPartOK(k, p) {
				return info, fmt.Errorf("names.Parse(%q) is valid but its %s %q violates the documented grammar", s, c13gen.KindName[k], p)
			}
		}
		if fq {
			info.classes = append(info.classes, "accepted_fully_qualified")
			if err := checkFQ(fmt.Sprintf("names.Parse(%q)", s), n); err != nil {
				return info, err
			}
			info.classes = append(info.classes, "cross_names_to_model")
		} else {
			// round trip of a valid, partially qualified name
			if got[0] != "" && got[1] == "" && exclude(c13KnownHostNoNamespace) {
				info.classes = append(info.classes, "excluded_host_without_namespace")
			} else {
				printed := n.String()
				again := names.Parse(printed)
				if c13NameParts(again) != got || again.Compare(n) != 0 {
					return info, fmt.Errorf("names round trip: Parse(%q) = %q is valid; printed %q; parsed again %q", s, got, printed, c13NameParts(again))
				}
			}
			// what the client does with it: complete it with the default mask
			if m := names.Merge(n, c13Mask); m.IsFullyQualified() {
				if err := checkFQ(fmt.Sprintf("Merge(Parse(%q), mask)", s), m); err != nil {
					return info, err
				}
				info.classes = append(info.classes, "cross_names_to_model")
			}
		}
	}

	// blob.DiskCache: the name as given
	mdir := filepath.Join(env.sb.Root, "manifests")
	linkAndAudit := func(what, name string, p [4]string, mustWork bool) error {
		env.sb.ResetManifests()
		defer env.sb.ResetManifests()
		lerr := env.cache.Link(name, env.d[0])
		ms, aerr := env.sb.Audit()
		if aerr != nil {
			return fmt.Errorf("%s: after Link(%q): %v", what, name, aerr)
		}
		if lerr != nil {
			if len(ms) != 0 {
				return fmt.Errorf("%s: Link(%q) failed (%v) but left manifest files %q", what, name, lerr, ms)
			}
			if mustWork && !c13IsFSError(lerr) {
				return fmt.Errorf("%s: Link(%q) refuses a fully qualified name: %v", what, name, lerr)
			}
			if c13IsFSError(lerr) {
				info.classes = append(info.classes, "fs_error_long_component")
			}
			return nil
		}
		if !mustWork {
			return fmt.Errorf("%s: Link(%q) accepted a name that is not fully qualified; files %q", what, name, ms)
		}
		if err := c13gen.CheckStorePath(mdir, filepath.Join(mdir, filepath.FromSlash(strings.Join(p[:], "/"))), p); err != nil {
			return fmt.Errorf("%s: %v", what, err)
		}
		if !slices.Equal(ms, []string{strings.Join(p[:], "/")}) {
			return fmt.Errorf("%s: Link(%q) created manifest files %q, want exactly %q", what, name, ms, strings.Join(p[:], "/"))
		}
		// (Resolve splits "@digest" off first, Link does not; names.Parse ignores what follows a second
		// colon, so a linked raw name can contain '@'. Only '@'-free names are comparable.)
		if !strings.Contains(name, "@") {
			if d, err := env.cache.Resolve(name); err != nil || d != env.d[0] {
				return fmt.Errorf("%s: Resolve(%q) = %v, %v after Link to %v", what, name, d, err, env.d[0])
			}
		} else {
			info.classes = append(info.classes, "linked_raw_name_contains_at")
		}
		info.classes = append(info.classes, "linked")
		return nil
	}
	if err := linkAndAudit("DiskCache", s, got, fq); err != nil {
		return info, err
	}
	if !fq && !strings.Contains(s, "@") {
		// Resolve and Unlink of a rejected name: an error or "not found", and no effect
		if _, err := env.cache.Resolve(s); err == nil {
			return info, fmt.Errorf("DiskCache.Resolve(%q) succeeded for a name that is not fully qualified", s)
		}
		if ok, _ := env.cache.Unlink(s); ok {
			return info, fmt.Errorf("DiskCache.Unlink(%q) removed something for a name that is not fully qualified", s)
		}
	}

	// Registry.parseNameExtended: scheme://name@digest, completed with the mask, then handed to the
	// cache as n.String() (Pull -> Link, Unlink -> Unlink, ResolveLocal -> Resolve)
	// (Registry.Unlink does not split scheme or digest off, so it is only comparable on plain names.)
	plain := !strings.Contains(s, "://") && !strings.Contains(s, "@")
	if xerr != nil {
		info.classes = append(info.classes, "extended_rejected")
		if ok, err := r.Unlink(s); plain && (ok || err == nil) {
			return info, fmt.Errorf("Registry.Unlink(%q) = %v, %v although parseNameExtended rejects it: %v", s, ok, err, xerr)
		}
		return info, nil
	}
	info.classes = append(info.classes, "extended_accepted")
	if !slices.Contains(supportedSchemes, scheme) {
		return info, fmt.Errorf("parseNameExtended(%q) accepted the scheme %q", s, scheme)
	}
	_, xname, xdigest := names.Split(s)
	if xdigest != "" {
		info.classes = append(info.classes, "extended_with_digest")
		if !c13gen.RefDigest(xdigest) {
			return info, fmt.Errorf("parseNameExtended(%q) accepted the digest %q", s, xdigest)
		}
		if f := env.cache.GetFile(xd); f != filepath.Join(env.sb.Root, "blobs", "sha256-"+strings.ToLower(xdigest[7:])) {
			return info, fmt.Errorf("parseNameExtended(%q): digest file %q", s, f)
		}
	} else if xd.IsValid() {
		return info, fmt.Errorf("parseNameExtended(%q) invented the digest %v", s, xd)
	}
	if xname == "" {
		if xdigest == "" || c13NameParts(xn) != [4]string{} {
			return info, fmt.Errorf("parseNameExtended(%q) accepted an empty name: %q digest %q", s, c13NameParts(xn), xdigest)
		}
		return info, nil // digest-only reference: no name, no manifest path
	}
	if !xn.IsFullyQualified() {
		return info, fmt.Errorf("parseNameExtended(%q) returned %q, which is not fully qualified", s, c13NameParts(xn))
	}
	if err := checkFQ(fmt.Sprintf("parseNameExtended(%q)", s), xn); err != nil {
		return info, err
	}
	if pure && c13NameParts(xn) != c13gen.WithDefaults(want) {
		return info, fmt.Errorf("parseNameExtended(%q) = %q, documented parse is %q", s, c13NameParts(xn), c13gen.WithDefaults(want))
	}
	if err := linkAndAudit(fmt.Sprintf("parseNameExtended(%q)", s), xn.String(), c13NameParts(xn), true); err != nil {
		return info, err
	}
	if plain {
		// pull then delete through the exported API, both from the raw string
		env.sb.ResetManifests()
		defer env.sb.ResetManifests()
		if err := env.cache.Link(xn.String(), env.d[0]); err == nil {
			if ok, err := r.Unlink(s); !ok || err != nil {
				return info, fmt.Errorf("Registry.Unlink(%q) = %v, %v after linking %q", s, ok, err, xn.String())
			}
			if ms, aerr := env.sb.Audit(); aerr != nil || len(ms) != 0 {
				return info, fmt.Errorf("Registry.Unlink(%q) left manifest files %q (%v)", s, ms, aerr)
			}
			info.classes = append(info.classes, "unlinked_by_raw_name")
		}
	}
	return info, nil
}

// ----------------------------------------------------------------------------- case folding

type c13FoldCase struct {
	A     [4]string `json:"a"`     // fully qualified, documented grammar (plain ASCII)
	B     string    `json:"b"`     // print of A with some letters in the other case
	Other [4]string `json:"other"` // a different name (not equal to A under case folding)
}

func c13GenFold(t *rapid.T) c13FoldCase {
	var c c13FoldCase
	c.A = c13gen.GenValidFQ(t, "a.", 350)
	c.B = c13gen.CaseVariant(t, "b", c13gen.JoinName(c.A))
	c.Other = c.A
	// change 1-2 parts of A into something that is not a case variant
	for i, n := 0, rapid.IntRange(1, 2).Draw(t, "nother"); i < n; i++ {
		k := rapid.IntRange(0, 3).Draw(t, "otherkind")
		switch rapid.IntRange(0, 2).Draw(t, "otherhow") {
		case 0:
			if len(c.Other[k]) < 80 {
				c.Other[k] += "0"
			} else {
				c.Other[k] = c.Other[k][:79]
			}
		case 1:
			c.Other[k] = "z" + c.Other[k][1:]
			if strings.EqualFold(c.Other[k], c.A[k]) {
				c.Other[k] = "y" + c.Other[k][1:]
			}
		default:
			c.Other[k] = c13gen.GenValidFQ(t, "o.", 350)[k]
		}
	}
	return c
}

func c13RunFold(c c13FoldCase) (info c13Info, err error) {
	env, e := c13GetEnv()
	if e != nil {
		return info, nil
	}
	a := c13gen.JoinName(c.A)
	b := c.B
	for k, p := range c.A {
		if !c13gen.RefPart(k, p) {
			return info, nil // not a case of this target (hand-written replay)
		}
	}
	if !strings.EqualFold(a, b) || len(a) != len(b) {
		return info, nil
	}
	differs := a != b
	info.nontrivial = differs
	if differs {
		info.classes = append(info.classes, "case_differs")
	}
	ma, mb := model.ParseName(a), model.ParseName(b)
	if !ma.IsValid() || !mb.IsValid() {
		return info, fmt.Errorf("model.ParseName: %q valid=%v, %q valid=%v; both are documented fully qualified names", a, ma.IsValid(), b, mb.IsValid())
	}
	if !ma.EqualFold(mb) || !mb.EqualFold(ma) {
		return info, fmt.Errorf("model.Name.EqualFold(%q, %q) = false", a, b)
	}
	if !strings.EqualFold(ma.Filepath(), mb.Filepath()) {
		return info, fmt.Errorf("Filepath of %q and %q differ by more than case: %q %q", a, b, ma.Filepath(), mb.Filepath())
	}
	for k := range c.A {
		if c13ModelParts(ma)[k] != c13ModelParts(mb)[k] {
			info.classes = append(info.classes, "case_differs_in_"+c13gen.KindName[k])
		}
	}
	na, nb := names.Parse(a), names.Parse(b)
	if !na.IsFullyQualified() || !nb.IsFullyQualified() || na.Compare(nb) != 0 || nb.Compare(na) != 0 {
		return info, fmt.Errorf("names.Parse(%q).Compare(Parse(%q)) = %d (fully qualified %v %v)", a, b, na.Compare(nb), na.IsFullyQualified(), nb.IsFullyQualified())
	}

	other := c13gen.JoinName(c.Other)
	otherOK := !strings.EqualFold(other, a)
	for k, p := range c.Other {
		otherOK = otherOK && c13gen.RefPart(k, p)
	}
	if otherOK {
		info.classes = append(info.classes, "with_distinct_name")
		if mo := model.ParseName(other); !mo.IsValid() || mo.EqualFold(ma) {
			return info, fmt.Errorf("model.ParseName(%q) valid=%v EqualFold(%q)=%v; the names differ by more than case", other, mo.IsValid(), a, mo.EqualFold(ma))
		}
		if no := names.Parse(other); no.Compare(na) == 0 {
			return info, fmt.Errorf("names.Parse(%q).Compare(%q) = 0; the names differ by more than case", other, a)
		}
	}

	// DiskCache: one manifest, whichever case is used
	cache, d := env.cache, env.d
	env.sb.ResetManifests()
	defer env.sb.ResetManifests()
	fail := func(format string, args ...any) (c13Info, error) {
		return info, fmt.Errorf("DiskCache, A=%q B=%q: %s", a, b, fmt.Sprintf(format, args...))
	}
	if err := cache.Link(a, d[0]); err != nil {
		if c13IsFSError(err) {
			info.classes = append(info.classes, "fs_error_long_component")
			return info, nil
		}
		return fail("Link(A): %v", err)
	}
	info.classes = append(info.classes, "linked")
	if g, err := cache.Resolve(b); err != nil || g != d[0] {
		return fail("Resolve(B) = %v, %v after Link(A, %v)", g, err, d[0])
	}
	if err := cache.Link(b, d[1]); err != nil {
		return fail("Link(B): %v", err)
	}
	for _, x := range []string{a, b} {
		if g, err := cache.Resolve(x); err != nil || g != d[1] {
			return fail("Resolve(%q) = %v, %v after Link(B, %v)", x, g, err, d[1])
		}
	}
	ms, aerr := env.sb.Audit()
	if aerr != nil {
		return fail("%v", aerr)
	}
	if !slices.Equal(ms, []string{strings.Join(c.A[:], "/")}) {
		return fail("manifest files %q after Link(A), Link(B); want the single file %q", ms, strings.Join(c.A[:], "/"))
	}
	if otherOK {
		if err := cache.Link(other, d[2]); err != nil && !c13IsFSError(err) {
			return fail("Link(%q): %v", other, err)
		} else if err == nil {
			if g, err := cache.Resolve(other); err != nil || g != d[2] {
				return fail("Resolve(%q) = %v, %v after Link to %v", other, g, err, d[2])
			}
			if g, err := cache.Resolve(b); err != nil || g != d[1] {
				return fail("Resolve(B) = %v, %v after linking the distinct name %q", g, err, other)
			}
			if ms, _ := env.sb.Audit(); len(ms) != 2 {
				return fail("manifest files %q after linking the distinct name %q; want 2", ms, other)
			}
			if ok, err := cache.Unlink(other); !ok || err != nil {
				return fail("Unlink(%q) = %v, %v", other, ok, err)
			}
		}
	}
	// the exported client API, in the other case
	r := &Registry{Cache: cache}
	if ok, err := r.Unlink(b); !ok || err != nil {
		return fail("Registry.Unlink(B) = %v, %v", ok, err)
	}
	if ms, aerr := env.sb.Audit(); aerr != nil || len(ms) != 0 {
		return fail("manifest files %q (%v) after Unlink(B); want none", ms, aerr)
	}
	if _, err := cache.Resolve(a); err == nil {
		return fail("Resolve(A) still succeeds after Unlink(B)")
	}
	if differs {
		// A store inherited from a case-sensitive past (an older version, a copied directory) may hold BOTH spellings
		// as link files. They are still one model name: every spelling addresses the same link.
		mdir := filepath.Join(env.sb.Root, "manifests")
		pa := filepath.Join(append([]string{mdir}, c.A[:]...)...)
		bp := c13NameParts(nb)
		pb := filepath.Join(append([]string{mdir}, bp[:]...)...)
		if pa != pb && os.MkdirAll(filepath.Dir(pa), 0o755) == nil && os.MkdirAll(filepath.Dir(pb), 0o755) == nil &&
			os.WriteFile(pa, []byte("1"), 0o644) == nil && os.WriteFile(pb, []byte("22"), 0o644) == nil {
			info.classes = append(info.classes, "inherited_links_in_both_spellings")
			ga, ea := cache.Resolve(a)
			gb, eb := cache.Resolve(b)
			if ea != nil || eb != nil || ga != gb {
				return fail("with link files in both spellings on disk: Resolve(A) = %v, %v but Resolve(B) = %v, %v", ga, ea, gb, eb)
			}
			for _, x := range []string{b, a} {
				if err := cache.Link(x, d[2]); err != nil {
					return fail("with link files in both spellings on disk: Link(%q): %v", x, err)
				}
				for _, y := range []string{a, b} {
					if g, err := cache.Resolve(y); err != nil || g != d[2] {
						return fail("with link files in both spellings on disk: Resolve(%q) = %v, %v after Link(%q, %v)", y, g, err, x, d[2])
					}
				}
				// put the two files back for the other spelling's turn
				os.WriteFile(pa, []byte("1"), 0o644)
				os.WriteFile(pb, []byte("22"), 0o644)
			}
		}
	}
	return info, nil
}

// --------------------------------------------------------------------------------- targets

func c13NameTarget(t *testing.T, target string, run func(c13gen.Case, func(string) bool) (c13Info, error)) {
	rec := vfkit.Open(target)
	defer rec.Flush()
	defer func() {
		if c13EnvVal != nil {
			c13EnvVal.sb.Close()
		}
	}()
	var rc c13gen.Case
	if _, ok, err := vfkit.ReplayCase(target, &rc); ok {
		if err != nil {
			t.Fatalf("replay: %v", err)
		}
		// a replay runs with every oracle on: it is how a listed finding is reproduced
		if _, err := run(rc, func(string) bool { return false }); err != nil {
			rec.Fail(target, rc, err.Error())
			t.Fatalf("C13 violated: %v", err)
		}
		return
	}
	exclude := func(slug string) bool {
		if rec.Known(slug) {
			rec.Excluded(slug)
			return true
		}
		return false
	}
	rapid.Check(t, func(rt *rapid.T) {
		if rec.OverBudget() {
			return
		}
		c := c13gen.GenName(rt)
		info, err := run(c, exclude)
		rec.Case(c.Q, info.nontrivial, info.classes...)
		if err != nil {
			rec.Fail(target, c, err.Error())
			rt.Fatalf("C13 violated: %v", err)
		}
	})
}

func TestC13ModelName(t *testing.T) {
	c13NameTarget(t, "TestC13ModelName", func(c c13gen.Case, _ func(string) bool) (c13Info, error) { return c13RunModelName(c) })
}

func TestC13RegistryName(t *testing.T) {
	c13NameTarget(t, "TestC13RegistryName", c13RunRegistryName)
}

func TestC13CaseFold(t *testing.T) {
	const target = "TestC13CaseFold"
	rec := vfkit.Open(target)
	defer rec.Flush()
	defer func() {
		if c13EnvVal != nil {
			c13EnvVal.sb.Close()
		}
	}()
	var rc c13FoldCase
	if _, ok, err := vfkit.ReplayCase(target, &rc); ok {
		if err != nil {
			t.Fatalf("replay: %v", err)
		}
		if _, err := c13RunFold(rc); err != nil {
			rec.Fail(target, rc, err.Error())
			t.Fatalf("C13 violated: %v", err)
		}
		return
	}
	rapid.Check(t, func(rt *rapid.T) {
		if rec.OverBudget() {
			return
		}
		c := c13GenFold(rt)
		info, err := c13RunFold(c)
		rec.Case(c, info.nontrivial, info.classes...)
		if err != nil {
			rec.Fail(target, c, err.Error())
			rt.Fatalf("C13 violated: %v", err)
		}
	})
}
