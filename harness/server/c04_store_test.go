package server

// C04 — every listed model is complete; operations on one model never damage another; startup pruning leaves exactly
// the referenced blobs; no two listed models differ only by case. Stateful machine over the real gin router.
// DESIGN.md §3 C04.

import (
	"bytes"
	"encoding/json"
	"fmt"
	"io"
	"net/http"
	"net/http/httptest"
	"os"
	"path/filepath"
	"sort"
	"strings"
	"sync"
	"testing"
	"testing/synctest"

	"github.com/gin-gonic/gin"
	"github.com/ollama/ollama/fs/ggml"
	"github.com/ollama/ollama/template"
	"github.com/ollama/ollama/types/model"
	"pgregory.net/rapid"
	"verif.local/vfkit"
)

type c04Op struct {
	Kind   string `json:"k"` // blob create createfrom copy delete pull restart list
	Name   int    `json:"n,omitempty"`
	Name2  int    `json:"n2,omitempty"`
	GGUF   int    `json:"g,omitempty"`
	Sys    int    `json:"sys,omitempty"`
	Tmpl   int    `json:"tmpl,omitempty"`
	Lic    int    `json:"lic,omitempty"`
	Param  int    `json:"param,omitempty"`
	Stream bool   `json:"stream,omitempty"`
	DCase  int    `json:"dcase,omitempty"` // create: spelling of the digest in the request (0 as computed, 1 upper-case hex, 2 mixed, 3 "sha256-<hex>")
	At     int    `json:"at,omitempty"`    // pulldel: ordinal of the pull's registry request at which the delete is issued
}

type c04Case struct {
	Ops []c04Op `json:"ops"`
}

var (
	c04Names     []string
	c04NamesOnce sync.Once
	c04GGUFs     [][]byte
	c04Texts     = []string{"", "You are a helpful assistant.", "Answer briefly.", "LICENSE A", "LICENSE B"}
	c04Tmpls     = []string{"", "{{ .System }} {{ .Prompt }}", "{{ .Prompt }} -> {{ .Response }}"}
)

// c04HostNames: names that spell out the default registry host (and namespace) in other letter cases. They live in an
// index space of their own (20000+) so that the indices of older cases and replays keep their meaning.
var c04HostNames = []string{"REGISTRY.OLLAMA.AI/library/foo", "REGISTRY.OLLAMA.AI/library/bar", "Registry.Ollama.Ai/Library/foo", "registry.ollama.ai/LIBRARY/Foo:v1",
	"REGISTRY.OLLAMA.AI/ns1/foo", "registry.ollama.ai/library/bar:V1"}

func c04NameOf(i int) string {
	if i >= 20000 {
		return c04HostNames[(i-20000)%len(c04HostNames)]
	}
	return c04Names[i%len(c04Names)]
}

func c04Init() {
	c04NamesOnce.Do(func() {
		for _, host := range []string{"", "h.test/"} {
			for _, ns := range []string{"", "ns1/", "NS1/", "other/"} {
				if host != "" && ns == "" {
					continue
				}
				for _, stem := range []string{"foo", "Foo", "FOO", "bar", "Bar"} {
					for _, tag := range []string{"", ":latest", ":v1", ":V1"} {
						c04Names = append(c04Names, host+ns+stem+tag)
					}
				}
			}
		}
		for i := 0; i < 3; i++ {
			var b c04WS
			err := ggml.WriteGGUF(&b, ggml.KV{
				"general.architecture":          "llama",
				"general.name":                  fmt.Sprintf("variant-%d", i),
				"llama.context_length":          uint32(32),
				"llama.embedding_length":        uint32(64),
				"llama.block_count":             uint32(1),
				"llama.attention.head_count":    uint32(4),
				"llama.attention.head_count_kv": uint32(4),
				"tokenizer.ggml.tokens":         []string{" "},
				"tokenizer.ggml.scores":         []float32{0},
				"tokenizer.ggml.token_type":     []int32{0},
			}, []ggml.Tensor{
				{Name: "blk.0.attn.weight", Kind: 0, Shape: []uint64{1, 1, 1, 8}, WriterTo: bytes.NewReader(make([]byte, 32))},
				{Name: "output.weight", Kind: 0, Shape: []uint64{1, 1, 1, 8}, WriterTo: bytes.NewReader(make([]byte, 32))},
			})
			if err != nil {
				panic(err)
			}
			c04GGUFs = append(c04GGUFs, b.buf)
		}
		// a fourth model file carries a tokenizer.chat_template that ollama recognises (one of template/index.json of the
		// tree under test): create then adds the matching built-in template as a layer of its own accord, and a request
		// may spell out exactly that template (a Modelfile copied from `ollama show --modelfile`)
		if raw, err := os.ReadFile(filepath.Join(os.Getenv("VERIF_REPO"), "template", "index.json")); err == nil {
			var idx []struct{ Name, Template string }
			if json.Unmarshal(raw, &idx) == nil {
				for _, ent := range idx {
					nt, err := template.Named(ent.Template)
					if ent.Name != "zephyr" || err != nil || len(nt.Bytes) == 0 {
						continue
					}
					var b c04WS
					err = ggml.WriteGGUF(&b, ggml.KV{
						"general.architecture":          "llama",
						"general.name":                  "variant-chat-template",
						"llama.context_length":          uint32(32),
						"llama.embedding_length":        uint32(64),
						"llama.block_count":             uint32(1),
						"llama.attention.head_count":    uint32(4),
						"llama.attention.head_count_kv": uint32(4),
						"tokenizer.ggml.tokens":         []string{" "},
						"tokenizer.ggml.scores":         []float32{0},
						"tokenizer.ggml.token_type":     []int32{0},
						"tokenizer.chat_template":       ent.Template,
					}, []ggml.Tensor{
						{Name: "blk.0.attn.weight", Kind: 0, Shape: []uint64{1, 1, 1, 8}, WriterTo: bytes.NewReader(make([]byte, 32))},
						{Name: "output.weight", Kind: 0, Shape: []uint64{1, 1, 1, 8}, WriterTo: bytes.NewReader(make([]byte, 32))},
					})
					if err == nil {
						c04GGUFs = append(c04GGUFs, b.buf)
						c04Tmpls = append(c04Tmpls, string(nt.Bytes))
					}
					break
				}
			}
		}
	})
}

// c04WS is an in-memory io.WriteSeeker.
type c04WS struct {
	buf []byte
	pos int
}

func (w *c04WS) Write(p []byte) (int, error) {
	if n := w.pos + len(p); n > len(w.buf) {
		w.buf = append(w.buf, make([]byte, n-len(w.buf))...)
	}
	copy(w.buf[w.pos:], p)
	w.pos += len(p)
	return len(p), nil
}

func (w *c04WS) Seek(off int64, whence int) (int64, error) {
	switch whence {
	case 0:
		w.pos = int(off)
	case 1:
		w.pos += int(off)
	case 2:
		w.pos = len(w.buf) + int(off)
	}
	return int64(w.pos), nil
}

func c04Gen(t *rapid.T) c04Case {
	c04Init()
	var c c04Case
	n := rapid.IntRange(1, 25).Draw(t, "n_ops")
	for i := 0; i < n; i++ {
		var o c04Op
		o.Kind = rapid.SampledFrom([]string{"create", "create", "create", "create", "createfrom", "createfrom", "copy", "copy", "delete", "delete", "delete",
			"pull", "pull", "restart", "blob", "blob", "list", "pardelete", "pardelete", "pulldel", "pulldel", "pulldel"}).Draw(t, "kind")
		// names are drawn from a small sub-pool most of the time so that operations collide
		if rapid.IntRange(0, 3).Draw(t, "wide") == 0 {
			o.Name = rapid.IntRange(0, 10000).Draw(t, "name")
			o.Name2 = rapid.IntRange(0, 10000).Draw(t, "name2")
		} else {
			o.Name = rapid.SampledFrom([]int{0, 1, 4, 5, 8, 12, 20, 21, 24, 40, 41, 44, 60, 61, 100, 104}).Draw(t, "name")
			o.Name2 = rapid.SampledFrom([]int{0, 1, 4, 5, 8, 12, 20, 21, 24, 40, 41, 44, 60, 61, 100, 104}).Draw(t, "name2")
		}
		// one name in eight spells out the default host in another letter case
		if rapid.IntRange(0, 7).Draw(t, "host_spelled") == 0 {
			o.Name = 20000 + rapid.IntRange(0, len(c04HostNames)-1).Draw(t, "host_name")
		}
		if rapid.IntRange(0, 7).Draw(t, "host_spelled2") == 0 {
			o.Name2 = 20000 + rapid.IntRange(0, len(c04HostNames)-1).Draw(t, "host_name2")
		}
		switch o.Kind {
		case "create", "createfrom":
			o.GGUF = rapid.IntRange(0, 3).Draw(t, "gguf")
			o.Sys = rapid.IntRange(0, 2).Draw(t, "sys")
			o.Tmpl = rapid.IntRange(0, 3).Draw(t, "tmpl")
			o.Lic = rapid.SampledFrom([]int{0, 0, 3, 4}).Draw(t, "lic")
			o.Param = rapid.IntRange(0, 2).Draw(t, "param")
			o.Stream = rapid.Bool().Draw(t, "stream")
			if o.Kind == "create" {
				o.DCase = rapid.SampledFrom([]int{0, 0, 0, 0, 0, 3, 3, 1, 2}).Draw(t, "dcase")
			}
		case "blob":
			o.GGUF = rapid.IntRange(0, 3).Draw(t, "gguf")
			o.DCase = rapid.SampledFrom([]int{0, 0, 1, 2}).Draw(t, "blob_digest")
		case "pull":
			o.Stream = rapid.Bool().Draw(t, "stream")
		case "pulldel":
			o.Stream = rapid.Bool().Draw(t, "stream")
			o.At = rapid.IntRange(0, 8).Draw(t, "at")
		}
		c.Ops = append(c.Ops, o)
	}
	return c
}

type c04Env struct {
	h    http.Handler
	dir  string
	reg  *frRegistry
	cls  map[string]bool
	hist []string

	pruneSkipped string
}

func (e *c04Env) do(method, path string, body any) (int, []byte) {
	var rd *bytes.Reader
	switch b := body.(type) {
	case nil:
		rd = bytes.NewReader(nil)
	case []byte:
		rd = bytes.NewReader(b)
	default:
		js, _ := json.Marshal(b)
		rd = bytes.NewReader(js)
	}
	req := httptest.NewRequest(method, path, rd)
	w := &c04Recorder{ResponseRecorder: httptest.NewRecorder()}
	e.h.ServeHTTP(w, req)
	// a non-streamed request returns at the first "success"/error on its progress channel while the goroutine behind it may
	// still be working (until it parks on that channel for ever): let it get there, as a client's next request would
	// normally arrive much later
	synctest.Wait()
	return w.Code, w.Body.Bytes()
}

// doNoWait is do for requests issued concurrently (the caller settles once all of them have returned).
func (e *c04Env) doNoWait(method, path string, body any) (int, []byte) {
	js, _ := json.Marshal(body)
	req := httptest.NewRequest(method, path, bytes.NewReader(js))
	w := &c04Recorder{ResponseRecorder: httptest.NewRecorder()}
	e.h.ServeHTTP(w, req)
	return w.Code, w.Body.Bytes()
}

// c04Published returns what the registry serves for a model name (nil if nothing).
func c04Published(reg *frRegistry, name string) *frModel {
	mp := ParseModelPath(name)
	key := mp.GetNamespaceRepository() + ":" + mp.Tag
	reg.mu.Lock()
	defer reg.mu.Unlock()
	if m := reg.models[key]; m != nil {
		return m
	}
	return reg.models[strings.ToLower(key)]
}

// c04Recorder adds the CloseNotifier that gin's Stream needs (a real connection has it).
type c04Recorder struct {
	*httptest.ResponseRecorder
}

func (r *c04Recorder) CloseNotify() <-chan bool { return make(chan bool) }

// lastLine returns the decoded last NDJSON line of a (possibly streamed) response.
func c04LastLine(b []byte) map[string]any {
	lines := bytes.Split(bytes.TrimSpace(b), []byte("\n"))
	var m map[string]any
	json.Unmarshal(lines[len(lines)-1], &m)
	return m
}

func c04HasError(b []byte) (string, bool) {
	for _, l := range bytes.Split(bytes.TrimSpace(b), []byte("\n")) {
		var m map[string]any
		if json.Unmarshal(l, &m) == nil {
			if s, ok := m["error"].(string); ok {
				return s, true
			}
		}
	}
	return "", false
}

type c04Listed struct {
	name     model.Name
	display  string
	manifest []byte
	digests  []string
}

// list returns the listed models with their manifest bytes, checking clause (a) and (c) on the way.
func (e *c04Env) list() (map[string]*c04Listed, error) {
	code, body := e.do("GET", "/api/tags", nil)
	if code != 200 {
		return nil, fmt.Errorf("GET /api/tags answered %d: %s", code, body)
	}
	var lr struct {
		Models []struct {
			Name string `json:"name"`
		} `json:"models"`
	}
	if err := json.Unmarshal(body, &lr); err != nil {
		return nil, fmt.Errorf("GET /api/tags: %v", err)
	}
	out := map[string]*c04Listed{}
	for _, m := range lr.Models {
		n := model.ParseName(m.Name)
		key := strings.ToLower(n.String())
		if prev, dup := out[key]; dup {
			return nil, fmt.Errorf("two listed models differ only by letter case: %q and %q", prev.display, m.Name)
		}
		// the listing prints the shortest form, which drops the default host and namespace whatever their letter case; the
		// manifest lives under the spelling the model was stored with: find it the way the server does, ignoring case
		stored, ferr := c04StoredName(n)
		if ferr != nil {
			return nil, fmt.Errorf("listed model %q: %v", m.Name, ferr)
		}
		mf, err := ParseNamedManifest(stored)
		if err != nil {
			return nil, fmt.Errorf("listed model %q has no readable manifest: %v", m.Name, err)
		}
		raw, _ := os.ReadFile(mf.filepath)
		l := &c04Listed{name: n, display: m.Name, manifest: raw}
		for _, layer := range append(append([]Layer{}, mf.Layers...), mf.Config) {
			if layer.Digest == "" {
				continue
			}
			l.digests = append(l.digests, layer.Digest)
			fp, err := GetBlobsPath(layer.Digest)
			if err != nil {
				return nil, fmt.Errorf("listed model %q: %v", m.Name, err)
			}
			b, err := os.ReadFile(fp)
			if err != nil {
				return nil, fmt.Errorf("listed model %q: layer %s (%s) is missing from the blob store", m.Name, layer.Digest[:19], layer.MediaType)
			}
			if int64(len(b)) != layer.Size {
				return nil, fmt.Errorf("listed model %q: layer %s has %d bytes, manifest says %d", m.Name, layer.Digest[:19], len(b), layer.Size)
			}
			// a digest may be spelled "sha256:<hex>" or "sha256-<hex>" (GetBlobsPath accepts both, and create records the
			// client's spelling): what must match is the hash
			if d := frDigest(b); d != strings.Replace(layer.Digest, "sha256-", "sha256:", 1) {
				return nil, fmt.Errorf("listed model %q: layer %s is corrupt (hashes to %s)", m.Name, layer.Digest[:19], d[:19])
			}
		}
		if code, body := e.do("POST", "/api/show", map[string]any{"model": m.Name}); code != 200 {
			return nil, fmt.Errorf("listed model %q cannot be shown: %d %s", m.Name, code, bytes.TrimSpace(body))
		}
		out[key] = l
	}
	return out, nil
}

// c04StoredName finds the manifest file whose path equals n's, letter case ignored.
func c04StoredName(n model.Name) (model.Name, error) {
	root, err := GetManifestPath()
	if err != nil {
		return n, err
	}
	var hits []string
	filepath.Walk(root, func(p string, fi os.FileInfo, err error) error {
		if err == nil && !fi.IsDir() {
			if rel, rerr := filepath.Rel(root, p); rerr == nil && strings.EqualFold(filepath.ToSlash(rel), filepath.ToSlash(n.Filepath())) {
				hits = append(hits, rel)
			}
		}
		return nil
	})
	switch len(hits) {
	case 0:
		return n, nil // ParseNamedManifest reports the missing file
	case 1:
		return model.ParseNameFromFilepath(hits[0]), nil
	}
	sort.Strings(hits)
	return n, fmt.Errorf("two stored models differ only by letter case: manifests/%s and manifests/%s", hits[0], hits[1])
}

func c04Key(s string) string { return strings.ToLower(model.ParseName(s).String()) }

func (e *c04Env) restart() error {
	blobs, err := GetBlobsPath("")
	if err != nil {
		return err
	}
	if err := fixBlobs(blobs); err != nil {
		return fmt.Errorf("startup fixBlobs: %v", err)
	}
	if _, err := Manifests(false); err != nil {
		// corrupt manifests: the server skips pruning (reported elsewhere if a listed model is affected)
		e.cls["prune_skipped_corrupt_manifest"] = true
		e.pruneSkipped = fmt.Sprint(err)
		if os.Getenv("C04_KEEP") != "" {
			fmt.Println("PRUNE SKIPPED:", err)
		}
		return nil
	}
	e.pruneSkipped = ""
	if err := PruneLayers(); err != nil {
		return fmt.Errorf("startup PruneLayers: %v", err)
	}
	mp, _ := GetManifestPath()
	if err := PruneDirectory(mp); err != nil {
		return fmt.Errorf("startup PruneDirectory: %v", err)
	}
	return nil
}

func c04Run(t *testing.T, c c04Case) (classes []string, nontrivial bool, err error) {
	// virtual time: a pull spends a real second per blob in download.go's progress ticker otherwise. Handlers can leave
	// goroutines parked for ever (a non-streamed request stops reading the progress channel at the first "success" or
	// error); synctest reports those when the bubble ends, which is not C04's concern.
	func() {
		defer func() {
			if r := recover(); r != nil && err == nil && !strings.Contains(fmt.Sprint(r), "blocked goroutines remain") {
				panic(r)
			}
		}()
		synctest.Test(t, func(*testing.T) { classes, nontrivial, err = c04RunInner(c) })
	}()
	return classes, nontrivial, err
}

func c04RunInner(c c04Case) (classes []string, nontrivial bool, err error) {
	c04Init()
	gin.SetMode(gin.TestMode)
	gin.DefaultWriter, gin.DefaultErrorWriter = io.Discard, io.Discard
	scratch, derr := os.MkdirTemp("", "c04-")
	if derr != nil {
		return nil, false, nil
	}
	defer func() {
		if os.Getenv("C04_KEEP") == "" {
			os.RemoveAll(scratch)
		}
	}()
	dir := frModelsDir(scratch)
	os.Setenv("OLLAMA_MODELS", dir)
	os.Unsetenv("OLLAMA_NOPRUNE")
	frHome()
	reg := frNewRegistry()
	reg.foldNames = true
	undo := frInstall(reg)
	defer undo()
	// a small published library whose models share layers with each other and with locally created models
	lic := frBlob{Data: []byte("LICENSE A"), MediaType: "application/vnd.ollama.image.license"}
	lic.Digest = frDigest(lic.Data)
	for i, key := range []string{"library/foo:latest", "library/bar:v1", "ns1/foo:latest", "ns1/foo:v1", "ns1/bar:latest", "other/foo:latest"} {
		g := c04GGUFs[i%len(c04GGUFs)]
		cfg := []byte(fmt.Sprintf(`{"model_format":"gguf","model_family":"llama","model_families":["llama"],"model_type":"1","file_type":"F32","architecture":"amd64","os":"linux","rootfs":{"type":"layers","diff_ids":["%d"]}}`, i%2))
		m := &frModel{Layers: []frBlob{{Digest: frDigest(g), Data: g, MediaType: "application/vnd.ollama.image.model"}, lic},
			Config: &frBlob{Digest: frDigest(cfg), Data: cfg, MediaType: "application/vnd.docker.container.image.v1+json"}}
		if i%3 == 1 { // some published models carry a zero-length layer (an empty template): the empty blob is a blob like any other
			m.Layers = append(m.Layers, frBlob{Digest: frDigest(nil), Data: []byte{}, MediaType: "application/vnd.ollama.image.template"})
		}
		reg.publish(key, m)
	}
	var s Server
	h, herr := s.GenerateRoutes(nil)
	if herr != nil {
		return nil, false, nil
	}
	e := &c04Env{h: h, dir: dir, reg: reg, cls: map[string]bool{}}

	before, err := e.list()
	if err != nil {
		return nil, false, err
	}
	for i, o := range c.Ops {
		name := c04NameOf(o.Name)
		name2 := c04NameOf(o.Name2)
		addressed := map[string]bool{}
		desc := o.Kind
		var opErr error
		var cached map[string]*c04Listed
		listOnce := func() (map[string]*c04Listed, error) { // the state after the operation, read once
			if cached != nil {
				return cached, nil
			}
			l, lerr := e.list()
			if lerr == nil {
				cached = l
			}
			return l, lerr
		}
		switch o.Kind {
		case "blob":
			g := c04GGUFs[o.GGUF%len(c04GGUFs)]
			switch o.DCase {
			case 1: // the right digest in upper-case hex: whatever the answer, content that is already stored stays
				e.cls["blob_upload_uppercase_digest"] = true
				e.do("POST", "/api/blobs/sha256:"+strings.ToUpper(strings.TrimPrefix(frDigest(g), "sha256:")), g)
			case 2: // a well-formed digest of other bytes: the upload is refused, nothing else changes
				e.cls["blob_upload_wrong_digest"] = true
				if code, body := e.do("POST", "/api/blobs/"+frDigest(append([]byte("other "), g[:8]...)), g); code == 200 || code == 201 {
					opErr = fmt.Errorf("blob upload under a digest that is not the content's answered %d %s", code, body)
				}
			default:
				code, body := e.do("POST", "/api/blobs/"+frDigest(g), g)
				if code != 200 && code != 201 {
					opErr = fmt.Errorf("blob upload answered %d %s", code, body)
				}
			}
		case "create", "createfrom":
			addressed[c04Key(name)] = true
			req := map[string]any{"model": name, "stream": o.Stream}
			if o.Kind == "create" {
				g := c04GGUFs[o.GGUF%len(c04GGUFs)]
				if code, body := e.do("POST", "/api/blobs/"+frDigest(g), g); code != 200 && code != 201 {
					opErr = fmt.Errorf("blob upload answered %d %s", code, body)
					break
				}
				d := frDigest(g)
				switch o.DCase {
				case 1: // clients may spell the hex digits in upper case; the store's file names are lower case
					d = "sha256:" + strings.ToUpper(strings.TrimPrefix(d, "sha256:"))
					e.cls["create_with_uppercase_digest"] = true
				case 2:
					h := []byte(strings.TrimPrefix(d, "sha256:"))
					for i := range h {
						if i%2 == 0 {
							h[i] = byte(strings.ToUpper(string(h[i]))[0])
						}
					}
					d = "sha256:" + string(h)
					e.cls["create_with_uppercase_digest"] = true
				case 3: // the other separator the server accepts in a digest ("sha256-<hex>", the form blob file names have)
					d = "sha256-" + strings.TrimPrefix(d, "sha256:")
					e.cls["create_with_dash_digest"] = true
				}
				req["files"] = map[string]string{"model.gguf": d}
			} else {
				req["from"] = name2
				desc += " from " + name2
			}
			if t := c04Texts[o.Sys%3]; t != "" {
				req["system"] = t
			}
			if t := c04Tmpls[o.Tmpl%len(c04Tmpls)]; t != "" {
				req["template"] = t
			}
			if t := c04Texts[o.Lic%len(c04Texts)]; t != "" {
				req["license"] = t
			} else if o.Param == 2 && o.Sys == 2 {
				req["license"] = []string{"", "LICENSE B"} // a list with an empty entry makes a zero-length layer
				e.cls["create_with_empty_layer"] = true
			}
			if o.Param > 0 {
				req["parameters"] = map[string]any{"temperature": float64(o.Param)}
			}
			_, wasListed := before[c04Key(name)]
			_, fromListed := before[c04Key(name2)]
			code, body := e.do("POST", "/api/create", req)
			msg, hasErr := c04HasError(body)
			ok := code == 200 && !hasErr && c04LastLine(body)["status"] == "success"
			after, lerr := listOnce()
			if lerr != nil {
				opErr = lerr
				break
			}
			got, listed := after[c04Key(name)]
			switch {
			case ok && !listed:
				e.cls["obs_create_success_but_not_listed"] = true
			case ok:
				e.cls["create_ok"] = true
				if wasListed {
					e.cls["recreate"] = true
				}
				code, sb := e.do("POST", "/api/show", map[string]any{"model": name})
				var sr struct {
					System   string `json:"system"`
					Template string `json:"template"`
				}
				json.Unmarshal(sb, &sr)
				if code != 200 {
					e.cls["obs_created_model_not_showable_under_request_name"] = true
				} else if want, _ := req["system"].(string); want != "" && sr.System != want {
					e.cls["obs_created_model_other_system"] = true
				}
			case !ok && listed && !wasListed:
				e.cls["obs_create_failed_but_listed"] = true
				_, _ = msg, got
			case !ok && wasListed && (!listed || !bytes.Equal(got.manifest, before[c04Key(name)].manifest)):
				e.cls["obs_create_failed_changed_existing"] = true
			case !ok:
				e.cls["create_failed"] = true
				if o.Kind == "createfrom" && !fromListed {
					e.cls["create_from_missing"] = true
				}
			}
		case "copy":
			addressed[c04Key(name2)] = true
			desc += " " + name + " -> " + name2
			src, srcListed := before[c04Key(name)]
			code, body := e.do("POST", "/api/copy", map[string]any{"source": name, "destination": name2})
			after, lerr := listOnce()
			if lerr != nil {
				opErr = lerr
				break
			}
			switch {
			case code == 200 && !srcListed:
				e.cls["obs_copy_of_unlisted_ok"] = true
			case code == 200:
				e.cls["copy_ok"] = true
				dst, ok := after[c04Key(name2)]
				if !ok {
					e.cls["obs_copy_ok_dst_not_listed"] = true
				} else if strings.Join(dst.digests, ",") != strings.Join(src.digests, ",") {
					e.cls["obs_copy_ok_other_layers"] = true
				}
			case srcListed:
				e.cls["obs_copy_of_listed_failed"] = true
				_ = body
			}
		case "delete":
			addressed[c04Key(name)] = true
			desc += " " + name
			was, wasListed := before[c04Key(name)]
			code, body := e.do("DELETE", "/api/delete", map[string]any{"model": name})
			after, lerr := listOnce()
			if lerr != nil {
				opErr = lerr
				break
			}
			_, still := after[c04Key(name)]
			switch {
			case code == 200 && still:
				e.cls["obs_delete_ok_still_listed"] = true
			case code == 200:
				e.cls["delete_ok"] = true
			case wasListed:
				e.cls["obs_delete_of_listed_failed"] = true
				_, _ = was, body
			}
		case "pardelete":
			// two clients delete two models at the same moment. Deletes only remove a blob after looking at every
			// manifest, so whatever the interleaving a model that is not being deleted keeps its data (clause 2 of the
			// statement has no "one at a time" proviso); outcomes of the two requests themselves are not judged.
			addressed[c04Key(name)], addressed[c04Key(name2)] = true, true
			desc += " " + name + " || " + name2
			_, l1 := before[c04Key(name)]
			_, l2 := before[c04Key(name2)]
			if l1 && l2 && c04Key(name) != c04Key(name2) {
				e.cls["concurrent_deletes_of_two_listed_models"] = true
			}
			var wg sync.WaitGroup
			for _, n := range []string{name, name2} {
				wg.Add(1)
				go func(n string) {
					defer wg.Done()
					e.doNoWait("DELETE", "/api/delete", map[string]any{"model": n})
				}(n)
			}
			wg.Wait()
			synctest.Wait()
		case "pulldel":
			// while model `name` is being pulled another client deletes model `name2`, which shares no layer with what
			// the registry publishes for `name` (deleting a model that shares a layer with an unfinished pull is a
			// known hazard outside the statement): "removing one model never removes data of another" - the pull, if
			// it reports success, must leave a complete model. The delete runs between two registry requests of the pull.
			addressed[c04Key(name)], addressed[c04Key(name2)] = true, true
			desc += " " + name + " || delete " + name2
			victim, vListed := before[c04Key(name2)]
			shared := c04Key(name) == c04Key(name2)
			if pub := c04Published(e.reg, name); pub != nil && vListed {
				for _, d := range victim.digests {
					for _, l := range pub.Layers {
						shared = shared || l.Digest == d
					}
					shared = shared || (pub.Config != nil && pub.Config.Digest == d)
				}
			}
			n, fired := 0, false
			var hmu sync.Mutex
			if vListed && !shared {
				e.reg.hook = func(ev string) {
					if !strings.HasPrefix(ev, "request ") {
						return
					}
					hmu.Lock()
					n++
					fire := !fired && n > o.At
					fired = fired || fire
					hmu.Unlock()
					if fire {
						e.doNoWait("DELETE", "/api/delete", map[string]any{"model": name2})
					}
				}
			}
			code, body := e.do("POST", "/api/pull", map[string]any{"model": name, "stream": o.Stream})
			e.reg.hook = nil
			synctest.Wait()
			hmu.Lock()
			didFire := fired
			hmu.Unlock()
			if _, hasErr := c04HasError(body); code == 200 && !hasErr && didFire {
				e.cls["pull_ok_with_delete_of_unrelated_model_in_between"] = true
			}
		case "pull":
			addressed[c04Key(name)] = true
			desc += " " + name
			code, body := e.do("POST", "/api/pull", map[string]any{"model": name, "stream": o.Stream})
			_, hasErr := c04HasError(body)
			after, lerr := listOnce()
			if lerr != nil {
				opErr = lerr
				break
			}
			if code == 200 && !hasErr {
				e.cls["pull_ok"] = true
				if _, ok := after[c04Key(name)]; !ok {
					e.cls["obs_pull_success_but_not_listed"] = true
				}
			}
		case "restart":
			if rerr := e.restart(); rerr != nil {
				opErr = rerr
				break
			}
			after, lerr := listOnce()
			if lerr != nil {
				opErr = lerr
				break
			}
			_ = after
			// referenced = what any manifest file on disk names (read here independently of ollama's own walk)
			ref := map[string]bool{}
			filepath.Walk(filepath.Join(dir, "manifests"), func(p string, fi os.FileInfo, werr error) error {
				if werr != nil || fi.IsDir() {
					return nil
				}
				var mf struct {
					Config struct{ Digest string }   `json:"config"`
					Layers []struct{ Digest string } `json:"layers"`
				}
				if b, rerr := os.ReadFile(p); rerr == nil && json.Unmarshal(b, &mf) == nil {
					ref["sha256-"+strings.TrimPrefix(strings.TrimPrefix(mf.Config.Digest, "sha256:"), "sha256-")] = true
					for _, l := range mf.Layers {
						ref["sha256-"+strings.TrimPrefix(strings.TrimPrefix(l.Digest, "sha256:"), "sha256-")] = true
					}
				}
				return nil
			})
			ents, _ := os.ReadDir(filepath.Join(dir, "blobs"))
			for _, en := range ents {
				if !ref[en.Name()] && e.pruneSkipped == "" {
					opErr = fmt.Errorf("after startup pruning the blob store still holds %s, which no manifest references", en.Name())
				}
			}
			e.cls["restart"] = true
		case "list":
		}
		e.hist = append(e.hist, fmt.Sprintf("%d: %s", i, desc))
		if opErr == nil {
			// clause (b): models not addressed by the operation are untouched
			after, lerr := listOnce()
			if lerr != nil {
				opErr = lerr
			} else {
				for k, b := range before {
					if addressed[k] {
						continue
					}
					a, ok := after[k]
					if !ok {
						opErr = fmt.Errorf("model %q, not addressed by the operation, is no longer listed", b.display)
					} else if !bytes.Equal(a.manifest, b.manifest) {
						opErr = fmt.Errorf("model %q, not addressed by the operation, has a changed manifest", b.display)
					}
				}
				shared := false
				for k := range addressed {
					if b, ok := before[k]; ok {
						for k2, o2 := range before {
							if k2 != k {
								for _, d := range o2.digests {
									for _, d1 := range b.digests {
										if d == d1 {
											shared = true
										}
									}
								}
							}
						}
					}
				}
				if shared && (o.Kind == "delete" || o.Kind == "pardelete" || o.Kind == "create" || o.Kind == "createfrom" || o.Kind == "pull") {
					nontrivial = true
					e.cls["modifies_model_sharing_layers"] = true
				}
				for k := range addressed {
					for k2, o2 := range before {
						if k2 == k && o2.display != c04NameOf(o.Name) && strings.EqualFold(o2.name.String(), model.ParseName(name).String()) && o2.name.String() != model.ParseName(name).String() {
							nontrivial = true
							e.cls["name_differs_only_by_case"] = true
						}
					}
				}
				before = after
			}
		}
		if opErr != nil {
			return nil, nontrivial, fmt.Errorf("after op %d (%s): %v\n  history:\n    %s", i, desc, opErr, strings.Join(e.hist, "\n    "))
		}
	}
	for k := range e.cls {
		classes = append(classes, k)
	}
	sort.Strings(classes)
	return classes, nontrivial, nil
}

func TestC04Store(t *testing.T) {
	const target = "TestC04Store"
	rec := vfkit.Open(target)
	defer rec.Flush()
	var rc c04Case
	if rp, ok, err := vfkit.ReplayCase(target, &rc); ok {
		if err != nil {
			t.Fatalf("replay: %v", err)
		}
		rec.Current(target, rc)
		for i := 0; i < max(1, rp.Repeat); i++ { // ollama iterates maps: order-dependent cases are repeated
			if _, _, err := c04Run(t, rc); err != nil {
				rec.Fail(target, rc, err.Error())
				t.Fatalf("C04 violated: %v", err)
			}
		}
		return
	}
	rapid.Check(t, func(rt *rapid.T) {
		if rec.OverBudget() {
			return
		}
		c := c04Gen(rt)
		rec.Current(target, c)
		classes, nt, err := c04Run(t, c)
		rec.Case(c, nt, classes...)
		if err != nil {
			rec.Fail(target, c, err.Error())
			rt.Fatalf("C04 violated: %v", err)
		}
	})
}
