package server

// Native coverage-guided fuzz target for C13 (thorough tier only): arbitrary byte strings as model paths and
// blob digests through the oracles of TestC13ModelPath / TestC13Digest.

import (
	"strings"
	"testing"

	c13gen "github.com/ollama/ollama/verifc13gen"
)

func FuzzC13Paths(f *testing.F) {
	hex := "0123456789abcdef0123456789abcdef0123456789abcdef0123456789abcdef"
	for _, s := range []string{
		"llama3", "library/llama3:latest", "registry.ollama.ai/library/llama3:8b", "h.example.com:5000/ns/m:t", "http://h/n/m:t",
		"h//m", "../x", "a/../b:c", "n/m:..", "H/N/M:T", "m:", ":t", "/m", "a\\b", "a\x00b", "ns/m:t:u",
		strings.Repeat("a", 80) + "/" + strings.Repeat("b", 80) + ":" + strings.Repeat("c", 80),
		"sha256:" + hex, "sha256-" + hex, "SHA256:" + hex, "sha256:" + strings.ToUpper(hex), "sha256:" + hex[:63], "sha256:" + hex + "0",
		"sha256:../" + hex[3:], "sha256-" + hex[:62] + "/.", "", "sha256:", "sha512:" + hex + hex,
	} {
		f.Add(s)
	}
	f.Fuzz(func(t *testing.T, s string) {
		if len(s) > 2048 {
			t.Skip()
		}
		if _, err := c13RunModelPath(c13gen.Case{Q: c13gen.Quote(s)}); err != nil {
			t.Fatalf("C13 violated (ParseModelPath side): %v", err)
		}
		if _, err := c13RunDigest(c13DigestCase{Q: c13gen.Quote(s)}); err != nil {
			t.Fatalf("C13 violated (digest side): %v", err)
		}
	})
}
