package server

// C12 — a crash at any point of pull / create / copy / delete leaves a store in which every resolvable model is
// intact, uninvolved models unchanged, and repeating the operation yields the state of an uninterrupted run.
// Injector (A) of DESIGN.md §3 C12: the operation is parked at the n-th externally visible step (progress line
// written to the client, request to the registry, k-byte prefix of a transferred body); the store directory is copied
// at that moment (= what a kill -9 there leaves on disk), the operation is abandoned, and the copy is restarted.

import (
	"syscall"
	"bytes"
	"context"
	"encoding/json"
	"fmt"
	"io"
	"io/fs"
	"net/http"
	"net/http/httptest"
	"os"
	"os/exec"
	"path/filepath"
	"sort"
	"strings"
	"sync"
	"testing"
	"testing/synctest"
	"time"

	"github.com/gin-gonic/gin"
	"github.com/ollama/ollama/envconfig"
	"github.com/ollama/ollama/types/model"
	"pgregory.net/rapid"
	"verif.local/vfkit"
)

type c12Op struct {
	Kind   string `json:"k"` // create createfrom copy delete pull
	Name   int    `json:"n"`
	Name2  int    `json:"n2,omitempty"`
	GGUF   int    `json:"g,omitempty"`
	Sys    int    `json:"sys,omitempty"`
	Stream bool   `json:"stream,omitempty"`
}

type c12Case struct {
	NoPrune bool    `json:"noprune,omitempty"` // OLLAMA_NOPRUNE=1: nothing is cleaned up at startup
	Prior   []c12Op `json:"prior"`
	Op      c12Op   `json:"op"`
	CrashAt []int   `json:"crash_at"` // crash points as per-mille of the operation's step count
}

var c12Names = []string{"foo", "bar", "ns1/foo", "ns1/bar:v1", "other/foo", "h.test/ns1/foo", "baz", "ns1/baz"}

func c12GenOp(t *rapid.T, label string) c12Op {
	var o c12Op
	o.Kind = rapid.SampledFrom([]string{"create", "create", "createfrom", "createfrom", "copy", "delete", "pull", "pull", "blob"}).Draw(t, label+"kind")
	o.Name = rapid.IntRange(0, len(c12Names)-1).Draw(t, label+"name")
	o.Name2 = rapid.IntRange(0, len(c12Names)-1).Draw(t, label+"name2")
	o.GGUF = rapid.IntRange(0, 2).Draw(t, label+"gguf")
	o.Sys = rapid.IntRange(0, 2).Draw(t, label+"sys")
	o.Stream = rapid.IntRange(0, 3).Draw(t, label+"stream") > 0
	return o
}

func c12Gen(t *rapid.T) c12Case {
	var c c12Case
	n := rapid.IntRange(0, 4).Draw(t, "n_prior")
	for i := 0; i < n; i++ {
		c.Prior = append(c.Prior, c12GenOp(t, "prior_"))
	}
	c.Op = c12GenOp(t, "op_")
	if rapid.IntRange(0, 5).Draw(t, "update_scenario") == 0 {
		// update of a model that was pulled before and has local relatives: pull X, maybe copy X to Y and/or create Z
		// from X, the registry publishes a new version of X, and the interrupted operation is the second pull of X
		x := rapid.SampledFrom([]int{0, 1, 2, 3, 4, 5, 6}).Draw(t, "upd_name")
		c.Prior = append(c.Prior, c12Op{Kind: "pull", Name: x, Stream: true})
		if rapid.IntRange(0, 3).Draw(t, "upd_copy") > 0 {
			c.Prior = append(c.Prior, c12Op{Kind: "copy", Name: x, Name2: rapid.IntRange(0, len(c12Names)-1).Draw(t, "upd_copy_dst")})
		}
		if rapid.IntRange(0, 2).Draw(t, "upd_from") == 0 {
			c.Prior = append(c.Prior, c12Op{Kind: "createfrom", Name: rapid.IntRange(0, len(c12Names)-1).Draw(t, "upd_from_dst"), Name2: x,
				Sys: rapid.IntRange(0, 2).Draw(t, "upd_from_sys")})
		}
		if rapid.IntRange(0, 4).Draw(t, "upd_republish") > 0 {
			c.Prior = append(c.Prior, c12Op{Kind: "republish", Name: x})
		}
		c.Op = c12Op{Kind: "pull", Name: x, Stream: rapid.Bool().Draw(t, "upd_stream")}
	}
	c.NoPrune = rapid.IntRange(0, 3).Draw(t, "noprune") == 0
	c.CrashAt = rapid.SliceOfN(rapid.IntRange(0, 999), 1, 6).Draw(t, "crash_at")
	return c
}

// c12Writer is the client connection: every Write is a progress line reaching the client.
type c12Writer struct {
	hdr   http.Header
	code  int
	buf   bytes.Buffer
	mu    sync.Mutex
	event func(string)
}

func (w *c12Writer) Header() http.Header { return w.hdr }
func (w *c12Writer) WriteHeader(c int)   { w.code = c }
func (w *c12Writer) Flush()              {}
func (w *c12Writer) CloseNotify() <-chan bool {
	return make(chan bool)
}
func (w *c12Writer) Write(p []byte) (int, error) {
	if w.event != nil {
		w.event("progress")
	}
	w.mu.Lock()
	defer w.mu.Unlock()
	if w.code == 0 {
		w.code = 200
	}
	return w.buf.Write(p)
}

// c12Body is an uploaded request body: every 100-byte prefix handed to the server is a visible step.
type c12Body struct {
	data  []byte
	pos   int
	event func(string)
}

func (b *c12Body) Read(p []byte) (int, error) {
	if b.pos >= len(b.data) {
		return 0, io.EOF
	}
	if b.event != nil {
		b.event(fmt.Sprintf("body upload @%d", b.pos))
	}
	n := copy(p, b.data[b.pos:min(len(b.data), b.pos+100)])
	b.pos += n
	return n, nil
}

type c12World struct {
	h   http.Handler
	reg *frRegistry

	mu      sync.Mutex
	count   int
	crashAt int // -1: never
	parked  chan struct{}
	release chan struct{}
	events  []string
}

func (w *c12World) event(ev string) {
	w.mu.Lock()
	n := w.count
	w.count++
	if len(w.events) < 400 {
		w.events = append(w.events, ev)
	}
	hit := n == w.crashAt
	w.mu.Unlock()
	if hit {
		close(w.parked)
		<-w.release // the process "dies" here: this goroutine goes no further until the image has been taken
	}
}

func (w *c12World) request(ctx context.Context, o c12Op) (int, []byte) {
	name, name2 := c12Names[o.Name%len(c12Names)], c12Names[o.Name2%len(c12Names)]
	var method, path string
	var body any
	switch o.Kind {
	case "create":
		g := c04GGUFs[o.GGUF%len(c04GGUFs)]
		// the blob upload is a separate API call that precedes the create; it is not the interrupted operation
		bw := &c12Writer{hdr: http.Header{}}
		w.h.ServeHTTP(bw, httptest.NewRequest("POST", "/api/blobs/"+frDigest(g), bytes.NewReader(g)))
		req := map[string]any{"model": name, "stream": o.Stream, "files": map[string]string{"model.gguf": frDigest(g)}}
		if t := c04Texts[o.Sys%3]; t != "" {
			req["system"] = t
		}
		method, path, body = "POST", "/api/create", req
	case "createfrom":
		req := map[string]any{"model": name, "stream": o.Stream, "from": name2}
		if t := c04Texts[o.Sys%3]; t != "" {
			req["system"] = t
		}
		method, path, body = "POST", "/api/create", req
	case "blob":
		g := c04GGUFs[o.GGUF%len(c04GGUFs)]
		req := httptest.NewRequest("POST", "/api/blobs/"+frDigest(g), &c12Body{data: g, event: w.event}).WithContext(ctx)
		rw := &c12Writer{hdr: http.Header{}, event: w.event}
		w.h.ServeHTTP(rw, req)
		return rw.code, rw.buf.Bytes()
	case "copy":
		method, path, body = "POST", "/api/copy", map[string]any{"source": name, "destination": name2}
	case "delete":
		method, path, body = "DELETE", "/api/delete", map[string]any{"model": name}
	case "pull":
		method, path, body = "POST", "/api/pull", map[string]any{"model": name, "stream": o.Stream}
	case "republish":
		// not a request to the server: the registry publishes a new version of the model under the same tag
		// (same weights, new license and config)
		if w.reg != nil {
			c12Republish(w.reg, name)
		}
		return 200, nil
	}
	js, _ := json.Marshal(body)
	req := httptest.NewRequest(method, path, bytes.NewReader(js)).WithContext(ctx)
	rw := &c12Writer{hdr: http.Header{}, event: w.event}
	w.h.ServeHTTP(rw, req)
	return rw.code, rw.buf.Bytes()
}

// c12Snapshot returns path -> content hash for everything under dir (manifests and blobs).
func c12Snapshot(dir string) map[string]string {
	out := map[string]string{}
	filepath.WalkDir(dir, func(p string, d fs.DirEntry, err error) error {
		if err != nil || d.IsDir() {
			return nil
		}
		b, rerr := os.ReadFile(p)
		if rerr != nil {
			return nil
		}
		rel, _ := filepath.Rel(dir, p)
		if strings.HasPrefix(rel, "manifests") {
			// manifests record the absolute blob path a layer was created from ("from"), which differs between the
			// directories compared here: compare what identifies the model
			var mf Manifest
			if json.Unmarshal(b, &mf) == nil {
				for i := range mf.Layers {
					mf.Layers[i].From = ""
				}
				mf.Config.From = ""
				b, _ = json.Marshal(mf)
			}
		}
		out[rel] = frDigest(b)
		return nil
	})
	return out
}

func c12CopyDir(src, dst string) error {
	// a disk image keeps hard links: two names of one file in src are two names of one file in dst
	linked := map[uint64]string{}
	return filepath.WalkDir(src, func(p string, d fs.DirEntry, err error) error {
		if err != nil {
			return nil // files may vanish while a writer is parked mid-operation (temp files): not part of the image then
		}
		rel, _ := filepath.Rel(src, p)
		if d.IsDir() {
			return os.MkdirAll(filepath.Join(dst, rel), 0o755)
		}
		if fi, serr := os.Lstat(p); serr == nil {
			if st, ok := fi.Sys().(*syscall.Stat_t); ok && st.Nlink > 1 {
				if first, ok := linked[st.Ino]; ok {
					return os.Link(first, filepath.Join(dst, rel))
				}
				linked[st.Ino] = filepath.Join(dst, rel)
			}
		}
		in, oerr := os.Open(p)
		if oerr != nil {
			return nil
		}
		defer in.Close()
		out, cerr := os.Create(filepath.Join(dst, rel))
		if cerr != nil {
			return cerr
		}
		defer out.Close()
		_, cerr = io.Copy(out, in)
		return cerr
	})
}

// c12Startup is what Serve does before it listens.
func c12Startup() error {
	blobs, err := GetBlobsPath("")
	if err != nil {
		return err
	}
	if err := fixBlobs(blobs); err != nil {
		return fmt.Errorf("fixBlobs: %v", err)
	}
	if envconfig.NoPrune() {
		return nil
	}
	if _, err := Manifests(false); err != nil {
		return nil // corrupt manifests: pruning is skipped, the server still starts
	}
	if err := PruneLayers(); err != nil {
		return fmt.Errorf("PruneLayers: %v", err)
	}
	mp, _ := GetManifestPath()
	return PruneDirectory(mp)
}

// c12Resolvable lists every name with a readable manifest (walking the directory independently of ollama) and checks its layers.
func c12Resolvable(dir string) (map[string][]byte, error) {
	out := map[string][]byte{}
	root := filepath.Join(dir, "manifests")
	var firstErr error
	filepath.WalkDir(root, func(p string, d fs.DirEntry, err error) error {
		if err != nil || d.IsDir() {
			return nil
		}
		rel, _ := filepath.Rel(root, p)
		n := model.ParseNameFromFilepath(rel)
		if !n.IsValid() {
			return nil
		}
		mf, merr := ParseNamedManifest(n)
		if merr != nil {
			return nil // not readable: the name does not resolve
		}
		raw, _ := os.ReadFile(p)
		out[rel] = raw
		for _, l := range append(append([]Layer{}, mf.Layers...), mf.Config) {
			if l.Digest == "" {
				continue
			}
			fp, gerr := GetBlobsPath(l.Digest)
			if gerr != nil {
				firstErr = fmt.Errorf("%s: %v", rel, gerr)
				return nil
			}
			b, rerr := os.ReadFile(fp)
			switch {
			case rerr != nil:
				firstErr = fmt.Errorf("model %s resolves but its layer %s (%s) is missing", rel, l.Digest[:19], l.MediaType)
			case int64(len(b)) != l.Size:
				firstErr = fmt.Errorf("model %s resolves but its layer %s has %d bytes instead of %d", rel, l.Digest[:19], len(b), l.Size)
			case frDigest(b) != l.Digest:
				firstErr = fmt.Errorf("model %s resolves but its layer %s is corrupt", rel, l.Digest[:19])
			}
		}
		return nil
	})
	return out, firstErr
}

func c12Involved(o c12Op) []string {
	var keys []string
	if o.Kind == "blob" {
		return nil
	}
	for _, s := range []string{c12Names[o.Name%len(c12Names)], c12Names[o.Name2%len(c12Names)]} {
		keys = append(keys, strings.ToLower(model.ParseName(s).Filepath()))
	}
	return keys
}

func c12Run(t *testing.T, c c12Case) (classes []string, nontrivial bool, err error) {
	func() {
		defer func() {
			if r := recover(); r != nil && err == nil && !strings.Contains(fmt.Sprint(r), "blocked goroutines remain") {
				panic(r)
			}
		}()
		synctest.Test(t, func(*testing.T) { classes, nontrivial, err = c12RunInner(c) })
	}()
	return
}

func c12RunInner(c c12Case) (classes []string, nontrivial bool, err error) {
	c04Init()
	frHome()
	gin.SetMode(gin.TestMode)
	gin.DefaultWriter, gin.DefaultErrorWriter = io.Discard, io.Discard
	base, derr := os.MkdirTemp("", "c12-")
	if derr != nil {
		return nil, false, nil
	}
	defer os.RemoveAll(base)
	base = frModelsDir(base) // every store of the case lives below it (injector A only: B matches paths in strace output)
	os.Unsetenv("OLLAMA_NOPRUNE")
	cls := map[string]bool{}
	if c.NoPrune {
		os.Setenv("OLLAMA_NOPRUNE", "1")
		defer os.Unsetenv("OLLAMA_NOPRUNE")
		cls["noprune"] = true
	}

	reg := frNewRegistry()
	reg.foldNames = true
	reg.chunk = 256
	undo := frInstall(reg)
	defer undo()
	c12Library(reg)
	var s Server
	h, herr := s.GenerateRoutes(nil)
	if herr != nil {
		return nil, false, nil
	}
	w := &c12World{h: h, reg: reg, crashAt: -1}
	reg.hook = w.event
	settle := func() {
		synctest.Wait()
		time.Sleep(3 * time.Minute) // detached download goroutines of an abandoned pull wind down (virtual time)
		synctest.Wait()
	}

	// ---- prior state
	prior := filepath.Join(base, "prior")
	os.MkdirAll(prior, 0o755)
	os.Setenv("OLLAMA_MODELS", prior)
	for _, o := range c.Prior {
		w.request(context.Background(), o)
		settle()
		if o.Kind == "republish" {
			cls["registry_republished_before_op"] = true
		}
	}
	if serr := c12Startup(); serr != nil {
		return nil, false, fmt.Errorf("startup on the prior state failed: %v", serr)
	}
	before, berr := c12Resolvable(prior)
	if berr != nil {
		return nil, false, nil // a broken prior state is another property's (C04) finding; nothing to crash-test here
	}

	// ---- uninterrupted run on a copy: step count and expected final state
	ref := filepath.Join(base, "ref")
	if cerr := c12CopyDir(prior, ref); cerr != nil {
		return nil, false, nil
	}
	os.Setenv("OLLAMA_MODELS", ref)
	w.count, w.events = 0, nil
	refCode, refBody := w.request(context.Background(), c.Op)
	settle()
	steps := w.count
	stepKinds := append([]string{}, w.events...)
	_, refErr := c04HasError(refBody)
	refOK := refCode == 200 && !refErr
	if serr := c12Startup(); serr != nil {
		return nil, false, fmt.Errorf("startup after the uninterrupted operation failed: %v", serr)
	}
	want := c12Snapshot(ref)
	cls["op_"+c.Op.Kind] = true
	if refOK {
		cls["uninterrupted_ok"] = true
	} else {
		cls["uninterrupted_fails"] = true
	}
	if steps == 0 {
		cls["no_visible_step"] = true
		return c12Classes(cls), false, nil
	}

	seen := map[int]bool{}
	for _, pm := range c.CrashAt {
		at := pm * steps / 1000
		if seen[at] {
			continue
		}
		seen[at] = true
		// ---- run again on a fresh copy and park at step `at`
		live := filepath.Join(base, fmt.Sprintf("live-%d", at))
		image := filepath.Join(base, fmt.Sprintf("image-%d", at))
		if cerr := c12CopyDir(prior, live); cerr != nil {
			return nil, false, nil
		}
		os.Setenv("OLLAMA_MODELS", live)
		w.mu.Lock()
		w.count, w.events, w.crashAt = 0, nil, at
		w.parked, w.release = make(chan struct{}), make(chan struct{})
		w.mu.Unlock()
		ctx, cancel := context.WithCancel(context.Background())
		done := make(chan struct{})
		go func() {
			defer close(done)
			w.request(ctx, c.Op)
		}()
		select {
		case <-w.parked:
		case <-done:
		}
		synctest.Wait() // every other goroutine of the operation has gone as far as it can
		reached := false
		select {
		case <-w.parked:
			reached = true
		default:
		}
		if cerr := c12CopyDir(live, image); cerr != nil {
			return nil, false, nil
		}
		// abandon the operation (its further effects go to `live`, which is discarded)
		w.mu.Lock()
		w.crashAt = -1
		w.mu.Unlock()
		cancel()
		close(w.release)
		<-done
		settle()
		if !reached {
			cls["crash_point_not_reached"] = true
			continue
		}
		kind := "step"
		if at < len(stepKinds) {
			kind = strings.Fields(stepKinds[at])[0]
		}
		cls["crash_at_"+kind] = true
		if at > 0 && at < steps-1 {
			nontrivial = true
		}

		// ---- restart on the image
		os.Setenv("OLLAMA_MODELS", image)
		fail := func(f string, a ...any) error {
			return fmt.Errorf("crash at step %d of %d (%s) of %s %s: %s\n  steps: %s", at, steps, kind, c.Op.Kind, c12Names[c.Op.Name%len(c12Names)],
				fmt.Sprintf(f, a...), strings.Join(stepKinds[:min(len(stepKinds), at+1)], " | "))
		}
		if serr := c12Startup(); serr != nil {
			return nil, nontrivial, fail("the server does not start any more: %v", serr)
		}
		after, aerr := c12Resolvable(image)
		if aerr != nil {
			return nil, nontrivial, fail("after restart %v", aerr)
		}
		inv := c12Involved(c.Op)
		for rel, raw := range before {
			involved := false
			for _, k := range inv {
				if strings.ToLower(rel) == k {
					involved = true
				}
			}
			if involved {
				continue
			}
			got, ok := after[rel]
			if !ok {
				return nil, nontrivial, fail("model %s, not involved in the operation, no longer resolves", rel)
			}
			if !bytes.Equal(got, raw) {
				return nil, nontrivial, fail("model %s, not involved in the operation, has a changed manifest", rel)
			}
		}
		// ---- repeat the operation: it succeeds (or reports that it already took effect) and the store ends up as after an uninterrupted run
		w.mu.Lock()
		w.count, w.events = 0, nil
		w.mu.Unlock()
		code, body := w.request(context.Background(), c.Op)
		settle()
		_, hasErr := c04HasError(body)
		ok := code == 200 && !hasErr
		if refOK && !ok {
			alreadyDone := c.Op.Kind == "delete" && code == 404
			if !alreadyDone {
				return nil, nontrivial, fail("repeating the operation fails (%d %s) although an uninterrupted run succeeds", code, bytes.TrimSpace(body))
			}
			cls["repeat_reports_already_done"] = true
		}
		if serr := c12Startup(); serr != nil {
			return nil, nontrivial, fail("startup after repeating the operation failed: %v", serr)
		}
		// create X from X redefines its own input: repeating it after it took effect legitimately builds on the new X
		selfRef := c.Op.Kind == "createfrom" && strings.EqualFold(model.ParseName(c12Names[c.Op.Name%len(c12Names)]).String(), model.ParseName(c12Names[c.Op.Name2%len(c12Names)]).String())
		if selfRef {
			cls["self_referential_create_not_compared"] = true
		}
		if refOK && !selfRef {
			got := c12Snapshot(image)
			wantCmp := want
			if c.NoPrune {
				wantCmp, got = c12Referenced(ref, want), c12Referenced(image, got)
			}
			if d := c12Diff(wantCmp, got); d != "" {
				for k, v := range want {
					if g, ok := got[k]; ok && g != v && strings.HasPrefix(k, "manifests") {
						a, _ := os.ReadFile(filepath.Join(ref, k))
						b, _ := os.ReadFile(filepath.Join(image, k))
						d += fmt.Sprintf("\n    uninterrupted: %s\n    after crash+repeat: %s", bytes.TrimSpace(a), bytes.TrimSpace(b))
					}
				}
				return nil, nontrivial, fail("after repeating the operation the store differs from the one an uninterrupted run leaves: %s", d)
			}
			cls["repeat_matches_uninterrupted"] = true
		}
	}
	return c12Classes(cls), nontrivial, nil
}

// c12Library publishes the small model library every C12 registry serves.
func c12Library(reg *frRegistry) {
	lic := frBlob{Data: []byte("LICENSE A"), MediaType: "application/vnd.ollama.image.license"}
	lic.Digest = frDigest(lic.Data)
	for i, key := range []string{"library/foo:latest", "library/bar:latest", "library/baz:latest", "ns1/foo:latest", "ns1/bar:v1", "ns1/baz:latest", "other/foo:latest", "h.test/ns1/foo:latest"} {
		g := c04GGUFs[i%len(c04GGUFs)]
		cfg := []byte(fmt.Sprintf(`{"model_format":"gguf","model_family":"llama","model_families":["llama"],"model_type":"1","file_type":"F32","architecture":"amd64","os":"linux","rootfs":{"type":"layers","diff_ids":["%d"]}}`, i%2))
		m := &frModel{Layers: []frBlob{{Digest: frDigest(g), Data: g, MediaType: "application/vnd.ollama.image.model"}, lic},
			Config: &frBlob{Digest: frDigest(cfg), Data: cfg, MediaType: "application/vnd.docker.container.image.v1+json"}}
		if i%3 == 1 { // a zero-length layer (empty template): the empty blob is a blob like any other
			m.Layers = append(m.Layers, frBlob{Digest: frDigest(nil), Data: []byte{}, MediaType: "application/vnd.ollama.image.template"})
		}
		reg.publish(strings.TrimPrefix(key, "h.test/"), m)
	}
}

// c12Republish replaces what the registry serves for name by a new version: same weights, new license, new config.
func c12Republish(reg *frRegistry, name string) {
	mp := ParseModelPath(name)
	key := strings.ToLower(mp.GetNamespaceRepository() + ":" + mp.Tag)
	reg.mu.Lock()
	old := reg.models[key]
	reg.mu.Unlock()
	if old == nil {
		return
	}
	rev := 2
	for _, l := range old.Layers {
		if l.MediaType == "application/vnd.ollama.image.license" && bytes.HasPrefix(l.Data, []byte("LICENSE rev ")) {
			fmt.Sscanf(string(l.Data), "LICENSE rev %d", &rev)
			rev++
		}
	}
	lic := frBlob{Data: []byte(fmt.Sprintf("LICENSE rev %d", rev)), MediaType: "application/vnd.ollama.image.license"}
	lic.Digest = frDigest(lic.Data)
	cfg := []byte(fmt.Sprintf(`{"model_format":"gguf","model_family":"llama","model_families":["llama"],"model_type":"1","file_type":"F32","architecture":"amd64","os":"linux","rootfs":{"type":"layers","diff_ids":["rev%d"]}}`, rev))
	m := &frModel{Layers: []frBlob{old.Layers[0], lic}, Config: &frBlob{Digest: frDigest(cfg), Data: cfg, MediaType: "application/vnd.docker.container.image.v1+json"}}
	reg.publish(key, m)
}

func c12Classes(m map[string]bool) []string {
	var out []string
	for k := range m {
		out = append(out, k)
	}
	sort.Strings(out)
	return out
}

// c12Referenced keeps the manifests and the blobs they name (with OLLAMA_NOPRUNE left-overs of an interrupted operation
// legitimately stay in the store; what must agree is every model and its content).
func c12Referenced(dir string, snap map[string]string) map[string]string {
	out := map[string]string{}
	for k, v := range snap {
		if !strings.HasPrefix(k, "manifests") {
			continue
		}
		out[k] = v
		var mf Manifest
		if b, err := os.ReadFile(filepath.Join(dir, k)); err == nil && json.Unmarshal(b, &mf) == nil {
			for _, l := range append(append([]Layer{}, mf.Layers...), mf.Config) {
				name := "blobs/sha256-" + strings.TrimPrefix(l.Digest, "sha256:")
				if h, ok := snap[name]; ok {
					out[name] = h
				}
			}
		}
	}
	return out
}

func c12Diff(want, got map[string]string) string {
	var d []string
	for k, v := range want {
		if g, ok := got[k]; !ok {
			d = append(d, "missing "+k)
		} else if g != v {
			d = append(d, "different "+k)
		}
	}
	for k := range got {
		if _, ok := want[k]; !ok {
			d = append(d, "extra "+k)
		}
	}
	sort.Strings(d)
	if len(d) > 6 {
		d = append(d[:6], "…")
	}
	return strings.Join(d, ", ")
}

func TestC12Crash(t *testing.T) {
	const target = "TestC12Crash"
	rec := vfkit.Open(target)
	defer rec.Flush()
	var rc c12Case
	if _, ok, err := vfkit.ReplayCase(target, &rc); ok {
		if err != nil {
			t.Fatalf("replay: %v", err)
		}
		rec.Current(target, rc)
		if _, _, err := c12Run(t, rc); err != nil {
			rec.Fail(target, rc, err.Error())
			t.Fatalf("C12 violated: %v", err)
		}
		return
	}
	rapid.Check(t, func(rt *rapid.T) {
		if rec.OverBudget() {
			return
		}
		c := c12Gen(rt)
		rec.Current(target, c)
		classes, nt, err := c12Run(t, c)
		rec.Case(c, nt, classes...)
		if err != nil {
			rec.Fail(target, c, err.Error())
			rt.Fatalf("C12 violated: %v", err)
		}
	})
}

// ------------------------------------------------------------------------------------------------------------------
// Injector (B): kill the process at the N-th file-system system call (DESIGN.md §3 C12). The test binary re-executes
// itself in child mode under `strace -f -e inject=<syscall>:signal=KILL:when=N`; the child performs one operation
// through the real router on a prepared store and is killed *before* the N-th call of that system call executes.
// This reaches crash points between any two file-system effects (between manifest removal and layer removal in
// delete, inside NewLayer, between create and write of a manifest), which injector (A) cannot.

var c12Syscalls = []string{"openat", "write", "pwrite64", "rename", "renameat", "renameat2", "unlink", "unlinkat", "mkdir", "mkdirat", "chmod", "fchmod", "fchmodat", "ftruncate", "close",
	"copy_file_range", "sendfile"} // io.Copy between two files (CopyModel) is one of these, not a write

type c12SysCase struct {
	NoPrune bool    `json:"noprune,omitempty"`
	Prior   []c12Op `json:"prior"`
	Op      c12Op   `json:"op"`
	Points  []int   `json:"points"` // per-mille positions within each system call's range
}

func c12SysGen(t *rapid.T) c12SysCase {
	var c c12SysCase
	// prior state: 1-4 models created locally (they share the GGUF layer when the variant repeats), then maybe a copy
	n := rapid.IntRange(1, 4).Draw(t, "n_prior")
	var names []int
	for i := 0; i < n; i++ {
		o := c12Op{Kind: "create", Name: rapid.IntRange(0, len(c12Names)-1).Draw(t, "prior_name"), GGUF: rapid.IntRange(0, 2).Draw(t, "prior_gguf"),
			Sys: rapid.IntRange(0, 2).Draw(t, "prior_sys"), Stream: rapid.Bool().Draw(t, "prior_stream")}
		names = append(names, o.Name)
		c.Prior = append(c.Prior, o)
	}
	if rapid.Bool().Draw(t, "prior_copy") {
		o := c12Op{Kind: "copy", Name: names[rapid.IntRange(0, len(names)-1).Draw(t, "prior_copy_src")], Name2: rapid.IntRange(0, len(c12Names)-1).Draw(t, "prior_copy_dst")}
		names = append(names, o.Name2)
		c.Prior = append(c.Prior, o)
	}
	existing := func(label string) int { return names[rapid.IntRange(0, len(names)-1).Draw(t, label)] }
	anyName := func(label string) int {
		if rapid.Bool().Draw(t, label+"_existing") {
			return existing(label)
		}
		return rapid.IntRange(0, len(c12Names)-1).Draw(t, label)
	}
	o := c12Op{GGUF: rapid.IntRange(0, 2).Draw(t, "op_gguf"), Sys: rapid.IntRange(0, 2).Draw(t, "op_sys"), Stream: rapid.Bool().Draw(t, "op_stream")}
	o.Kind = rapid.SampledFrom([]string{"blob", "create", "create", "createfrom", "copy", "copy", "delete", "delete", "repull", "repull", "freshpull", "freshpull", "freshpull"}).Draw(t, "op_kind")
	switch o.Kind {
	case "freshpull":
		// first pull of a model: the child downloads every blob from its in-process registry, so the kill can fall between
		// any two file-system effects of the download itself (part files, verification, rename into place)
		o.Kind = "pull"
		o.Name = rapid.SampledFrom([]int{0, 1, 2, 4, 5, 6}).Draw(t, "op_pull_name")
	case "repull":
		// pull again a model that was pulled before (prior state): only the manifest request needs the registry, every
		// blob is a cache hit, so the child is fast; the crash window is the rewrite of the manifest
		o.Kind = "pull"
		o.Name = rapid.SampledFrom([]int{0, 1, 2, 4, 5, 6}).Draw(t, "op_pull_name")
		c.Prior = append(c.Prior, c12Op{Kind: "pull", Name: o.Name, Stream: true})
		if rapid.Bool().Draw(t, "op_pull_copied") { // the pulled model has a local copy under another name
			c.Prior = append(c.Prior, c12Op{Kind: "copy", Name: o.Name, Name2: rapid.IntRange(0, len(c12Names)-1).Draw(t, "op_pull_copy_dst")})
		}
	case "create":
		o.Name = anyName("op_name")
	case "createfrom":
		o.Name, o.Name2 = anyName("op_name"), existing("op_base")
	case "copy":
		o.Name, o.Name2 = existing("op_src"), anyName("op_dst")
	case "delete":
		o.Name = existing("op_name")
	}
	c.Op = o
	c.NoPrune = rapid.IntRange(0, 2).Draw(t, "noprune") == 0 // start-up pruning hides most crash debris: a third of the cases run without it
	c.Points = rapid.SliceOfN(rapid.IntRange(0, 999), 4, 10).Draw(t, "points")
	return c
}

// TestC12Child is the re-executed child: one operation, no fake registry, real time.
func TestC12Child(t *testing.T) {
	js := os.Getenv("C12_CHILD")
	if js == "" {
		t.Skip("child mode only")
	}
	var o c12Op
	if err := json.Unmarshal([]byte(js), &o); err != nil {
		t.Fatal(err)
	}
	c04Init()
	frHome()
	gin.SetMode(gin.TestMode)
	gin.DefaultWriter, gin.DefaultErrorWriter = io.Discard, io.Discard
	reg := frNewRegistry() // only a re-pull of a model that is already complete locally reaches it (manifest request)
	reg.foldNames = true
	c12Library(reg)
	defer frInstall(reg)()
	var s Server
	h, err := s.GenerateRoutes(nil)
	if err != nil {
		t.Fatal(err)
	}
	w := &c12World{h: h, crashAt: -1}
	code, body := w.request(context.Background(), o)
	fmt.Printf("CHILD-DONE %d %s\n", code, bytes.TrimSpace(body))
}

func c12RunChild(dir string, o c12Op, inject string, logPath string) (killed bool, out []byte, err error) {
	js, _ := json.Marshal(o)
	self, _ := os.Executable()
	args := []string{"-f", "-qq", "-y", "-e", "trace=" + strings.Join(c12Syscalls, ",")}
	if logPath != "" {
		args = append(args, "-o", logPath)
	} else {
		args = append(args, "-o", "/dev/null")
	}
	if inject != "" {
		args = append(args, "-e", "inject="+inject)
	}
	args = append(args, self, "-test.run", "^TestC12Child$", "-test.count", "1")
	cmd := exec.Command("strace", args...)
	cmd.Env = append(os.Environ(), "C12_CHILD="+string(js), "OLLAMA_MODELS="+dir, "GOMAXPROCS=2", "VERIF_OUT=", "VERIF_FAILCASE=", "VERIF_CURCASE=", "VERIF_REPLAY=")
	out, err = cmd.CombinedOutput()
	if err != nil {
		if ee, ok := err.(*exec.ExitError); ok {
			// strace reports the tracee's death by signal by killing itself with the same signal or exiting 128+n
			if ee.ExitCode() == -1 || ee.ExitCode() == 137 {
				return true, out, nil
			}
			return false, out, nil
		}
		return false, out, err
	}
	return false, out, nil
}

func c12SysRun(t *testing.T, c c12SysCase) (classes []string, nontrivial bool, err error) {
	c04Init()
	frHome()
	cls := map[string]bool{}
	base, derr := os.MkdirTemp("", "c12s-")
	if derr != nil {
		return nil, false, nil
	}
	defer os.RemoveAll(base)
	os.Unsetenv("OLLAMA_NOPRUNE")
	if c.NoPrune {
		os.Setenv("OLLAMA_NOPRUNE", "1")
		defer os.Unsetenv("OLLAMA_NOPRUNE")
		cls["noprune"] = true
	}
	gin.SetMode(gin.TestMode)
	gin.DefaultWriter, gin.DefaultErrorWriter = io.Discard, io.Discard
	if _, lerr := exec.LookPath("strace"); lerr != nil {
		return []string{"strace_unavailable"}, false, nil
	}
	inBubble := func(f func(w *c12World)) {
		defer func() {
			if r := recover(); r != nil && !strings.Contains(fmt.Sprint(r), "blocked goroutines remain") {
				panic(r)
			}
		}()
		synctest.Test(t, func(*testing.T) {
			reg := frNewRegistry()
			reg.foldNames = true
			c12Library(reg)
			defer frInstall(reg)()
			var s Server
			h, _ := s.GenerateRoutes(nil)
			f(&c12World{h: h, reg: reg, crashAt: -1})
		})
	}
	prior := filepath.Join(base, "prior")
	os.MkdirAll(prior, 0o755)
	var before map[string][]byte
	var berr error
	inBubble(func(w *c12World) {
		os.Setenv("OLLAMA_MODELS", prior)
		for _, o := range c.Prior {
			if o.Kind == "createfrom" {
				if _, perr := ParseNamedManifest(model.ParseName(c12Names[o.Name2%len(c12Names)])); perr != nil {
					continue // no network in this target: a base model must exist locally
				}
			}
			w.request(context.Background(), o)
			synctest.Wait()
			if o.Kind == "pull" {
				time.Sleep(3 * time.Minute)
				synctest.Wait()
			}
		}
		// the blob a create refers to is uploaded by a separate, earlier API call
		if c.Op.Kind == "create" {
			g := c04GGUFs[c.Op.GGUF%len(c04GGUFs)]
			bw := &c12Writer{hdr: http.Header{}}
			w.h.ServeHTTP(bw, httptest.NewRequest("POST", "/api/blobs/"+frDigest(g), bytes.NewReader(g)))
		}
		before, berr = c12Resolvable(prior)
	})
	if berr != nil {
		return nil, false, nil
	}
	if c.Op.Kind == "createfrom" {
		os.Setenv("OLLAMA_MODELS", prior)
		if _, perr := ParseNamedManifest(model.ParseName(c12Names[c.Op.Name2%len(c12Names)])); perr != nil {
			return []string{"base_model_not_local"}, false, nil
		}
	}
	cls["op_"+c.Op.Kind] = true

	// ---- uninterrupted child run under strace (no injection): expected final state and system call counts
	ref := filepath.Join(base, "ref")
	c12CopyDir(prior, ref)
	logPath := filepath.Join(base, "dry.log")
	killed, out, rerr := c12RunChild(ref, c.Op, "", logPath)
	if rerr != nil || killed || !bytes.Contains(out, []byte("CHILD-DONE")) {
		return []string{"strace_dry_run_failed"}, false, nil
	}
	refOK := bytes.Contains(out, []byte("CHILD-DONE 200")) && !bytes.Contains(out, []byte(`"error"`))
	os.Setenv("OLLAMA_MODELS", ref)
	if serr := c12Startup(); serr != nil {
		return nil, false, fmt.Errorf("startup after the uninterrupted operation failed: %v", serr)
	}
	want := c12Snapshot(ref)
	// candidate crash points: the system calls of the dry run that touch the store, addressed the way strace counts
	// them (ordinal of that system call on its thread)
	type point struct {
		sc string
		n  int
	}
	var cands []point
	have := map[point]bool{}
	if b, lerr := os.ReadFile(logPath); lerr == nil {
		counts := map[string]int{} // "tid syscall" -> calls so far
		for _, line := range strings.Split(string(b), "\n") {
			f := strings.Fields(line)
			if len(f) < 2 {
				continue
			}
			for _, sc := range c12Syscalls {
				if strings.HasPrefix(f[1], sc+"(") {
					counts[f[0]+" "+sc]++
					if p := (point{sc, counts[f[0]+" "+sc]}); strings.Contains(line, ref) && !have[p] {
						have[p] = true
						cands = append(cands, p)
					}
				}
			}
		}
	}
	if len(cands) == 0 {
		return c12Classes(cls), false, nil
	}
	// opens, closes and writes are nine tenths of the candidates; the calls with a lasting effect of their own (rename,
	// unlink, mkdir, truncate, chmod) are where two effects can be torn apart: every other point is drawn among those only
	var effects []int
	for i, p := range cands {
		switch p.sc {
		case "openat", "write", "pwrite64", "close":
		default:
			effects = append(effects, i)
		}
	}
	images := map[string]bool{}
	seen := map[int]bool{}
	for k, pm := range c.Points {
		idx := pm * len(cands) / 1000
		if k%2 == 1 && len(effects) > 0 {
			idx = effects[pm*len(effects)/1000]
			cls["point_among_effect_calls"] = true
		}
		if seen[idx] {
			continue
		}
		seen[idx] = true
		p := cands[idx]
		img := filepath.Join(base, fmt.Sprintf("img-%d", idx))
		c12CopyDir(prior, img)
		killed, _, rerr := c12RunChild(img, c.Op, fmt.Sprintf("%s:signal=KILL:when=%d", p.sc, p.n), "")
		if rerr != nil {
			cls["strace_run_failed"] = true
			continue
		}
		if !killed {
			cls["injection_not_reached"] = true // counted per thread by strace: this ordinal did not occur on one thread
			continue
		}
		cls["killed_at_"+p.sc] = true
		snap := c12Snapshot(img)
		if d := c12Diff(c12Snapshot(prior), snap); d != "" {
			if dd := c12Diff(want, snap); dd != "" {
				nontrivial = true // strictly inside: some effect done, some pending
			}
		}
		var keys []string
		for k, v := range snap {
			keys = append(keys, k+"="+v)
		}
		sort.Strings(keys)
		images[frDigest([]byte(strings.Join(keys, "\n")))] = true

		var verr error
		inBubble(func(w *c12World) {
			os.Setenv("OLLAMA_MODELS", img)
			fail := func(f string, a ...any) error {
				return fmt.Errorf("process killed before its %d-th %s of %s %s: %s", p.n, p.sc, c.Op.Kind, c12Names[c.Op.Name%len(c12Names)], fmt.Sprintf(f, a...))
			}
			if serr := c12Startup(); serr != nil {
				verr = fail("the server does not start any more: %v", serr)
				return
			}
			after, aerr := c12Resolvable(img)
			if aerr != nil {
				verr = fail("after restart %v", aerr)
				return
			}
			inv := c12Involved(c.Op)
			for rel, raw := range before {
				involved := false
				for _, k := range inv {
					if strings.ToLower(rel) == k {
						involved = true
					}
				}
				if involved {
					continue
				}
				if got, ok := after[rel]; !ok {
					verr = fail("model %s, not involved in the operation, no longer resolves", rel)
					return
				} else if !bytes.Equal(got, raw) {
					verr = fail("model %s, not involved in the operation, has a changed manifest", rel)
					return
				}
			}
			if c.Op.Kind == "create" { // the client repeats its upload too (POST /api/blobs is idempotent)
				g := c04GGUFs[c.Op.GGUF%len(c04GGUFs)]
				bw := &c12Writer{hdr: http.Header{}}
				w.h.ServeHTTP(bw, httptest.NewRequest("POST", "/api/blobs/"+frDigest(g), bytes.NewReader(g)))
			}
			code, body := w.request(context.Background(), c.Op)
			synctest.Wait()
			_, hasErr := c04HasError(body)
			ok := code == 200 && !hasErr
			if refOK && !ok {
				if !(c.Op.Kind == "delete" && code == 404) {
					verr = fail("repeating the operation fails (%d %s) although an uninterrupted run succeeds", code, bytes.TrimSpace(body))
					return
				}
				cls["repeat_reports_already_done"] = true
			}
			if serr := c12Startup(); serr != nil {
				verr = fail("startup after repeating the operation failed: %v", serr)
				return
			}
			selfRef := c.Op.Kind == "createfrom" && strings.EqualFold(model.ParseName(c12Names[c.Op.Name%len(c12Names)]).String(), model.ParseName(c12Names[c.Op.Name2%len(c12Names)]).String())
			if refOK && !selfRef {
				wantCmp, gotCmp := want, c12Snapshot(img)
				if c.NoPrune {
					wantCmp, gotCmp = c12Referenced(ref, want), c12Referenced(img, gotCmp)
				}
				if d := c12Diff(wantCmp, gotCmp); d != "" {
					verr = fail("after repeating the operation the store differs from the one an uninterrupted run leaves: %s", d)
					return
				}
				cls["repeat_matches_uninterrupted"] = true
			}
			// "as an uninterrupted run would have left it" also means that what a user does next behaves the same: after a
			// pull, deleting the model and pulling it again succeeds (debris the comparison above does not see, such as
			// bookkeeping files of a finished download, must not make a later download fail)
			if c.Op.Kind == "pull" && refOK && ok {
				dcode, dbody := w.request(context.Background(), c12Op{Kind: "delete", Name: c.Op.Name})
				synctest.Wait()
				if dcode != 200 {
					verr = fail("after repeating the pull, deleting the model fails (%d %s)", dcode, bytes.TrimSpace(dbody))
					return
				}
				pcode, pbody := w.request(context.Background(), c.Op)
				synctest.Wait()
				time.Sleep(3 * time.Minute)
				synctest.Wait()
				if _, perr := c04HasError(pbody); pcode != 200 || perr {
					verr = fail("after repeating the pull, deleting the model and pulling it again fails (%d %s); after an uninterrupted pull that sequence succeeds", pcode, bytes.TrimSpace(pbody))
					return
				}
				cls["pull_delete_pull_again_ok"] = true
			}
		})
		if verr != nil {
			return nil, nontrivial, verr
		}
	}
	if len(images) > 1 {
		cls["several_distinct_crash_images"] = true
	}
	return c12Classes(cls), nontrivial, nil
}

func TestC12Syscall(t *testing.T) {
	const target = "TestC12Syscall"
	if os.Getenv("C12_CHILD") != "" {
		t.Skip("parent mode only")
	}
	rec := vfkit.Open(target)
	defer rec.Flush()
	var rc c12SysCase
	if _, ok, err := vfkit.ReplayCase(target, &rc); ok {
		if err != nil {
			t.Fatalf("replay: %v", err)
		}
		if _, _, err := c12SysRun(t, rc); err != nil {
			rec.Fail(target, rc, err.Error())
			t.Fatalf("C12 violated: %v", err)
		}
		return
	}
	rapid.Check(t, func(rt *rapid.T) {
		if rec.OverBudget() {
			return
		}
		c := c12SysGen(rt)
		classes, nt, err := c12SysRun(t, c)
		rec.Case(c, nt, classes...)
		if err != nil {
			rec.Fail(target, c, err.Error())
			rt.Fatalf("C12 violated: %v", err)
		}
	})
}
