package server

// C03 — a successful pull leaves exactly the published, digest-verified model; failed/interrupted pulls never leave
// a resolvable broken model and can be retried; no registry response crashes the server. DESIGN.md §3 C03.

import (
	"context"
	"encoding/json"
	"fmt"
	"os"
	"path/filepath"
	"reflect"
	"runtime/debug"
	"sort"
	"strings"
	"testing"
	"testing/synctest"
	"time"

	"github.com/ollama/ollama/api"
	"pgregory.net/rapid"
	"verif.local/vfkit"
)

type c03Layer struct {
	Size int  `json:"size"`
	Seed int  `json:"seed"`
	Big  bool `json:"big,omitempty"` // 100 MB (the downloader's minimum part size) + Size bytes: a real multi-part layout
}

type c03Part struct {
	Frac int `json:"frac"` // relative weight of the part's size
	Done int `json:"done"` // 0 nothing, 1 half, 2 all of the part already downloaded
	Torn int `json:"torn,omitempty"` // the part's bookkeeping file as a kill leaves it while it is being (re)written: 1 empty (created / truncated, nothing written yet), 2 cut inside its JSON
}

type c03Attempt struct {
	CancelAt int  `json:"cancel_at"`      // index into c03Cancel; 0 = never
	Gap      int  `json:"gap"`            // virtual pause after the attempt, index into c03Gap
	Twin     bool `json:"twin,omitempty"` // a second client pulls the same name at the same moment
}

type c03Case struct {
	Name       int          `json:"name"`
	Layers     []c03Layer   `json:"layers"`
	ConfigSize int          `json:"config_size"` // -1 = no config
	Prior      int          `json:"prior"`       // 0 empty store, 1 older version of the tag present, 2 leftovers of an interrupted download
	NoPrune    bool         `json:"noprune,omitempty"`  // the server runs with OLLAMA_NOPRUNE=1 (a pull then leaves the layers of the replaced version alone)
	TornOld    int          `json:"torn_old,omitempty"` // prior 1: the stored manifest as a kill leaves it while it is rewritten: 1 empty, 2 cut in half
	OldLayers  []c03Layer   `json:"old_layers,omitempty"`
	PartLayer  int          `json:"part_layer,omitempty"`
	Parts      []c03Part    `json:"parts,omitempty"`
	Faults     []frFault    `json:"faults"`
	Attempts   []c03Attempt `json:"attempts"`
}

var (
	c03Names  = []string{"reg.test/ns/m:latest", "reg.test/ns/m:v1", "m", "reg.test/NS/Model:Tag"}
	c03Sizes  = []int{0, 1, 7, 100, 1000, 4096, 5000, 20000, 70000}
	c03Gap    = []time.Duration{0, 5 * time.Second, 3 * time.Minute}
	c03Cancel = []time.Duration{0, time.Nanosecond, 50 * time.Millisecond, 500 * time.Millisecond, 5 * time.Second, 40 * time.Second}
)

const c03MinPart = 100 * 1000 * 1000 // download.go: minDownloadPartSize

var c03BigCache = map[c03Layer][]byte{}

func c03Data(l c03Layer) []byte {
	if l.Big {
		if b, ok := c03BigCache[l]; ok {
			return b
		}
		// cheap to build, yet no two 4 KiB blocks are equal (a shifted or repeated range changes the hash)
		b := make([]byte, c03MinPart+l.Size)
		for i := 0; i < len(b); i += 4096 {
			blk := b[i:min(len(b), i+4096)]
			for j := range blk {
				blk[j] = byte(j*7 + l.Seed)
			}
			n := uint32(i/4096)*2654435761 + uint32(l.Seed)
			for j := 0; j < 4 && j < len(blk); j++ {
				blk[j] = byte(n >> (8 * j))
			}
		}
		if len(c03BigCache) > 3 {
			clear(c03BigCache)
		}
		c03BigCache[l] = b
		return b
	}
	b := make([]byte, l.Size)
	x := uint32(l.Seed)*2654435761 + 12345
	for i := range b {
		x = x*1664525 + 1013904223
		b[i] = byte(x >> 24)
	}
	return b
}

func c03GenLayer(t *rapid.T) c03Layer {
	return c03Layer{Size: rapid.SampledFrom(c03Sizes).Draw(t, "size"), Seed: rapid.IntRange(0, 3).Draw(t, "seed")}
}

// c03Coin is a fair n-fold coin (rapid's integer draws over-weight range bounds, so IntRange(0,k)==0 is not 1/(k+1)).
func c03Coin(t *rapid.T, n int, label string) bool {
	for i := 0; i < n; i++ {
		if !rapid.Bool().Draw(t, label) {
			return false
		}
	}
	return true
}

func c03Gen(t *rapid.T) c03Case {
	var c c03Case
	c.Name = rapid.IntRange(0, len(c03Names)-1).Draw(t, "name")
	c.Layers = rapid.SliceOfN(rapid.Custom(c03GenLayer), 1, 4).Draw(t, "layers")
	// rarely one layer is larger than the downloader's minimum part size, so that Prepare itself lays out several parts
	if n := map[string]int{"quick": 8, "thorough": 6}[vfkit.Tier()]; c03Coin(t, max(n, 6), "big") {
		c.Layers[0].Big = true
		c.Layers[0].Size = rapid.SampledFrom([]int{1, 4096, 70000}).Draw(t, "big_extra")
	}
	c.ConfigSize = rapid.SampledFrom([]int{-1, 2, 50, 300}).Draw(t, "config")
	c.Prior = rapid.SampledFrom([]int{0, 0, 1, 2, 2}).Draw(t, "prior")
	c.NoPrune = rapid.IntRange(0, 4).Draw(t, "noprune") == 0
	if c.Prior == 1 {
		c.OldLayers = rapid.SliceOfN(rapid.Custom(c03GenLayer), 1, 3).Draw(t, "old_layers")
		c.TornOld = rapid.SampledFrom([]int{0, 0, 0, 1, 2}).Draw(t, "torn_old")
	}
	if c.Prior == 2 {
		c.PartLayer = rapid.IntRange(0, 3).Draw(t, "part_layer")
		c.Parts = rapid.SliceOfN(rapid.Custom(func(t *rapid.T) c03Part {
			return c03Part{Frac: rapid.IntRange(1, 4).Draw(t, "frac"), Done: rapid.IntRange(0, 2).Draw(t, "done"), Torn: rapid.SampledFrom([]int{0, 0, 0, 0, 0, 0, 1, 2}).Draw(t, "torn")}
		}), 1, 4).Draw(t, "parts")
	}
	nf := rapid.SampledFrom([]int{0, 1, 1, 2, 2, 3, 4}).Draw(t, "n_faults")
	for i := 0; i < nf; i++ {
		var f frFault
		f.Kind = rapid.SampledFrom([]string{"manifest", "head", "blob", "cdn", "cdn", "cdn", "token"}).Draw(t, "kind")
		f.Ord = rapid.IntRange(0, 4).Draw(t, "ord")
		f.Fault = rapid.SampledFrom(frFaultsFor[f.Kind]).Draw(t, "fault")
		f.Arg = rapid.IntRange(0, 70000).Draw(t, "arg")
		if f.Fault == "s401" || f.Fault == "s401loop" {
			f.Challenge = rapid.IntRange(0, len(frChallenges)-1).Draw(t, "challenge")
		}
		if f.Fault == "s401loop" {
			// reaching the token endpoint needs a request that was refused with a usable challenge first
			f.Challenge = []int{0, 1, 8}[f.Arg%3]
			c.Faults = append(c.Faults, frFault{Kind: "manifest", Ord: f.Ord % 2, Fault: "s401", Challenge: f.Challenge})
		}
		c.Faults = append(c.Faults, f)
	}
	na := rapid.IntRange(1, 3).Draw(t, "n_attempts")
	for i := 0; i < na; i++ {
		c.Attempts = append(c.Attempts, c03Attempt{CancelAt: rapid.SampledFrom([]int{0, 0, 0, 1, 2, 3, 4, 5}).Draw(t, "cancel_at"),
			Gap: rapid.IntRange(0, len(c03Gap)-1).Draw(t, "gap"), Twin: rapid.IntRange(0, 3).Draw(t, "twin") == 0})
	}
	return c
}

func c03Model(ls []c03Layer, configSize int) *frModel {
	m := &frModel{}
	for i, l := range ls {
		d := c03Data(l)
		mt := "application/vnd.ollama.image.model"
		if i > 0 {
			mt = []string{"application/vnd.ollama.image.template", "application/vnd.ollama.image.license", "application/vnd.ollama.image.params"}[i%3]
		}
		m.Layers = append(m.Layers, frBlob{Digest: frDigest(d), Data: d, MediaType: mt})
	}
	if configSize >= 0 {
		d := []byte(`{"model_format":"gguf","pad":"` + strings.Repeat("x", configSize) + `"}`)
		m.Config = &frBlob{Digest: frDigest(d), Data: d, MediaType: "application/vnd.docker.container.image.v1+json"}
	}
	return m
}

type c03Info struct {
	nontrivial bool
	classes    []string
}

type c03Result struct {
	err      error
	panicVal any
	stack    string
	success  bool // the progress callback saw "success"
	hung     bool
}

func c03Pull(name string, cancelAfter time.Duration) c03Result {
	r, _ := c03PullTwin(name, cancelAfter, false)
	return r
}

// c03PullTwin: with twin, a second client pulls the same name at the same moment (it never gives up): the two pulls share
// the in-flight download of every blob; each is judged on its own.
func c03PullTwin(name string, cancelAfter time.Duration, twin bool) (c03Result, *c03Result) {
	var res c03Result
	ctx, cancel := context.WithCancel(context.Background())
	defer cancel()
	run := func(ctx context.Context, res *c03Result, done chan struct{}) {
		defer close(done)
		defer func() {
			if r := recover(); r != nil {
				res.panicVal = r
				res.stack = string(debug.Stack())
			}
		}()
		res.err = PullModel(ctx, name, &registryOptions{}, func(p api.ProgressResponse) {
			if p.Status == "success" {
				res.success = true
			}
		})
	}
	done := make(chan struct{})
	go run(ctx, &res, done)
	var res2 *c03Result
	done2 := make(chan struct{})
	ctx2, cancel2 := context.WithCancel(context.Background())
	defer cancel2()
	if twin {
		res2 = &c03Result{}
		go run(ctx2, res2, done2)
	} else {
		close(done2)
	}
	limit := time.NewTimer(2 * time.Hour) // virtual
	defer limit.Stop()
	if cancelAfter > 0 {
		t := time.NewTimer(cancelAfter)
		defer t.Stop()
		select {
		case <-done:
		case <-t.C:
			cancel()
			<-done
		}
	} else {
		select {
		case <-done:
		case <-limit.C:
			res.hung = true
			cancel()
			<-done
		}
	}
	cancel()
	limit2 := time.NewTimer(2 * time.Hour) // virtual; the first timer may have fired already
	defer limit2.Stop()
	select {
	case <-done2:
	case <-limit2.C:
		res2.hung = true
		cancel2()
		<-done2
	}
	cancel2()
	synctest.Wait() // detached download goroutines wind down once the last waiter has gone
	return res, res2
}

// known findings whose class is excluded by construction while they are listed (DESIGN 2.4)
const c03KnownHeadLen = "pull-head-length-poisons-resume"

func c03Run(t *testing.T, c c03Case, rec *vfkit.Recorder) (info c03Info, err error) {
	frHome()
	if rec != nil && rec.Known(c03KnownHeadLen) {
		var keep []frFault
		for _, f := range c.Faults {
			if f.Kind == "head" && f.Fault == "lenplus" {
				rec.Excluded(c03KnownHeadLen)
				continue
			}
			keep = append(keep, f)
		}
		c.Faults = keep
	}
	dir, derr := os.MkdirTemp("", "c03-")
	if derr != nil {
		return info, nil
	}
	defer os.RemoveAll(dir)
	dir = frModelsDir(dir)
	os.Setenv("OLLAMA_MODELS", dir)
	os.Unsetenv("OLLAMA_NOPRUNE")
	if c.NoPrune {
		os.Setenv("OLLAMA_NOPRUNE", "1")
		defer os.Unsetenv("OLLAMA_NOPRUNE")
	}
	name := c03Names[c.Name%len(c03Names)]
	mp := ParseModelPath(name)
	key := mp.GetNamespaceRepository() + ":" + mp.Tag

	reg := frNewRegistry()
	undo := frInstall(reg)
	defer undo()
	cls := map[string]bool{}
	if c.NoPrune {
		cls["noprune"] = true
	}

	synctest.Test(t, func(st *testing.T) {
		fail := func(f string, a ...any) {
			if err == nil {
				reg.mu.Lock()
				tail := reg.log
				if len(tail) > 40 {
					tail = tail[len(tail)-40:]
				}
				err = fmt.Errorf(f+"\n  registry log (tail):\n    %s", append(a, strings.Join(tail, "\n    "))...)
				reg.mu.Unlock()
			}
		}
		// ---- prior local state
		var oldManifest *Manifest
		if c.Prior == 1 {
			old := c03Model(c.OldLayers, 10)
			reg.publish(key, old)
			if r := c03Pull(name, 0); r.err != nil || r.panicVal != nil {
				fail("set-up pull of the older version failed: %v %v", r.err, r.panicVal)
				return
			}
			m := old.manifest()
			oldManifest = &m
			cls["prior_old_version"] = true
			if c.TornOld > 0 {
				// an earlier update of the tag was killed while the manifest file was being rewritten in place: the name holds
				// an empty or half-written manifest (it does not resolve); the pull under test is the retry
				if mp, perr := ParseModelPath(name).GetManifestPath(); perr == nil {
					if raw, rerr := os.ReadFile(mp); rerr == nil {
						os.WriteFile(mp, raw[:len(raw)/2*(c.TornOld-1)], 0o644)
						oldManifest = nil
						cls["prior_manifest_torn"] = true
					}
				}
			}
		}
		model := c03Model(c.Layers, c.ConfigSize)
		served := model.manifest()
		reg.publish(key, model)
		if c.Prior == 2 {
			l := model.Layers[c.PartLayer%len(model.Layers)]
			fp, _ := GetBlobsPath(l.Digest)
			if _, serr := os.Stat(fp); serr != nil && len(l.Data) > 0 {
				os.MkdirAll(filepath.Dir(fp), 0o755)
				total := 0
				for _, p := range c.Parts {
					total += p.Frac
				}
				buf := make([]byte, len(l.Data))
				off := 0
				for i, p := range c.Parts {
					size := len(l.Data) * p.Frac / total
					if i == len(c.Parts)-1 {
						size = len(l.Data) - off
					}
					done := []int{0, size / 2, size}[p.Done%3]
					copy(buf[off:off+done], l.Data[off:off+done])
					js, _ := json.Marshal(map[string]any{"N": i, "Offset": off, "Size": size, "Completed": done})
					js = append(js, '\n')
					switch p.Torn {
					case 1:
						js = nil
						cls["prior_part_file_torn"] = true
					case 2:
						js = js[:len(js)/2]
						cls["prior_part_file_torn"] = true
					}
					os.WriteFile(fmt.Sprintf("%s-partial-%d", fp, i), js, 0o644)
					off += size
				}
				os.WriteFile(fp+"-partial", buf, 0o644)
				cls["prior_partial_parts"] = true
				if len(c.Parts) > 1 {
					cls["prior_multi_part"] = true
				}
			}
		}
		reg.mu.Lock()
		reg.faults = c.Faults
		reg.counts = map[string]int{}
		reg.used = nil
		reg.log = nil
		reg.mu.Unlock()

		twinFrom := -1 // >= 0 while an attempt with two clients is judged: index of the first manifest served in it
		check := func(r c03Result, what string, mustSucceed bool) bool {
			if r.panicVal != nil {
				fail("%s: the pull goroutine panicked (this kills the server): %v\n%s", what, r.panicVal, r.stack)
				return false
			}
			if r.hung {
				cls["attempt_exceeded_2h_virtual"] = true
			}
			if r.err == nil {
				cls["attempt_succeeded"] = true
				// the stored manifest is the one this attempt was served (faults size0 etc. serve variants of it)
				want := served
				reg.mu.Lock()
				if lm, ok := reg.lastManifest[key]; ok {
					want = lm
				}
				lied := map[string]bool{}
				for d := range reg.sizeLied {
					lied[d] = true
				}
				reg.mu.Unlock()
				if len(lied) > 0 {
					cls["success_after_manifest_with_wrong_sizes"] = true
				}
				serr := frCheckStore(name, &want, lied)
				if serr != nil && twinFrom >= 0 {
					// two clients pulled at once: each was served its own manifest (possibly different variants), the
					// stored one is whichever was written last - any manifest served since the attempt began qualifies
					reg.mu.Lock()
					cands := append([]Manifest{}, reg.servedManifests[key][min(twinFrom, len(reg.servedManifests[key])):]...)
					reg.mu.Unlock()
					same := true
					for i := range cands {
						if frCheckStore(name, &cands[i], lied) == nil {
							serr = nil
							break
						}
						same = same && reflect.DeepEqual(cands[i], cands[0])
					}
					if serr != nil && !same {
						// the two clients were served different manifests for one name at the same moment (one of them a
						// fault variant): whose unused layers are whose is then undefined - counted, not judged
						cls["obs_two_clients_served_different_manifests"] = true
						serr = nil
					}
				}
				if serr != nil {
					fail("%s: pull reported success but %v", what, serr)
					return false
				}
			} else {
				cls["attempt_failed"] = true
				if r.success {
					fail("%s: progress reported \"success\" but the pull returned %v", what, r.err)
					return false
				}
				if mustSucceed {
					fail("%s: a fault-free retry failed: %v", what, r.err)
					return false
				}
				// if the name resolves, it must resolve to a complete, intact model (the old version or the new one)
				if _, _, gerr := GetManifest(mp); gerr == nil {
					reg.mu.Lock()
					lied := map[string]bool{}
					for d := range reg.sizeLied {
						lied[d] = true
					}
					reg.mu.Unlock()
					if serr := frCheckStore(name, nil, lied); serr != nil {
						fail("%s: pull failed (%v) and the name now resolves to a broken model: %v", what, r.err, serr)
						return false
					}
				} else if oldManifest != nil {
					fail("%s: pull failed (%v) and the previously pulled model no longer resolves: %v", what, r.err, gerr)
					return false
				}
			}
			return true
		}
		for i, a := range c.Attempts {
			d := c03Cancel[a.CancelAt%len(c03Cancel)]
			if d > 0 {
				cls["attempt_with_cancel"] = true
			}
			twinFrom = -1
			if a.Twin {
				reg.mu.Lock()
				twinFrom = len(reg.servedManifests[key])
				reg.mu.Unlock()
			}
			r1, r2 := c03PullTwin(name, d, a.Twin)
			if !check(r1, fmt.Sprintf("attempt %d", i+1), false) {
				return
			}
			if r2 != nil {
				cls["two_clients_pull_at_once"] = true
				if r1.err != nil && r2.err != nil {
					cls["two_clients_both_fail"] = true
				}
				if !check(*r2, fmt.Sprintf("attempt %d, second client pulling the same name at the same moment", i+1), false) {
					return
				}
			}
			twinFrom = -1
			time.Sleep(c03Gap[a.Gap%len(c03Gap)])
			synctest.Wait()
		}
		reg.clearFaults()
		// "a later retry can still succeed": later = after the detached download goroutines of cancelled attempts have
		// wound down (they sleep up to 32 s between part retries and a new pull would attach to the dying download)
		time.Sleep(3 * time.Minute)
		synctest.Wait()
		// A fault-free attempt may still have to discard what an earlier attempt left (e.g. a completed part holding an
		// error body: "digest mismatch, file must be downloaded again"), so up to three are allowed; one must succeed.
		for i := 1; i <= 3; i++ {
			r := c03Pull(name, 0)
			if !check(r, fmt.Sprintf("fault-free retry %d", i), i == 3) {
				return
			}
			if r.err == nil {
				if i > 1 {
					cls["needed_second_clean_retry"] = true
				}
				break
			}
			time.Sleep(3 * time.Minute)
			synctest.Wait()
		}
	})
	for _, l := range c.Layers {
		if l.Big {
			cls["layer_over_100MB_multi_part_layout"] = true
		}
	}
	reg.mu.Lock()
	used := append([]string{}, reg.used...)
	reg.mu.Unlock()
	for _, u := range used {
		cls["fault_"+u] = true
	}
	info.nontrivial = len(used) > 0 || cls["prior_partial_parts"]
	for k := range cls {
		info.classes = append(info.classes, k)
	}
	sort.Strings(info.classes)
	return info, err
}

func TestC03Pull(t *testing.T) {
	const target = "TestC03Pull"
	rec := vfkit.Open(target)
	defer rec.Flush()
	var rc c03Case
	if rp, ok, err := vfkit.ReplayCase(target, &rc); ok {
		if err != nil {
			t.Fatalf("replay: %v", err)
		}
		rec.Current(target, rc)
		n := 1
		if rp != nil && rp.Repeat > 1 { // cases with two clients at once depend on the schedule
			n = rp.Repeat
		}
		for i := 0; i < n; i++ {
			if _, err := c03Run(t, rc, nil); err != nil {
				rec.Fail(target, rc, err.Error())
				t.Fatalf("C03 violated (run %d of %d): %v", i+1, n, err)
			}
		}
		return
	}
	rapid.Check(t, func(rt *rapid.T) {
		if rec.OverBudget() {
			return
		}
		c := c03Gen(rt)
		rec.Current(target, c)
		info, err := c03Run(t, c, rec)
		rec.Case(c, info.nontrivial, info.classes...)
		if err != nil {
			rec.Fail(target, c, err.Error())
			rt.Fatalf("C03 violated: %v", err)
		}
	})
}
