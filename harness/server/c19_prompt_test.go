package server

// C19 — chat prompt truncation (see /verif/DESIGN.md §3 C19).
//
// Generator: conversations of 1–12 messages, roles system/user/assistant/tool in any order, contents
// made of space-separated words from an alphabet without template delimiters (a word may be the
// literal placeholder "[img]"; some messages are long), 0–2 images on user messages (rarely on
// assistant/tool messages, never on system messages), a context length from 1 to beyond the
// whole conversation (mostly drawn *relative* to the token count of some suffix so that every cut
// position and both sides of every boundary are hit), five templates (three harness templates with
// unambiguous delimiters: `range .Messages`, `.System` header + range, legacy
// `.System/.Prompt/.Response`; two of the repository's own: chatml, llama3-instruct) and four model
// kinds (no projector, clip projector = 768 tokens per image, mllama with and without projector).
//
// Oracle: an independent re-computation. count(i) = whitespace tokens of the template executed on
// (system messages before i ++ msgs[i:]) + image cost; fit(i) ⇔ count(i) ≤ ctx; the retained start n is
// found by scanning from the end while fit holds (the last message is always retained). The returned
// prompt is *parsed* with the template's delimiter grammar and compared, message by message, with the
// harness's own model of the template layer (collation of consecutive same-role messages with "\n\n",
// system hoisting, legacy S?U?A? blocks): the retained messages in order, every system message before
// n, the last message always; every image of msgs[n:] exactly once as [img-k], k = its index in the
// returned list, the list holding exactly those images in order, no image of a dropped message.
// Maximality of the run is asserted only when count(i) is monotone for the case.

import (
	"bytes"
	"context"
	"encoding/binary"
	"errors"
	"fmt"
	"image"
	"image/color"
	"image/png"
	"os"
	"path/filepath"
	"regexp"
	"slices"
	"sort"
	"strconv"
	"strings"
	"sync"
	"testing"

	"pgregory.net/rapid"
	"verif.local/vfkit"

	"github.com/ollama/ollama/api"
	"github.com/ollama/ollama/llm"
	"github.com/ollama/ollama/model/models/mllama"
	"github.com/ollama/ollama/template"
)

// ------------------------------------------------------------------------------------------ case

type c19Msg struct {
	Role   string   `json:"role"`
	Words  []string `json:"words"`
	Rep    int      `json:"rep,omitempty"` // the words are repeated Rep times (long messages); 0 = once
	Images int      `json:"images,omitempty"`
	// ImgKey, if > 0, names the message's images (c19Image(ImgKey-1, j)) instead of its index in the
	// conversation; only TestC19Routes sets it (the same request judged against two message lists)
	ImgKey int `json:"img_key,omitempty"`
}

func c19ImgKey(m c19Msg, k int) int {
	if m.ImgKey > 0 {
		return m.ImgKey - 1
	}
	return k
}

type c19Case struct {
	Tmpl  string   `json:"tmpl"`  // range | syshdr | legacy | chatml | llama3
	Model string   `json:"model"` // plain | clip | mllama | mllama-noproj
	Msgs  []c19Msg `json:"msgs"`
	// context length: CtxAbs if > 0, otherwise max(1, count(CtxIdx mod len(msgs)) + CtxDelta)
	CtxAbs   int `json:"ctx_abs,omitempty"`
	CtxIdx   int `json:"ctx_idx,omitempty"`
	CtxDelta int `json:"ctx_delta,omitempty"`
	// fault: the k-th tokenizer call of the prompt construction fails (0 = never). A prompt built in spite of it must
	// still be the right one; otherwise the failure has to surface as an error (TestC19ChatPrompt only)
	TokFail int `json:"tok_fail,omitempty"`
	// number of tool definitions the request carries (template "rangetools" renders them; each costs six tokens)
	Tools int `json:"tools,omitempty"`
}

func c19Tools(n int) api.Tools {
	var ts api.Tools
	for i := 0; i < n; i++ {
		var t api.Tool
		t.Type = "function"
		t.Function.Name = fmt.Sprintf("tool%d", i)
		t.Function.Description = "does a thing or two"
		ts = append(ts, t)
	}
	return ts
}

// c19ToolsBlock is what template "rangetools" prints for n tools.
func c19ToolsBlock(n int) string {
	if n == 0 {
		return ""
	}
	s := "<<tools>> "
	for i := 0; i < n; i++ {
		s += fmt.Sprintf("tool%d does a thing or two ", i)
	}
	return s + "<<endtools>> "
}

const c19KnownSysBeforeLast = "sys-before-last-dropped"

// ------------------------------------------------------------------------------------- templates

type c19Tmpl struct {
	src     string
	file    string // repository template (read from $VERIF_REPO/template/<file>)
	kind    string // generic | syshdr | legacy
	open    string
	mid     string
	close   string
	trailer string
}

var c19Tmpls = map[string]c19Tmpl{
	"range": {
		src:  `{{ range .Messages }}<<{{ .Role }}>> {{ .Content }} <<end>> {{ end }}<<assistant>>`,
		kind: "generic", open: "<<", mid: ">> ", close: " <<end>> ", trailer: "<<assistant>>",
	},
	// "range" with a block that lists the request's tool definitions ahead of the messages: the block takes context too
	"rangetools": {
		src:  `{{ if .Tools }}<<tools>> {{ range .Tools }}{{ .Function.Name }} {{ .Function.Description }} {{ end }}<<endtools>> {{ end }}{{ range .Messages }}<<{{ .Role }}>> {{ .Content }} <<end>> {{ end }}<<assistant>>`,
		kind: "generic", open: "<<", mid: ">> ", close: " <<end>> ", trailer: "<<assistant>>",
	},
	"syshdr": {
		src: `{{ if .System }}<<SYS>> {{ .System }} <<end>> {{ end }}` +
			`{{ range .Messages }}{{ if ne .Role "system" }}<<{{ .Role }}>> {{ .Content }} <<end>> {{ end }}{{ end }}<<assistant>>`,
		kind: "syshdr", open: "<<", mid: ">> ", close: " <<end>> ", trailer: "<<assistant>>",
	},
	"legacy": {
		src: `{{ if .System }}<<S>> {{ .System }} <<end>> {{ end }}` +
			`{{ if .Prompt }}<<U>> {{ .Prompt }} <<end>> {{ end }}<<A>> {{ .Response }} <<end>> `,
		kind: "legacy",
	},
	"chatml": {
		file: "chatml.gotmpl",
		kind: "generic", open: "<|im_start|>", mid: "\n", close: "<|im_end|>\n", trailer: "<|im_start|>assistant\n",
	},
	// the repository's command-r template prints {{ .System }} once and skips the system role inside
	// `range .Messages`; it has its own grammar (c19ParseCommandR). Drawn by TestC19Routes only.
	"commandr": {file: "command-r.gotmpl", kind: "commandr"},
	"llama3": {
		file: "llama3-instruct.gotmpl",
		kind: "generic", open: "<|start_header_id|>", mid: "<|end_header_id|>\n\n", close: "<|eot_id|>",
		trailer: "<|start_header_id|>assistant<|end_header_id|>\n\n",
	},
}

var (
	c19ParsedMu sync.Mutex
	c19Parsed   = map[string]*template.Template{}
)

// c19Template returns the parsed template; ok=false means the repository template file could not be
// read (an environment problem, never a verdict).
func c19Template(name string) (tk c19Tmpl, tm *template.Template, ok bool, err error) {
	tk, found := c19Tmpls[name]
	if !found {
		return tk, nil, false, nil
	}
	c19ParsedMu.Lock()
	defer c19ParsedMu.Unlock()
	if tm, ok := c19Parsed[name]; ok {
		return tk, tm, tm != nil, nil
	}
	src := tk.src
	if tk.file != "" {
		repo := os.Getenv("VERIF_REPO")
		if repo == "" {
			repo = "/repo"
		}
		b, rerr := os.ReadFile(filepath.Join(repo, "template", tk.file))
		if rerr != nil {
			c19Parsed[name] = nil
			return tk, nil, false, nil
		}
		src = string(bytes.ReplaceAll(b, []byte("\r\n"), []byte("\n")))
	}
	tm, err = template.Parse(src)
	if err != nil {
		return tk, nil, false, fmt.Errorf("template %s does not parse: %v", name, err)
	}
	c19Parsed[name] = tm
	return tk, tm, true, nil
}

// ----------------------------------------------------------------------------------------- model

func c19Model(kind string, tm *template.Template) (m *Model, imgCost int, isMllama, preprocess bool, ok bool) {
	switch kind {
	case "plain":
		return &Model{Template: tm}, 0, false, false, true
	case "clip":
		return &Model{Template: tm, ProjectorPaths: []string{"vision"}}, 768, false, false, true
	case "mllama":
		return &Model{Template: tm, ProjectorPaths: []string{"vision"}, Config: ConfigV2{ModelFamilies: []string{"mllama"}}}, 1, true, true, true
	case "mllama-noproj":
		return &Model{Template: tm, Config: ConfigV2{ModelFamilies: []string{"mllama"}}}, 0, true, false, true
	}
	return nil, 0, false, false, false
}

var (
	c19PNGMu    sync.Mutex
	c19PNGCache = map[[2]int][]byte{}
	c19PreCache = map[[2]int][]byte{}
	c19PreAR    = map[[2]int]int{}
)

// c19Image returns the bytes of image j of message k: an opaque unique string, or (for the mllama
// projector path, which decodes the image) a small PNG whose size and colour identify it.
func c19Image(k, j int, png_ bool) []byte {
	if !png_ {
		return []byte(fmt.Sprintf("image-of-message-%d-number-%d", k, j))
	}
	c19PNGMu.Lock()
	defer c19PNGMu.Unlock()
	key := [2]int{k, j}
	if b, ok := c19PNGCache[key]; ok {
		return b
	}
	img := image.NewRGBA(image.Rect(0, 0, 2+k%3, 2+j))
	for y := 0; y < img.Rect.Dy(); y++ {
		for x := 0; x < img.Rect.Dx(); x++ {
			img.Set(x, y, color.RGBA{uint8(20 * (k + 1)), uint8(100 * (j + 1)), uint8(7 * k), 255})
		}
	}
	var buf bytes.Buffer
	if err := png.Encode(&buf, img); err != nil {
		panic(err)
	}
	c19PNGCache[key] = buf.Bytes()
	return buf.Bytes()
}

// c19Preprocessed is what the mllama projector path is documented (by the existing tests) to send:
// the little-endian float32 output of mllama.Preprocess and its aspect ratio index.
func c19Preprocessed(k, j int) ([]byte, int, error) {
	raw := c19Image(k, j, true)
	c19PNGMu.Lock()
	defer c19PNGMu.Unlock()
	key := [2]int{k, j}
	if b, ok := c19PreCache[key]; ok {
		return b, c19PreAR[key], nil
	}
	data, opts, err := mllama.Preprocess(bytes.NewReader(raw))
	if err != nil {
		return nil, 0, err
	}
	buf := new(bytes.Buffer)
	if err := binary.Write(buf, binary.LittleEndian, data); err != nil {
		return nil, 0, err
	}
	ar, _ := opts["aspectRatioIndex"].(int)
	c19PreCache[key] = buf.Bytes()
	c19PreAR[key] = ar
	return buf.Bytes(), ar, nil
}

// ------------------------------------------------------------------------------------- generator

var c19Words = []string{"a", "b", "cc", "dd", "eee", "fgh", "i", "jk", "lmn", "o", "[img]"}

func c19Gen(t *rapid.T) c19Case {
	var c c19Case
	c.Tmpl = rapid.SampledFrom([]string{"range", "range", "rangetools", "rangetools", "syshdr", "syshdr", "legacy", "legacy", "legacy", "chatml", "llama3"}).Draw(t, "tmpl")
	c.Model = rapid.SampledFrom([]string{"plain", "plain", "plain", "plain", "plain", "plain", "plain", "plain", "plain",
		"clip", "clip", "clip", "clip", "clip", "clip", "clip", "clip",
		"mllama-noproj", "mllama-noproj", "mllama"}).Draw(t, "model")
	roles := []string{"user", "user", "user", "user", "assistant", "assistant", "assistant", "system", "system", "tool"}
	if c.Tmpl == "legacy" {
		roles = roles[:9] // legacy templates have no notion of a tool message
	}
	c.Msgs = rapid.SliceOfN(rapid.Custom(func(t *rapid.T) c19Msg { return c19GenMsg(t, roles) }), 1, 12).Draw(t, "msgs")
	c.CtxAbs, c.CtxIdx, c.CtxDelta = c19GenCtx(t, len(c.Msgs))
	if c.Tmpl == "rangetools" {
		c.Tools = rapid.IntRange(0, 3).Draw(t, "tools")
	}
	// one conversation in five attaches the same picture(s) again in later turns: equal bytes are still separate images
	if rapid.IntRange(0, 4).Draw(t, "same_images") == 0 {
		for i := range c.Msgs {
			if c.Msgs[i].Images > 0 {
				c.Msgs[i].ImgKey = 1
			}
		}
	}
	if rapid.IntRange(0, 7).Draw(t, "has_tok_fail") == 0 {
		c.TokFail = rapid.IntRange(1, 6).Draw(t, "tok_fail")
	}
	return c
}

// c19GenMsg draws one message with a role from roles (shared with TestC19Routes).
func c19GenMsg(t *rapid.T, roles []string) c19Msg {
	var m c19Msg
	m.Role = rapid.SampledFrom(roles).Draw(t, "role")
	switch m.Role {
	case "user":
		m.Images = rapid.SampledFrom([]int{0, 0, 0, 0, 1, 1, 2}).Draw(t, "images")
	case "assistant", "tool": // the API accepts images on any message; rare in practice
		m.Images = rapid.SampledFrom([]int{0, 0, 0, 0, 0, 0, 0, 0, 0, 1, 2}).Draw(t, "images")
	}
	minw := 1
	if m.Images > 0 {
		minw = 0
	}
	m.Words = rapid.SliceOfN(rapid.SampledFrom(c19Words), minw, 6).Draw(t, "words")
	m.Rep = rapid.SampledFrom([]int{0, 0, 0, 0, 0, 0, 0, 0, 2, 3, 25}).Draw(t, "rep")
	return m
}

// c19GenCtx draws the context length of a conversation of n messages: absolute, or (mostly) relative
// to the token count of a drawn suffix so that both sides of every cut are hit (shared with TestC19Routes).
func c19GenCtx(t *rapid.T, n int) (abs, idx, delta int) {
	switch rapid.IntRange(0, 9).Draw(t, "ctxmode") {
	case 0:
		abs = rapid.IntRange(1, 60).Draw(t, "ctxsmall")
	case 1:
		abs = rapid.SampledFrom([]int{1, 2, 767, 768, 769, 800, 1536, 1560, 2304, 2400, 4096, 100000}).Draw(t, "ctxabs")
	default:
		idx = rapid.IntRange(0, n-1).Draw(t, "ctxidx")
		delta = rapid.SampledFrom([]int{-3, -1, -1, 0, 0, 0, 1, 2, 5}).Draw(t, "ctxdelta")
	}
	return abs, idx, delta
}

// ----------------------------------------------------------------------------------- the oracle

type c19Info struct {
	nontrivial bool
	classes    []string
	excluded   []string
	summary    string // ctx, counts, retained start, returned prompt (shown by --replay)
}

type c19Opts struct {
	tolerateSysBeforeLast bool // known finding switched on: that class is checked without the lost message
}

// c19Field is one delimited field of a prompt: what the grammar found (content) or what the model
// of the template layer expects (idx = the original messages whose contents are joined in it).
type c19Field struct {
	label   string
	content string
	idx     []int
}

func c19Content(m c19Msg) string {
	w := m.Words
	for r := 1; r < min(m.Rep, 100); r++ {
		w = append(w[:len(w):len(w)], m.Words...)
	}
	return strings.Join(w, " ")
}

func c19NumImages(m c19Msg, isMllama bool) int {
	if m.Role == "system" || m.Images <= 0 {
		return 0
	}
	n := min(m.Images, 2)
	if isMllama {
		n = 1 // the mllama family rejects more than one image per message (errTooManyImages)
	}
	return n
}

// c19Retained is the message list the statement describes for retained start n: system messages
// before n, then msgs[n:]; skip removes one index (known-finding handling only).
func c19Retained(c c19Case, n, skip int) []int {
	var l []int
	for j := range c.Msgs {
		if j == skip {
			continue
		}
		if j >= n || c.Msgs[j].Role == "system" {
			l = append(l, j)
		}
	}
	return l
}

// c19Collate is the documented collation: consecutive messages of the same role become one message.
func c19Collate(c c19Case, list []int) []c19Field {
	var out []c19Field
	for _, k := range list {
		r := c.Msgs[k].Role
		if len(out) > 0 && out[len(out)-1].label == r {
			out[len(out)-1].idx = append(out[len(out)-1].idx, k)
		} else {
			out = append(out, c19Field{label: r, idx: []int{k}})
		}
	}
	return out
}

func c19Expect(c c19Case, kind string, list []int) []c19Field {
	col := c19Collate(c, list)
	switch kind {
	case "generic":
		return col
	case "syshdr", "commandr":
		var out []c19Field
		var sys []int
		for _, k := range list {
			if c.Msgs[k].Role == "system" {
				sys = append(sys, k)
			}
		}
		if len(sys) > 0 {
			out = append(out, c19Field{label: "SYS", idx: sys})
		}
		for _, f := range col {
			if f.label != "system" {
				out = append(out, f)
			}
		}
		return out
	case "legacy":
		// a legacy template is executed once per turn; a turn is at most one system, then at most
		// one user, then at most one assistant message (after collation), taken greedily.
		rank := map[string]int{"system": 0, "user": 1, "assistant": 2}
		lab := map[string]string{"system": "S", "user": "U", "assistant": "A"}
		var out []c19Field
		prev := -1
		for _, f := range col {
			r := rank[f.label]
			if prev >= 0 && r <= prev {
				out = append(out, c19Field{label: "|"})
			}
			out = append(out, c19Field{label: lab[f.label], idx: f.idx})
			prev = r
		}
		return out
	}
	return nil
}

func c19ParseGeneric(tk c19Tmpl, p string) ([]c19Field, error) {
	var out []c19Field
	rest := p
	for {
		if rest == tk.trailer {
			return out, nil
		}
		if !strings.HasPrefix(rest, tk.open) {
			return nil, fmt.Errorf("expected %q at offset %d", tk.open, len(p)-len(rest))
		}
		rest = rest[len(tk.open):]
		i := strings.Index(rest, tk.mid)
		if i < 0 {
			return nil, fmt.Errorf("unterminated role at offset %d", len(p)-len(rest))
		}
		role := rest[:i]
		rest = rest[i+len(tk.mid):]
		j := strings.Index(rest, tk.close)
		if j < 0 {
			return nil, fmt.Errorf("unterminated message (role %q) at offset %d", role, len(p)-len(rest))
		}
		out = append(out, c19Field{label: role, content: rest[:j]})
		rest = rest[j+len(tk.close):]
	}
}

func c19ParseLegacy(p string) ([]c19Field, error) {
	const end = " <<end>> "
	var out []c19Field
	rest := p
	for {
		for _, l := range []string{"S", "U"} {
			if pre := "<<" + l + ">> "; strings.HasPrefix(rest, pre) {
				rest = rest[len(pre):]
				i := strings.Index(rest, end)
				if i < 0 {
					return nil, fmt.Errorf("unterminated %s field at offset %d", l, len(p)-len(rest))
				}
				out = append(out, c19Field{label: l, content: rest[:i]})
				rest = rest[i+len(end):]
			}
		}
		if !strings.HasPrefix(rest, "<<A>> ") {
			return nil, fmt.Errorf("expected <<A>> at offset %d", len(p)-len(rest))
		}
		rest = rest[len("<<A>> "):]
		i := strings.Index(rest, end)
		if i < 0 { // the final turn: everything after .Response is cut by the template layer
			if rest != "" {
				out = append(out, c19Field{label: "A", content: rest})
			}
			return out, nil
		}
		if i > 0 {
			out = append(out, c19Field{label: "A", content: rest[:i]})
		}
		rest = rest[i+len(end):]
		out = append(out, c19Field{label: "|"})
	}
}

// c19ParseCommandR parses a prompt of the repository's command-r template (without tools): an optional
// system turn holding .System, one turn per non-system message, the generation trailer.
func c19ParseCommandR(p string) ([]c19Field, error) {
	const (
		start   = "<|START_OF_TURN_TOKEN|>"
		end     = "<|END_OF_TURN_TOKEN|>"
		sysTok  = "<|SYSTEM_TOKEN|>"
		toolPre = "<|SYSTEM_TOKEN|><results>\nconsole_output: "
		toolSuf = "\n</results>"
		trailer = end + start + "<|CHATBOT_TOKEN|>"
	)
	var out []c19Field
	rest := p
	for {
		if rest == trailer || rest == trailer+"\n" { // the template file ends with a newline
			return out, nil
		}
		if !strings.HasPrefix(rest, start) {
			return nil, fmt.Errorf("expected %q at offset %d", start, len(p)-len(rest))
		}
		rest = rest[len(start):]
		i := strings.Index(rest, end)
		if i < 0 {
			return nil, fmt.Errorf("unterminated turn at offset %d", len(p)-len(rest))
		}
		turn := rest[:i]
		rest = rest[i+len(end):]
		switch {
		case strings.HasPrefix(turn, toolPre) && strings.HasSuffix(turn, toolSuf) && len(turn) >= len(toolPre)+len(toolSuf):
			out = append(out, c19Field{label: "tool", content: turn[len(toolPre) : len(turn)-len(toolSuf)]})
		case strings.HasPrefix(turn, sysTok):
			if len(out) > 0 {
				return nil, fmt.Errorf("system turn after %d other turns", len(out))
			}
			out = append(out, c19Field{label: "SYS", content: turn[len(sysTok):]})
		case strings.HasPrefix(turn, "<|USER_TOKEN|>"):
			out = append(out, c19Field{label: "user", content: turn[len("<|USER_TOKEN|>"):]})
		case strings.HasPrefix(turn, "<|CHATBOT_TOKEN|>"):
			out = append(out, c19Field{label: "assistant", content: turn[len("<|CHATBOT_TOKEN|>"):]})
		default:
			return nil, fmt.Errorf("turn %q has no role token", turn)
		}
	}
}

var c19TagRe = regexp.MustCompile(`\[img-(\d+)\]`)

// c19CheckPiece compares the text found for one original message with that message: its text is
// unchanged apart from image tags, each of its images is tagged exactly once, nothing else is tagged.
func c19CheckPiece(piece, content string, ids []int, isMllama bool) error {
	var got []int
	for _, f := range c19TagRe.FindAllStringSubmatch(piece, -1) {
		v, _ := strconv.Atoi(f[1])
		got = append(got, v)
	}
	sort.Ints(got)
	want := append([]int{}, ids...)
	sort.Ints(want)
	if !slices.Equal(got, want) {
		return fmt.Errorf("image tags %v, want each of %v exactly once", got, want)
	}
	text := c19TagRe.ReplaceAllString(piece, "")
	if isMllama && len(ids) > 0 {
		if n := strings.Count(text, "<|image|>"); n != 1 {
			return fmt.Errorf("%d <|image|> markers in a message with an image (mllama family), want 1", n)
		}
		text = strings.Replace(text, "<|image|>", "", 1)
	}
	wantPh := max(0, strings.Count(content, "[img]")-len(ids))
	if n := strings.Count(text, "[img]"); n != wantPh {
		return fmt.Errorf("%d [img] placeholders left, want %d", n, wantPh)
	}
	if g, w := strings.ReplaceAll(text, "[img]", ""), strings.ReplaceAll(content, "[img]", ""); g != w {
		return fmt.Errorf("text %q, want %q", g, w)
	}
	return nil
}

type c19Result struct {
	prompt string
	fields []c19Field
	images []llm.ImageData
}

// c19Compare checks the parsed prompt and the returned images against the statement for retained
// start n (skip: see c19Retained).
func c19Compare(c c19Case, kind string, isMllama, preprocess bool, res c19Result, n, skip int) error {
	ids := map[int][]int{}
	type imgRef struct{ k, j int }
	var order []imgRef
	for k := n; k < len(c.Msgs); k++ {
		for j := 0; j < c19NumImages(c.Msgs[k], isMllama); j++ {
			ids[k] = append(ids[k], len(order))
			order = append(order, imgRef{k, j})
		}
	}
	exp := c19Expect(c, kind, c19Retained(c, n, skip))
	describe := func(fs []c19Field, expected bool) string {
		var sb strings.Builder
		for _, f := range fs {
			if expected {
				fmt.Fprintf(&sb, "[%s %v]", f.label, f.idx)
			} else {
				fmt.Fprintf(&sb, "[%s %q]", f.label, f.content)
			}
		}
		return sb.String()
	}
	if len(exp) != len(res.fields) {
		return fmt.Errorf("prompt has %d fields %s, want %d: %s (label + indices of the original messages)",
			len(res.fields), describe(res.fields, false), len(exp), describe(exp, true))
	}
	for i, e := range exp {
		g := res.fields[i]
		if g.label != e.label {
			return fmt.Errorf("field %d is %q, want %q; got %s want %s", i, g.label, e.label, describe(res.fields, false), describe(exp, true))
		}
		if e.label == "|" {
			continue
		}
		pieces := strings.Split(g.content, "\n\n")
		if len(pieces) != len(e.idx) {
			return fmt.Errorf("field %d (%s) holds %d collated messages %q, want messages %v", i, e.label, len(pieces), pieces, e.idx)
		}
		for pi, k := range e.idx {
			if err := c19CheckPiece(pieces[pi], c19Content(c.Msgs[k]), ids[k], isMllama); err != nil {
				return fmt.Errorf("message %d (%s) in field %d: %v", k, c.Msgs[k].Role, i, err)
			}
		}
	}
	// every tag of the prompt refers to exactly one returned image (fields cover the whole prompt
	// except delimiters, which hold no tag; checked anyway)
	all := c19TagRe.FindAllString(res.prompt, -1)
	if len(all) != len(order) {
		return fmt.Errorf("%d image tags in the prompt, want %d", len(all), len(order))
	}
	if len(res.images) != len(order) {
		return fmt.Errorf("%d images returned, want %d (images of msgs[%d:])", len(res.images), len(order), n)
	}
	for i, r := range order {
		if res.images[i].ID != i {
			return fmt.Errorf("returned image %d has ID %d", i, res.images[i].ID)
		}
		key := c19ImgKey(c.Msgs[r.k], r.k)
		want := c19Image(key, r.j, preprocess)
		if preprocess {
			b, ar, err := c19Preprocessed(key, r.j)
			if err != nil {
				return nil // environment: harness image not decodable (cannot happen); no verdict
			}
			want = b
			if res.images[i].AspectRatioID != ar {
				return fmt.Errorf("returned image %d has aspect ratio id %d, want %d", i, res.images[i].AspectRatioID, ar)
			}
		}
		if !bytes.Equal(res.images[i].Data, want) {
			return fmt.Errorf("returned image %d is not image %d of message %d", i, r.j, r.k)
		}
	}
	return nil
}

func c19Tokenize(_ context.Context, s string) ([]int, error) {
	return make([]int, len(strings.Fields(s))), nil
}

// c19Ref is the reference computation for one conversation: what the statement says about it before
// any code under test has run (template, model kind, the messages as the client holds them, the
// token count of every candidate window, the context length, the retained start n). It is shared by
// TestC19ChatPrompt (which calls chatPrompt itself) and TestC19Routes (which sends the conversation
// through the router and judges what reached the runner).
type c19Ref struct {
	c          c19Case
	tk         c19Tmpl
	tm         *template.Template
	m          *Model
	imgCost    int
	isMllama   bool
	preprocess bool
	count      []int
	ctx        int
	n          int
	last       int
	mono       bool
	knownClass bool
}

func (r *c19Ref) fit(i int) bool { return r.count[i] <= r.ctx }

// build returns the conversation as API messages (a fresh copy: chatPrompt edits its argument).
func (r *c19Ref) build() []api.Message {
	msgs := make([]api.Message, len(r.c.Msgs))
	for k, mm := range r.c.Msgs {
		msgs[k] = api.Message{Role: mm.Role, Content: c19Content(mm)}
		for j := 0; j < c19NumImages(mm, r.isMllama); j++ {
			msgs[k].Images = append(msgs[k].Images, api.ImageData(c19Image(c19ImgKey(mm, k), j, r.preprocess)))
		}
	}
	return msgs
}

// c19Prepare validates the case and computes the reference. ref == nil with a nil error means the
// case is outside the input domain (counted as invalid_case_*; only hand-written replays get there).
func c19Prepare(c c19Case) (ref *c19Ref, info c19Info, err error) {
	invalid := func(why string) (*c19Ref, c19Info, error) {
		info.classes = append(info.classes, "invalid_case_"+why)
		return nil, info, nil
	}
	tk, tm, ok, terr := c19Template(c.Tmpl)
	if terr != nil {
		return nil, info, terr
	}
	if !ok {
		return invalid("template")
	}
	m, imgCost, isMllama, preprocess, ok := c19Model(c.Model, tm)
	if !ok {
		return invalid("model")
	}
	if len(c.Msgs) == 0 || len(c.Msgs) > 64 {
		return invalid("nmsgs")
	}
	for _, mm := range c.Msgs {
		switch mm.Role {
		case "system", "user", "assistant":
		case "tool":
			if tk.kind == "legacy" {
				return invalid("legacy_tool")
			}
		default:
			return invalid("role")
		}
		if len(mm.Words) == 0 && c19NumImages(mm, isMllama) == 0 {
			return invalid("empty_content")
		}
		for _, w := range mm.Words {
			if w != "[img]" && (w == "" || strings.Trim(w, "abcdefghijklmnopqrstuvwxyz") != "") {
				return invalid("word")
			}
		}
	}
	ref = &c19Ref{c: c, tk: tk, tm: tm, m: m, imgCost: imgCost, isMllama: isMllama, preprocess: preprocess}
	last := len(c.Msgs) - 1
	ref.last = last

	// independent fit computation
	orig := ref.build()
	count := make([]int, len(orig))
	for i := range orig {
		var list []api.Message
		for j := 0; j < i; j++ {
			if orig[j].Role == "system" {
				list = append(list, orig[j])
			}
		}
		list = append(list, orig[i:]...)
		var b bytes.Buffer
		if err := tm.Execute(&b, template.Values{Messages: list, Tools: c19Tools(c.Tools)}); err != nil {
			return nil, info, fmt.Errorf("template %s failed on messages %d..: %v", c.Tmpl, i, err)
		}
		count[i] = len(strings.Fields(b.String()))
		for _, mm := range orig[i:] {
			count[i] += imgCost * len(mm.Images)
		}
	}
	ref.count = count
	ctx := c.CtxAbs
	if ctx <= 0 {
		ctx = max(1, count[((c.CtxIdx%len(count))+len(count))%len(count)]+c.CtxDelta)
	}
	ref.ctx = ctx
	fit := ref.fit
	n := last
	for i := last - 1; i >= 0; i-- {
		if !fit(i) {
			break
		}
		n = i
	}
	ref.n = n
	mono := true
	for i := 0; i+1 < last; i++ {
		if count[i] < count[i+1] {
			mono = false
		}
	}
	ref.mono = mono
	knownClass := last >= 1 && c.Msgs[last-1].Role == "system" && !fit(last-1)
	ref.knownClass = knownClass

	// classes
	cl := func(s string) {
		if !slices.Contains(info.classes, s) {
			info.classes = append(info.classes, s)
		}
	}
	cl("tmpl_" + c.Tmpl)
	cl("model_" + c.Model)
	var dropped, imgDropped, imgRetained, sysBefore, sysAfter, totalImages, totalSys int
	for k, mm := range c.Msgs {
		ni := c19NumImages(mm, isMllama)
		totalImages += ni
		if mm.Role == "system" {
			totalSys++
			if k < n {
				sysBefore++
			} else {
				sysAfter++
			}
			continue
		}
		if k < n {
			dropped++
			imgDropped += ni
		} else {
			imgRetained += ni
		}
		if ni == 2 {
			cl("two_images_one_message")
		}
		if ni > 0 && slices.Contains(mm.Words, "[img]") {
			cl("placeholder_with_image")
		}
		if ni > 0 && len(mm.Words) == 0 {
			cl("image_only_message")
		}
		if ni > 0 && mm.Role != "user" {
			cl("image_on_non_user_message")
		}
		if mm.Rep > 3 {
			cl("long_message")
		}
	}
	switch {
	case last == 0:
		cl("single_message")
	case n == 0:
		cl("everything_fits")
	case n == last:
		cl("only_last_fits")
	default:
		cl("cut_inside")
	}
	if dropped > 0 {
		cl("dropped_messages")
	}
	if imgDropped > 0 {
		cl("image_on_dropped")
	}
	if imgRetained > 0 {
		cl("image_on_retained")
	}
	if imgDropped > 0 && imgRetained > 0 {
		cl("image_on_both_sides")
	}
	if sysBefore > 0 {
		cl("system_before_cut")
	}
	if sysAfter > 0 && n > 0 {
		cl("system_after_cut")
	}
	if sysBefore > 0 && sysAfter > 0 {
		cl("system_on_both_sides")
	}
	if n > 0 && count[n-1] == ctx+1 {
		cl("boundary_one_token_short")
	}
	if n < last && count[n] == ctx {
		cl("boundary_exact_fit")
	}
	if !mono {
		cl("nonmonotone_counts")
	}
	if c.Msgs[last].Role != "user" {
		cl("last_is_" + c.Msgs[last].Role)
	}
	for k := 1; k < len(c.Msgs); k++ {
		if k >= n && c.Msgs[k].Role == c.Msgs[k-1].Role && (k-1 >= n || c.Msgs[k].Role == "system") {
			cl("collated_messages")
			break
		}
	}
	if knownClass {
		cl("class_" + c19KnownSysBeforeLast)
	}
	info.nontrivial = mono && dropped > 0 && (totalSys > 0 || totalImages > 0)
	return ref, info, nil
}

// c19Judge compares what the code under test produced for the conversation of ref (the prompt and the
// image list, or the error cerr; producer names who produced them, for messages only) with the
// statement. info is the one c19Prepare returned; summary and exclusions are added to it.
func c19Judge(ref *c19Ref, o c19Opts, info c19Info, producer, prompt string, images []llm.ImageData, cerr error) (c19Info, error) {
	c, tk, n, last := ref.c, ref.tk, ref.n, ref.last
	isMllama, preprocess, mono, knownClass, fit := ref.isMllama, ref.preprocess, ref.mono, ref.knownClass, ref.fit
	head := fmt.Sprintf("ctx=%d counts=%v retained start n=%d prompt=%q", ref.ctx, ref.count, n, prompt)
	info.summary = fmt.Sprintf("%s images=%d classes=%v", head, len(images), info.classes)
	if cerr != nil {
		if errors.Is(cerr, errTooManyImages) {
			return info, fmt.Errorf("%s rejected a conversation with at most one image per message: %v; %s", producer, cerr, head)
		}
		return info, fmt.Errorf("%s failed: %v; %s", producer, cerr, head)
	}
	if blk := c19ToolsBlock(c.Tools); blk != "" && c.Tmpl == "rangetools" {
		// the tool block is not a message: it is taken off before the prompt is read back (its cost is in the counts)
		info.classes = append(info.classes, "request_with_tools")
		if !strings.HasPrefix(prompt, blk) {
			return info, fmt.Errorf("the prompt does not begin with the template's block for the request's %d tools; %s", c.Tools, head)
		}
		prompt = prompt[len(blk):]
	}
	res := c19Result{prompt: prompt, images: images}
	var perr error
	switch tk.kind {
	case "legacy":
		res.fields, perr = c19ParseLegacy(prompt)
	case "commandr":
		res.fields, perr = c19ParseCommandR(prompt)
	default:
		res.fields, perr = c19ParseGeneric(tk, prompt)
	}
	if perr != nil {
		return info, fmt.Errorf("prompt does not follow the template's grammar: %v; %s", perr, head)
	}

	skip := -1
	if knownClass && o.tolerateSysBeforeLast {
		skip = last - 1
		info.excluded = append(info.excluded, c19KnownSysBeforeLast)
	}
	first := c19Compare(c, tk.kind, isMllama, preprocess, res, n, skip)
	if first == nil {
		return info, nil
	}
	if !mono {
		// "longest recent run that fits" is ambiguous when a longer run can be cheaper than a
		// shorter one: accept any run that fits (or the last message alone); maximality not asserted
		for i := 0; i <= last; i++ {
			if i != n && (i == last || fit(i)) && c19Compare(c, tk.kind, isMllama, preprocess, res, i, skip) == nil {
				return info, nil
			}
		}
	}
	// diagnosis
	if knownClass && skip < 0 && c19Compare(c, tk.kind, isMllama, preprocess, res, n, last-1) == nil {
		return info, fmt.Errorf("[%s] system message %d, immediately before the last message, is missing from the prompt "+
			"(only the last message fits); every other system message before the retained run is present; %s", c19KnownSysBeforeLast, last-1, head)
	}
	for i := 0; i <= last; i++ {
		if i != n && c19Compare(c, tk.kind, isMllama, preprocess, res, i, skip) == nil {
			why := "more than fits was kept"
			if i > n {
				why = "a longer run fits"
			}
			return info, fmt.Errorf("prompt holds msgs[%d:] but the retained run should start at %d (%s); %s", i, n, why, head)
		}
	}
	return info, fmt.Errorf("%v; %s", first, head)
}

func c19Run(c c19Case, o c19Opts) (info c19Info, err error) {
	ref, info, err := c19Prepare(c)
	if err != nil || ref == nil {
		return info, err
	}
	// the code under test
	in := ref.build()
	calls, hit := 0, false
	tok := func(ctx context.Context, s string) ([]int, error) {
		calls++
		if c.TokFail > 0 && calls == c.TokFail {
			hit = true
			return nil, errors.New("harness: tokenizer fault (runner not responding)")
		}
		return c19Tokenize(ctx, s)
	}
	prompt, images, cerr := chatPrompt(context.Background(), ref.m, tok, &api.Options{Runner: api.Runner{NumCtx: ref.ctx}}, in, c19Tools(c.Tools))
	if hit {
		info.classes = append(info.classes, "tokenizer_fault_hit")
		if cerr != nil {
			info.classes = append(info.classes, "tokenizer_fault_surfaced")
			return info, nil // the request fails: no prompt was built from a conversation the tokenizer could not size
		}
		// a prompt was built although sizing failed: it is judged like any other
		info, err = c19Judge(ref, o, info, "chatPrompt", prompt, images, cerr)
		if err != nil {
			err = fmt.Errorf("tokenizer call %d failed, chatPrompt reported no error, and: %v", c.TokFail, err)
		}
		return info, err
	}
	return c19Judge(ref, o, info, "chatPrompt", prompt, images, cerr)
}

// ------------------------------------------------------------------------------------------ test

func c19Assumed(name string) bool {
	return slices.Contains(strings.Split(os.Getenv("VERIF_ASSUME_KNOWN"), ","), name)
}

func TestC19ChatPrompt(t *testing.T) {
	const target = "TestC19ChatPrompt"
	rec := vfkit.Open(target)
	defer rec.Flush()
	var rc c19Case
	if rp, ok, err := vfkit.ReplayCase(target, &rc); ok {
		if err != nil {
			t.Fatalf("replay: %v", err)
		}
		// replays run the strict oracle: a replay of a known finding must fail while the defect exists
		info, err := c19Run(rc, c19Opts{})
		t.Logf("replay: %s", info.summary)
		if err != nil {
			if rp.Expect == "known:"+c19KnownSysBeforeLast && strings.HasPrefix(err.Error(), "["+c19KnownSysBeforeLast+"]") {
				rec.KnownHit(c19KnownSysBeforeLast, err.Error())
				if c19Assumed(c19KnownSysBeforeLast) { // development aid: the driver does not know the finding yet
					t.Logf("KNOWN-FINDING (assumed): property=C19 %v", err)
					return
				}
			}
			rec.Fail(target, rc, err.Error())
			t.Fatalf("C19 violated: %v", err)
		}
		return
	}
	opts := c19Opts{tolerateSysBeforeLast: rec.Known(c19KnownSysBeforeLast)}
	rapid.Check(t, func(rt *rapid.T) {
		if rec.OverBudget() {
			return
		}
		c := c19Gen(rt)
		info, err := c19Run(c, opts)
		for _, e := range info.excluded {
			rec.Excluded(e)
		}
		rec.Case(c, info.nontrivial, info.classes...)
		if err != nil {
			rec.Fail(target, c, err.Error())
			rt.Fatalf("C19 violated: %v", err)
		}
	})
}
