package server

// C09, push side, legacy implementation: PushModel / uploadBlob / blobUpload.Run (the push path the
// server actually serves) against the recording fake registry of package verifc09reg, installed as
// http.DefaultTransport for the duration of a case (makeRequest builds an http.Client without a
// transport). Runs in a testing/synctest bubble: the 60 ms progress ticker of blobUpload.Wait and
// the 1-32 s retry sleeps of blobUpload.Run are on the virtual clock.
//
// A case may be a history of several pushes (other names, layers with From = cross-repository mount requests). The
// process-wide table blobUploadManager is the code under test's state and lives through a history untouched; it is
// emptied only BEFORE a case (every case is a fresh server process; cases share digests because layer contents are a
// function of (size, seed)).

import (
	"context"
	"errors"
	"fmt"
	"net/http"
	"os"
	"slices"
	"strings"
	"testing"
	"testing/synctest"

	"pgregory.net/rapid"
	"verif.local/vfkit"

	"github.com/ollama/ollama/api"
	c09reg "github.com/ollama/ollama/verifc09reg"
)

type c09LegacyDriver struct{}

func (d c09LegacyDriver) Begin(ctx context.Context) <-chan error {
	return d.BeginPush(ctx, c09reg.Name)
}

func (c09LegacyDriver) BeginPush(ctx context.Context, name string) <-chan error {
	ch := make(chan error, 1)
	go func() {
		ch <- PushModel(ctx, name, &registryOptions{}, func(api.ProgressResponse) {})
	}()
	return ch
}

// c09DropUpload removes the upload registered under a digest (and closes the blob file its parked Run goroutine holds
// open). Used before a case (fresh process) and, while legacy-mount-leaves-stale-upload-entry is a listed finding, after
// an attempt in which the registry mounted a blob - what a fixed uploadBlob does itself.
func c09DropUpload(digest string) bool {
	v, ok := blobUploadManager.LoadAndDelete(digest)
	if !ok {
		return false
	}
	if b, ok := v.(*blobUpload); ok && b.file != nil {
		b.file.Close()
	}
	return true
}

func c09Bubble(t *testing.T, f func()) (err error) {
	defer func() {
		if r := recover(); r != nil {
			err = fmt.Errorf("bubble ended with: %v", r)
		}
	}()
	synctest.Test(t, func(*testing.T) { f() })
	return nil
}

func c09WithLog(err error, log []string) string {
	if len(log) > 70 {
		log = log[len(log)-70:]
	}
	return fmt.Sprintf("%v\n  event log (tail):\n    %s", err, strings.Join(log, "\n    "))
}

func c09RunLegacyPush(t *testing.T, c c09reg.PushCase, known func(string) bool, excluded func(string)) (info c09reg.Info, err error) {
	c.Via = "legacy"
	saved := http.DefaultTransport
	defer func() { http.DefaultTransport = saved }()
	blobUploadManager.Range(func(k, _ any) bool { c09DropUpload(k.(string)); return true })
	env := c09reg.PushEnv{
		Known:      known,
		Excluded:   excluded,
		DropUpload: c09DropUpload,
		New: func(rt http.RoundTripper, dir string, c *c09reg.PushCase) c09reg.PullDriver {
			os.Setenv("OLLAMA_MODELS", dir)
			http.DefaultTransport = rt
			return c09LegacyDriver{}
		},
		// a cancelled push leaves blobUpload.Run sleeping in its retry backoff (up to 32 s) before it
		// notices; let it end before the next push reuses the upload registered under the same digest
		SettleS: 70,
	}
	berr := c09Bubble(t, func() { info, err = c09reg.RunPush(c, env) })
	if err == nil && berr != nil {
		if slices.Contains(info.Classes, "legacy_mount_201") && strings.Contains(berr.Error(), "blocked goroutines remain") {
			// after a mount blobUpload.Run stays parked for ever on its nil nextURL channel (the goroutine half of
			// legacy-mount-leaves-stale-upload-entry); a leaked goroutine is not C09's subject: counted, not judged
			info.Classes = append(info.Classes, "run_goroutine_parked_for_ever_after_mount")
			return info, nil
		}
		err = berr
	}
	return info, err
}

func c09Assumed(name string) bool {
	return slices.Contains(strings.Split(os.Getenv("VERIF_ASSUME_KNOWN"), ","), name)
}

func TestC09LegacyPush(t *testing.T) {
	const target = "TestC09LegacyPush"
	rec := vfkit.Open(target)
	defer rec.Flush()
	var rc c09reg.PushCase
	if rp, ok, err := vfkit.ReplayCase(target, &rc); ok {
		if err != nil {
			t.Fatalf("replay: %v", err)
		}
		own, _ := strings.CutPrefix(rp.Expect, "known:")
		// a replay that demonstrates a listed finding runs with that finding's exclusion switched off
		info, err := c09RunLegacyPush(t, rc, func(s string) bool { return s != own && rec.Known(s) }, func(string) {})
		t.Logf("classes: %v", info.Classes)
		if err != nil {
			var v *c09reg.Violation
			if own != "" && errors.As(err, &v) && v.Slug == own {
				rec.KnownHit(own, err.Error())
				if c09Assumed(own) {
					t.Logf("KNOWN-FINDING (assumed): property=C09 %v", err)
					return
				}
			}
			rec.Fail(target, rc, c09WithLog(err, info.Log))
			t.Fatalf("C09 violated: %s", c09WithLog(err, info.Log))
		}
		return
	}
	rapid.Check(t, func(rt *rapid.T) {
		if rec.OverBudget() {
			return
		}
		c := c09reg.GenPush(rt, "legacy")
		rec.Current(target, c) // blobUpload.Run is a goroutine of the code under test: a crash there kills the process
		info, err := c09RunLegacyPush(t, c, rec.Known, rec.Excluded)
		rec.Case(c, info.Nontrivial, info.Classes...)
		if err != nil {
			rec.Fail(target, c, c09WithLog(err, info.Log))
			rt.Fatalf("C09 violated: %v", err)
		}
	})
}
