package server

// C10 layer 2 — untrusted model files through the API (see /verif/DESIGN.md §3 C10).
// The same hostile bytes as layer 1 are uploaded with POST /api/blobs/:digest and used by
// POST /api/create (files; stream false and true; then from) and POST /api/show (plain, verbose)
// on the real gin router. Oracle: every request is answered with a status < 600 and without a
// recovered panic, the process survives (the create goroutine runs outside gin's recovery: its
// panic kills the process and the driver attributes the death to the current case), create
// terminates, and GET /api/version and /api/tags still answer 200 afterwards.

import (
	"bytes"
	"context"
	"crypto/sha256"
	"encoding/json"
	"errors"
	"fmt"
	"io"
	"net/http"
	"net/http/httptest"
	"os"
	"path/filepath"
	"regexp"
	"runtime"
	"runtime/debug"
	"runtime/metrics"
	"sort"
	"strings"
	"sync"
	"testing"
	"time"

	"github.com/gin-gonic/gin"
	c10gen "github.com/ollama/ollama/verifc10gen"
	"pgregory.net/rapid"
	"verif.local/vfkit"
)

type c10Info struct {
	nontrivial bool
	classes    []string
}

type c10SyncBuf struct {
	mu sync.Mutex
	b  bytes.Buffer
}

func (s *c10SyncBuf) Write(p []byte) (int, error) {
	s.mu.Lock()
	defer s.mu.Unlock()
	return s.b.Write(p)
}

func (s *c10SyncBuf) take() string {
	s.mu.Lock()
	defer s.mu.Unlock()
	out := s.b.String()
	s.b.Reset()
	return out
}

type c10Recorder struct {
	*httptest.ResponseRecorder
}

func (c10Recorder) CloseNotify() <-chan bool { return make(chan bool) }

type c10Env struct {
	router   http.Handler
	dir      string
	recovery *c10SyncBuf
}

// liveness bound of one request (see CHECK level_note): the only wall-clock use in this check.
const c10RequestBound = 20 * time.Second

// growth of the live heap during one request at which a request on a file of at most a few hundred KiB is declared a runaway
const c10HeapBound = 1 << 30

var c10FrameRe = regexp.MustCompile(`(?m)^(/\S+\.go:\d+) \(0x[0-9a-f]+\)\n\t([^:\n]+):`)

// c10RecoveredPanic extracts "message at innermost ollama frame" from gin's recovery log.
func c10RecoveredPanic(log string) string {
	msg := ""
	if i := strings.Index(log, "panic recovered:"); i >= 0 {
		rest := log[i+len("panic recovered:"):]
		// the log is: request dump, blank line?, error, stack. Take the first line that looks like an error.
		for _, l := range strings.Split(rest, "\n") {
			l = strings.TrimSpace(l)
			if strings.HasPrefix(l, "runtime error") || strings.HasPrefix(l, "interface conversion") || strings.Contains(l, "out of range") ||
				strings.HasPrefix(l, "bytes.Buffer") || strings.HasPrefix(l, "makeslice") {
				msg = l
				break
			}
		}
	}
	frame := "(no ollama frame)"
	for _, m := range c10FrameRe.FindAllStringSubmatch(log, -1) {
		file, fn := m[1], m[2]
		if strings.Contains(file, "zz_verif_") || strings.Contains(file, "verifc10gen") || strings.Contains(file, "/pkg/mod/") || strings.Contains(file, "/go/src/") ||
			strings.Contains(file, "/usr/local/") || !strings.Contains(file, "/") {
			continue
		}
		if !strings.Contains(file, "/server/") && !strings.Contains(file, "/fs/") && !strings.Contains(file, "/llm/") && !strings.Contains(file, "/template/") && !strings.Contains(file, "/types/") {
			continue
		}
		frame = fn + " (" + filepath.Base(file) + ")"
		break
	}
	if msg == "" {
		msg = "panic"
	}
	return msg + " at " + frame
}

type c10Resp struct {
	code int
	body []byte
}

// do serves one request on the router and watches it: stuck=non-empty when the request has not
// answered within the liveness bound or the process heap has grown past c10HeapBound meanwhile
// (both can only be observed from outside the request). A stuck create is then made to fail by
// pointing OLLAMA_MODELS at an impossible path, so that the runaway goroutine does not outlive the case.
func (e *c10Env) do(method, path string, body []byte, fileLen int) (r c10Resp, stuck string, viol string) {
	ctx, cancel := context.WithCancel(context.Background())
	defer cancel()
	req := httptest.NewRequest(method, path, bytes.NewReader(body)).WithContext(ctx)
	if body != nil {
		req.Header.Set("Content-Type", "application/json")
	}
	w := c10Recorder{httptest.NewRecorder()}
	done := make(chan struct{})
	a0, h0 := c10Mem()
	go func() {
		defer close(done)
		e.router.ServeHTTP(w, req)
	}()
	tick := time.NewTicker(100 * time.Millisecond)
	defer tick.Stop()
	start := time.Now()
wait:
	for {
		select {
		case <-done:
			break wait
		case <-tick.C:
			_, h1 := c10Mem()
			switch {
			case h1 > h0+c10HeapBound:
				stuck = fmt.Sprintf("still running after %.1fs with the heap grown from %d to %d MiB", time.Since(start).Seconds(), h0>>20, h1>>20)
			case time.Since(start) > c10RequestBound:
				stuck = fmt.Sprintf("not answered within %s", c10RequestBound)
			}
			if stuck != "" {
				where := c10StacksContain("ollama/server.ggufLayers", "ollama/fs/ggml.", "ollama/server.parseFromModel", "ollama/llm.LoadModel", "ollama/server.")
				stuck += "; a goroutine is inside " + where
				os.Setenv("OLLAMA_MODELS", "/dev/null/c10-stop")
				select {
				case <-done:
				case <-time.After(15 * time.Second):
				}
				os.Setenv("OLLAMA_MODELS", e.dir)
				e.recovery.take()
				debug.FreeOSMemory() // collect what the runaway left behind before the next case is measured
				return r, stuck, ""
			}
		}
	}
	a1, _ := c10Mem()
	r.code = w.Code
	r.body = w.Body.Bytes()
	if log := e.recovery.take(); strings.Contains(log, "[Recovery]") {
		return r, "", fmt.Sprintf("%s %s: handler panicked (recovered by gin, status %d): %s", method, path, r.code, c10RecoveredPanic(log))
	}
	if r.code < 100 || r.code >= 600 {
		return r, "", fmt.Sprintf("%s %s: status %d", method, path, r.code)
	}
	if alloc, budget := a1-a0, uint64(128<<20+64*(fileLen+len(body))); alloc > budget {
		return r, "", fmt.Sprintf("%s %s: the process allocated %d bytes while serving the request for a %d-byte file (budget 128 MiB + 64*len = %d)", method, path, alloc, fileLen, budget)
	}
	return r, "", ""
}

// c10Mem reads cumulative allocated bytes and live heap bytes without stopping the world.
func c10Mem() (totalAlloc, heapObjects uint64) {
	s := []metrics.Sample{{Name: "/gc/heap/allocs:bytes"}, {Name: "/memory/classes/heap/objects:bytes"}}
	metrics.Read(s)
	return s[0].Value.Uint64(), s[1].Value.Uint64()
}

func c10StacksContain(subs ...string) string {
	buf := make([]byte, 1<<20)
	n := runtime.Stack(buf, true)
	s := string(buf[:n])
	for _, sub := range subs {
		if strings.Contains(s, sub) {
			return sub
		}
	}
	return ""
}

func c10JSON(v any) []byte {
	b, _ := json.Marshal(v)
	return b
}

func (e *c10Env) reset() {
	os.RemoveAll(filepath.Join(e.dir, "blobs"))
	os.RemoveAll(filepath.Join(e.dir, "manifests"))
}

// c10Run is the deterministic part (apart from the liveness bound).
func c10Run(e *c10Env, c c10gen.Case, known func(string) bool, excluded func(string)) (info c10Info, err error) {
	base := c10gen.Build(c)
	ap := c10gen.Apply(c, base)
	data := ap.Data
	cls := map[string]bool{}
	add := func(s string) { cls[s] = true }
	defer func() {
		for k := range cls {
			info.classes = append(info.classes, k)
		}
		sort.Strings(info.classes)
		e.reset()
	}()
	switch c.Version {
	case 1, 2, 3:
		add(fmt.Sprintf("v%d", c.Version))
	default:
		add("vother")
	}
	if c.BE {
		add("big_endian")
	}
	add(fmt.Sprintf("muts_%d", len(c.Muts)))
	for _, k := range ap.Kinds {
		add("mut:" + k)
	}
	if base.Retyped > 0 {
		add("retyped_wellknown_key")
	}
	pred := c10gen.Predict(data, 0)
	if pred.HeaderOK {
		add("header_ok")
	}
	add("stage:" + pred.Stage)
	info.nontrivial = pred.HeaderOK && (ap.Changed || base.Retyped > 0)
	class, verboseClass, segs := c10gen.PredictCreate(data)
	if segs > 1 {
		add("multi_segment_file")
	}
	if class != "" {
		add("pred:" + class)
		if known != nil && known(class) {
			excluded(class)
			return info, nil
		}
	}
	skipVerbose := false
	if verboseClass != "" {
		add("pred_verbose:" + verboseClass)
		if known != nil && known(verboseClass) {
			excluded(verboseClass)
			skipVerbose = true
		}
	}

	request := func(step, method, path string, body []byte) (c10Resp, error) {
		r, stuck, viol := e.do(method, path, body, len(data))
		if stuck != "" {
			if strings.HasSuffix(stuck, "inside ") { // nothing of ollama on any stack: not attributable, no verdict
				add("slow_request_unattributed")
				return r, errC10Abandon
			}
			return r, fmt.Errorf("%s: %s %s did not finish on a %d-byte file: %s", step, method, path, len(data), stuck)
		}
		if viol != "" {
			return r, fmt.Errorf("%s: %s", step, viol)
		}
		return r, nil
	}
	alive := func(after string) error {
		// /api/version must answer 200; /api/tags (which walks the store) must answer without a panic
		r, err := request("liveness after "+after, http.MethodGet, "/api/version", nil)
		if err != nil {
			return err
		}
		if r.code != 200 {
			return fmt.Errorf("GET /api/version answered %d after %s", r.code, after)
		}
		if r, err = request("liveness after "+after, http.MethodGet, "/api/tags", nil); err != nil {
			return err
		}
		add(fmt.Sprintf("tags_status_%d", r.code))
		return nil
	}
	abandon := func(err error) (c10Info, error) {
		if errors.Is(err, errC10Abandon) {
			return info, nil
		}
		return info, err
	}

	digest := fmt.Sprintf("sha256:%x", sha256.Sum256(data))
	r, err := request("upload", http.MethodPost, "/api/blobs/"+digest, data)
	if err != nil {
		return abandon(err)
	}
	if r.code != http.StatusCreated && r.code != http.StatusOK {
		add(fmt.Sprintf("upload_status_%d", r.code)) // environment (disk), not a verdict
		return info, nil
	}

	f := false
	tr := true
	r, err = request("create", http.MethodPost, "/api/create", c10JSON(map[string]any{"model": "c10a", "files": map[string]string{"model.gguf": digest}, "stream": &f}))
	if err != nil {
		return abandon(err)
	}
	created := r.code == 200
	if created {
		add("create_ok")
	} else {
		add(fmt.Sprintf("create_status_%d", r.code))
	}
	if err := alive("create"); err != nil {
		return abandon(err)
	}

	// streaming create, file name without the .gguf suffix (content sniffing path)
	r, err = request("create(stream)", http.MethodPost, "/api/create", c10JSON(map[string]any{"model": "c10b", "files": map[string]string{"model": digest}, "stream": &tr}))
	if err != nil {
		return abandon(err)
	}
	lines := bytes.Split(bytes.TrimSpace(r.body), []byte("\n"))
	last := string(lines[len(lines)-1])
	switch {
	case r.code != 200:
		add(fmt.Sprintf("create_stream_status_%d", r.code))
	case strings.Contains(last, `"error"`):
		add("create_stream_error_line")
	case strings.Contains(last, `"success"`):
		add("create_stream_ok")
	default:
		add("create_stream_other")
	}

	if created {
		r, err = request("show", http.MethodPost, "/api/show", c10JSON(map[string]any{"model": "c10a"}))
		if err != nil {
			return abandon(err)
		}
		add(fmt.Sprintf("show_status_%d", r.code))
		if !skipVerbose {
			r, err = request("show(verbose)", http.MethodPost, "/api/show", c10JSON(map[string]any{"model": "c10a", "verbose": true}))
			if err != nil {
				return abandon(err)
			}
			add(fmt.Sprintf("show_verbose_status_%d", r.code))
		}
		r, err = request("create(from)", http.MethodPost, "/api/create", c10JSON(map[string]any{"model": "c10c", "from": "c10a", "stream": &f}))
		if err != nil {
			return abandon(err)
		}
		add(fmt.Sprintf("create_from_status_%d", r.code))
	}
	if err := alive("show/create"); err != nil {
		return abandon(err)
	}
	return info, nil
}

var errC10Abandon = errors.New("c10: case abandoned (budget)")

func c10NewEnv(t *testing.T) *c10Env {
	gin.SetMode(gin.TestMode)
	e := &c10Env{recovery: &c10SyncBuf{}}
	gin.DefaultWriter = io.Discard
	gin.DefaultErrorWriter = e.recovery
	e.dir = t.TempDir()
	t.Setenv("OLLAMA_MODELS", e.dir)
	s := &Server{}
	h, err := s.GenerateRoutes(nil)
	if err != nil {
		t.Fatalf("GenerateRoutes: %v", err)
	}
	e.router = h
	return e
}

func TestC10API(t *testing.T) {
	const target = "TestC10API"
	rec := vfkit.Open(target)
	defer rec.Flush()
	e := c10NewEnv(t)
	var rc c10gen.Case
	if rp, ok, err := vfkit.ReplayCase(target, &rc); ok {
		if err != nil {
			t.Fatalf("replay: %v", err)
		}
		rec.Current(target, rc)
		// a replay demonstrates its own finding; other *listed* findings stay excluded so that it is
		// not reported for a defect it is not about
		own := ""
		if rp != nil {
			own = strings.TrimPrefix(rp.Expect, "known:")
		}
		known := func(s string) bool { return s != own && rec.Known(s) }
		if _, err := c10Run(e, rc, known, func(string) {}); err != nil {
			rec.Fail(target, rc, err.Error())
			t.Fatalf("C10 violated: %v", err)
		}
		return
	}
	rapid.Check(t, func(rt *rapid.T) {
		if rec.OverBudget() {
			return
		}
		c := c10gen.Gen(rt)
		rec.Current(target, c) // the create goroutine is outside gin's recovery: a panic there kills the process
		info, err := c10Run(e, c, rec.Known, rec.Excluded)
		rec.Case(c, info.nontrivial, info.classes...)
		if err != nil {
			rec.Fail(target, c, err.Error())
			rt.Fatalf("C10 violated: %v", err)
		}
	})
}
