package server

// C19 at route level — what POST /api/chat and POST /api/generate hand to the runner
// (see /verif/DESIGN.md §3 C19; the reference computation lives in c19_prompt_test.go).
//
// TestC19ChatPrompt calls chatPrompt directly. Everything server/routes.go does before that call (building the
// message list from the model's MESSAGE history, the model's SYSTEM prompt and the request; merging model and
// request options into num_ctx) and after it (handing prompt and images to the runner) is invisible to it.
// This target sends the conversation through the real gin router (Server.GenerateRoutes) with the real
// Scheduler, whose newServerFn returns a fake llm.LlamaServer: Tokenize is c19Tokenize (the whitespace
// tokenizer of the reference, so truncation is deterministic and the reference stays valid), Completion
// records the llm.CompletionRequest it receives (prompt, images with IDs and bytes, options) and answers one
// chunk + Done. Models are created per case through POST /api/blobs + POST /api/create from a tiny GGUF, the
// template (`template`), optionally `system`, 0–3 `messages`, optionally `parameters.num_ctx`, and for the
// "clip" kind a second tiny GGUF with general.type "projector" (create.go turns it into a projector layer;
// prompt.go then counts 768 tokens per image). Templates: the five of TestC19ChatPrompt plus the repository's
// command-r template (prints {{ .System }} once and skips the system role inside `range .Messages`, so a system
// message inside the retained run reaches the prompt only through template.collate). OLLAMA_NUM_PARALLEL is
// drawn per case (unset / 1 / 2; one Scheduler per value): the scheduler multiplies the runner's context by the
// number of slots, the expected truncation is always against the request's num_ctx.
//
// Effective conversation (the documented behaviour the oracle is built on):
//   * docs/modelfile.md: MESSAGE "allows you to specify a message history for the model to use when responding"
//     — the model's MESSAGE entries precede the messages of the request, for /api/chat and /api/generate alike;
//     SYSTEM "specifies the system message to be used in the template"; a MESSAGE with role system is an
//     "alternate way of providing the SYSTEM message" (it is a message of the history like any other).
//   * docs/api.md (/api/generate): `system` "overrides what is defined in the Modelfile". /api/chat has no
//     `system` field; its equivalent is a system message that opens the request. The repository's own
//     TestGenerateChat pins exactly this: "messages with model system" (SYSTEM is prepended), "messages with
//     system" (a leading system message of the request replaces SYSTEM), "messages with interleaved system" (a
//     system message further down does not).
//   ⇒ chat:     [SYSTEM if set and request.messages[0].role != "system"] ++ MESSAGEs ++ request.messages
//     generate: [request.system, else SYSTEM, if any] ++ MESSAGEs ++ one user message "[img-i]" per image ++ prompt
//   * options: docs/api.md `options` / docs/modelfile.md PARAMETER num_ctx / docs/faq.md: the request's num_ctx
//     wins over the model's PARAMETER num_ctx, which wins over the default of 2048 (OLLAMA_CONTEXT_LENGTH unset).
//
// Oracle: the (prompt, images) that reached the runner must be what the reference of TestC19ChatPrompt
// (c19Prepare / c19Judge: retained run, system messages before the cut, collation, legacy turns, global image
// numbering) computes for the effective conversation at the effective num_ctx: exactly the images of retained
// messages, each once, ID = the index used in its [img-N] tag, bytes identical to what the client sent
// (base64 in the JSON body); no image of a dropped message. Exactly one Completion call per request, HTTP 200.
//
// /api/generate does not truncate in this tree; the statement says nothing about that, so generate cases are
// kept small enough to fit the default context entirely (either behaviour gives the same prompt). With the
// deprecated `context` field the detokenized context must open the prompt (checked only as an observation
// class when absent) and the MESSAGE history may or may not be repeated after it (routes.go omits it; both
// accepted, counted).
//
// Not covered here: the mllama family (its route needs a GGUF of architecture mllama next to the llama one,
// and with a projector real image decoding: TestC19ChatPrompt covers mllama on chatPrompt itself), tools,
// raw / suffix / request-template generate, the OpenAI-compatible endpoints, streaming responses.

import (
	"bytes"
	"context"
	"encoding/json"
	"errors"
	"fmt"
	"io"
	"net/http"
	"net/http/httptest"
	"os"
	"path/filepath"
	"slices"
	"strings"
	"sync"
	"testing"

	"github.com/gin-gonic/gin"
	"pgregory.net/rapid"
	"verif.local/vfkit"

	"github.com/ollama/ollama/api"
	"github.com/ollama/ollama/discover"
	"github.com/ollama/ollama/fs/ggml"
	"github.com/ollama/ollama/llm"
)

// ------------------------------------------------------------------------------------------ case

type c19rCase struct {
	Kind  string `json:"kind"`  // chat | generate
	Tmpl  string `json:"tmpl"`  // range | syshdr | legacy | chatml | llama3 | commandr
	Model string `json:"model"` // plain | clip
	// OLLAMA_NUM_PARALLEL while the request is scheduled: 0 = unset (the scheduler picks), 1, 2. The scheduler
	// multiplies the runner's context by the number of slots; truncation is against the request's num_ctx.
	Parallel int `json:"parallel,omitempty"`
	// the model as created: SYSTEM (no words = none), MESSAGE history (no images)
	System    []string `json:"system,omitempty"`
	ModelMsgs []c19Msg `json:"model_msgs,omitempty"`

	// chat: the messages of the request
	Msgs []c19Msg `json:"msgs,omitempty"`

	// generate: prompt, optional system override, 0–2 images, optional deprecated context (its length)
	Prompt     []string `json:"prompt,omitempty"`
	GenSystem  []string `json:"gen_system,omitempty"`
	GenImages  int      `json:"gen_images,omitempty"`
	GenContext int      `json:"gen_context,omitempty"`

	// chat: context length as in c19Case (relative to the effective conversation), and where it is given:
	// request (options.num_ctx) | model (PARAMETER num_ctx) | both (request wins over PARAMETER num_ctx =
	// ctx + ModelCtxDelta) | default (neither: 2048)
	CtxAbs        int    `json:"ctx_abs,omitempty"`
	CtxIdx        int    `json:"ctx_idx,omitempty"`
	CtxDelta      int    `json:"ctx_delta,omitempty"`
	CtxFrom       string `json:"ctx_from,omitempty"`
	ModelCtxDelta int    `json:"model_ctx_delta,omitempty"`
}

const c19rDefaultCtx = 2048 // docs/faq.md, docs/modelfile.md (num_ctx default), OLLAMA_CONTEXT_LENGTH unset

// ---------------------------------------------------------------------------------- fake runner

type c19rRunner struct {
	mu   sync.Mutex
	reqs []llm.CompletionRequest
}

func (r *c19rRunner) Ping(context.Context) error             { return nil }
func (r *c19rRunner) WaitUntilRunning(context.Context) error { return nil }
func (r *c19rRunner) Embedding(context.Context, string) ([]float32, error) {
	return nil, errors.New("c19r: no embeddings")
}

func (r *c19rRunner) Completion(_ context.Context, req llm.CompletionRequest, fn func(llm.CompletionResponse)) error {
	cp := llm.CompletionRequest{Prompt: req.Prompt, Format: slices.Clone(req.Format)}
	for _, im := range req.Images {
		cp.Images = append(cp.Images, llm.ImageData{ID: im.ID, AspectRatioID: im.AspectRatioID, Data: slices.Clone(im.Data)})
	}
	if req.Options != nil {
		o := *req.Options
		cp.Options = &o
	}
	r.mu.Lock()
	r.reqs = append(r.reqs, cp)
	r.mu.Unlock()
	fn(llm.CompletionResponse{Content: "ok"})
	fn(llm.CompletionResponse{Done: true, DoneReason: llm.DoneReasonStop, PromptEvalCount: 1, PromptEvalDuration: 1, EvalCount: 1, EvalDuration: 1})
	return nil
}

func (r *c19rRunner) Tokenize(ctx context.Context, s string) ([]int, error) {
	return c19Tokenize(ctx, s)
}

// Detokenize: one word per token; no template delimiter, so the text is recognisable in front of a prompt.
func (r *c19rRunner) Detokenize(_ context.Context, t []int) (string, error) {
	return c19rContextText(len(t)), nil
}
func (r *c19rRunner) Close() error                     { return nil }
func (r *c19rRunner) EstimatedVRAM() uint64            { return 0 }
func (r *c19rRunner) EstimatedTotal() uint64           { return 0 }
func (r *c19rRunner) EstimatedVRAMByGPU(string) uint64 { return 0 }

func (r *c19rRunner) take() []llm.CompletionRequest {
	r.mu.Lock()
	defer r.mu.Unlock()
	out := r.reqs
	r.reqs = nil
	return out
}

func c19rContextText(n int) string { return strings.Repeat("ctx ", n) }

// --------------------------------------------------------------------------------- environment

type c19rRecorder struct{ *httptest.ResponseRecorder }

func (c19rRecorder) CloseNotify() <-chan bool { return make(chan bool) }

type c19rEnv struct {
	dir    string
	h      http.Handler         // the router in use (one of hs)
	hs     map[int]http.Handler // OLLAMA_NUM_PARALLEL value (0 = unset) -> router with its own Scheduler
	runner *c19rRunner
	ggufs  map[string][]byte // model | projector
	digest map[string]string
	cur    string // key of the model currently stored under c19rModelName
}

const c19rModelName = "c19r-model"

var (
	c19rEnvOnce sync.Once
	c19rTheEnv  *c19rEnv
	c19rEnvErr  error
)

func c19rGetEnv() (*c19rEnv, error) {
	c19rEnvOnce.Do(func() { c19rTheEnv, c19rEnvErr = c19rSetup() })
	return c19rTheEnv, c19rEnvErr
}

// do serves one request with the router on the calling goroutine; the request context ends when the handler
// returns (which is what releases the runner reference in the scheduler).
func (e *c19rEnv) do(method, path string, body []byte) (int, []byte) {
	ctx, cancel := context.WithCancel(context.Background())
	defer cancel()
	req := httptest.NewRequest(method, "http://127.0.0.1:11434"+path, bytes.NewReader(body)).WithContext(ctx)
	req.Header.Set("Content-Type", "application/json")
	rec := c19rRecorder{httptest.NewRecorder()}
	e.h.ServeHTTP(rec, req)
	return rec.Code, rec.Body.Bytes()
}

func c19rGGUF(kv ggml.KV, tensors []string) ([]byte, error) {
	var ts []ggml.Tensor
	for _, n := range tensors {
		ts = append(ts, ggml.Tensor{Name: n, Shape: []uint64{1}, WriterTo: bytes.NewReader(make([]byte, 4))})
	}
	f, err := os.CreateTemp("", "c19r-gguf-")
	if err != nil {
		return nil, err
	}
	defer os.Remove(f.Name())
	defer f.Close()
	if err := ggml.WriteGGUF(f, kv, ts); err != nil {
		return nil, err
	}
	return os.ReadFile(f.Name())
}

func c19rSetup() (*c19rEnv, error) {
	gin.SetMode(gin.TestMode)
	gin.DefaultWriter = io.Discard
	gin.DefaultErrorWriter = io.Discard
	dir, err := os.MkdirTemp("", "c19r-models-")
	if err != nil {
		return nil, err
	}
	os.Setenv("OLLAMA_MODELS", dir)
	os.Setenv("OLLAMA_MAX_LOADED_MODELS", "4")
	for _, k := range []string{"OLLAMA_ORIGINS", "OLLAMA_CONTEXT_LENGTH", "OLLAMA_NUM_PARALLEL", "OLLAMA_KEEP_ALIVE", "OLLAMA_NOPRUNE", "OLLAMA_MAX_QUEUE"} {
		os.Unsetenv(k)
	}
	e := &c19rEnv{dir: dir, runner: &c19rRunner{}, ggufs: map[string][]byte{}, digest: map[string]string{}}

	// One Scheduler (and router) per OLLAMA_NUM_PARALLEL value, all on the same model store: the scheduler
	// reads the variable whenever it loads a runner and a loaded runner keeps its number of slots, so a
	// scheduler that is only ever used under one value has runners with exactly that many slots.
	e.hs = map[int]http.Handler{}
	for _, par := range []int{0, 1, 2} {
		sched := InitScheduler(context.Background())
		sched.newServerFn = func(discover.GpuInfoList, string, *ggml.GGML, []string, []string, api.Options, int) (llm.LlamaServer, error) {
			return e.runner, nil
		}
		cpu := discover.GpuInfo{Library: "cpu", ID: "0"}
		cpu.TotalMemory, cpu.FreeMemory = 1<<40, 1<<40
		sched.getGpuFn = func() discover.GpuInfoList { return discover.GpuInfoList{cpu} }
		sched.getCpuFn = func() discover.GpuInfoList { return discover.GpuInfoList{cpu} }
		sched.Run(context.Background())
		s := &Server{sched: sched}
		if e.hs[par], err = s.GenerateRoutes(nil); err != nil {
			return nil, err
		}
	}
	e.h = e.hs[0]

	// the existing tests' createBinFile: a minimal llama GGUF
	e.ggufs["model"], err = c19rGGUF(ggml.KV{
		"general.architecture":          "llama",
		"general.name":                  "c19r",
		"llama.block_count":             uint32(1),
		"llama.context_length":          uint32(8192),
		"llama.embedding_length":        uint32(4096),
		"llama.attention.head_count":    uint32(32),
		"llama.attention.head_count_kv": uint32(8),
		"tokenizer.ggml.tokens":         []string{""},
		"tokenizer.ggml.scores":         []float32{0},
		"tokenizer.ggml.token_type":     []int32{0},
	}, []string{"token_embd.weight", "blk.0.attn_norm.weight", "blk.0.ffn_down.weight", "blk.0.ffn_gate.weight",
		"blk.0.ffn_up.weight", "blk.0.ffn_norm.weight", "blk.0.attn_k.weight", "blk.0.attn_output.weight", "blk.0.attn_q.weight",
		"blk.0.attn_v.weight", "output.weight"})
	if err != nil {
		return nil, err
	}
	// a projector: general.type "projector" is what server/create.go (ggufLayers) turns into a projector layer
	e.ggufs["projector"], err = c19rGGUF(ggml.KV{
		"general.architecture": "clip",
		"general.type":         "projector",
		"general.name":         "c19r-projector",
	}, []string{"v.patch_embd.weight"})
	if err != nil {
		return nil, err
	}
	for k, b := range e.ggufs {
		e.digest[k], _ = GetSHA256Digest(bytes.NewReader(b))
	}
	return e, nil
}

// ensureBlob is what a client does before a create: HEAD the blob, upload it when missing (a re-create of the
// model prunes layers no manifest uses any more, e.g. the projector after a case without one).
func (e *c19rEnv) ensureBlob(which string) error {
	d := e.digest[which]
	if st, _ := e.do(http.MethodHead, "/api/blobs/"+d, nil); st == http.StatusOK {
		return nil
	}
	if st, body := e.do(http.MethodPost, "/api/blobs/"+d, e.ggufs[which]); st != http.StatusCreated && st != http.StatusOK {
		return fmt.Errorf("blob upload %s: status %d body %s", which, st, body)
	}
	return nil
}

func c19rTemplateSrc(name string) (string, bool) {
	tk, ok := c19Tmpls[name]
	if !ok {
		return "", false
	}
	if tk.file == "" {
		return tk.src, true
	}
	repo := os.Getenv("VERIF_REPO")
	if repo == "" {
		repo = "/repo"
	}
	b, err := os.ReadFile(filepath.Join(repo, "template", tk.file))
	if err != nil {
		return "", false
	}
	return string(bytes.ReplaceAll(b, []byte("\r\n"), []byte("\n"))), true
}

// ensureModel (re)creates the model of the case under one fixed name through POST /api/create.
func (e *c19rEnv) ensureModel(c c19rCase, paramCtx int) error {
	cr := api.CreateRequest{Model: c19rModelName, Files: map[string]string{"model.gguf": e.digest["model"]}}
	src, ok := c19rTemplateSrc(c.Tmpl)
	if !ok {
		return fmt.Errorf("template %s unavailable", c.Tmpl)
	}
	cr.Template = src
	cr.System = strings.Join(c.System, " ")
	for _, mm := range c.ModelMsgs {
		cr.Messages = append(cr.Messages, api.Message{Role: mm.Role, Content: c19Content(mm)})
	}
	if paramCtx > 0 {
		cr.Parameters = map[string]any{"num_ctx": paramCtx}
	}
	blobs := []string{"model"}
	if c.Model == "clip" {
		cr.Files["projector.gguf"] = e.digest["projector"]
		blobs = append(blobs, "projector")
	}
	no := false
	cr.Stream = &no
	body, err := json.Marshal(cr)
	if err != nil {
		return err
	}
	if key := string(body); key == e.cur {
		return nil
	}
	e.cur = ""
	for _, b := range blobs {
		if err := e.ensureBlob(b); err != nil {
			return err
		}
	}
	st, out := e.do(http.MethodPost, "/api/create", body)
	if st != http.StatusOK || !bytes.Contains(out, []byte(`"success"`)) {
		return fmt.Errorf("create: status %d body %s", st, out)
	}
	e.cur = string(body)
	return nil
}

// ------------------------------------------------------------------------------------- generator

var c19rPlainWords = c19Words[:10] // without the [img] placeholder

func c19rGen(t *rapid.T) c19rCase {
	var c c19rCase
	c.Kind = rapid.SampledFrom([]string{"chat", "chat", "generate", "chat", "chat", "chat", "generate", "chat", "chat", "chat"}).Draw(t, "kind")
	c.Tmpl = rapid.SampledFrom([]string{"range", "legacy", "syshdr", "commandr", "range", "legacy", "chatml", "syshdr", "commandr", "range", "legacy", "llama3"}).Draw(t, "tmpl")
	c.Parallel = rapid.SampledFrom([]int{2, 0, 1, 2, 0}).Draw(t, "parallel")
	c.Model = rapid.SampledFrom([]string{"plain", "clip", "plain", "clip", "plain", "clip", "plain", "clip", "plain"}).Draw(t, "model")
	if rapid.IntRange(0, 9).Draw(t, "hassystem") < 6 {
		c.System = rapid.SliceOfN(rapid.SampledFrom(c19rPlainWords), 1, 3).Draw(t, "system")
	}
	nmm := rapid.SampledFrom([]int{0, 2, 1, 0, 3, 2, 0, 1}).Draw(t, "nmodelmsgs")
	mroles := []string{"user", "assistant", "system", "user", "assistant"}
	for i := 0; i < nmm; i++ {
		c.ModelMsgs = append(c.ModelMsgs, c19Msg{
			Role:  rapid.SampledFrom(mroles).Draw(t, "mrole"),
			Words: rapid.SliceOfN(rapid.SampledFrom(c19Words), 1, 4).Draw(t, "mwords"),
			Rep:   rapid.SampledFrom([]int{0, 0, 0, 0, 0, 2, 3}).Draw(t, "mrep"),
		})
	}
	if c.Kind == "generate" {
		c.Prompt = rapid.SliceOfN(rapid.SampledFrom(c19Words), 1, 6).Draw(t, "prompt")
		if rapid.IntRange(0, 9).Draw(t, "hasgensystem") < 4 {
			c.GenSystem = rapid.SliceOfN(rapid.SampledFrom(c19rPlainWords), 1, 3).Draw(t, "gensystem")
		}
		c.GenImages = rapid.SampledFrom([]int{1, 0, 2, 1, 0, 2, 1}).Draw(t, "genimages")
		if rapid.IntRange(0, 9).Draw(t, "hascontext") < 3 {
			c.GenContext = rapid.IntRange(1, 5).Draw(t, "gencontext")
		}
		return c
	}
	roles := []string{"user", "user", "user", "user", "assistant", "assistant", "assistant", "system", "system", "tool"}
	if c.Tmpl == "legacy" {
		roles = roles[:9]
	}
	c.Msgs = rapid.SliceOfN(rapid.Custom(func(t *rapid.T) c19Msg { return c19GenMsg(t, roles) }), 1, 8).Draw(t, "msgs")
	// the opening message decides whether SYSTEM is prepended: make "system" as likely as not
	if rapid.IntRange(0, 9).Draw(t, "firstsystem") < 4 && len(c.Msgs) > 1 {
		c.Msgs[0].Role, c.Msgs[0].Images = "system", 0
		if len(c.Msgs[0].Words) == 0 {
			c.Msgs[0].Words = []string{"a"}
		}
	}
	c.CtxAbs, c.CtxIdx, c.CtxDelta = c19GenCtx(t, 1+len(c.ModelMsgs)+len(c.Msgs))
	c.CtxFrom = rapid.SampledFrom([]string{"request", "model", "request", "both", "request", "default", "request", "both", "request", "model", "request"}).Draw(t, "ctxfrom")
	if c.CtxFrom == "both" {
		c.ModelCtxDelta = rapid.SampledFrom([]int{-1, 1, -5, 3, 1000, -1000}).Draw(t, "modelctxdelta")
	}
	return c
}

// ----------------------------------------------------------------------------------- the oracle

// c19rEffective is the effective conversation of the header comment as a c19Case of the reference.
// withHistory=false leaves the MESSAGE history out (generate with `context` only).
func c19rEffective(c c19rCase, withHistory bool) (eff c19Case, reqStart int, sysPrepended bool) {
	eff = c19Case{Tmpl: c.Tmpl, Model: c.Model}
	add := func(m c19Msg) { eff.Msgs = append(eff.Msgs, m) }
	hist := func() {
		if withHistory {
			for _, mm := range c.ModelMsgs {
				mm.Images = 0
				add(mm)
			}
		}
	}
	if c.Kind == "generate" {
		switch {
		case len(c.GenSystem) > 0:
			add(c19Msg{Role: "system", Words: c.GenSystem})
		case len(c.System) > 0:
			add(c19Msg{Role: "system", Words: c.System})
			sysPrepended = true
		}
		hist()
		reqStart = len(eff.Msgs)
		for i := 0; i < c.GenImages; i++ {
			add(c19Msg{Role: "user", Images: 1, ImgKey: i + 1})
		}
		add(c19Msg{Role: "user", Words: c.Prompt})
		eff.CtxAbs = c19rDefaultCtx
		return eff, reqStart, sysPrepended
	}
	if len(c.System) > 0 && len(c.Msgs) > 0 && c.Msgs[0].Role != "system" {
		add(c19Msg{Role: "system", Words: c.System})
		sysPrepended = true
	}
	hist()
	reqStart = len(eff.Msgs)
	for _, mm := range c.Msgs {
		add(mm)
	}
	eff.CtxAbs, eff.CtxIdx, eff.CtxDelta = c.CtxAbs, c.CtxIdx, c.CtxDelta
	if c.CtxFrom == "default" {
		eff.CtxAbs = c19rDefaultCtx
	}
	return eff, reqStart, sysPrepended
}

func c19rWordsOK(ws []string, placeholder bool) bool {
	for _, w := range ws {
		if w == "[img]" && placeholder {
			continue
		}
		if w == "" || strings.Trim(w, "abcdefghijklmnopqrstuvwxyz") != "" {
			return false
		}
	}
	return true
}

func c19rRun(c c19rCase, o c19Opts) (info c19Info, err error) {
	invalid := func(why string) (c19Info, error) {
		info.classes = append(info.classes, "invalid_case_"+why)
		return info, nil
	}
	if c.Kind != "chat" && c.Kind != "generate" {
		return invalid("kind")
	}
	if c.Model != "plain" && c.Model != "clip" {
		return invalid("model")
	}
	if !c19rWordsOK(c.System, false) || !c19rWordsOK(c.GenSystem, false) || !c19rWordsOK(c.Prompt, true) {
		return invalid("word")
	}
	if c.Parallel < 0 || c.Parallel > 2 {
		return invalid("parallel")
	}
	if len(c.ModelMsgs) > 16 || len(c.Msgs) > 32 || c.GenImages < 0 || c.GenImages > 8 || c.GenContext < 0 || c.GenContext > 64 {
		return invalid("size")
	}
	for _, mm := range c.ModelMsgs {
		if mm.Role != "system" && mm.Role != "user" && mm.Role != "assistant" { // the roles a Modelfile MESSAGE accepts
			return invalid("model_message_role")
		}
		if len(mm.Words) == 0 {
			return invalid("empty_content")
		}
	}
	switch c.Kind {
	case "chat":
		if len(c.Msgs) == 0 {
			return invalid("nmsgs")
		}
		if !slices.Contains([]string{"request", "model", "both", "default"}, c.CtxFrom) {
			return invalid("ctx_from")
		}
		if c.CtxFrom == "both" && c.ModelCtxDelta == 0 {
			return invalid("model_ctx_delta")
		}
	case "generate":
		if len(c.Prompt) == 0 {
			return invalid("prompt")
		}
		for _, mm := range c.ModelMsgs {
			if mm.Rep > 3 {
				return invalid("generate_long_history") // generate cases must fit the default context entirely
			}
		}
	}

	eff, reqStart, sysPrepended := c19rEffective(c, true)
	ref, rinfo, err := c19Prepare(eff)
	if err != nil {
		return info, err
	}
	if ref == nil {
		for _, cl := range rinfo.classes {
			info.classes = append(info.classes, cl)
		}
		return info, nil
	}
	if c.Kind == "generate" && ref.n != 0 {
		return invalid("generate_does_not_fit")
	}

	// classes: the reference's, prefixed (TestC19ChatPrompt reports the same names), plus the route's own
	cl := func(s string) {
		if !slices.Contains(info.classes, s) {
			info.classes = append(info.classes, s)
		}
	}
	for _, s := range rinfo.classes {
		cl("rt_" + s)
	}
	info.nontrivial = rinfo.nontrivial
	cl("kind_" + c.Kind)
	cl(fmt.Sprintf("parallel_%d", c.Parallel))
	if len(c.ModelMsgs) > 0 {
		cl("model_messages_present")
		if ref.n > reqStart-len(c.ModelMsgs) {
			cl("model_messages_dropped")
		}
		if ref.n > reqStart-len(c.ModelMsgs) && ref.n < reqStart {
			cl("cut_inside_model_messages")
		}
		for _, mm := range c.ModelMsgs {
			if mm.Role == "system" {
				cl("model_message_system")
			}
		}
	}
	if len(c.System) > 0 {
		cl("model_system_present")
	}
	if sysPrepended {
		cl("model_system_prepended")
		if ref.n > 0 {
			cl("model_system_before_cut")
		}
	}
	paramCtx := 0
	if c.Kind == "chat" {
		cl("ctx_from_" + c.CtxFrom)
		if c.Msgs[0].Role == "system" {
			cl("request_starts_with_system")
			if len(c.System) > 0 {
				cl("request_system_replaces_model_system")
			}
			if len(c.ModelMsgs) > 0 {
				cl("request_system_with_model_messages")
			}
		}
		switch c.CtxFrom {
		case "model":
			paramCtx = ref.ctx
		case "both":
			paramCtx = max(1, ref.ctx+c.ModelCtxDelta)
			if paramCtx == ref.ctx {
				paramCtx++
			}
		}
		if ref.ctx != c19rDefaultCtx && c.CtxFrom != "default" {
			// would the default context (or, for "both", the model's parameter) give a different retained run?
			alt := c19rDefaultCtx
			if c.CtxFrom == "both" {
				alt = paramCtx
			}
			nAlt := ref.last
			for i := ref.last - 1; i >= 0 && ref.count[i] <= alt; i-- {
				nAlt = i
			}
			if nAlt != ref.n {
				cl("num_ctx_source_matters")
			}
		}
		// would truncating against the runner's whole context (num_ctx x parallel slots; 4 slots when the
		// variable is unset and the machine is CPU-only, as here) retain a different run? (class only)
		if slots := map[int]int{0: 4, 1: 1, 2: 2}[c.Parallel]; slots > 1 {
			nAlt := ref.last
			for i := ref.last - 1; i >= 0 && ref.count[i] <= ref.ctx*slots; i-- {
				nAlt = i
			}
			if nAlt != ref.n {
				cl("parallel_slots_would_matter")
			}
		}
	} else {
		if c.GenImages > 0 {
			cl("generate_with_images")
		}
		if c.GenImages > 1 {
			cl("generate_two_images")
		}
		if len(c.GenSystem) > 0 {
			cl("generate_system_in_request")
			if len(c.System) > 0 {
				cl("generate_system_overrides_model_system")
			}
		}
		if c.GenContext > 0 {
			cl("generate_context")
		}
	}
	// non-trivial at route level: the reference's rule (a cut that loses something while a system message or an
	// image is around), or the handler had to combine model-side material (MESSAGE history, SYSTEM) with the
	// request, or a generate request carried images
	info.nontrivial = info.nontrivial || len(c.ModelMsgs) > 0 || len(c.System) > 0 || (c.Kind == "generate" && c.GenImages > 0)

	// the code under test
	e, err := c19rGetEnv()
	if err != nil {
		return info, fmt.Errorf("harness environment: %v", err)
	}
	if err := e.ensureModel(c, paramCtx); err != nil {
		return info, fmt.Errorf("model could not be created: %v", err)
	}
	e.h = e.hs[c.Parallel]
	if c.Parallel > 0 {
		os.Setenv("OLLAMA_NUM_PARALLEL", fmt.Sprint(c.Parallel))
	} else {
		os.Unsetenv("OLLAMA_NUM_PARALLEL")
	}
	e.runner.take()
	no := false
	var body []byte
	path := "/api/chat"
	if c.Kind == "chat" {
		req := api.ChatRequest{Model: c19rModelName, Stream: &no}
		all := ref.build() // contents and image bytes of the effective conversation; the request holds its own part
		req.Messages = all[reqStart:]
		if c.CtxFrom == "request" || c.CtxFrom == "both" {
			req.Options = map[string]any{"num_ctx": ref.ctx}
		}
		body, err = json.Marshal(req)
	} else {
		path = "/api/generate"
		req := api.GenerateRequest{Model: c19rModelName, Stream: &no, Prompt: strings.Join(c.Prompt, " "), System: strings.Join(c.GenSystem, " ")}
		for i := 0; i < c.GenImages; i++ {
			req.Images = append(req.Images, api.ImageData(c19Image(i, 0, false)))
		}
		if c.GenContext > 0 {
			req.Context = make([]int, c.GenContext)
		}
		body, err = json.Marshal(req)
	}
	if err != nil {
		return info, fmt.Errorf("harness: request does not marshal: %v", err)
	}
	status, out := e.do(http.MethodPost, path, body)
	got := e.runner.take()
	if status != http.StatusOK {
		return info, fmt.Errorf("POST %s answered %d %s (request %s); %d completion requests reached the runner", path, status, c19rClip(out), c19rClip(body), len(got))
	}
	if len(got) != 1 {
		return info, fmt.Errorf("POST %s answered 200 but %d completion requests reached the runner, want 1", path, len(got))
	}
	prompt, images := got[0].Prompt, got[0].Images
	if got[0].Options == nil {
		cl("runner_options_missing")
	} else if c.Kind == "chat" && got[0].Options.NumCtx != ref.ctx {
		cl("runner_options_num_ctx_differs") // observation only: the statement is about the prompt
	}

	if c.Kind == "generate" && c.GenContext > 0 {
		pre := c19rContextText(c.GenContext)
		if !strings.HasPrefix(prompt, pre) {
			// the statement does not cover the deprecated context field: observation, then judged as it is
			cl("generate_context_not_in_front")
		} else {
			prompt = prompt[len(pre):]
		}
		if len(c.ModelMsgs) > 0 {
			// routes.go leaves the MESSAGE history out when a context is given (it is part of the context
			// already); nothing documents either choice: accept both, count which
			effB, _, _ := c19rEffective(c, false)
			if refB, infoB, errB := c19Prepare(effB); errB == nil && refB != nil && refB.n == 0 {
				if ib, eb := c19Judge(refB, o, infoB, "POST "+path, prompt, images, nil); eb == nil {
					cl("generate_context_history_omitted")
					info.summary = ib.summary
					return info, nil
				}
			}
			cl("generate_context_history_kept_or_failing")
		}
	}
	rinfo.classes = info.classes
	ji, jerr := c19Judge(ref, o, rinfo, "POST "+path, prompt, images, nil)
	info.summary, info.excluded = ji.summary, ji.excluded
	if jerr != nil {
		return info, fmt.Errorf("%v; effective conversation: %s; request: %s", jerr, c19rDescribe(eff, reqStart), c19rClip(body))
	}
	return info, nil
}

func c19rClip(b []byte) string {
	if len(b) > 600 {
		return string(b[:600]) + "…"
	}
	return string(b)
}

func c19rDescribe(eff c19Case, reqStart int) string {
	var sb strings.Builder
	for k, mm := range eff.Msgs {
		if k == reqStart {
			sb.WriteString("| ")
		}
		fmt.Fprintf(&sb, "%d:%s(%dw", k, mm.Role, len(strings.Fields(c19Content(mm))))
		if mm.Images > 0 {
			fmt.Fprintf(&sb, ",%dimg", mm.Images)
		}
		sb.WriteString(") ")
	}
	return strings.TrimSpace(sb.String()) + " (model part | request part)"
}

// ------------------------------------------------------------------------------------------ test

func TestC19Routes(t *testing.T) {
	const target = "TestC19Routes"
	rec := vfkit.Open(target)
	defer rec.Flush()
	t.Cleanup(func() {
		if c19rTheEnv != nil {
			os.RemoveAll(c19rTheEnv.dir)
		}
	})
	var rc c19rCase
	if rp, ok, err := vfkit.ReplayCase(target, &rc); ok {
		if err != nil {
			t.Fatalf("replay: %v", err)
		}
		// replays run the strict oracle: a replay of a known finding must fail while the defect exists
		info, err := c19rRun(rc, c19Opts{})
		t.Logf("replay: %s", info.summary)
		if err != nil {
			if slug, ok := strings.CutPrefix(rp.Expect, "known:"); ok && strings.HasPrefix(err.Error(), "["+slug+"]") {
				rec.KnownHit(slug, err.Error())
				if c19Assumed(slug) { // development aid: the driver does not know the finding yet
					t.Logf("KNOWN-FINDING (assumed): property=C19 %v", err)
					return
				}
			}
			rec.Fail(target, rc, err.Error())
			t.Fatalf("C19 violated: %v", err)
		}
		return
	}
	opts := c19Opts{tolerateSysBeforeLast: rec.Known(c19KnownSysBeforeLast)}
	rapid.Check(t, func(rt *rapid.T) {
		if rec.OverBudget() {
			return
		}
		c := c19rGen(rt)
		rec.Current(target, c)
		info, err := c19rRun(c, opts)
		for _, e := range info.excluded {
			rec.Excluded(e)
		}
		rec.Case(c, info.nontrivial, info.classes...)
		if err != nil {
			rec.Fail(target, c, err.Error())
			rt.Fatalf("C19 violated: %v", err)
		}
	})
}
