package sample

// C18 — Sampler returns an admissible token, deterministically under a seed
// (see /verif/DESIGN.md §3 C18).
//
// Generator: one sampler configuration (temperature, top-k, top-p, min-p, seed; in and out of the
// callers' ranges) and 1–4 logit vectors of length 1…300 (ties, runs of −Inf, a single finite value,
// huge / tiny magnitudes, near-equal floats; NaN/+Inf as a separate class), each sampled 1–64 times
// from the same sampler.
//
// Oracle (reference in float64, see c18Analyse): no panic; outside the NaN/+Inf/overflow/no-finite
// classes Sample returns nil error and an id in [0,n) whose logit is not −Inf, equal to the maximum
// when temperature is 0, and inside an OVER-approximation of the set kept by top-k → temperature →
// softmax → top-p → min-p (error bounds on every float32 step, so ties and rounding at a filter
// boundary are always accepted); two samplers built with the same seed ≥ 0 return identical
// (id, error) sequences over the same sequence of vectors. Seed −1 (global RNG) is exempt.

import (
	"fmt"
	"math"
	"sort"
	"testing"

	"pgregory.net/rapid"
	"verif.local/vfkit"
)

type c18Vec struct {
	Style string   `json:"style"`
	Bits  []uint32 `json:"bits"` // float32 bit patterns of the logits (JSON cannot carry NaN/Inf)
	Draws int      `json:"draws"`
}

type c18Case struct {
	Human string   `json:"human"` // readable rendering of the parameters; not read by c18Run
	Temp  uint32   `json:"temp_bits"`
	TopK  int      `json:"top_k"`
	TopP  uint32   `json:"top_p_bits"`
	MinP  uint32   `json:"min_p_bits"`
	Seed  int64    `json:"seed"`
	Vecs  []c18Vec `json:"vecs"`
}

var (
	c18NegInf = float32(math.Inf(-1))
	c18PosInf = float32(math.Inf(1))
	c18NaN    = float32(math.NaN())
)

func c18b(f float32) uint32 { return math.Float32bits(f) }
func c18f(b uint32) float32 { return math.Float32frombits(b) }

// ---------------------------------------------------------------------------------- generator

func c18GenNormal(t *rapid.T) float32 {
	return rapid.Float32Range(-30, 30).Draw(t, "v")
}

func c18GenHuge(t *rapid.T) float32 {
	v := rapid.OneOf(
		rapid.Float32Range(1e30, 3.4e38),
		rapid.Float32Range(1e36, 3.4e38),
		rapid.SampledFrom([]float32{math.MaxFloat32, 1e38, 3e38, 1e31, 1e32}),
	).Draw(t, "huge")
	if rapid.Bool().Draw(t, "neg") {
		v = -v
	}
	return v
}

func c18GenTiny(t *rapid.T) float32 {
	v := rapid.OneOf(
		rapid.Float32Range(0, 1e-30),
		rapid.Map(rapid.Uint32Range(0, 0x007fffff), c18f), // zero and subnormals
		rapid.SampledFrom([]float32{0, math.SmallestNonzeroFloat32, 1.1754944e-38, 1e-38}),
	).Draw(t, "tiny")
	if rapid.Bool().Draw(t, "neg") {
		v = -v // includes -0
	}
	return v
}

func c18GenAny(t *rapid.T) float32 {
	switch rapid.IntRange(0, 9).Draw(t, "anykind") {
	case 0:
		return c18GenHuge(t)
	case 1:
		return c18GenTiny(t)
	case 2:
		return c18NegInf
	case 3:
		return rapid.Float32Range(-1000, 1000).Draw(t, "wide")
	default:
		return c18GenNormal(t)
	}
}

var c18Styles = []string{
	"normal", "normal", "normal", "normal",
	"ties", "ties",
	"neginf", "neginf",
	"single_finite",
	"huge",
	"tiny",
	"near_equal", "near_equal",
	"mixed",
	"special",
	"all_neginf",
}

func c18GenVec(t *rapid.T) c18Vec {
	var v c18Vec
	n := rapid.OneOf(
		rapid.Just(1), rapid.IntRange(2, 3),
		rapid.IntRange(2, 8), rapid.IntRange(2, 8), rapid.IntRange(2, 8),
		rapid.IntRange(9, 40), rapid.IntRange(9, 40), rapid.IntRange(41, 300),
	).Draw(t, "n")
	v.Style = rapid.SampledFrom(c18Styles).Draw(t, "style")
	v.Draws = rapid.OneOf(rapid.IntRange(1, 4), rapid.IntRange(1, 64)).Draw(t, "draws")
	fresh := c18GenNormal
	switch v.Style {
	case "huge":
		fresh = func(t *rapid.T) float32 {
			if rapid.IntRange(0, 3).Draw(t, "hmix") == 0 {
				return c18GenNormal(t)
			}
			return c18GenHuge(t)
		}
	case "tiny":
		fresh = c18GenTiny
	case "mixed", "special":
		fresh = c18GenAny
	}
	vals := make([]float32, n)
	switch v.Style {
	case "single_finite", "all_neginf":
		for i := range vals {
			vals[i] = c18NegInf
		}
		if v.Style == "single_finite" {
			vals[rapid.IntRange(0, n-1).Draw(t, "pos")] = c18GenAny(t)
		}
	case "near_equal":
		base := rapid.OneOf(rapid.Float32Range(-30, 30), rapid.Float32Range(1, 2), rapid.Float32Range(-1e4, 1e4)).Draw(t, "base")
		spread := rapid.SampledFrom([]int{1, 1, 2, 3, 8, 1000}).Draw(t, "spread")
		for i := range vals {
			b := c18b(base)
			if b&0x7f800000 != 0x7f800000 {
				b += uint32(rapid.IntRange(0, spread).Draw(t, "ulps"))
			}
			vals[i] = c18f(b)
		}
	default:
		psize := rapid.IntRange(0, 4).Draw(t, "pool")
		if v.Style == "ties" {
			psize = rapid.IntRange(1, 3).Draw(t, "pool")
		}
		pool := make([]float32, psize)
		for i := range pool {
			pool[i] = fresh(t)
		}
		for i := range vals {
			hi := psize
			if v.Style == "ties" {
				hi = psize - 1
			}
			if sel := rapid.IntRange(0, hi).Draw(t, "sel"); sel < psize {
				vals[i] = pool[sel]
			} else {
				vals[i] = fresh(t)
			}
		}
		if v.Style == "neginf" || (v.Style == "mixed" && rapid.Bool().Draw(t, "runs")) {
			// one or two runs of −Inf plus isolated ones
			for r := rapid.IntRange(1, 2).Draw(t, "nruns"); r > 0; r-- {
				from := rapid.IntRange(0, n-1).Draw(t, "from")
				ln := rapid.IntRange(1, n).Draw(t, "len")
				for i := from; i < n && i < from+ln; i++ {
					vals[i] = c18NegInf
				}
			}
			if rapid.IntRange(0, 3).Draw(t, "keepone") > 0 {
				vals[rapid.IntRange(0, n-1).Draw(t, "keeppos")] = fresh(t)
			}
		}
		if v.Style == "special" {
			for r := rapid.IntRange(1, 3).Draw(t, "nspecial"); r > 0; r-- {
				vals[rapid.IntRange(0, n-1).Draw(t, "spos")] = rapid.SampledFrom([]float32{c18NaN, c18NaN, c18PosInf}).Draw(t, "sval")
			}
		}
	}
	v.Bits = make([]uint32, n)
	for i, f := range vals {
		v.Bits[i] = c18b(f)
	}
	return v
}

// c18GenProb draws top_p (skewLow false: mostly in the upper half, as callers use it) or min_p
// (skewLow true: mostly small), plus boundary, out-of-range and non-finite values.
func c18GenProb(t *rapid.T, label string, skewLow bool) float32 {
	skew := rapid.Float32Range(0.5, 1)
	if skewLow {
		skew = rapid.Float32Range(0, 0.3)
	}
	return rapid.OneOf(
		rapid.Float32Range(0, 1),
		skew, skew, skew,
		rapid.SampledFrom([]float32{0, 1, 0.9, 0.95, 0.05, 0.5, 1e-10, 0.99999994, 1e-45}),
		rapid.SampledFrom([]float32{-0.5, -1, 1.5, 2, 1e30, -1e30, 1.0000001, float32(math.Copysign(0, -1))}),
		rapid.SampledFrom([]float32{c18NaN, c18PosInf, c18NegInf, 0.3, 0.7}),
	).Draw(t, label)
}

func c18Gen(t *rapid.T) c18Case {
	var c c18Case
	temp := rapid.OneOf(
		rapid.Float32Range(0.05, 2), rapid.Float32Range(0.05, 2), rapid.Float32Range(0.05, 2), rapid.Float32Range(0.05, 2),
		rapid.Just(float32(0)),
		rapid.Float32Range(2, 5),
		rapid.SampledFrom([]float32{1e-9, 1e-8, 1e-7, 1.1e-7, 1e-6, 1e-5, 1e-4, 1e-3, 1e-2, 1e-45, 1e-40}),
		rapid.SampledFrom([]float32{-1, -0.5, -1e-9, -100, float32(math.Copysign(0, -1)), 0.8, 0.7, 1}),
		rapid.SampledFrom([]float32{100, 1e10, 1e30, math.MaxFloat32, c18PosInf, c18NaN, 1, 0.8}),
	).Draw(t, "temp")
	c.Temp = c18b(temp)
	c.TopK = rapid.OneOf(
		rapid.SampledFrom([]int{0, -1, -5, math.MinInt32}),
		rapid.Just(1),
		rapid.IntRange(2, 8), rapid.IntRange(2, 8),
		rapid.IntRange(1, 300),
		rapid.SampledFrom([]int{40, 50, 10, 299, 300, 301, 1000, math.MaxInt32}),
	).Draw(t, "topk")
	c.TopP = c18b(c18GenProb(t, "topp", false))
	c.MinP = c18b(c18GenProb(t, "minp", true))
	c.Seed = rapid.OneOf(
		// deterministic seeds first: shrinking moves towards them, so shrunk replays reproduce
		rapid.SampledFrom([]int64{0, 1, 42, 2, 12345}), rapid.SampledFrom([]int64{0, 1, 42, 2, 12345}),
		rapid.SampledFrom([]int64{0, 1, -1, -1}),
		rapid.Int64Range(0, math.MaxInt32), rapid.Int64Range(0, math.MaxInt32), rapid.Int64Range(0, math.MaxInt32),
		rapid.Int64Range(0, math.MaxInt64),
		rapid.SampledFrom([]int64{-2, -42, math.MinInt64, 7, 99, math.MaxInt64}),
	).Draw(t, "seed")
	nv := rapid.SampledFrom([]int{1, 1, 2, 2, 3, 4}).Draw(t, "nvecs")
	for i := 0; i < nv; i++ {
		c.Vecs = append(c.Vecs, c18GenVec(t))
	}
	c.Human = fmt.Sprintf("T=%g top_k=%d top_p=%g min_p=%g seed=%d", temp, c.TopK, c18f(c.TopP), c18f(c.MinP), c.Seed)
	return c
}

// ---------------------------------------------------------------------------------- reference

const (
	c18FailNegInf = 1 << iota // logit is −Inf although some logit is finite
	c18FailGreedy             // temperature 0 and logit below the maximum
	c18FailTopK               // logit below the k-th largest value
	c18FailTopP               // mass of strictly more probable tokens certainly exceeds top_p
	c18FailMinP               // probability certainly below min_p * p_max
)

type c18Ref struct {
	n        int
	hazard   string  // non-empty: class in which only "no panic, id in range when err == nil" is asserted
	greedy   bool    // temperature (after the documented clamp of negatives) is 0
	fail     []uint8 // per token: clauses that reject it (0 = admissible)
	distinct int     // number of distinct finite logit values (capped at 3)
	nFinite  int
	nAdm     int
	removed  uint8 // union of the clauses that reject at least one finite-logit token
	tieAtMax bool
	tieAtK   bool // the k-th and (k+1)-th largest values are equal (top-k boundary runs through a tie)
	eps      float64
	detail   func(id int) string
}

// c18Analyse computes, for one logit vector and one parameter set, which token ids the documented
// filter chain could legitimately return. Parameter clamps are the ones NewSampler documents in its
// body (negative temperature → 0, top_p/min_p clamped to [0,1], temperature raised to 1e-7).
//
// Error model (u = 2^-24, float32 unit round-off). With s = l/T and d = s - s_max exact:
//   - implementation's scaled difference d' satisfies |d'-d| <= 2^-23 (M + |d|), M = max |s| over the
//     kept tokens; the reference uses eta = 2^-22 (M + |d|) + 1e-37 (factor 2 margin, subnormal slack);
//   - e' = float32(exp(d')) lies in [exp(d-eta)(1-2u) - 2^-149, min(1, exp(d+eta)(1+2u) + 2^-149)];
//     tokens with the maximal logit have e' = 1 exactly, −Inf logits have e' = 0 exactly;
//   - float32 sums of n non-negative terms and the division carry relative error < 2n·u;
//     eps = 4(n+4)u covers both sums and the divisions with margin 2.
func c18Analyse(lg []float32, temp float32, topK int, topP, minP float32) *c18Ref {
	n := len(lg)
	r := &c18Ref{n: n, fail: make([]uint8, n)}
	if temp < 0 {
		temp = 0
	}
	if topP < 0 {
		topP = 0
	}
	if topP >= 1 {
		topP = 1
	}
	if minP < 0 {
		minP = 0
	}
	if minP >= 1 {
		minP = 1
	}
	hasNaN, hasPosInf := false, false
	lmax := math.Inf(-1)
	vals := make([]float64, 0, n)
	for _, x := range lg {
		f := float64(x)
		switch {
		case math.IsNaN(f):
			hasNaN = true
			continue
		case math.IsInf(f, 1):
			hasPosInf = true
		case !math.IsInf(f, -1):
			r.nFinite++
		}
		if f > lmax {
			lmax = f
		}
		vals = append(vals, f)
	}
	sort.Sort(sort.Reverse(sort.Float64Slice(vals)))
	for i, f := range vals {
		if !math.IsInf(f, 0) && (i == 0 || vals[i-1] != f) && r.distinct < 3 {
			r.distinct++
		}
	}
	r.tieAtMax = len(vals) >= 2 && vals[0] == vals[1] && !math.IsInf(vals[0], 0)
	r.eps = 4 * float64(n+4) / (1 << 24)

	if temp == 0 {
		r.greedy = true
		if hasNaN {
			r.hazard = "nan_posinf"
			return r
		}
		for i, x := range lg {
			if float64(x) != lmax {
				r.fail[i] = c18FailGreedy
			} else {
				r.nAdm++
			}
		}
		r.detail = func(id int) string { return fmt.Sprintf("temperature 0: logit[%d]=%g, max=%g", id, lg[id], lmax) }
		return r
	}

	switch {
	case hasNaN || hasPosInf:
		r.hazard = "nan_posinf"
	case r.nFinite == 0:
		r.hazard = "no_finite"
	case math.IsNaN(float64(temp)) || math.IsInf(float64(temp), 1):
		r.hazard = "temp_nonfinite"
	}
	if r.hazard != "" {
		return r
	}
	teff := float64(max(temp, float32(1e-7)))
	for _, f := range vals {
		if !math.IsInf(f, 0) && math.Abs(f/teff) >= 3.4e38 {
			r.hazard = "scale_overflow"
			return r
		}
	}

	// top-k: the multiset of the k largest values is determined even when the boundary is a tie
	kk := n
	if topK >= 1 && topK < n {
		kk = topK
		r.tieAtK = vals[kk-1] == vals[kk] && !math.IsInf(vals[kk], 0)
	}
	vk := vals[kk-1]
	K := vals[:kk]
	M := 0.0
	for _, f := range K {
		if !math.IsInf(f, -1) {
			M = math.Max(M, math.Abs(f/teff))
		}
	}
	const u2 = 1.0 / (1 << 23)
	const sub = 1.5e-45 // > 2^-149
	elo := make([]float64, kk)
	ehi := make([]float64, kk)
	pre := make([]float64, kk+1) // pre[i] = sum of elo[:i]
	zhi := 0.0
	for i, f := range K {
		switch {
		case f == lmax:
			elo[i], ehi[i] = 1, 1
		case math.IsInf(f, -1):
			elo[i], ehi[i] = 0, 0
		default:
			d := (f - lmax) / teff
			eta := (M+math.Abs(d))/(1<<22) + 1e-37
			elo[i] = math.Max(0, math.Exp(d-eta)*(1-u2)-sub)
			ehi[i] = math.Min(1, math.Exp(math.Min(0, d+eta))*(1+u2)+sub)
		}
		pre[i+1] = pre[i] + elo[i]
		zhi += ehi[i]
	}
	first := func(v float64) int { return sort.Search(kk, func(i int) bool { return K[i] <= v }) }
	pOff := math.IsNaN(float64(topP)) || topP == 1
	mOff := math.IsNaN(float64(minP))
	for i, x := range lg {
		f := float64(x)
		var m uint8
		if math.IsInf(f, -1) {
			m |= c18FailNegInf
		}
		if f < vk {
			m |= c18FailTopK
		} else {
			fi := first(f)
			if !pOff && pre[fi]/zhi*(1-r.eps) > float64(topP)+1e-30 {
				m |= c18FailTopP
			}
			if !mOff && ehi[fi]*(1+r.eps)+1e-38 < float64(minP) {
				m |= c18FailMinP
			}
		}
		r.fail[i] = m
		if m == 0 {
			r.nAdm++
		} else if !math.IsInf(f, -1) {
			r.removed |= m
		}
	}
	r.detail = func(id int) string {
		f := float64(lg[id])
		s := fmt.Sprintf("logit[%d]=%g max=%g T_eff=%g k-th largest=%g (k=%d of n=%d)", id, lg[id], lmax, teff, vk, kk, n)
		if f >= vk {
			fi := first(f)
			s += fmt.Sprintf("; lower bound of mass strictly above = %.9g (top_p=%g); upper bound of p/p_max = %.9g (min_p=%g); eps=%.3g",
				pre[fi]/zhi, topP, ehi[fi], minP, r.eps)
		}
		return s
	}
	return r
}

func c18FailNames(m uint8) string {
	s := ""
	for _, e := range []struct {
		b uint8
		n string
	}{{c18FailNegInf, "logit is -Inf"}, {c18FailGreedy, "not a maximum at temperature 0"}, {c18FailTopK, "outside top-k"},
		{c18FailTopP, "outside top-p"}, {c18FailMinP, "below min-p"}} {
		if m&e.b != 0 {
			if s != "" {
				s += ", "
			}
			s += e.n
		}
	}
	return s
}

// ---------------------------------------------------------------------------------------- run

type c18Info struct {
	nontrivial bool
	classes    []string
}

func c18Run(c c18Case) (info c18Info, err error) {
	cls := map[string]bool{}
	defer func() {
		for k := range cls {
			info.classes = append(info.classes, k)
		}
		sort.Strings(info.classes)
		if p := recover(); p != nil {
			err = fmt.Errorf("[%s] panic in Sample: %v", c.Human, p)
		}
	}()
	temp, topP, minP := c18f(c.Temp), c18f(c.TopP), c18f(c.MinP)
	a := NewSampler(temp, c.TopK, topP, minP, int(c.Seed), nil)
	b := NewSampler(temp, c.TopK, topP, minP, int(c.Seed), nil)
	seeded := c.Seed >= 0

	switch {
	case temp == 0:
		cls["temp_zero"] = true
	case temp < 0:
		cls["temp_negative"] = true
	case temp < 1e-3:
		cls["temp_tiny"] = true
	case temp > 5 || temp != temp:
		cls["temp_large_or_nonfinite"] = true
	default:
		cls["temp_typical"] = true
	}
	if topP != topP || topP < 0 || topP > 1 {
		cls["top_p_out_of_range"] = true
	}
	if minP != minP || minP < 0 || minP > 1 {
		cls["min_p_out_of_range"] = true
	}
	if c.TopK <= 0 {
		cls["top_k_le_0"] = true
	}
	if c.Seed == -1 {
		cls["seed_random"] = true
	} else if !seeded {
		cls["seed_negative_other"] = true
	}

	for vi, v := range c.Vecs {
		n := len(v.Bits)
		lg := make([]float32, n)
		for i, x := range v.Bits {
			lg[i] = c18f(x)
		}
		ref := c18Analyse(lg, temp, c.TopK, topP, minP)
		if n == 1 {
			cls["len_1"] = true
		}
		if n > 40 {
			cls["len_gt_40"] = true
		}
		if c.TopK >= n {
			cls["top_k_ge_n"] = true
		}
		if ref.nFinite == 1 && n > 1 {
			cls["single_finite"] = true
		}
		if ref.nFinite < n && ref.nFinite > 0 && ref.hazard == "" {
			cls["neginf_present"] = true
		}
		if ref.tieAtMax {
			cls["tie_at_max"] = true
		}
		if ref.tieAtK && ref.hazard == "" {
			cls["tie_at_top_k_boundary"] = true
		}
		switch v.Style {
		case "huge", "tiny", "near_equal":
			cls["style_"+v.Style] = true
		}
		if ref.hazard != "" {
			cls["hazard_"+ref.hazard] = true
		} else if ref.greedy {
			if ref.distinct >= 2 {
				cls["greedy_distinct"] = true
			}
		} else {
			if ref.nAdm >= 2 {
				cls["multi_candidate"] = true
				if seeded && v.Draws >= 2 {
					cls["determinism_nontrivial"] = true
				}
			}
			if ref.distinct >= 2 && ref.removed != 0 {
				info.nontrivial = true
				if ref.removed&c18FailTopK != 0 {
					cls["top_k_removes"] = true
				}
				if ref.removed&c18FailTopP != 0 {
					cls["top_p_removes"] = true
				}
				if ref.removed&c18FailMinP != 0 {
					cls["min_p_removes"] = true
				}
			}
		}

		for d := 0; d < v.Draws; d++ {
			in := append([]float32(nil), lg...) // Sample may mutate its argument: always a fresh copy
			id, serr := a.Sample(in)
			in2 := append([]float32(nil), lg...)
			id2, serr2 := b.Sample(in2)
			where := fmt.Sprintf("[%s] vector %d (n=%d, style %s) draw %d", c.Human, vi, n, v.Style, d)
			if seeded && (id != id2 || (serr == nil) != (serr2 == nil)) {
				return info, fmt.Errorf("%s: two samplers with seed %d diverge: (%d,%v) vs (%d,%v)", where, c.Seed, id, serr, id2, serr2)
			}
			if serr == nil && (id < 0 || int(id) >= n) {
				return info, fmt.Errorf("%s: returned id %d outside the vocabulary [0,%d)", where, id, n)
			}
			if ref.hazard != "" {
				continue // NaN / +Inf / overflow / no finite logit: an error is acceptable, nothing else asserted
			}
			if serr != nil {
				return info, fmt.Errorf("%s: error %q although all logits are finite or -Inf, one is finite and scaling stays finite", where, serr)
			}
			if m := ref.fail[id]; m != 0 {
				return info, fmt.Errorf("%s: returned inadmissible token (%s): %s", where, c18FailNames(m), ref.detail(int(id)))
			}
		}
	}
	return info, nil
}

func TestC18Sampler(t *testing.T) {
	const target = "TestC18Sampler"
	rec := vfkit.Open(target)
	defer rec.Flush()
	var rc c18Case
	if _, ok, err := vfkit.ReplayCase(target, &rc); ok {
		if err != nil {
			t.Fatalf("replay: %v", err)
		}
		if _, err := c18Run(rc); err != nil {
			rec.Fail(target, rc, err.Error())
			t.Fatalf("C18 violated: %v", err)
		}
		return
	}
	rapid.Check(t, func(rt *rapid.T) {
		if rec.OverBudget() {
			return
		}
		c := c18Gen(rt)
		info, err := c18Run(c)
		rec.Case(c, info.nontrivial, info.classes...)
		if err != nil {
			rec.Fail(target, c, err.Error())
			rt.Fatalf("C18 violated: %v", err)
		}
	})
}
