package sample

// Native coverage-guided mode of the C18 sampler check (thorough tier only): rapid.MakeFuzz feeds c18Gen from the
// fuzzer's byte string; same oracle as TestC18Sampler.

import (
	"testing"

	"pgregory.net/rapid"
)

func FuzzC18Sampler(f *testing.F) {
	f.Fuzz(rapid.MakeFuzz(func(rt *rapid.T) {
		c := c18Gen(rt)
		if _, err := c18Run(c); err != nil {
			rt.Fatalf("C18 violated: %v", err)
		}
	}))
}
