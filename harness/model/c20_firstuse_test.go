// C20, first use of a freshly loaded vocabulary by several callers at once (added after seeding round 2).
//
// Both tokenizers build per-vocabulary caches lazily on first use (the list of special tokens, the reverse map of
// token spellings, the merge ranks). The server and the runner tokenize requests concurrently, so the very first
// Encode calls on a fresh vocabulary may overlap: each of them must still return what a lone caller gets - in particular
// "text containing the literal form of a special token encodes that occurrence to the special token's id".
//
// This target is built with the race detector (GORACE=halt_on_error=1): N goroutines released together make the first
// Encode calls on one fresh tokenizer; every result is compared with a lone call on an identically built vocabulary.
// An unsynchronised lazy initialisation is reported by the detector whatever the timing; the comparison catches a
// caller that saw a half-built cache.
package model

import (
	"fmt"
	"sync"
	"testing"

	"pgregory.net/rapid"
	"verif.local/vfkit"
)

type c20FirstUse struct {
	Family  string  `json:"family"` // bpe | spm
	Callers int     `json:"callers"`
	Case    c20Case `json:"case"`
}

func c20GenFirstUse(t *rapid.T) c20FirstUse {
	var f c20FirstUse
	f.Family = rapid.SampledFrom([]string{"bpe", "spm"}).Draw(t, "family")
	f.Callers = rapid.IntRange(2, 8).Draw(t, "callers")
	if f.Family == "bpe" {
		f.Case = c20GenSynth(t)
	} else {
		f.Case = c20GenSPM(t)
	}
	f.Case.Long = nil
	return f
}

func c20RunFirstUse(f c20FirstUse) (info c20Info, err error) {
	text := f.Case.text()
	build := func() TextProcessor {
		if f.Family == "bpe" {
			return NewBytePairEncoding(c20Pattern(f.Case.Pre), c20SynthVocab(f.Case))
		}
		return NewSentencePieceModel(c20SPMVocab(f.Case))
	}
	alone, aerr := build().Encode(text, true)
	shared := build()
	n := max(2, min(f.Callers, 8))
	res := make([][]int32, n)
	errs := make([]error, n)
	back := make([]string, n)
	aloneBack := ""
	if aerr == nil {
		aloneBack, _ = build().Decode(alone)
	}
	var wg sync.WaitGroup
	start := make(chan struct{})
	for i := 0; i < n; i++ {
		wg.Add(1)
		go func(i int) {
			defer wg.Done()
			<-start
			res[i], errs[i] = shared.Encode(text, true)
			if errs[i] == nil {
				back[i], _ = shared.Decode(res[i])
			}
		}(i)
	}
	close(start)
	wg.Wait()
	info = c20Classify(text, c20FamilySpecials(map[string]string{"bpe": "bpe-synth", "spm": "spm-synth"}[f.Family]))
	info.classes = append(info.classes, "first_use_"+f.Family, fmt.Sprintf("callers_%d", n))
	for i := 0; i < n; i++ {
		if (errs[i] == nil) != (aerr == nil) {
			return info, fmt.Errorf("caller %d of %d concurrent first callers got error %v, a lone caller gets %v for %s", i, n, errs[i], aerr, c20Q(text))
		}
		if !c20Equal(res[i], alone) {
			return info, fmt.Errorf("caller %d of %d concurrent first callers on a fresh vocabulary got %s, a lone caller gets %s for %s", i, n, c20IDs(res[i]), c20IDs(alone), c20Q(text))
		}
		if errs[i] == nil && back[i] != aloneBack {
			return info, fmt.Errorf("caller %d of %d concurrent first callers decoded its ids to %s, a lone caller gets %s", i, n, c20Q(back[i]), c20Q(aloneBack))
		}
	}
	return info, nil
}

func TestC20FirstUse(t *testing.T) {
	const target = "TestC20FirstUse"
	rec := vfkit.Open(target)
	defer rec.Flush()
	var rc c20FirstUse
	if _, ok, err := vfkit.ReplayCase(target, &rc); ok {
		if err != nil {
			t.Fatalf("replay: %v", err)
		}
		rec.Current(target, rc)
		for i := 0; i < 20; i++ {
			if _, err := c20RunFirstUse(rc); err != nil {
				rec.Fail(target, rc, err.Error())
				t.Fatalf("C20 violated: %v", err)
			}
		}
		return
	}
	c20Pattern("llama3")
	rapid.Check(t, func(rt *rapid.T) {
		if rec.OverBudget() {
			return
		}
		f := c20GenFirstUse(rt)
		f.Case = c20Normalize(rec, f.Case)
		rec.Current(target, f)
		info, err := c20RunFirstUse(f)
		rec.Case(f, info.nontrivial, info.classes...)
		if err != nil {
			rec.Fail(target, f, err.Error())
			rt.Fatalf("C20 violated: %v", err)
		}
	})
}
