package model

// Native coverage-guided fuzz target for C20 (thorough tier only): arbitrary valid UTF-8 without NUL through the
// three tokenizer families with the oracle of the rapid targets (round trip, id range, special literals at their
// place). The rapid generator composes texts from tables of interesting chunks; the fuzzer follows coverage inside
// the pre-tokenizer regexp, the merge loop and the SentencePiece queue instead.

import (
	"strings"
	"testing"
	"unicode/utf8"
)

func FuzzC20Text(f *testing.F) {
	for _, s := range []string{
		"hello world", "Hello, World! 1234567", " \n\n \t x", "don't I'LL we've", "~¬®", "<|begin_of_text|>a<|eot_id|>", "<s>x</s>[INST]",
		"<0x41><0x0A>", "日本語 한국어 \U0001F468‍\U0001F469", "é ạ̈", "  　", "a\r\n\r\nb", "    4 spaces",
		"<|reserved_special_token_5|>", "<|begin_of_text|", "|eot_id|>", "▁", "\x01\x7f\u0080", strings.Repeat("ab ", 40),
	} {
		f.Add(s, uint16(0))
		f.Add(s, uint16(0xffff))
	}
	if _, err := c20Llama(); err != nil {
		f.Fatalf("harness: cannot load llama3.2 vocabulary: %v", err)
	}
	c20Pattern("llama3")
	f.Fuzz(func(t *testing.T, s string, mode uint16) {
		if len(s) > 4096 || !utf8.ValidString(s) || strings.ContainsRune(s, 0) {
			t.Skip()
		}
		// two parts (cut at a character boundary near the middle) so that "an earlier text on the same tokenizer" applies
		h := len(s) / 2
		for h > 0 && !utf8.RuneStart(s[h]) {
			h--
		}
		parts := []string{s[:h], s[h:]}
		bos, eos := mode&1 != 0, mode&2 != 0
		nm := []int{0, 2, 5, 10, 20, 40, 80, 0}[(mode>>2)&7]
		c := c20Case{Family: "bpe-llama3.2", Pre: "llama3", AddBOS: bos, AddEOS: eos, Parts: parts}
		if _, err := c20RunLlama(c); err != nil {
			t.Fatalf("C20 violated (llama 3.2 BPE): %v", err)
		}
		c = c20Case{Family: "bpe-synth", Pre: []string{"llama3", "mistral3"}[(mode>>5)&1], AddBOS: bos, AddEOS: eos, Parts: parts, NMerges: nm,
			Reverse: (mode>>6)&7 == 0, SpecialFirst: mode&0x8000 != 0}
		if (mode>>9)&3 == 0 {
			c.DropEvery = int((mode>>11)&3) + 1
		}
		if _, err := c20RunSynth(c); err != nil {
			t.Fatalf("C20 violated (generated BPE vocabulary): %v", err)
		}
		if !strings.Contains(s, spmWhitespaceSep) {
			c = c20Case{Family: "spm-synth", AddBOS: bos, AddEOS: eos, Parts: parts, NMerges: nm, ScoreMode: int((mode >> 6) & 3), CharMode: int((mode>>8)&3) % 3, ByteLayout: int(mode>>10) % 3}
			if nm == 0 {
				c.ScoreMode = 0
			}
			for i := 0; i < int((mode>>13)&3); i++ {
				c.Spans = append(c.Spans, c20Span{Start: int(mode>>3)%401 + 7*i, Len: 1 + (int(mode>>5)+3*i)%8, Score: []int{-7, 0, 1, -50}[(int(mode>>7)+i)%4]})
			}
			if _, err := c20RunSPM(c); err != nil {
				t.Fatalf("C20 violated (generated SentencePiece vocabulary): %v", err)
			}
		}
	})
}
