package model

// C20 — SentencePiece target.
//
// model/testdata/gemma2/tokenizer.model is empty in this tree, so the vocabulary is generated and
// byte-complete by construction. Layout (gemma 3 like):
//
//	0 <pad> 1 <eos> 2 <bos> (CONTROL)  3 <unk> (UNKNOWN)  4 <mask> 5 [@BOS@] (CONTROL)
//	6…104 <unused0>…<unused98> (UNUSED)  105 <start_of_turn> 106 <end_of_turn> (CONTROL)
//	whitespace runs and html tags (USER_DEFINED), <0x00>…<0xFF> (BYTE),
//	pieces learnt from a fixed corpus with score = -rank, the corpus' characters,
//	then per-case pieces: merges learnt from the case's own text (scores per ScoreMode),
//	characters of the text (CharMode) and arbitrary substrings of the text (Spans).
//
// Stated restriction: the text never contains U+2581, the family's own escape for a space.
// Vocabulary restriction: no piece other than the 256 BYTE tokens is spelled like a byte token.

import (
	"fmt"
	"slices"
	"strings"
	"sync"
	"testing"

	"pgregory.net/rapid"
)

var c20SPMSpecials = []string{"<pad>", "<eos>", "<bos>", "<mask>", "[@BOS@]", "<start_of_turn>", "<end_of_turn>"}

type c20SPMBase struct {
	values []string
	types  []uint32
	scores []float32
	seen   map[string]bool
}

var (
	c20SPMOnce sync.Once
	c20SPMHead c20SPMBase
)

// c20SPMWords escapes spaces and cuts the text into words that start at an escaped space or after
// a newline, each word a list of its characters.
func c20SPMWords(text string) [][]string {
	var words [][]string
	var cur []string
	for _, sg := range c20Segment(text, c20SPMSpecials) {
		if sg.special {
			continue
		}
		for _, r := range strings.ReplaceAll(sg.text, " ", spmWhitespaceSep) {
			s := string(r)
			if (s == spmWhitespaceSep || r == '\n') && len(cur) > 0 && cur[len(cur)-1] != spmWhitespaceSep {
				words = append(words, cur)
				cur = nil
			}
			cur = append(cur, s)
		}
		if len(cur) > 0 {
			words = append(words, cur)
			cur = nil
		}
	}
	return words
}

func c20ByteShaped(s string) bool {
	s = strings.ReplaceAll(s, spmWhitespaceSep, " ")
	return len(s) == 6 && strings.HasPrefix(s, "<0x") && strings.HasSuffix(s, ">")
}

func (b *c20SPMBase) add(s string, typ uint32, score float32) {
	if s == "" || b.seen[s] {
		return
	}
	b.seen[s] = true
	b.values = append(b.values, s)
	b.types = append(b.types, typ)
	b.scores = append(b.scores, score)
}

func c20SPMInit() {
	c20SPMOnce.Do(func() {
		b := &c20SPMHead
		b.seen = map[string]bool{}
		b.add("<pad>", TOKEN_TYPE_CONTROL, 0)
		b.add("<eos>", TOKEN_TYPE_CONTROL, 0)
		b.add("<bos>", TOKEN_TYPE_CONTROL, 0)
		b.add("<unk>", TOKEN_TYPE_UNKNOWN, 0)
		b.add("<mask>", TOKEN_TYPE_CONTROL, 0)
		b.add("[@BOS@]", TOKEN_TYPE_CONTROL, 0)
		for i := 0; len(b.values) < 105; i++ {
			b.add(fmt.Sprintf("<unused%d>", i), TOKEN_TYPE_UNUSED, 0)
		}
		b.add("<start_of_turn>", TOKEN_TYPE_CONTROL, 0)
		b.add("<end_of_turn>", TOKEN_TYPE_CONTROL, 0)
		if b.values[105] != "<start_of_turn>" || b.values[106] != "<end_of_turn>" {
			panic("harness: layout")
		}
		for n := 1; n <= 4; n++ {
			b.add(strings.Repeat("\n", n), TOKEN_TYPE_USER_DEFINED, -1000)
		}
		for n := 2; n <= 8; n++ {
			b.add(strings.Repeat(spmWhitespaceSep, n), TOKEN_TYPE_USER_DEFINED, -1000)
		}
		for _, tag := range []string{"<table>", "</table>", "<h1>", "<html>", "<br>"} {
			b.add(tag, TOKEN_TYPE_USER_DEFINED, -1000)
		}
		for i := 0; i < 256; i++ {
			b.add(fmt.Sprintf("<0x%02X>", i), TOKEN_TYPE_BYTE, 0)
		}
		words := c20SPMWords(c20Corpus)
		chars := map[string]bool{}
		var order []string
		for _, w := range words {
			for _, ch := range w {
				if !chars[ch] {
					chars[ch] = true
					order = append(order, ch)
				}
			}
		}
		for i, m := range c20Train(words, 400) {
			if p := m[0] + m[1]; !c20ByteShaped(p) {
				b.add(p, TOKEN_TYPE_NORMAL, -float32(i))
			}
		}
		for i, ch := range order {
			b.add(ch, TOKEN_TYPE_NORMAL, -float32(1000+i))
		}
	})
}

func c20SPMVocab(c c20Case) *Vocabulary {
	c20SPMInit()
	h := &c20SPMHead
	b := &c20SPMBase{
		values: append(make([]string, 0, len(h.values)+128), h.values...),
		types:  append(make([]uint32, 0, len(h.values)+128), h.types...),
		scores: append(make([]float32, 0, len(h.values)+128), h.scores...),
		seen:   make(map[string]bool, 128),
	}
	if c.ByteLayout%3 != 0 {
		start := slices.Index(b.values, "<0x00>")
		for i := 0; i < 256; i++ {
			j := 255 - i
			if c.ByteLayout%3 == 2 {
				j = (i + 7) % 256
			}
			b.values[start+j] = fmt.Sprintf("<0x%02X>", i)
		}
	}
	add := func(s string, score float32) {
		if h.seen[s] || c20ByteShaped(s) || strings.Contains(s, " ") {
			return
		}
		for _, l := range c20SPMSpecials {
			if strings.Contains(s, l) {
				return
			}
		}
		b.add(s, TOKEN_TYPE_NORMAL, score)
	}
	text := c.vocabText()
	words := c20SPMWords(text + "\n" + strings.Join(c.Train, ""))
	if c.NMerges > 0 {
		for i, m := range c20Train(words, c.NMerges) {
			var score float32
			switch c.ScoreMode {
			case 0:
				score = -float32(i) - 0.5
			case 1:
				score = -7
			case 2:
				score = -float32(i / 4)
			default:
				score = float32(i) - 300
			}
			add(m[0]+m[1], score)
		}
	}
	var esc []rune
	for _, sg := range c20Segment(text, c20SPMSpecials) {
		if !sg.special {
			esc = append(esc, []rune(strings.ReplaceAll(sg.text, " ", spmWhitespaceSep))...)
			esc = append(esc, '\n')
		}
	}
	if c.CharMode > 0 {
		for i, r := range esc {
			if c.CharMode == 1 || i%2 == 0 {
				add(string(r), -2000)
			}
		}
	}
	if len(esc) > 0 {
		for _, sp := range c.Spans {
			st := sp.Start % len(esc)
			end := min(st+sp.Len, len(esc))
			add(string(esc[st:end]), float32(sp.Score))
		}
	}
	return &Vocabulary{Values: b.values, Types: b.types, Scores: b.scores, BOS: 2, EOS: 1, EOT: 106}
}

func c20GenSPM(t *rapid.T) c20Case {
	c := c20Case{Family: "spm-synth"}
	c.AddBOS = rapid.Bool().Draw(t, "addbos")
	c.AddEOS = rapid.IntRange(0, 3).Draw(t, "addeos") == 0
	c.Parts = c20GenParts(t, "", c20SPMSpecials)
	c.SpecialFirst = rapid.IntRange(0, 2).Draw(t, "special_first") == 0
	c.NMerges = rapid.SampledFrom([]int{0, 0, 2, 5, 10, 20, 40, 80}).Draw(t, "nmerges")
	if c.NMerges > 0 {
		c.ScoreMode = rapid.IntRange(0, 3).Draw(t, "scoremode")
		if rapid.IntRange(0, 2).Draw(t, "hastrain") == 0 {
			c.Train = c20GenParts(t, "train.", nil)
		}
	}
	c.CharMode = rapid.IntRange(0, 2).Draw(t, "charmode")
	c.ByteLayout = rapid.SampledFrom([]int{0, 0, 1, 2}).Draw(t, "byte_layout")
	ns := rapid.SampledFrom([]int{0, 0, 1, 2, 4, 8}).Draw(t, "nspans")
	for i := 0; i < ns; i++ {
		c.Spans = append(c.Spans, c20Span{
			Start: rapid.IntRange(0, 400).Draw(t, "spanstart"),
			Len:   rapid.IntRange(1, 8).Draw(t, "spanlen"),
			Score: rapid.SampledFrom([]int{-7, -7, 0, 1, -1, -50, -300, 5}).Draw(t, "spanscore"),
		})
	}
	c.Long = c20MaybeLong(t)
	return c
}

func c20RunSPM(c c20Case) (c20Info, error) {
	if strings.Contains(c.text(), spmWhitespaceSep) {
		// outside the stated domain (hand-written replay): nothing to check
		return c20Info{classes: []string{"outside_domain_u2581"}}, nil
	}
	v := c20SPMVocab(c)
	spm := NewSentencePieceModel(v)
	tok := c20NewTok(spm, v)
	tok.specialFirst = c.SpecialFirst
	warmed := false
	if w, ok := c20EarlierText(c, tok.specials); ok && !strings.Contains(w, spmWhitespaceSep) {
		// a tokenizer serves many texts: an earlier one (the same parts in reverse order, so other special literals come
		// first) must leave nothing behind that changes the encoding of the next
		if _, werr := c20Oracle(tok, w, c.AddBOS, c.AddEOS); werr != nil {
			return c20Info{classes: []string{"earlier_text_on_same_tokenizer"}}, fmt.Errorf("earlier text on the same tokenizer: %v", werr)
		}
		warmed = true
	}
	info, err := c20Oracle(tok, c.text(), c.AddBOS, c.AddEOS)
	if warmed {
		info.classes = append(info.classes, "earlier_text_on_same_tokenizer")
		if err != nil {
			err = fmt.Errorf("after an earlier text on the same tokenizer: %v", err)
		}
	}
	if c.NMerges > 0 {
		info.classes = append(info.classes, "per_case_merges")
		if c.ScoreMode == 1 || c.ScoreMode == 2 {
			info.classes = append(info.classes, "tied_scores")
		}
	}
	if len(c.Spans) > 0 {
		info.classes = append(info.classes, "substring_pieces")
	}
	info.classes = append(info.classes, fmt.Sprintf("char_mode_%d", c.CharMode))
	return info, err
}

func TestC20SPM(t *testing.T) {
	c20Target(t, "TestC20SPM", c20GenSPM, c20RunSPM)
}
