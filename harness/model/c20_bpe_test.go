package model

// C20 — byte-pair-encoding targets.
//
//   TestC20BPELlama  the llama 3.2 vocabulary and merges shipped in model/testdata/llama3.2, the 256
//                    llama 3 special tokens appended as CONTROL tokens (ids 128000…128255 as in the
//                    released model), the llama 3 pre-tokenizer pattern that models/llama passes.
//   TestC20BPESynth  a byte-complete vocabulary built per case: the 256 byte symbols in GPT-2 order,
//                    merges learnt from a fixed corpus plus merges learnt from the case's own text,
//                    seven CONTROL tokens; pre-tokenizer pattern of models/llama or models/mistral3.

import (
	"bufio"
	"encoding/json"
	"fmt"
	"os"
	"path/filepath"
	"regexp"
	"strings"
	"sync"
	"testing"

	"pgregory.net/rapid"
	"verif.local/vfkit"
)

const (
	c20PreLlama3  = `(?i:'s|'t|'re|'ve|'m|'ll|'d)|[^\r\n\p{L}\p{N}]?\p{L}+|\p{N}{1,3}| ?[^\s\p{L}\p{N}]+[\r\n]*|\s*[\r\n]+|\s+(?!\S)|\s+`
	c20PreMistral = `[^\r\n\p{L}\p{N}]?[\p{Lu}\p{Lt}\p{Lm}\p{Lo}\p{M}]*[\p{Ll}\p{Lm}\p{Lo}\p{M}]+|[^\r\n\p{L}\p{N}]?[\p{Lu}\p{Lt}\p{Lm}\p{Lo}\p{M}]+[\p{Ll}\p{Lm}\p{Lo}\p{M}]*|\p{N}| ?[^\s\p{L}\p{N}]+[\r\n/]*|\s*[\r\n]+|\s+(?!\S)|\s+`
)

// c20Pattern returns the pre-tokenizer pattern that the named model implementation passes to
// NewBytePairEncoding when the model file does not override it. Package model cannot import the
// model implementations (import cycle), so the default is read from the implementation's source
// in the tree under test; if that is not possible the copy above (pinned commit) is used. Which
// one was used is written to the evidence.
func c20Pattern(name string) string {
	c20PatOnce.Do(func() {
		c20Pats = map[string]string{"llama3": c20PreLlama3, "mistral3": c20PreMistral}
		c20PatSrc = map[string]string{"llama3": "harness copy", "mistral3": "harness copy"}
		for name, file := range map[string]string{"llama3": "model/models/llama/model.go", "mistral3": "model/models/mistral3/model_text.go"} {
			src, err := os.ReadFile(filepath.Join(c20RepoDir(), file))
			if err != nil {
				continue
			}
			if m := c20PatRe.FindSubmatch(src); m != nil {
				c20Pats[name] = string(m[1])
				c20PatSrc[name] = file
			}
		}
	})
	if name == "mistral3" {
		return c20Pats["mistral3"]
	}
	return c20Pats["llama3"]
}

var (
	c20PatOnce sync.Once
	c20Pats    map[string]string
	c20PatSrc  map[string]string
	c20PatRe   = regexp.MustCompile("\"tokenizer\\.ggml\\.pretokenizer\",\\s*`([^`]+)`")
)

// c20ByteSymbols is the GPT-2 byte → printable rune table (the reference one: '~' stays '~'),
// and the order in which the 256 symbols open a GPT-2 style vocabulary.
func c20ByteSymbols() (sym [256]string, order []string) {
	printable := func(b int) bool {
		return (b >= 0x21 && b <= 0x7e) || (b >= 0xa1 && b <= 0xac) || (b >= 0xae && b <= 0xff)
	}
	n := 0
	var late []string
	for b := 0; b < 256; b++ {
		if printable(b) {
			sym[b] = string(rune(b))
			order = append(order, sym[b])
		} else {
			sym[b] = string(rune(256 + n))
			late = append(late, sym[b])
			n++
		}
	}
	return sym, append(order, late...)
}

func c20RepoDir() string {
	if d := os.Getenv("VERIF_REPO"); d != "" {
		return d
	}
	return "/repo"
}

// ------------------------------------------------------------------------------- llama 3.2 vocabulary

// c20LlamaSpecials lists the special tokens of the released llama 3.2 tokenizer, ids 128000…128255.
func c20LlamaSpecials() []string {
	out := []string{
		"<|begin_of_text|>", "<|end_of_text|>", "<|reserved_special_token_0|>", "<|reserved_special_token_1|>",
		"<|finetune_right_pad_id|>", "<|reserved_special_token_2|>", "<|start_header_id|>", "<|end_header_id|>",
		"<|eom_id|>", "<|eot_id|>", "<|python_tag|>",
	}
	for i := 3; len(out) < 256; i++ {
		out = append(out, fmt.Sprintf("<|reserved_special_token_%d|>", i))
	}
	return out
}

var (
	c20LlamaOnce sync.Once
	c20LlamaTok  *c20Tok
	c20LlamaErr  error
)

// c20Llama loads the vocabulary once per process (the same way process_text_test.go does, except
// that every merge line is kept — the file has no header — and the full special-token table is
// appended instead of two entries).
func c20Llama() (*c20Tok, error) {
	c20LlamaOnce.Do(func() {
		dir := filepath.Join(c20RepoDir(), "model", "testdata", "llama3.2")
		f, err := os.Open(filepath.Join(dir, "encoder.json"))
		if err != nil {
			c20LlamaErr = err
			return
		}
		defer f.Close()
		vocab := make(map[string]int32)
		if err := json.NewDecoder(f).Decode(&vocab); err != nil {
			c20LlamaErr = err
			return
		}
		types := make([]uint32, len(vocab))
		tokens := make([]string, len(vocab))
		for token, id := range vocab {
			if id < 0 || int(id) >= len(tokens) || types[id] != 0 {
				c20LlamaErr = fmt.Errorf("encoder.json: ids are not a permutation of 0..%d (id %d)", len(tokens)-1, id)
				return
			}
			tokens[id] = token
			types[id] = TOKEN_TYPE_NORMAL
		}
		for _, token := range c20LlamaSpecials() {
			if _, ok := vocab[token]; !ok {
				vocab[token] = int32(len(tokens))
				tokens = append(tokens, token)
				types = append(types, TOKEN_TYPE_CONTROL)
			}
		}
		mf, err := os.Open(filepath.Join(dir, "vocab.bpe"))
		if err != nil {
			c20LlamaErr = err
			return
		}
		defer mf.Close()
		merges := make([]string, 0, 300000)
		sc := bufio.NewScanner(mf)
		for sc.Scan() {
			if line := sc.Text(); strings.Count(line, " ") == 1 {
				merges = append(merges, line)
			}
		}
		// precondition of the property ("vocabularies that cover every byte"): all 256 byte symbols
		sym, _ := c20ByteSymbols()
		for b := 0; b < 256; b++ {
			if _, ok := vocab[sym[b]]; !ok {
				c20LlamaErr = fmt.Errorf("llama3.2 vocabulary has no token for byte 0x%02x", b)
				return
			}
		}
		v := &Vocabulary{
			Values: tokens, Types: types, Merges: merges,
			BOS: vocab["<|begin_of_text|>"], EOS: vocab["<|eot_id|>"], AddBOS: true,
		}
		bpe := NewBytePairEncoding(c20Pattern("llama3"), v)
		c20LlamaTok = c20NewTok(bpe, v)
	})
	return c20LlamaTok, c20LlamaErr
}

// near-specials and favourites of the llama vocabulary are drawn more often than the 245 reserved ones
func c20LlamaLiterals() []string {
	all := c20LlamaSpecials()
	out := append([]string{}, all[:11]...)
	out = append(out, all[:11]...)
	out = append(out, all[11], all[20], all[255])
	return out
}

func c20GenLlama(t *rapid.T) c20Case {
	c := c20Case{Family: "bpe-llama3.2", Pre: "llama3"}
	c.AddBOS = rapid.IntRange(0, 3).Draw(t, "addbos") > 0
	c.AddEOS = rapid.IntRange(0, 3).Draw(t, "addeos") == 0
	c.Parts = c20GenParts(t, "", c20LlamaLiterals())
	c.SpecialFirst = rapid.IntRange(0, 2).Draw(t, "special_first") == 0
	c.Long = c20MaybeLong(t)
	return c
}

func c20RunLlama(c c20Case) (c20Info, error) {
	k, err := c20Llama()
	if err != nil {
		panic("harness: cannot load llama3.2 vocabulary: " + err.Error())
	}
	k.specialFirst = c.SpecialFirst
	return c20Oracle(k, c.text(), c.AddBOS, c.AddEOS)
}

// ------------------------------------------------------------------------------ generated vocabulary

var c20SynthSpecials = []string{"<|begin_of_text|>", "<|end_of_text|>", "<|eot_id|>", "<s>", "</s>", "[INST]", "[/INST]"}

var (
	c20SplitOnce  sync.Once
	c20Splitters  map[string]*BytePairEncoding
	c20BaseMerges map[string][][2]string // pattern name -> merges learnt from the fixed corpus
)

func c20SynthInit() {
	c20SplitOnce.Do(func() {
		c20Splitters = map[string]*BytePairEncoding{}
		c20BaseMerges = map[string][][2]string{}
		for _, name := range []string{"llama3", "mistral3"} {
			b := NewBytePairEncoding(c20Pattern(name), &Vocabulary{})
			c20Splitters[name] = &b
			c20BaseMerges[name] = c20Train(c20BPEWords(name, c20Corpus), 300)
		}
	})
}

// c20BPEWords pre-tokenizes text the way the tokenizer under test does (split is also what the
// package's own tests call) and maps every byte to its GPT-2 symbol.
func c20BPEWords(pre, text string) [][]string {
	sym, _ := c20ByteSymbols()
	var words [][]string
	for _, sg := range c20Segment(text, c20SynthSpecials) {
		if sg.special {
			continue
		}
		for w := range c20Splitters[pre].split(sg.text) {
			word := make([]string, 0, len(w))
			for _, b := range []byte(w) {
				word = append(word, sym[b])
			}
			words = append(words, word)
		}
	}
	return words
}

func c20SynthVocab(c c20Case) *Vocabulary {
	c20SynthInit()
	_, order := c20ByteSymbols()
	v := &Vocabulary{}
	seen := map[string]bool{}
	addTok := func(s string, typ uint32) {
		if !seen[s] {
			seen[s] = true
			v.Values = append(v.Values, s)
			v.Types = append(v.Types, typ)
		}
	}
	for _, s := range order {
		addTok(s, TOKEN_TYPE_NORMAL)
	}
	merges := append([][2]string{}, c20BaseMerges[c.Pre]...)
	nbase := len(merges)
	if c.NMerges > 0 {
		merges = append(merges, c20Train(c20BPEWords(c.Pre, c.vocabText()+"\n"+strings.Join(c.Train, "")), c.NMerges)...)
	}
	mseen := map[[2]string]bool{}
	for i, m := range merges {
		if mseen[m] {
			continue
		}
		mseen[m] = true
		v.Merges = append(v.Merges, m[0]+" "+m[1])
		if c.DropEvery > 0 && i >= nbase && (i-nbase)%c.DropEvery == c.DropEvery-1 {
			continue // a merge whose result is not a token: the encoder has to skip it
		}
		addTok(m[0]+m[1], TOKEN_TYPE_NORMAL)
	}
	if c.Reverse {
		for i, j := 0, len(v.Merges)-1; i < j; i, j = i+1, j-1 {
			v.Merges[i], v.Merges[j] = v.Merges[j], v.Merges[i]
		}
	}
	for _, s := range c20SynthSpecials {
		addTok(s, TOKEN_TYPE_CONTROL)
	}
	v.BOS = int32(len(v.Values) - len(c20SynthSpecials))
	v.EOS = v.BOS + 1
	return v
}

func c20GenSynth(t *rapid.T) c20Case {
	c := c20Case{Family: "bpe-synth"}
	c.Pre = rapid.SampledFrom([]string{"llama3", "llama3", "mistral3"}).Draw(t, "pre")
	c.AddBOS = rapid.Bool().Draw(t, "addbos")
	c.AddEOS = rapid.Bool().Draw(t, "addeos")
	c.Parts = c20GenParts(t, "", c20SynthSpecials)
	c.SpecialFirst = rapid.IntRange(0, 2).Draw(t, "special_first") == 0
	c.NMerges = rapid.SampledFrom([]int{0, 0, 2, 5, 10, 20, 40, 80}).Draw(t, "nmerges")
	if c.NMerges > 0 && rapid.IntRange(0, 2).Draw(t, "hastrain") == 0 {
		c.Train = c20GenParts(t, "train.", nil)
	}
	c.Reverse = rapid.IntRange(0, 5).Draw(t, "reverse") == 0
	if rapid.IntRange(0, 5).Draw(t, "drop") == 0 {
		c.DropEvery = rapid.IntRange(1, 4).Draw(t, "dropevery")
	}
	c.Long = c20MaybeLong(t)
	return c
}

func c20RunSynth(c c20Case) (c20Info, error) {
	v := c20SynthVocab(c)
	bpe := NewBytePairEncoding(c20Pattern(c.Pre), v)
	tok := c20NewTok(bpe, v)
	tok.specialFirst = c.SpecialFirst
	warmed := false
	if w, ok := c20EarlierText(c, tok.specials); ok {
		if _, werr := c20Oracle(tok, w, c.AddBOS, c.AddEOS); werr != nil {
			return c20Info{classes: []string{"earlier_text_on_same_tokenizer"}}, fmt.Errorf("earlier text on the same tokenizer: %v", werr)
		}
		warmed = true
	}
	info, err := c20Oracle(tok, c.text(), c.AddBOS, c.AddEOS)
	if warmed {
		info.classes = append(info.classes, "earlier_text_on_same_tokenizer")
		if err != nil {
			err = fmt.Errorf("after an earlier text on the same tokenizer: %v", err)
		}
	}
	info.classes = append(info.classes, "pre_"+c.Pre)
	if c.NMerges > 0 {
		info.classes = append(info.classes, "per_case_merges")
	}
	if c.Reverse {
		info.classes = append(info.classes, "reversed_ranks")
	}
	if c.DropEvery > 0 {
		info.classes = append(info.classes, "merge_without_token")
	}
	return info, err
}

// c20EarlierText: for half of the short cases with at least two parts, the text encoded on the same tokenizer before
// the case's own text.
func c20EarlierText(c c20Case, specials []string) (string, bool) {
	if c.Long != nil || len(c.Parts) < 2 || len(c.text()) > 4096 || len(c.text())%2 == 1 {
		return "", false
	}
	// One special literal (the last of the vocabulary's list, or another one for every fourth text) and ordinary words:
	// the earlier text uses a special token the case's own text may lack, and none of the others.
	w := "earlier text: caf\u00e9 \u65e5\u672c 42"
	if len(specials) > 0 {
		w = specials[(len(specials)-1+len(c.text())/2%4)%len(specials)] + " " + w
	}
	return w, w != c.text()
}

// ------------------------------------------------------------------------------------------- targets

func c20Assumed(slug string) bool {
	for _, n := range strings.Split(os.Getenv("VERIF_ASSUME_KNOWN"), ",") {
		if n == slug {
			return true
		}
	}
	return false
}

func c20Target(t *testing.T, target string, gen func(*rapid.T) c20Case, run func(c20Case) (c20Info, error)) {
	rec := vfkit.Open(target)
	defer rec.Flush()
	defer c20SeenSummary(rec)
	var rc c20Case
	if rp, ok, err := vfkit.ReplayCase(target, &rc); ok {
		if err != nil {
			t.Fatalf("replay: %v", err)
		}
		if _, err := run(rc); err != nil {
			// development aid: a replay that documents a finding (expect = known:<slug>) is reported,
			// not failed, while that finding is only assumed known through VERIF_ASSUME_KNOWN. Once it
			// is listed in known_findings.json the replay fails as the driver expects.
			if slug, isKnown := strings.CutPrefix(rp.Expect, "known:"); isKnown && c20Assumed(slug) {
				rec.KnownHit(slug, err.Error())
				t.Logf("KNOWN-FINDING (assumed): property=C20 %s: %v", slug, err)
				return
			}
			rec.Fail(target, rc, err.Error())
			t.Fatalf("C20 violated: %v", err)
		}
		return
	}
	c20Pattern("llama3")
	rec.SetExtra("pretokenizer_pattern_source", fmt.Sprintf("llama3: %s; mistral3: %s", c20PatSrc["llama3"], c20PatSrc["mistral3"]))
	rapid.Check(t, func(rt *rapid.T) {
		if rec.OverBudget() {
			return
		}
		c := c20Normalize(rec, gen(rt))
		info, err := run(c)
		rec.Case(c, info.nontrivial, info.classes...)
		if err != nil {
			rec.Fail(target, c, err.Error())
			rt.Fatalf("C20 violated: %v", err)
		}
	})
}

func TestC20BPELlama(t *testing.T) {
	if _, err := c20Llama(); err != nil {
		t.Fatalf("harness: cannot load llama3.2 vocabulary: %v", err)
	}
	c20Target(t, "TestC20BPELlama", c20GenLlama, c20RunLlama)
}

func TestC20BPESynth(t *testing.T) {
	c20Target(t, "TestC20BPESynth", c20GenSynth, c20RunSynth)
}
