// Package c10hf is the structure-aware generator of hostile Hugging Face style model directories
// (config.json, tokenizer files, *.safetensors, LoRA adapters) for property C10. It exists only in
// the build overlay (/repo/verifc10hf/*.go -> this directory) and is used by the in-package
// harness of package server (TestC10Convert).
//
//	Case --Build--> small valid directory (converts in milliseconds) --(muts)--> hostile directory
//
// All draws happen in Gen; Build is a pure function of the case.
package c10hf

import (
	c10gen "github.com/ollama/ollama/verifc10gen"
	"pgregory.net/rapid"
)

// Tok describes the tokenizer files of the base directory.
type Tok struct {
	Kind   string `json:"kind"`   // json | spm | both
	Merges string `json:"merges"` // strings | pairs | none | empty   (tokenizer.json)
	Pre    string `json:"pre"`    // none | bytelevel | split | llama | seqempty
	Added  int    `json:"added"`  // added tokens beyond the base vocabulary
}

// ST describes how the tensors are written.
type ST struct {
	DTypes []string `json:"dtypes"` // cycled over the tensors: F32 | F16 | BF16
	NFiles int      `json:"nfiles"`
	Meta   int      `json:"meta"` // 0 no __metadata__, 1 {"format":"pt"}, 2 several entries
	Pad    bool     `json:"pad"`  // header padded with spaces to a multiple of 8
	Index  bool     `json:"index"`
}

// Aux selects the optional json files next to the tokenizer.
type Aux struct {
	TokCfg int  `json:"tokcfg"` // 0 none, 1 plain, 2 tokens as objects, 3 + chat_template string, 4 + chat_template list
	STMap  int  `json:"stmap"`  // special_tokens_map.json: 0 none, 1 without additional tokens, 2 additional tokens as objects
	Added  int  `json:"added"`  // added_tokens.json: 0 none, 1 appended ids, 2 repeats an existing piece
	GenCfg bool `json:"gencfg"`
}

// Adapter switches the case to the LoRA path: a base GGUF (c10gen file, unmutated) is created first,
// then the directory {adapter_config.json, adapter_model.safetensors} is sent as `adapters`.
type Adapter struct {
	Base    c10gen.Case `json:"base"`
	HFBase  bool        `json:"hf_base,omitempty"` // the base is the (unmutated) model directory of the case, sent as `files`, instead of a GGUF
	ViaFrom bool        `json:"via_from"`          // base created as a model first and named with `from`; otherwise sent as `files` of the same request
	Rank    int         `json:"rank"`
	Style   string      `json:"style"`   // peft (lora_A [r,in], lora_B [out,r]) | mlx (lora_a [in,r], lora_b [r,out])
	Targets []string    `json:"targets"` // projections that get a LoRA pair
	CfgKind int         `json:"cfg"`     // 0 peft (r, lora_alpha), 1 mlx (lora_parameters), 2 both
}

// Mut is one mutation, addressed by file kind, operation and indices taken modulo the live
// candidates at build time (so that shrunk cases stay meaningful).
type Mut struct {
	File string `json:"file"` // st cfg tok spm tokcfg stmap added acfg dir
	Op   string `json:"op"`
	Idx  int    `json:"idx,omitempty"` // which file (st) / which element
	T    int    `json:"t,omitempty"`   // which tensor / token
	Key  string `json:"key,omitempty"`
	Val  string `json:"val,omitempty"`
	Num  int64  `json:"num,omitempty"`
}

type Case struct {
	Arch    string   `json:"arch"`
	H       int      `json:"h"`
	L       int      `json:"l"`
	NH      int      `json:"nh"`
	NKV     int      `json:"nkv"`
	I       int      `json:"i"`
	V       int      `json:"v"`
	VPad    int      `json:"vpad"` // config vocab_size = number of tokens + VPad
	E       int      `json:"e,omitempty"`
	Rope    string   `json:"rope,omitempty"`
	Tie     bool     `json:"tie,omitempty"`
	Tok     Tok      `json:"tok"`
	ST      ST       `json:"st"`
	Aux     Aux      `json:"aux"`
	Adapter *Adapter `json:"adapter,omitempty"`
	Stream  bool     `json:"stream,omitempty"`
	Muts    []Mut    `json:"muts"`
}

// Archs are the architectures convert.ConvertModel knows in the pinned tree.
var Archs = []string{
	"LlamaForCausalLM", "MixtralForCausalLM", "GemmaForCausalLM", "Gemma2ForCausalLM", "Gemma3ForCausalLM",
	"Gemma3ForConditionalGeneration", "Phi3ForCausalLM", "Qwen2ForCausalLM", "BertModel", "CohereForCausalLM",
	"Mistral3ForConditionalGeneration",
}

var ropes = map[string][]string{
	"LlamaForCausalLM":   {"", "", "linear", "llama3", "llama3"},
	"MixtralForCausalLM": {"", "", "linear", "llama3"},
	"Phi3ForCausalLM":    {"", "", "su", "longrope", "yarn"},
}

// ---------------------------------------------------------------------------------- value tables

var hdrLenVals = []string{"0", "1", "-1", "7", "2^31", "2^31-1", "2^32", "2^40", "2^63-1", "-2^63", "-2^31", "fsize", "fsize-1", "fsize+1",
	"rem", "rem+1", "rem-1", "hdr-1", "hdr+1", "hdr+8", "64MiB", "200MiB"}

var offVals = []string{"reversed", "beyond", "beyond1", "huge", "huge63", "neg", "negboth", "overlap", "one", "empty", "three", "zero", "str",
	"float", "null", "missing", "beginpast", "short", "short1", "long", "obj"}

var dtypeVals = []string{"empty", "I8", "I32", "I64", "F64", "BOOL", "U8", "F8_E4M3", "f32", "num", "null", "missing", "arr", "swap", "swap"}

var shapeVals = []string{"zerofit", "halffit", "hugefit", "hugefit40", "zero", "allzero", "huge", "huge63", "max", "over", "neg", "plus1", "minus1", "flat", "rank3", "rank4", "rank5", "empty",
	"scalar", "str", "float", "frac", "null", "missing", "swap", "half"}

var nameVals = []string{"drop", "dup", "alias", "empty", "unexpected", "ggufname", "expert", "expertonly", "long", "unicode", "ropefreqs",
	"blk0", "tokentypes", "vprefix", "norm2d", "metadata", "dropall"}

var hdrJSONVals = []string{"notjson", "array", "empty", "null", "entrystr", "entrynull", "entryarr", "entrynum", "metanested", "metanum", "truncjson",
	"bom", "trailing", "deep", "string", "number", "dupkey"}

var truncVals = []string{"inlen", "afterlen", "inhdr", "hdrend", "hdrend+1", "indata", "last1", "empty", "tensorend"}

var cfgVals = []string{"0", "1", "2", "3", "7", "-1", "-8", "2^31", "2^32-1", "2^32", "2^63", "1e30", "1.5", "str4", "strx", "arr", "arrstr",
	"obj", "null", "true", "emptystr", "missing", "1000003", "65536", "1<<20", "1<<24"}

var cfgKeys = []string{
	"architectures", "vocab_size", "hidden_size", "num_hidden_layers", "num_attention_heads", "num_key_value_heads", "intermediate_size",
	"head_dim", "rope_theta", "rope_scaling", "rope_scaling.type", "rope_scaling.rope_type", "rope_scaling.factor", "rope_scaling.long_factor",
	"rope_scaling.short_factor", "rope_scaling.original_max_position_embeddings", "rope_scaling.low_freq_factor", "rope_scaling.high_freq_factor",
	"max_position_embeddings", "original_max_position_embeddings", "num_local_experts", "num_experts_per_tok", "text_config",
	"text_config.vocab_size", "text_config.num_hidden_layers", "text_config.num_attention_heads", "text_config.num_key_value_heads",
	"text_config.hidden_size", "text_config.head_dim", "text_config.sliding_window", "vision_config", "vision_config.num_hidden_layers",
	"vision_config.num_attention_heads", "rms_norm_eps", "sliding_window", "n_head", "n_layers", "n_embd", "layer_norm_eps",
	"vision_feature_layer", "model_max_length", "use_qk_norm",
}

var archVals = []string{"emptyarr", "unknown", "string", "numarr", "null", "missing", "other", "other", "other", "nested", "two"}

var rawVals = []string{"notjson", "array", "empty", "truncated", "trailing", "bom", "deep", "null", "string", "number", "dupkeys", "nul"}

var ropeTypeVals = []string{"other", "emptystr", "linear", "llama3", "su", "longrope", "yarn", "num", "null", "dynamic"}

var tokDelKeys = []string{"model", "model.vocab", "model.merges", "model.type", "added_tokens", "pre_tokenizer"}

var vocabIDVals = []string{"-1", "negbig", "dup", "2^31", "2^62", "float", "frac", "str", "null", "gap", "arr", "2^64"}

var mergesVals = []string{"numbers", "mixed", "deep", "obj", "str", "null", "pairs3", "emptypair", "nonstrpair", "onestr", "num", "nested-null", "long"}

var addedVals = []string{"collide", "dupcontent", "neg", "huge", "2^62", "nonobj", "idstr", "nocontent", "contentnum", "gap", "null", "obj", "idfloat", "specialstr"}

var preVals = []string{"obj", "typenum", "patternstr", "regexnum", "null", "arr", "str", "nestedseq", "pretokstr", "pretoknull"}

var spmOps = []string{"trunc", "trunc", "garbage", "flip", "type", "type", "empty", "nopiece", "dup", "hugelen", "wrongwire", "noscore", "nan", "prefixgarbage", "emptypiece", "nopieces"}

var tokCfgKeys = []string{"chat_template", "bos_token", "eos_token", "unk_token", "pad_token", "add_bos_token", "add_eos_token", "sep_token", "cls_token", "mask_token"}

var tokCfgVals = []string{"num", "arrstr", "tmpllist", "tmpllistbad", "tmpllistnodefault", "objnum", "obj", "objnocontent", "null", "nonexistent", "true", "strtrue", "emptystr", "arr", "existing", "existingobj", "longtmpl"}

var stMapVals = []string{"strs", "objs", "nums", "nulls", "arrs", "obj", "str", "null", "mixed", "emptyarr", "objsnocontent", "bools", "num"}

var addedJSONVals = []string{"neg", "gap", "collide", "dupsame", "nonint", "float", "str", "arr", "null", "huge", "manysame", "zero"}

var acfgKeys = []string{"r", "lora_alpha", "lora_parameters", "lora_parameters.rank", "lora_parameters.alpha", "lora_parameters.scale", "lora_layers",
	"num_attention_heads", "num_key_value_heads", "target_modules", "peft_type"}

var modVals = []string{"pathup", "pathabs", "pathmissing", "pathempty", "pathdot", "notlist", "typesnum", "nopooling", "twopooling", "null", "notjson", "empty"}

var dirOps = []string{"drop", "drop", "rename", "rename", "empty", "torch", "dupname", "extra", "swap", "torchonly", "subdir"}

var dirKinds = []string{"cfg", "tok", "spm", "tokcfg", "stmap", "added", "gencfg", "st", "acfg", "modules", "pooling", "index"}

var renameVals = []string{"upper", "dot", "space", "unicode", "double", "bracket", "subdir", "bak", "star", "long", "dash", "torchname", "hidden", "question"}

// ------------------------------------------------------------------------------------------- gen

func pick(t *rapid.T, label string, vals []string) string {
	return rapid.SampledFrom(vals).Draw(t, label)
}

// genBase draws the base GGUF of the adapter path: well-known keys present with their canonical or
// another value type, or missing.
func genBase(t *rapid.T) c10gen.Case {
	b := c10gen.Case{Version: 3}
	arch := pick(t, "basearch", []string{"llama", "llama", "llama", "gemma2", "gemma2", "qwen2", ""})
	types := []uint32{4, 4, 4, 4, 4, 4, 5, 10, 8, 6, 7, 0, 12, 9}
	str := func(s string) c10gen.Str { return c10gen.Str{Chunk: s, Repeat: 1} }
	switch rapid.IntRange(0, 9).Draw(t, "archkey") {
	case 0: // missing
	case 1: // retyped
		b.KV = append(b.KV, c10gen.KV{Key: "general.architecture", Type: 4, Bits: 1})
	default:
		b.KV = append(b.KV, c10gen.KV{Key: "general.architecture", Type: 8, S: str(arch)})
	}
	pfx := arch
	if pfx == "" {
		pfx = "llama"
	}
	for _, k := range []string{".attention.head_count", ".attention.head_count_kv", ".block_count", ".embedding_length"} {
		pres := rapid.IntRange(0, 9).Draw(t, "present")
		if pres == 0 {
			continue
		}
		e := c10gen.KV{Key: pfx + k, Type: 4}
		e.Bits = rapid.SampledFrom([]uint64{2, 2, 1, 4, 8, 0, 3, 1 << 31, 1<<32 - 1}).Draw(t, "kvval")
		if rapid.IntRange(0, 4).Draw(t, "retype") == 4 {
			e.Type = rapid.SampledFrom(types).Draw(t, "newtype")
			switch e.Type {
			case 8:
				e.S = str("2")
			case 9:
				e.AType, e.N, e.Pat = 4, 2, []uint64{2}
			}
		}
		b.KV = append(b.KV, e)
	}
	if rapid.IntRange(0, 2).Draw(t, "tokens") > 0 {
		b.KV = append(b.KV, c10gen.KV{Key: "tokenizer.ggml.tokens", Type: 9, AType: 8, N: 4, Strs: []c10gen.Str{str("a"), str("b")}})
	}
	// at least one tensor: the pinned create path takes the alignment padding after an empty tensor table for a second model
	b.Tensors = append(b.Tensors, c10gen.Tensor{Name: "blk.0.attn_q.weight", Kind: 0, Shape: []uint64{8, 8}})
	if rapid.IntRange(0, 3).Draw(t, "tensor2") == 3 {
		b.Tensors = append(b.Tensors, c10gen.Tensor{Name: "output_norm.weight", Kind: 0, Shape: []uint64{8}})
	}
	return b
}

// Gen draws a case.
func Gen(t *rapid.T) Case {
	var c Case
	c.Arch = pick(t, "arch", Archs)
	c.NH = rapid.SampledFrom([]int{2, 1, 4}).Draw(t, "heads")
	hd := rapid.SampledFrom([]int{2, 4}).Draw(t, "headdim")
	c.H = c.NH * hd // 2..16
	c.NKV = rapid.SampledFrom([]int{c.NH, 1, max(1, c.NH/2)}).Draw(t, "kvheads")
	c.L = rapid.IntRange(1, 2).Draw(t, "layers")
	c.I = rapid.SampledFrom([]int{8, 4, 6, 16}).Draw(t, "inter")
	c.V = rapid.IntRange(8, 36).Draw(t, "vocab")
	c.VPad = rapid.SampledFrom([]int{0, 0, 0, 1, 3}).Draw(t, "vpad")
	if c.Arch == "MixtralForCausalLM" {
		c.E = rapid.IntRange(1, 3).Draw(t, "experts")
	}
	if r, ok := ropes[c.Arch]; ok {
		c.Rope = pick(t, "rope", r)
	}
	c.Tie = rapid.IntRange(0, 3).Draw(t, "tie") == 3
	c.Tok.Kind = pick(t, "tokkind", []string{"json", "json", "spm", "spm", "both"})
	c.Tok.Merges = pick(t, "merges", []string{"strings", "pairs", "strings", "pairs", "none", "empty"})
	c.Tok.Pre = pick(t, "pre", []string{"none", "bytelevel", "split", "llama", "seqempty"})
	c.Tok.Added = rapid.IntRange(0, 3).Draw(t, "tokadded")
	nd := rapid.IntRange(1, 3).Draw(t, "ndtypes")
	for i := 0; i < nd; i++ {
		c.ST.DTypes = append(c.ST.DTypes, pick(t, "dtype", []string{"F32", "F16", "BF16"}))
	}
	c.ST.NFiles = rapid.SampledFrom([]int{1, 1, 2, 3}).Draw(t, "nfiles")
	c.ST.Meta = rapid.IntRange(0, 2).Draw(t, "meta")
	c.ST.Pad = rapid.Bool().Draw(t, "pad")
	c.ST.Index = rapid.IntRange(0, 3).Draw(t, "index") == 3
	c.Aux.TokCfg = rapid.IntRange(0, 4).Draw(t, "tokcfg")
	c.Aux.STMap = rapid.IntRange(0, 2).Draw(t, "stmap")
	if c.Tok.Kind != "json" {
		c.Aux.Added = rapid.SampledFrom([]int{0, 0, 1, 2}).Draw(t, "addedjson")
	}
	c.Aux.GenCfg = rapid.IntRange(0, 3).Draw(t, "gencfg") == 3
	c.Stream = rapid.IntRange(0, 3).Draw(t, "stream") == 3

	if rapid.IntRange(0, 3).Draw(t, "adapter") == 3 {
		a := &Adapter{}
		a.Base = genBase(t)
		a.ViaFrom = rapid.Bool().Draw(t, "viafrom")
		a.HFBase = rapid.IntRange(0, 3).Draw(t, "hfbase") == 3
		a.Rank = rapid.SampledFrom([]int{2, 1, 4, 8}).Draw(t, "rank")
		a.Style = pick(t, "style", []string{"peft", "peft", "mlx"})
		all := []string{"self_attn.q_proj", "self_attn.k_proj", "self_attn.v_proj", "self_attn.o_proj", "mlp.gate_proj", "mlp.down_proj", "mlp.up_proj"}
		for _, p := range all {
			if rapid.IntRange(0, 2).Draw(t, "target") > 0 {
				a.Targets = append(a.Targets, p)
			}
		}
		if len(a.Targets) == 0 {
			a.Targets = []string{"self_attn.q_proj"}
		}
		a.CfgKind = rapid.IntRange(0, 2).Draw(t, "acfgkind")
		c.Adapter = a
	}

	nm := rapid.SampledFrom([]int{0, 0, 1, 1, 1, 1, 1, 1, 1, 1, 1, 2, 2, 2, 2, 2, 3, 3, 3, 3}).Draw(t, "nmuts")
	for i := 0; i < nm; i++ {
		c.Muts = append(c.Muts, genMut(t, c.Adapter != nil))
	}
	return c
}

func genMut(t *rapid.T, adapter bool) Mut {
	var m Mut
	// (rapid prefers the head of a list: the order interleaves the kinds)
	files := []string{"cfg", "st", "tok", "spm", "st", "tokcfg", "cfg", "stmap", "added", "st", "dir", "tok", "mod", "st", "cfg", "spm", "st", "dir", "st", "cfg", "st"}
	if adapter {
		files = []string{"st", "acfg", "st", "st", "acfg", "dir", "st", "st", "acfg", "st"}
	}
	m.File = pick(t, "mfile", files)
	switch m.File {
	case "st":
		m.Op = pick(t, "stop", []string{"shape", "off", "name", "hdrlen", "dtype", "hdrjson", "trunc", "shape", "off", "append", "data", "shape", "off", "name", "hdrlen"})
		m.Idx = rapid.IntRange(0, 3).Draw(t, "fidx")
		m.T = rapid.IntRange(0, 40).Draw(t, "tidx")
		switch m.Op {
		case "hdrlen":
			m.Val = pick(t, "val", hdrLenVals)
		case "off":
			m.Val = pick(t, "val", offVals)
		case "dtype":
			m.Val = pick(t, "val", dtypeVals)
		case "shape":
			m.Val = pick(t, "val", shapeVals)
			m.Num = int64(rapid.IntRange(0, 3).Draw(t, "dimidx"))
		case "name":
			m.Val = pick(t, "val", nameVals)
		case "hdrjson":
			m.Val = pick(t, "val", hdrJSONVals)
		case "trunc":
			m.Val = pick(t, "val", truncVals)
		case "append":
			m.Num = int64(rapid.SampledFrom([]int{1, 3, 4, 8, 100}).Draw(t, "nbytes"))
		case "data":
			m.Val = pick(t, "val", []string{"nan", "inf", "ff", "zero"})
		}
	case "cfg":
		m.Op = pick(t, "cfgop", []string{"set", "set", "set", "set", "set", "set", "arch", "rope", "raw", "alias", "alias"})
		switch m.Op {
		case "alias":
			// the value moves to the member's other spelling (hidden_size -> n_embd ...): the usual member is absent
			m.Key = pick(t, "key", []string{"hidden_size", "num_attention_heads", "num_hidden_layers", "hidden_size"})
			m.Val = pick(t, "val", append([]string{"same", "same"}, cfgVals...))
			if rapid.Bool().Draw(t, "llama3rope") {
				m.T = 1 // together with llama3 rope scaling (the rope factor table is sized from the embedding length)
			}
		case "set":
			m.Key = pick(t, "key", cfgKeys)
			m.Val = pick(t, "val", cfgVals)
		case "arch":
			m.Val = pick(t, "val", archVals)
			m.Idx = rapid.IntRange(0, len(Archs)-1).Draw(t, "other")
		case "rope":
			m.Val = pick(t, "val", ropeTypeVals)
			m.Key = pick(t, "key", []string{"type", "rope_type"})
		case "raw":
			m.Val = pick(t, "val", rawVals)
		}
	case "tok":
		m.Op = pick(t, "tokop", []string{"del", "vocabid", "vocabid", "merges", "merges", "added", "added", "pre", "raw"})
		m.T = rapid.IntRange(0, 40).Draw(t, "tidx")
		switch m.Op {
		case "del":
			m.Key = pick(t, "key", tokDelKeys)
		case "vocabid":
			m.Val = pick(t, "val", vocabIDVals)
		case "merges":
			m.Val = pick(t, "val", mergesVals)
		case "added":
			m.Val = pick(t, "val", addedVals)
		case "pre":
			m.Val = pick(t, "val", preVals)
		case "raw":
			m.Val = pick(t, "val", rawVals)
		}
	case "spm":
		m.Op = pick(t, "spmop", spmOps)
		m.T = rapid.IntRange(0, 40).Draw(t, "tidx")
		m.Num = rapid.SampledFrom([]int64{0, -1, 2, 3, 5, 6, 7, 99, 1 << 31, -(1 << 31), 1<<31 - 1}).Draw(t, "num")
	case "tokcfg":
		m.Op = pick(t, "op", []string{"set", "set", "set", "set", "raw"})
		m.Key = pick(t, "key", tokCfgKeys)
		if m.Op == "raw" {
			m.Val = pick(t, "val", rawVals)
		} else {
			m.Val = pick(t, "val", tokCfgVals)
		}
	case "stmap":
		m.Op = pick(t, "op", []string{"set", "set", "set", "set", "raw"})
		if m.Op == "raw" {
			m.Val = pick(t, "val", rawVals)
		} else {
			m.Val = pick(t, "val", stMapVals)
		}
	case "added":
		m.Op = pick(t, "op", []string{"set", "set", "set", "set", "raw"})
		if m.Op == "raw" {
			m.Val = pick(t, "val", rawVals)
		} else {
			m.Val = pick(t, "val", addedJSONVals)
		}
	case "acfg":
		m.Op = pick(t, "op", []string{"set", "set", "set", "set", "raw"})
		if m.Op == "raw" {
			m.Val = pick(t, "val", rawVals)
		} else {
			m.Key = pick(t, "key", acfgKeys)
			m.Val = pick(t, "val", cfgVals)
		}
	case "mod":
		m.Op = "set"
		m.Val = pick(t, "val", modVals)
	case "dir":
		m.Op = pick(t, "dirop", dirOps)
		m.Key = pick(t, "kind", dirKinds)
		m.Val = pick(t, "val", renameVals)
		m.Idx = rapid.IntRange(0, 3).Draw(t, "fidx")
	}
	return m
}
