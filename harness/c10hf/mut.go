package c10hf

import (
	"encoding/json"
	"fmt"
	"strings"
)

var cfgRaw = map[string]string{
	"0": "0", "1": "1", "2": "2", "3": "3", "7": "7", "-1": "-1", "-8": "-8", "2^31": "2147483648", "2^32-1": "4294967295", "2^32": "4294967296",
	"2^63": "9223372036854775808", "1e30": "1e30", "1.5": "1.5", "str4": `"4"`, "strx": `"x"`, "arr": "[4]", "arrstr": `["a"]`, "obj": "{}",
	"null": "null", "true": "true", "emptystr": `""`, "1000003": "1000003", "65536": "65536", "1<<20": "1048576", "1<<24": "16777216",
}

// setPath sets (or, with del, removes) a dotted path in a json document; missing or non-object
// intermediate members are replaced by objects.
func setPath(doc map[string]any, path string, v any, del bool) bool {
	parts := strings.Split(path, ".")
	cur := doc
	for _, p := range parts[:len(parts)-1] {
		next, ok := cur[p].(map[string]any)
		if !ok {
			if del {
				return false
			}
			next = map[string]any{}
			cur[p] = next
		}
		cur = next
	}
	last := parts[len(parts)-1]
	if del {
		if _, ok := cur[last]; !ok {
			return false
		}
		delete(cur, last)
		return true
	}
	cur[last] = v
	return true
}

func (m *model) apply(mu Mut) bool {
	switch mu.File {
	case "st":
		return m.applyST(mu)
	case "cfg":
		return m.applyCfg(mu)
	case "tok":
		return m.applyTok(mu)
	case "spm":
		return m.applySPM(mu)
	case "tokcfg":
		return m.applyTokCfg(mu)
	case "stmap":
		return m.applySTMap(mu)
	case "added":
		return m.applyAdded(mu)
	case "acfg":
		return m.applyACfg(mu)
	case "dir":
		return m.applyDir(mu)
	case "mod":
		if m.modules == "" {
			return false
		}
		pool := func(path string) string {
			return `[{"idx":1,"name":"1","path":` + path + `,"type":"sentence_transformers.models.Pooling"}]`
		}
		m.modules = map[string]string{
			"pathup": pool(`"../1_Pooling"`), "pathabs": pool(`"/etc"`), "pathmissing": pool(`"nope"`), "pathempty": pool(`""`), "pathdot": pool(`"."`),
			"notlist": `{"type":"x"}`, "typesnum": `[{"type":1,"path":2}]`, "nopooling": `[]`, "twopooling": pool(`"1_Pooling"`)[:len(pool(`"1_Pooling"`))-1] + "," + pool(`"x"`)[1:],
			"null": "null", "notjson": "not json", "empty": "",
		}[mu.Val]
		return true
	}
	return false
}

func (m *model) rawFile(kind, val string) bool {
	if _, ok := m.docs[kind]; !ok {
		return false
	}
	v := val
	m.raw[kind] = &v
	return true
}

// ------------------------------------------------------------------------------- safetensors

func ggufAlias(name string) string {
	r := strings.NewReplacer("model.layers", "blk", "self_attn.q_proj", "attn_q", "self_attn.k_proj", "attn_k", "self_attn.v_proj", "attn_v",
		"self_attn.o_proj", "attn_output", "mlp.gate_proj", "ffn_gate", "mlp.down_proj", "ffn_down", "mlp.up_proj", "ffn_up",
		"model.embed_tokens", "token_embd", "model.norm", "output_norm", "lm_head", "output", "input_layernorm", "attn_norm",
		"encoder.layer", "blk", "lora_A.weight", "weight.lora_a", "lora_B.weight", "weight.lora_b")
	return r.Replace(name)
}

func (m *model) applyST(mu Mut) bool {
	if len(m.st) == 0 {
		return false
	}
	f := m.st[mu.Idx%len(m.st)]
	switch mu.Op {
	case "hdrlen":
		f.HdrLen = mu.Val
		return true
	case "trunc":
		f.Trunc = mu.Val
		return true
	case "append":
		f.Append = int(mu.Num)
		return true
	case "hdrjson":
		orig := f.header()
		var h string
		switch mu.Val {
		case "entrystr", "entrynull", "entryarr", "entrynum":
			if len(f.Entries) == 0 {
				return false
			}
			e := &f.Entries[mu.T%len(f.Entries)]
			e.Raw = map[string]string{"entrystr": `"F32"`, "entrynull": "null", "entryarr": "[1,2]", "entrynum": "7"}[mu.Val]
			return true
		case "metanested":
			f.Meta = `{"format":{"a":[1,2]},"x":null}`
			return true
		case "metanum":
			f.Meta = `{"format":1}`
			return true
		default:
			h = rawDoc(mu.Val, []byte(orig))
		}
		f.HdrRaw = &h
		return true
	case "data":
		pat := map[string]byte{"nan": 0x7f, "inf": 0x7c, "ff": 0xff, "zero": 0}[mu.Val]
		for i := range f.Data {
			f.Data[i] = pat
		}
		if mu.Val == "nan" || mu.Val == "inf" { // F16 0x7f7f.. / F32: set the exponent bytes
			for i := range f.Data {
				if i%2 == 1 {
					f.Data[i] = pat
				} else {
					f.Data[i] = 0x80
				}
			}
		}
		return len(f.Data) > 0
	}
	if len(f.Entries) == 0 {
		return false
	}
	ti := mu.T % len(f.Entries)
	e := &f.Entries[ti]
	dlen := int64(len(f.Data))
	switch mu.Op {
	case "off":
		b, en := e.Off[0], e.Off[1]
		switch mu.Val {
		case "reversed":
			e.Off = [2]int64{en, b}
		case "beyond":
			e.Off = [2]int64{b, dlen + 64}
		case "beyond1":
			e.Off = [2]int64{b, dlen + 1}
		case "huge":
			e.Off = [2]int64{b, 1 << 40}
		case "huge63":
			e.Off = [2]int64{b, 1<<63 - 1}
		case "neg":
			e.Off = [2]int64{-8, en}
		case "negboth":
			e.Off = [2]int64{-1 << 40, -8}
		case "overlap":
			e.Off = f.Entries[(ti+1)%len(f.Entries)].Off
		case "one":
			e.RawOff = fmt.Sprintf("[%d]", b)
		case "empty":
			e.RawOff = "[]"
		case "three":
			e.RawOff = fmt.Sprintf("[%d,%d,%d]", b, en, en)
		case "zero":
			e.Off = [2]int64{0, 0}
		case "str":
			e.RawOff = fmt.Sprintf(`["%d","%d"]`, b, en)
		case "float":
			e.RawOff = fmt.Sprintf("[%d.5,%d.5]", b, en)
		case "null":
			e.RawOff = "null"
		case "missing":
			e.RawOff = "-"
		case "beginpast":
			e.Off = [2]int64{dlen + 1024, dlen + 1024 + (en - b)}
		case "short":
			e.Off = [2]int64{b, b + (en-b)/2}
		case "short1":
			e.Off = [2]int64{b, en - 1}
		case "long":
			e.Off = [2]int64{b, min(dlen, en+8)}
		case "obj":
			e.RawOff = `{"begin":0,"end":4}`
		}
		return true
	case "dtype":
		switch mu.Val {
		case "empty":
			e.DType = ""
		case "num":
			e.RawDType = "32"
		case "null":
			e.RawDType = "null"
		case "missing":
			e.RawDType = "-"
		case "arr":
			e.RawDType = `["F32"]`
		case "swap": // another supported type over the same bytes: the byte size no longer fits the shape
			e.DType = map[string]string{"F32": "F16", "F16": "F32", "BF16": "F32"}[e.DType]
		default:
			e.DType = mu.Val
		}
		return true
	case "shape":
		if len(e.Shape) == 0 {
			return false
		}
		di := int(mu.Num) % len(e.Shape)
		prod := int64(1)
		for _, d := range e.Shape {
			prod *= d
		}
		switch mu.Val {
		case "zerofit": // a zero-sized tensor, consistently declared
			e.Shape[di] = 0
			e.Off = [2]int64{e.Off[0], e.Off[0]}
		case "hugefit", "hugefit40": // a one-dimensional tensor of enormous size, consistently declared: the shape
			// describes exactly the bytes the offsets span, which end just below 2^63 (where offset+size wraps) or near 2^40
			width := int64(2)
			if e.DType == "F32" {
				width = 4
			}
			limit := int64(1<<63 - 2)
			if mu.Val == "hugefit40" {
				limit = 1 << 40
			}
			size := (limit-e.Off[0])/width*width - width*(mu.Num%3)
			e.Shape = []int64{size / width}
			e.Off[1] = e.Off[0] + size
		case "halffit": // half the rows, consistently declared
			if e.Shape[di] < 2 {
				return false
			}
			e.Off[1] = e.Off[0] + (e.Off[1]-e.Off[0])/e.Shape[di]*(e.Shape[di]/2)
			e.Shape[di] /= 2
		case "zero":
			e.Shape[di] = 0
		case "allzero":
			for i := range e.Shape {
				e.Shape[i] = 0
			}
		case "huge":
			e.Shape[di] = 1 << 40
		case "huge63":
			e.Shape[di] = 1<<63 - 1
		case "max":
			e.RawShape = strings.Replace(jsonInts(e.Shape), fmt.Sprint(e.Shape[di]), "18446744073709551615", 1)
		case "over":
			e.RawShape = strings.Replace(jsonInts(e.Shape), fmt.Sprint(e.Shape[di]), "18446744073709551616", 1)
		case "neg":
			e.RawShape = strings.Replace(jsonInts(e.Shape), fmt.Sprint(e.Shape[di]), "-4", 1)
		case "plus1":
			e.Shape[di]++
		case "minus1":
			e.Shape[di]--
		case "half":
			e.Shape[di] /= 2
		case "flat":
			e.Shape = []int64{prod}
		case "rank3":
			e.Shape = append([]int64{1}, e.Shape...)
		case "rank4":
			e.Shape = append([]int64{1, 1}, e.Shape...)
		case "rank5":
			e.Shape = append(e.Shape, 1, 1, 1)
		case "empty":
			e.Shape = []int64{}
			e.RawShape = "[]"
		case "scalar":
			e.RawShape = fmt.Sprint(prod)
		case "str":
			e.RawShape = `["4","4"]`
		case "float":
			e.RawShape = strings.Replace(jsonInts(e.Shape), fmt.Sprint(e.Shape[di]), fmt.Sprint(e.Shape[di])+".0", 1)
		case "frac":
			e.RawShape = strings.Replace(jsonInts(e.Shape), fmt.Sprint(e.Shape[di]), fmt.Sprint(e.Shape[di])+".5", 1)
		case "null":
			e.RawShape = "null"
		case "missing":
			e.RawShape = "-"
		case "swap":
			if len(e.Shape) < 2 || e.Shape[0] == e.Shape[1] {
				e.Shape = append(e.Shape, 1)
			} else {
				e.Shape[0], e.Shape[1] = e.Shape[1], e.Shape[0]
			}
		}
		return true
	case "name":
		switch mu.Val {
		case "drop":
			f.Entries = append(f.Entries[:ti], f.Entries[ti+1:]...)
		case "dropall":
			f.Entries = nil
		case "dup":
			f.Entries = append(f.Entries, *e)
		case "alias":
			cp := *e
			cp.Name = ggufAlias(e.Name)
			if cp.Name == e.Name {
				cp.Name = "model." + e.Name
			}
			f.Entries = append(f.Entries, cp)
		case "empty":
			e.Name = ""
		case "unexpected":
			e.Name = "foo.bar"
		case "ggufname":
			e.Name = ggufAlias(e.Name)
		case "expert":
			e.Name = "model.layers.0.block_sparse_moe.experts.99.w1.weight"
		case "expertonly":
			e.Name = ".block_sparse_moe.experts."
		case "long":
			e.Name = strings.Repeat("model.layers.0.", 40) + "weight"
		case "unicode":
			e.Name = "modèl.\u0000layers. .weight"
		case "ropefreqs":
			e.Name = "rope_freqs.weight"
		case "blk0":
			e.Name = "model.layers.0."
		case "tokentypes":
			e.Name = "embeddings.token_type_embeddings.weight"
		case "vprefix":
			e.Name = "vision_tower.vision_model.x_norm.weight"
		case "norm2d": // a matrix under a name whose role is a vector (norm weights are repacked by gemma)
			e.Name = "model.layers.0.input_layernorm.weight"
			for i := range f.Entries {
				if i != ti && f.Entries[i].Name == e.Name {
					f.Entries[i].Name = "model.layers.0.moved.weight"
				}
			}
		case "metadata":
			e.Name = "__metadata__"
		}
		return true
	}
	return false
}

// ------------------------------------------------------------------------------- config.json

func (m *model) applyCfg(mu Mut) bool {
	doc, ok := m.docs["cfg"]
	if !ok {
		return false
	}
	switch mu.Op {
	case "raw":
		return m.rawFile("cfg", mu.Val)
	case "set":
		if mu.Val == "missing" {
			return setPath(doc, mu.Key, nil, true)
		}
		return setPath(doc, mu.Key, raw(cfgRaw[mu.Val]), false)
	case "alias":
		other := map[string]string{"hidden_size": "n_embd", "num_attention_heads": "n_head", "num_hidden_layers": "n_layers"}[mu.Key]
		if other == "" {
			return false
		}
		cur, ok := doc[mu.Key]
		if !ok {
			return false
		}
		delete(doc, mu.Key)
		if v, hostile := cfgRaw[mu.Val]; hostile {
			doc[other] = raw(v)
		} else {
			doc[other] = cur
		}
		if mu.T == 1 {
			setPath(doc, "rope_scaling.rope_type", raw(`"llama3"`), false)
			setPath(doc, "rope_scaling.factor", raw("8"), false)
			setPath(doc, "rope_scaling.original_max_position_embeddings", raw("8192"), false)
		}
		return true
	case "arch":
		switch mu.Val {
		case "emptyarr":
			doc["architectures"] = []any{}
		case "unknown":
			doc["architectures"] = []any{"FalconForCausalLM"}
		case "string":
			doc["architectures"] = m.c.Arch
		case "numarr":
			doc["architectures"] = []any{1}
		case "null":
			doc["architectures"] = nil
		case "missing":
			delete(doc, "architectures")
		case "other": // the files of one architecture under the name of another
			doc["architectures"] = []any{Archs[mu.Idx%len(Archs)]}
		case "nested":
			doc["architectures"] = []any{[]any{m.c.Arch}}
		case "two":
			doc["architectures"] = []any{Archs[mu.Idx%len(Archs)], m.c.Arch}
		}
		return true
	case "rope":
		v := map[string]string{"other": `"dynamic-ntk"`, "emptystr": `""`, "linear": `"linear"`, "llama3": `"llama3"`, "su": `"su"`, "longrope": `"longrope"`,
			"yarn": `"yarn"`, "num": "3", "null": "null", "dynamic": `"dynamic"`}[mu.Val]
		return setPath(doc, "rope_scaling."+mu.Key, raw(v), false)
	}
	return false
}

// ---------------------------------------------------------------------------- tokenizer.json

func (m *model) applyTok(mu Mut) bool {
	doc, ok := m.docs["tok"]
	if !ok {
		return false
	}
	mdl, _ := doc["model"].(map[string]any)
	switch mu.Op {
	case "raw":
		return m.rawFile("tok", mu.Val)
	case "del":
		return setPath(doc, mu.Key, nil, true)
	case "vocabid":
		vocab, _ := mdl["vocab"].(map[string]any)
		if len(vocab) == 0 || len(m.vocab) == 0 {
			return false
		}
		k := m.vocab[mu.T%len(m.vocab)]
		other := (mu.T + 1) % len(m.vocab)
		vocab[k] = raw(map[string]string{"-1": "-1", "negbig": "-4611686018427387904", "dup": fmt.Sprint(other), "2^31": "2147483648",
			"2^62": "4611686018427387904", "float": "3.0", "frac": "3.5", "str": `"3"`, "null": "null", "gap": fmt.Sprint(len(m.vocab) + 100), "arr": "[3]",
			"2^64": "18446744073709551616"}[mu.Val])
		return true
	case "merges":
		if mdl == nil {
			return false
		}
		mdl["merges"] = raw(map[string]string{"numbers": "[1,2]", "mixed": `["a b",["a","b"]]`, "deep": `[[["a","b"]]]`, "obj": `{"a":"b"}`, "str": `"a b"`,
			"null": "null", "pairs3": `[["a","b","c"]]`, "emptypair": `[[]]`, "nonstrpair": `[[1,2]]`, "onestr": `["ab"]`, "num": "7",
			"nested-null": `[null]`, "long": `["` + strings.Repeat("a ", 5000) + `b"]`}[mu.Val])
		return true
	case "added":
		added, _ := doc["added_tokens"].([]any)
		var e map[string]any
		if len(added) > 0 {
			e, _ = added[mu.T%len(added)].(map[string]any)
		}
		newTok := func(id any, content any) {
			doc["added_tokens"] = append(added, map[string]any{"id": id, "content": content, "special": true})
		}
		switch mu.Val {
		case "collide":
			newTok(min(4, len(m.vocab)-1), "<collide>")
		case "dupcontent":
			newTok(len(m.vocab)+50, "<s>")
		case "neg":
			newTok(-1, "<neg>")
		case "huge":
			newTok(1<<31, "<huge>")
		case "2^62":
			newTok(1<<62, "<huge62>")
		case "nonobj":
			doc["added_tokens"] = append(added, 1)
		case "idstr":
			newTok("5", "<idstr>")
		case "nocontent":
			doc["added_tokens"] = append(added, map[string]any{"id": len(m.vocab) + 9})
		case "contentnum":
			newTok(len(m.vocab)+9, 5)
		case "gap":
			newTok(len(m.vocab)+1000, "<gap>")
		case "null":
			doc["added_tokens"] = nil
		case "obj":
			doc["added_tokens"] = map[string]any{"a": 1}
		case "idfloat":
			newTok(5.5, "<idfloat>")
		case "specialstr":
			if e == nil {
				return false
			}
			e["special"] = "yes"
		}
		return true
	case "pre":
		bl := map[string]any{"type": "ByteLevel"}
		switch mu.Val {
		case "obj":
			doc["pre_tokenizer"] = map[string]any{"type": "Sequence", "pretokenizers": map[string]any{"0": bl}}
		case "typenum":
			doc["pre_tokenizer"] = map[string]any{"type": "Sequence", "pretokenizers": []any{map[string]any{"type": 7}}}
		case "patternstr":
			doc["pre_tokenizer"] = map[string]any{"type": "Sequence", "pretokenizers": []any{map[string]any{"type": "Split", "pattern": `\s+`}}}
		case "regexnum":
			doc["pre_tokenizer"] = map[string]any{"type": "Sequence", "pretokenizers": []any{map[string]any{"type": "Split", "pattern": map[string]any{"Regex": 5}}}}
		case "null":
			doc["pre_tokenizer"] = nil
		case "arr":
			doc["pre_tokenizer"] = []any{bl}
		case "str":
			doc["pre_tokenizer"] = "ByteLevel"
		case "nestedseq":
			doc["pre_tokenizer"] = map[string]any{"type": "Sequence", "pretokenizers": []any{map[string]any{"type": "Sequence", "pretokenizers": []any{bl}}}}
		case "pretokstr":
			doc["pre_tokenizer"] = map[string]any{"type": "Sequence", "pretokenizers": []any{"ByteLevel"}}
		case "pretoknull":
			doc["pre_tokenizer"] = map[string]any{"type": "Sequence", "pretokenizers": []any{nil}}
		}
		return true
	}
	return false
}

// --------------------------------------------------------------------------- tokenizer.model

func (m *model) applySPM(mu Mut) bool {
	if !m.hasSPM || len(m.pieces) == 0 {
		return false
	}
	i := mu.T % len(m.pieces)
	switch mu.Op {
	case "type":
		v := int32(mu.Num)
		m.pieces[i].Type = &v
	case "nopiece":
		m.pieces[i].Piece = nil
	case "emptypiece":
		s := ""
		m.pieces[i].Piece = &s
	case "dup":
		m.pieces = append(m.pieces, m.pieces[i])
	case "noscore":
		m.pieces[i].Score = nil
	case "nan":
		var z float32
		v := z / z
		m.pieces[i].Score = &v
	case "nopieces":
		m.pieces = m.pieces[:0]
		m.pieces = append(m.pieces, spmPiece{})[:0]
		m.spmPost = append(m.spmPost, Mut{Op: "noop"})
	default:
		m.spmPost = append(m.spmPost, mu)
	}
	return true
}

// ------------------------------------------------------------------- the other json members

func (m *model) applyTokCfg(mu Mut) bool {
	doc, ok := m.docs["tokcfg"]
	if !ok {
		if m.c.Adapter != nil {
			return false
		}
		doc = map[string]any{"tokenizer_class": "LlamaTokenizer"}
		m.docs["tokcfg"], m.names["tokcfg"] = doc, "tokenizer_config.json"
	}
	if mu.Op == "raw" {
		return m.rawFile("tokcfg", mu.Val)
	}
	bos, _, _ := specials(m.c)
	v := map[string]string{
		"num": "123", "arrstr": `["a","b"]`, "tmpllist": `[{"name":"default","template":"{{ .Prompt }}"}]`,
		"tmpllistbad": `[{"name":1,"template":2}]`, "tmpllistnodefault": `[{"name":"rag","template":"x"}]`, "objnum": `{"content":5}`,
		"obj": `{"content":` + jstr(bos) + `}`, "objnocontent": `{"lstrip":false}`, "null": "null", "nonexistent": `"<nonexistent>"`, "true": "true",
		"strtrue": `"true"`, "emptystr": `""`, "arr": "[1]", "existing": jstr(bos), "existingobj": `{"content":` + jstr(bos) + `,"lstrip":false}`,
		"longtmpl": jstr(strings.Repeat("{{ message }}", 40)),
	}[mu.Val]
	doc[mu.Key] = raw(v)
	return true
}

func (m *model) applySTMap(mu Mut) bool {
	doc, ok := m.docs["stmap"]
	if !ok {
		if m.c.Adapter != nil {
			return false
		}
		doc = map[string]any{"unk_token": "<unk>"}
		m.docs["stmap"], m.names["stmap"] = doc, "special_tokens_map.json"
	}
	if mu.Op == "raw" {
		return m.rawFile("stmap", mu.Val)
	}
	t := "<unk>"
	if len(m.vocab) > 4 {
		t = m.vocab[4]
	}
	doc["additional_special_tokens"] = raw(map[string]string{
		"strs": `[` + jstr(t) + `,"<x>"]`, "objs": `[{"content":` + jstr(t) + `}]`, "nums": "[1,2]", "nulls": "[null]", "arrs": "[[]]", "obj": `{"a":1}`,
		"str": jstr(t), "null": "null", "mixed": `[{"content":` + jstr(t) + `},"<x>"]`, "emptyarr": "[]", "objsnocontent": `[{"lstrip":true}]`,
		"bools": "[true]", "num": "5",
	}[mu.Val])
	return true
}

func (m *model) applyAdded(mu Mut) bool {
	doc, ok := m.docs["added"]
	if !ok {
		if !m.hasSPM {
			return false
		}
		doc = map[string]any{}
		m.docs["added"], m.names["added"] = doc, "added_tokens.json"
	}
	if mu.Op == "raw" {
		return m.rawFile("added", mu.Val)
	}
	n := len(m.pieces)
	switch mu.Val {
	case "neg":
		doc["<neg>"] = -1
	case "gap":
		doc["<gap>"] = n + 10
	case "collide":
		doc["<collide>"] = 1
	case "dupsame":
		if n > 0 && m.pieces[0].Piece != nil {
			doc[*m.pieces[0].Piece] = 0
		}
	case "nonint":
		doc["<nonint>"] = raw(`"5"`)
	case "float":
		doc["<float>"] = raw("5.5")
	case "str":
		doc["<str>"] = "x"
	case "arr":
		doc["<arr>"] = []any{1}
	case "null":
		doc["<null>"] = nil
	case "huge":
		doc["<huge>"] = raw("4611686018427387904")
	case "manysame":
		doc["<a>"], doc["<b>"] = n, n
	case "zero":
		doc["<zero>"] = 0
	}
	return true
}

func (m *model) applyACfg(mu Mut) bool {
	doc, ok := m.docs["acfg"]
	if !ok {
		return false
	}
	if mu.Op == "raw" {
		return m.rawFile("acfg", mu.Val)
	}
	if mu.Val == "missing" {
		return setPath(doc, mu.Key, nil, true)
	}
	return setPath(doc, mu.Key, raw(cfgRaw[mu.Val]), false)
}

// ---------------------------------------------------------------------------- the directory

func oddName(name, val string) string {
	dot := strings.LastIndex(name, ".")
	stem, ext := name, ""
	if dot >= 0 {
		stem, ext = name[:dot], name[dot:]
	}
	switch val {
	case "upper":
		return stem + strings.ToUpper(ext)
	case "dot":
		return ext
	case "space":
		return stem + " (1)" + ext
	case "unicode":
		return "mödel-‮" + stem + ext
	case "double":
		return name + ext
	case "bracket":
		return "[" + stem + ext
	case "subdir":
		return "sub/dir/" + name
	case "bak":
		return name + ".bak"
	case "star":
		return "*" + ext
	case "long":
		return strings.Repeat("x", 200) + ext
	case "dash":
		return "-" + name
	case "torchname":
		return "pytorch_model.bin"
	case "hidden":
		return "." + name
	case "question":
		return stem + "?" + ext
	}
	return name
}

func (m *model) applyDir(mu Mut) bool {
	kind := mu.Key
	stName := func() *stFile {
		if len(m.st) == 0 {
			return nil
		}
		return m.st[mu.Idx%len(m.st)]
	}
	has := func(k string) bool {
		if k == "st" {
			return len(m.st) > 0
		}
		if k == "spm" {
			return m.hasSPM
		}
		if k == "modules" {
			return m.modules != ""
		}
		_, ok := m.names[k]
		return ok
	}
	switch mu.Op {
	case "drop":
		if !has(kind) {
			return false
		}
		if kind == "st" && len(m.st) > 1 {
			i := mu.Idx % len(m.st)
			m.st = append(m.st[:i], m.st[i+1:]...)
			return true
		}
		m.dropped[kind] = true
		return true
	case "rename":
		if !has(kind) {
			return false
		}
		if kind == "st" {
			f := stName()
			f.Name = oddName(f.Name, mu.Val)
			return true
		}
		m.names[kind] = oddName(m.names[kind], mu.Val)
		return true
	case "subdir":
		if f := stName(); f != nil {
			f.Name = "weights/" + f.Name
			return true
		}
		return false
	case "empty":
		if !has(kind) {
			return false
		}
		if kind == "st" {
			m.emptied["st:"+stName().Name] = true
			return true
		}
		m.emptied[kind] = true
		return true
	case "torch", "torchonly":
		name := []string{"pytorch_model.bin", "pytorch_model-00001-of-00002.bin", "consolidated.00.pth", "model.bin"}[mu.Idx%4]
		data := [][]byte{[]byte("PK\x03\x04 not really a zip"), []byte("\x80\x02}q\x00."), nil, []byte("garbage")}[(mu.Idx/2+len(mu.Val))%4]
		m.extra = append(m.extra, File{Name: name, Kind: "torch", Data: data})
		if mu.Op == "torchonly" {
			m.dropped["st"] = true
		}
		return true
	case "dupname": // the same blob under a second name
		if f := stName(); f != nil {
			cp := *f
			cp.Entries = append([]stEntry(nil), f.Entries...)
			cp.Name = "copy-" + f.Name
			m.st = append(m.st, &cp)
			return true
		}
		return false
	case "extra":
		name := []string{"README.md", "model.safetensors.index.json", "x.safetensors", "params.json", "tokenizer.model.v3"}[mu.Idx%5]
		data := [][]byte{[]byte("# readme"), []byte(`{"weight_map":5}`), nil, []byte("{}"), []byte("\x0a\x03abc")}[mu.Idx%5]
		m.extra = append(m.extra, File{Name: name, Kind: "extra", Data: data})
		return true
	case "swap":
		other := dirKinds[(mu.Idx+len(mu.Val))%len(dirKinds)]
		if !has(kind) || !has(other) || kind == other || kind == "st" {
			return false
		}
		m.swap = append(m.swap, [2]string{kind, other})
		return true
	}
	return false
}

// Describe renders the json members of a built directory (for failure messages).
func Describe(d Dir) string {
	var sb strings.Builder
	for _, f := range d.Files {
		fmt.Fprintf(&sb, "%s (%d bytes)", f.Name, len(f.Data))
		if f.Kind != "st" && f.Kind != "spm" && len(f.Data) < 400 && json.Valid(f.Data) {
			fmt.Fprintf(&sb, " %s", f.Data)
		}
		sb.WriteString("; ")
	}
	return sb.String()
}
