package c10hf

import (
	"bytes"
	"encoding/binary"
	"encoding/json"
	"fmt"
	"sort"
	"strings"

	"github.com/ollama/ollama/convert/sentencepiece"
	c10gen "github.com/ollama/ollama/verifc10gen"
	"google.golang.org/protobuf/proto"
)

// ------------------------------------------------------------------------------------ output

type File struct {
	Name string
	Kind string // cfg tok spm tokcfg stmap added gencfg st acfg modules pooling index torch extra
	Data []byte
}

// STInfo is what a reader that trusts the file would compute for one safetensors file; it is
// used by the harness only to exclude listed findings by construction and for counters.
type STInfo struct {
	Name      string
	Size      int64
	HdrLen    int64 // the declared header length (first 8 bytes), valid if Size >= 8
	HdrOK     bool  // the declared header is inside the file and parses as a JSON object
	MaxTensor int64 // largest declared tensor byte size (end-begin) among well-formed entries
	BadSpan   bool  // some well-formed entry's [begin,end) is reversed, negative or reaches beyond the file
	Mismatch  bool  // some well-formed entry of a supported dtype whose byte size is not product(shape) * element size
	RankNot2  bool  // some well-formed entry whose shape does not have exactly two dimensions
	ZeroDim   bool  // some well-formed entry with a dimension of 0
}

type Dir struct {
	Files   []File
	Base    []byte   // adapter path: the base GGUF
	BaseDir []File   // adapter path with Adapter.HFBase: the base as a model directory
	Kinds   []string // mutation kinds that had an effect ("st:hdrlen", "cfg:set", ...)
	Changed bool
	Tokens  int // size of the vocabulary of the unmutated directory
	Bytes   int // total size of all files
}

// ------------------------------------------------------------------------------ intermediate

type stEntry struct {
	Name     string
	DType    string
	RawDType string // raw JSON replacing the dtype value; "-" = member omitted
	Shape    []int64
	RawShape string
	Off      [2]int64
	RawOff   string
	Raw      string // raw JSON replacing the whole entry value
}

type stFile struct {
	Name    string
	Entries []stEntry
	Meta    string // raw JSON of __metadata__ ("" = none)
	Data    []byte
	Pad     bool
	HdrRaw  *string // replaces the header JSON
	HdrLen  string  // symbolic override of the length field
	Trunc   string
	Append  int
	adapter bool
}

type spmPiece struct {
	Piece *string
	Score *float32
	Type  *int32
}

type model struct {
	c       Case
	docs    map[string]map[string]any // kind -> json document (cfg tok tokcfg stmap added gencfg acfg pooling)
	raw     map[string]*string        // kind -> raw replacement of the whole file
	names   map[string]string         // kind -> file name
	modules string                    // modules.json (bert)
	index   bool
	st      []*stFile
	pieces  []spmPiece
	spmPost []Mut // byte-level operations on the serialised tokenizer.model
	hasSPM  bool
	dropped map[string]bool // kinds dropped
	emptied map[string]bool
	extra   []File
	swap    [][2]string
	tokens  int
	vocab   []string // base vocabulary (ids 0..V-1)
}

type tspec struct {
	name  string
	shape []int64
}

func raw(s string) json.RawMessage {
	if s == "" {
		s = "null"
	}
	return json.RawMessage(s)
}

func (c Case) headDim() int { return max(1, c.H/max(1, c.NH)) }

// tensorSpecs lists the tensors of a complete tiny model of the case's architecture under their
// Hugging Face names.
func tensorSpecs(c Case) []tspec {
	H, I, V := int64(c.H), int64(c.I), int64(c.V+c.VPad)
	hd := int64(c.headDim())
	kvd := int64(c.NKV) * hd
	var ts []tspec
	add := func(name string, shape ...int64) { ts = append(ts, tspec{name, shape}) }
	attn := func(p string) {
		add(p+"self_attn.q_proj.weight", H, H)
		add(p+"self_attn.k_proj.weight", kvd, H)
		add(p+"self_attn.v_proj.weight", kvd, H)
		add(p+"self_attn.o_proj.weight", H, H)
	}
	mlp := func(p string) {
		add(p+"mlp.gate_proj.weight", I, H)
		add(p+"mlp.up_proj.weight", I, H)
		add(p+"mlp.down_proj.weight", H, I)
	}
	switch c.Arch {
	case "BertModel":
		add("embeddings.word_embeddings.weight", V, H)
		add("embeddings.position_embeddings.weight", 16, H)
		add("embeddings.token_type_embeddings.weight", 2, H)
		add("embeddings.LayerNorm.weight", H)
		add("embeddings.LayerNorm.bias", H)
		add("embeddings.position_ids", 1, 16)
		for l := 0; l < c.L; l++ {
			p := fmt.Sprintf("encoder.layer.%d.", l)
			for _, n := range []string{"attention.self.query", "attention.self.key", "attention.self.value", "attention.output.dense"} {
				add(p+n+".weight", H, H)
				add(p+n+".bias", H)
			}
			add(p+"attention.output.LayerNorm.weight", H)
			add(p+"attention.output.LayerNorm.bias", H)
			add(p+"intermediate.dense.weight", I, H)
			add(p+"intermediate.dense.bias", I)
			add(p+"output.dense.weight", H, I)
			add(p+"output.dense.bias", H)
			add(p+"output.LayerNorm.weight", H)
			add(p+"output.LayerNorm.bias", H)
		}
		add("pooler.dense.weight", H, H)
		add("pooler.dense.bias", H)
		return ts
	case "Mistral3ForConditionalGeneration", "Gemma3ForConditionalGeneration":
		lp := "language_model.model."
		add(lp+"embed_tokens.weight", V, H)
		add(lp+"norm.weight", H)
		if !c.Tie {
			add("language_model.lm_head.weight", V, H)
		}
		for l := 0; l < c.L; l++ {
			p := fmt.Sprintf("%slayers.%d.", lp, l)
			add(p+"input_layernorm.weight", H)
			add(p+"post_attention_layernorm.weight", H)
			attn(p)
			mlp(p)
			if c.Arch == "Gemma3ForConditionalGeneration" {
				add(p+"self_attn.q_norm.weight", hd)
				add(p+"self_attn.k_norm.weight", hd)
				add(p+"pre_feedforward_layernorm.weight", H)
				add(p+"post_feedforward_layernorm.weight", H)
			}
		}
		if c.Arch == "Mistral3ForConditionalGeneration" {
			add("vision_tower.ln_pre.weight", H)
			add("vision_tower.patch_conv.weight", H, 3, 2, 2)
			add("vision_tower.transformer.layers.0.attention.q_proj.weight", H, H)
			add("vision_tower.transformer.layers.0.attention.k_proj.weight", H, H)
			add("vision_tower.transformer.layers.0.attention_norm.weight", H)
			add("vision_tower.transformer.layers.0.feed_forward.gate_proj.weight", I, H)
			add("multi_modal_projector.linear_1.weight", H, H)
			add("multi_modal_projector.norm.weight", H)
		} else {
			add("vision_tower.vision_model.embeddings.patch_embedding.weight", H, 3, 2, 2)
			add("vision_tower.vision_model.embeddings.position_embedding.weight", 4, H)
			add("vision_tower.vision_model.encoder.layers.0.self_attn.q_proj.weight", H, H)
			add("vision_tower.vision_model.encoder.layers.0.self_attn.out_proj.weight", H, H)
			add("vision_tower.vision_model.encoder.layers.0.layer_norm1.weight", H)
			add("vision_tower.vision_model.post_layernorm.weight", H)
			add("multi_modal_projector.mm_input_projection_weight", H, H)
			add("multi_modal_projector.mm_soft_emb_norm.weight", H)
		}
		return ts
	}
	add("model.embed_tokens.weight", V, H)
	add("model.norm.weight", H)
	if !c.Tie {
		add("lm_head.weight", V, H)
	}
	for l := 0; l < c.L; l++ {
		p := fmt.Sprintf("model.layers.%d.", l)
		add(p+"input_layernorm.weight", H)
		add(p+"post_attention_layernorm.weight", H)
		switch c.Arch {
		case "Phi3ForCausalLM":
			add(p+"self_attn.qkv_proj.weight", H+2*kvd, H)
			add(p+"self_attn.o_proj.weight", H, H)
			add(p+"mlp.gate_up_proj.weight", 2*I, H)
			add(p+"mlp.down_proj.weight", H, I)
		case "MixtralForCausalLM":
			attn(p)
			add(p+"block_sparse_moe.gate.weight", int64(c.E), H)
			for e := 0; e < c.E; e++ {
				ep := fmt.Sprintf("%sblock_sparse_moe.experts.%d.", p, e)
				add(ep+"w1.weight", I, H)
				add(ep+"w2.weight", H, I)
				add(ep+"w3.weight", I, H)
			}
		default:
			attn(p)
			mlp(p)
		}
		switch c.Arch {
		case "Qwen2ForCausalLM":
			add(p+"self_attn.q_proj.bias", H)
			add(p+"self_attn.k_proj.bias", kvd)
			add(p+"self_attn.v_proj.bias", kvd)
		case "Gemma2ForCausalLM", "Gemma3ForCausalLM":
			add(p+"pre_feedforward_layernorm.weight", H)
			add(p+"post_feedforward_layernorm.weight", H)
			if c.Arch == "Gemma3ForCausalLM" {
				add(p+"self_attn.q_norm.weight", hd)
				add(p+"self_attn.k_norm.weight", hd)
			}
		case "CohereForCausalLM":
			add(p+"self_attn.q_norm.weight", int64(c.NH), hd)
			add(p+"self_attn.k_norm.weight", int64(c.NKV), hd)
		}
	}
	return ts
}

func adapterSpecs(c Case) []tspec {
	a := c.Adapter
	H, I, r := int64(c.H), int64(c.I), int64(a.Rank)
	kvd := int64(c.NKV * c.headDim())
	var ts []tspec
	for l := 0; l < c.L; l++ {
		for _, p := range a.Targets {
			in, out := H, H
			switch p {
			case "self_attn.k_proj", "self_attn.v_proj":
				out = kvd
			case "mlp.gate_proj", "mlp.up_proj":
				out = I
			case "mlp.down_proj":
				in = I
			}
			if a.Style == "mlx" {
				ts = append(ts, tspec{fmt.Sprintf("model.layers.%d.%s.lora_a", l, p), []int64{in, r}})
				ts = append(ts, tspec{fmt.Sprintf("model.layers.%d.%s.lora_b", l, p), []int64{r, out}})
			} else {
				ts = append(ts, tspec{fmt.Sprintf("base_model.model.model.layers.%d.%s.lora_A.weight", l, p), []int64{r, in}})
				ts = append(ts, tspec{fmt.Sprintf("base_model.model.model.layers.%d.%s.lora_B.weight", l, p), []int64{out, r}})
			}
		}
	}
	return ts
}

var dtypeSize = map[string]int64{"F32": 4, "F16": 2, "BF16": 2}

var fillBits = map[string][]uint32{
	"F32":  {0x3F800000, 0x3F000000, 0xBE800000, 0x40000000},
	"F16":  {0x3C00, 0x3800, 0xB400, 0x4000},
	"BF16": {0x3F80, 0x3F00, 0xBE80, 0x4000},
}

func fill(dtype string, n int64) []byte {
	var b []byte
	pat := fillBits[dtype]
	for i := int64(0); i < n; i++ {
		v := pat[int(i)%len(pat)]
		if dtype == "F32" {
			b = binary.LittleEndian.AppendUint32(b, v)
		} else {
			b = binary.LittleEndian.AppendUint16(b, uint16(v))
		}
	}
	return b
}

func buildST(c Case, specs []tspec, names []string, adapter bool) []*stFile {
	n := len(names)
	files := make([]*stFile, n)
	for i := range files {
		files[i] = &stFile{Name: names[i], Pad: c.ST.Pad, adapter: adapter}
		switch c.ST.Meta {
		case 1:
			files[i].Meta = `{"format":"pt"}`
		case 2:
			files[i].Meta = `{"format":"pt","total_size":"1234","note":"a \"quoted\" value"}`
		}
	}
	per := (len(specs) + n - 1) / n
	for i, s := range specs {
		f := files[min(i/max(per, 1), n-1)]
		dt := "F32"
		if len(c.ST.DTypes) > 0 {
			dt = c.ST.DTypes[i%len(c.ST.DTypes)]
		}
		cnt := int64(1)
		for _, d := range s.shape {
			cnt *= d
		}
		begin := int64(len(f.Data))
		f.Data = append(f.Data, fill(dt, cnt)...)
		f.Entries = append(f.Entries, stEntry{Name: s.name, DType: dt, Shape: append([]int64(nil), s.shape...), Off: [2]int64{begin, int64(len(f.Data))}})
	}
	return files
}

func stNames(n int) []string {
	if n <= 1 {
		return []string{"model.safetensors"}
	}
	var out []string
	for i := 1; i <= n; i++ {
		out = append(out, fmt.Sprintf("model-%05d-of-%05d.safetensors", i, n))
	}
	return out
}

func baseVocab(c Case) []string {
	var v []string
	if c.Arch == "BertModel" {
		v = []string{"[PAD]", "[UNK]", "[CLS]", "[SEP]", "[MASK]", "hello", "##ing", "world"}
	} else {
		v = []string{"<unk>", "<s>", "</s>", "<0x0A>", "▁a", "b", "<start_of_turn>", "<end_of_turn>"}
	}
	for i := len(v); i < c.V; i++ {
		v = append(v, fmt.Sprintf("t%d", i))
	}
	return v[:c.V]
}

const llamaRegex = `(?i:'s|'t|'re|'ve|'m|'ll|'d)|[^\r\n\p{L}\p{N}]?\p{L}+|\p{N}{1,3}| ?[^\s\p{L}\p{N}]+[\r\n]*|\s*[\r\n]+|\s+(?!\S)|\s+`

func specials(c Case) (bos, eos, unk string) {
	if c.Arch == "BertModel" {
		return "[CLS]", "[SEP]", "[UNK]"
	}
	return "<s>", "</s>", "<unk>"
}

func newModel(c Case) *model {
	m := &model{c: c, docs: map[string]map[string]any{}, raw: map[string]*string{}, names: map[string]string{}, dropped: map[string]bool{}, emptied: map[string]bool{}}
	if c.Adapter != nil {
		a := c.Adapter
		cfg := map[string]any{}
		if a.CfgKind != 1 {
			cfg["r"] = a.Rank
			cfg["lora_alpha"] = 2 * a.Rank
			cfg["peft_type"] = "LORA"
			tm := []any{}
			for _, t := range a.Targets {
				tm = append(tm, t[strings.Index(t, ".")+1:])
			}
			cfg["target_modules"] = tm
		}
		if a.CfgKind != 0 {
			cfg["lora_layers"] = c.L
			cfg["lora_parameters"] = map[string]any{"rank": a.Rank, "alpha": 16.0, "scale": 2.0, "dropout": 0.0}
		}
		m.docs["acfg"] = cfg
		m.names["acfg"] = "adapter_config.json"
		name := "adapter_model.safetensors"
		if a.Style == "mlx" {
			name = "adapters.safetensors"
		}
		m.st = buildST(c, adapterSpecs(c), []string{name}, true)
		return m
	}

	m.vocab = baseVocab(c)
	bos, eos, unk := specials(c)

	// ---- tokenizer files
	if c.Tok.Kind != "spm" {
		vocab := map[string]any{}
		for i, t := range m.vocab {
			vocab[t] = i
		}
		added := []any{}
		for i, t := range m.vocab {
			if t == bos || t == eos || t == unk || strings.HasPrefix(t, "[") {
				added = append(added, map[string]any{"id": i, "content": t, "single_word": false, "lstrip": false, "rstrip": false, "normalized": false, "special": true})
			}
		}
		for i := 0; i < c.Tok.Added; i++ {
			added = append(added, map[string]any{"id": c.V + i, "content": fmt.Sprintf("<extra_%d>", i), "special": i%2 == 0})
		}
		mdl := map[string]any{"type": "BPE", "vocab": vocab, "unk_token": unk}
		if c.Arch == "BertModel" {
			mdl["type"] = "WordPiece"
		}
		var merges []any
		for i := 4; i+1 < len(m.vocab) && len(merges) < 6; i += 2 {
			if c.Tok.Merges == "pairs" {
				merges = append(merges, []any{m.vocab[i], m.vocab[i+1]})
			} else {
				merges = append(merges, m.vocab[i]+" "+m.vocab[i+1])
			}
		}
		switch c.Tok.Merges {
		case "strings", "pairs":
			mdl["merges"] = merges
		case "empty":
			mdl["merges"] = []any{}
		}
		tok := map[string]any{"version": "1.0", "truncation": nil, "added_tokens": added, "model": mdl}
		split := func(re string) map[string]any {
			return map[string]any{"type": "Split", "pattern": map[string]any{"Regex": re}, "behavior": "Isolated", "invert": false}
		}
		bl := map[string]any{"type": "ByteLevel", "add_prefix_space": false, "trim_offsets": true, "use_regex": false}
		switch c.Tok.Pre {
		case "none":
			tok["pre_tokenizer"] = nil
		case "bytelevel":
			tok["pre_tokenizer"] = bl
		case "split":
			tok["pre_tokenizer"] = map[string]any{"type": "Sequence", "pretokenizers": []any{split(`\s+`), bl}}
		case "llama":
			tok["pre_tokenizer"] = map[string]any{"type": "Sequence", "pretokenizers": []any{split(llamaRegex), bl}}
		case "seqempty":
			tok["pre_tokenizer"] = map[string]any{"type": "Sequence", "pretokenizers": []any{}}
		}
		m.docs["tok"] = tok
		m.names["tok"] = "tokenizer.json"
		m.tokens = c.V + c.Tok.Added
	}
	if c.Tok.Kind != "json" {
		m.hasSPM = true
		m.names["spm"] = "tokenizer.model"
		for i, t := range m.vocab {
			s, sc := t, float32(-float32(i))
			ty := int32(sentencepiece.ModelProto_SentencePiece_NORMAL)
			switch {
			case t == unk:
				ty = int32(sentencepiece.ModelProto_SentencePiece_UNKNOWN)
			case t == bos || t == eos:
				ty = int32(sentencepiece.ModelProto_SentencePiece_CONTROL)
			case strings.HasPrefix(t, "<0x"):
				ty = int32(sentencepiece.ModelProto_SentencePiece_BYTE)
			case i == 9:
				ty = int32(sentencepiece.ModelProto_SentencePiece_USER_DEFINED)
			case i == 10:
				ty = int32(sentencepiece.ModelProto_SentencePiece_UNUSED)
			}
			p := spmPiece{Piece: &s, Score: &sc}
			if ty != int32(sentencepiece.ModelProto_SentencePiece_NORMAL) || i%2 == 0 {
				p.Type = &ty
			}
			m.pieces = append(m.pieces, p)
		}
		m.tokens = c.V
		switch c.Aux.Added {
		case 1:
			m.docs["added"] = map[string]any{"<added0>": c.V, "<added1>": c.V + 1}
			m.tokens = c.V + 2
		case 2:
			m.docs["added"] = map[string]any{m.vocab[min(3, len(m.vocab)-1)]: min(3, len(m.vocab)-1)}
		}
		if c.Aux.Added != 0 {
			m.names["added"] = "added_tokens.json"
		}
	}
	tokv := func(s string) any {
		if c.Aux.TokCfg == 2 {
			return map[string]any{"__type": "AddedToken", "content": s, "lstrip": false, "normalized": false, "rstrip": false, "single_word": false}
		}
		return s
	}
	if c.Aux.TokCfg > 0 {
		tc := map[string]any{"bos_token": tokv(bos), "eos_token": tokv(eos), "unk_token": tokv(unk), "add_bos_token": true, "add_eos_token": false,
			"tokenizer_class": "LlamaTokenizer", "model_max_length": 64, "pad_token": nil}
		tmpl := "{{ bos_token }}{% for message in messages %}{{ message['role'] }}: {{ message['content'] }}{% endfor %}"
		switch c.Aux.TokCfg {
		case 3:
			tc["chat_template"] = tmpl
		case 4:
			tc["chat_template"] = []any{map[string]any{"name": "default", "template": tmpl}, map[string]any{"name": "tool_use", "template": "x"}}
		}
		m.docs["tokcfg"] = tc
		m.names["tokcfg"] = "tokenizer_config.json"
	}
	if c.Aux.STMap > 0 {
		sm := map[string]any{"bos_token": bos, "eos_token": map[string]any{"content": eos, "lstrip": false}, "unk_token": unk}
		if c.Aux.STMap == 2 {
			sm["additional_special_tokens"] = []any{
				map[string]any{"content": m.vocab[len(m.vocab)-1], "lstrip": false, "normalized": false, "rstrip": false, "single_word": false},
				map[string]any{"content": "<nowhere>", "lstrip": false, "normalized": false, "rstrip": false, "single_word": false}}
		}
		m.docs["stmap"] = sm
		m.names["stmap"] = "special_tokens_map.json"
	}
	if c.Aux.GenCfg {
		m.docs["gencfg"] = map[string]any{"bos_token_id": 1, "eos_token_id": []any{2, 7}, "temperature": 0.6}
		m.names["gencfg"] = "generation_config.json"
	}

	// ---- config.json
	vs := m.tokens + c.VPad
	text := map[string]any{
		"vocab_size": vs, "hidden_size": c.H, "num_hidden_layers": c.L, "intermediate_size": c.I, "num_attention_heads": c.NH,
		"num_key_value_heads": c.NKV, "max_position_embeddings": 64, "rms_norm_eps": 1e-5, "rope_theta": 10000.0, "head_dim": c.headDim(),
		"hidden_act": "silu", "sliding_window": 32,
	}
	cfg := map[string]any{"architectures": []any{c.Arch}, "torch_dtype": "bfloat16", "transformers_version": "4.40.0", "tie_word_embeddings": c.Tie}
	vision := map[string]any{"hidden_size": c.H, "num_hidden_layers": 1, "intermediate_size": c.I, "num_attention_heads": c.NH, "image_size": 4,
		"patch_size": 2, "num_channels": 3, "head_dim": c.headDim(), "rope_theta": 10000.0, "layer_norm_eps": 1e-6, "hidden_act": "gelu"}
	switch c.Arch {
	case "Mistral3ForConditionalGeneration":
		cfg["text_config"] = text
		cfg["vision_config"] = vision
		cfg["image_token_index"] = 10
		cfg["spatial_merge_size"] = 2
		cfg["vision_feature_layer"] = -1
		cfg["multimodal_projector_bias"] = false
		cfg["projector_hidden_act"] = "gelu"
		cfg["model_type"] = "mistral3"
	case "Gemma3ForConditionalGeneration":
		cfg["text_config"] = text
		cfg["vision_config"] = vision
		cfg["mm_tokens_per_image"] = 4
		cfg["model_type"] = "gemma3"
		if c.L == 2 { // some published gemma3 configs carry the sizes at top level too
			cfg["vocab_size"] = vs
		}
	default:
		for k, v := range text {
			cfg[k] = v
		}
	}
	switch c.Arch {
	case "LlamaForCausalLM", "MixtralForCausalLM":
		switch c.Rope {
		case "linear":
			cfg["rope_scaling"] = map[string]any{"type": "linear", "factor": 2.0}
		case "llama3":
			cfg["rope_scaling"] = map[string]any{"rope_type": "llama3", "factor": 8.0, "low_freq_factor": 1.0, "high_freq_factor": 4.0, "original_max_position_embeddings": 8192}
		default:
			cfg["rope_scaling"] = nil
		}
		if c.Arch == "MixtralForCausalLM" {
			cfg["num_local_experts"] = c.E
			cfg["num_experts_per_tok"] = min(2, c.E)
		}
	case "Phi3ForCausalLM":
		cfg["original_max_position_embeddings"] = 32
		if c.Rope != "" {
			f := []any{}
			for i := 0; i < c.headDim()/2; i++ {
				f = append(f, 1.0+float64(i)/8)
			}
			cfg["rope_scaling"] = map[string]any{"type": c.Rope, "long_factor": f, "short_factor": f}
		}
	case "Gemma2ForCausalLM":
		cfg["attn_logit_softcapping"] = 50.0
		cfg["final_logit_softcapping"] = 30.0
	case "Gemma3ForCausalLM":
		cfg["rope_local_base_freq"] = 10000.0
		cfg["rope_global_base_freq"] = 1000000.0
	case "BertModel":
		cfg["layer_norm_eps"] = 1e-12
		cfg["type_vocab_size"] = 2
		m.modules = `[{"idx":0,"name":"0","path":"","type":"sentence_transformers.models.Transformer"},{"idx":1,"name":"1","path":"1_Pooling","type":"sentence_transformers.models.Pooling"}]`
		m.names["modules"] = "modules.json"
		m.docs["pooling"] = map[string]any{"word_embedding_dimension": c.H, "pooling_mode_cls_token": c.L == 1, "pooling_mode_mean_tokens": c.L != 1}
		m.names["pooling"] = "1_Pooling/config.json"
	case "CohereForCausalLM":
		cfg["layer_norm_eps"] = 1e-5
		cfg["logit_scale"] = 0.0625
		cfg["use_qk_norm"] = true
	}
	m.docs["cfg"] = cfg
	m.names["cfg"] = "config.json"
	m.st = buildST(c, tensorSpecs(c), stNames(c.ST.NFiles), false)
	m.index = c.ST.Index
	return m
}

// ------------------------------------------------------------------------------- serialisers

func jsonInts(v []int64) string {
	var sb strings.Builder
	sb.WriteByte('[')
	for i, x := range v {
		if i > 0 {
			sb.WriteByte(',')
		}
		fmt.Fprintf(&sb, "%d", x)
	}
	sb.WriteByte(']')
	return sb.String()
}

func jstr(s string) string {
	b, _ := json.Marshal(s)
	return string(b)
}

func (e stEntry) json() string {
	if e.Raw != "" {
		return e.Raw
	}
	var parts []string
	member := func(key, rawv, def string) {
		switch rawv {
		case "-":
		case "":
			parts = append(parts, jstr(key)+":"+def)
		default:
			parts = append(parts, jstr(key)+":"+rawv)
		}
	}
	member("dtype", e.RawDType, jstr(e.DType))
	member("shape", e.RawShape, jsonInts(e.Shape))
	member("data_offsets", e.RawOff, jsonInts(e.Off[:]))
	return "{" + strings.Join(parts, ",") + "}"
}

func (f *stFile) header() string {
	if f.HdrRaw != nil {
		return *f.HdrRaw
	}
	var parts []string
	if f.Meta != "" {
		parts = append(parts, `"__metadata__":`+f.Meta)
	}
	for _, e := range f.Entries {
		parts = append(parts, jstr(e.Name)+":"+e.json())
	}
	h := "{" + strings.Join(parts, ",") + "}"
	if f.Pad {
		for (len(h) % 8) != 0 {
			h += " "
		}
	}
	return h
}

func symLen(sym string, hdr, fsize int64) int64 {
	switch sym {
	case "0":
		return 0
	case "1":
		return 1
	case "-1":
		return -1
	case "7":
		return 7
	case "2^31":
		return 1 << 31
	case "2^31-1":
		return 1<<31 - 1
	case "2^32":
		return 1 << 32
	case "2^40":
		return 1 << 40
	case "2^63-1":
		return 1<<63 - 1
	case "-2^63":
		return -1 << 63
	case "-2^31":
		return -1 << 31
	case "fsize":
		return fsize
	case "fsize-1":
		return fsize - 1
	case "fsize+1":
		return fsize + 1
	case "rem":
		return fsize - 8
	case "rem+1":
		return fsize - 7
	case "rem-1":
		return fsize - 9
	case "hdr-1":
		return hdr - 1
	case "hdr+1":
		return hdr + 1
	case "hdr+8":
		return hdr + 8
	case "64MiB":
		return 64 << 20
	case "200MiB":
		return 200 << 20
	}
	return hdr
}

func (f *stFile) bytes() []byte {
	h := f.header()
	fsize := int64(8 + len(h) + len(f.Data) + f.Append)
	n := int64(len(h))
	if f.HdrLen != "" {
		n = symLen(f.HdrLen, n, fsize)
	}
	b := binary.LittleEndian.AppendUint64(nil, uint64(n))
	b = append(b, h...)
	b = append(b, f.Data...)
	for i := 0; i < f.Append; i++ {
		b = append(b, 0xEE)
	}
	cut := len(b)
	switch f.Trunc {
	case "inlen":
		cut = 4
	case "afterlen":
		cut = 8
	case "inhdr":
		cut = 8 + len(h)/2
	case "hdrend":
		cut = 8 + len(h)
	case "hdrend+1":
		cut = 8 + len(h) + 1
	case "indata":
		cut = 8 + len(h) + len(f.Data)/2
	case "last1":
		cut = len(b) - 1
	case "empty":
		cut = 0
	case "tensorend":
		if len(f.Entries) > 0 {
			cut = 8 + len(h) + int(f.Entries[0].Off[1])
		}
	}
	if cut < 0 {
		cut = 0
	}
	if cut < len(b) {
		b = b[:cut]
	}
	return b
}

// Inspect reads a safetensors file the way a trusting reader would (see STInfo).
func Inspect(name string, b []byte) STInfo {
	in := STInfo{Name: name, Size: int64(len(b))}
	if len(b) < 8 {
		return in
	}
	in.HdrLen = int64(binary.LittleEndian.Uint64(b))
	if in.HdrLen < 0 || in.HdrLen > int64(len(b))-8 {
		return in
	}
	var hdr map[string]json.RawMessage
	dec := json.NewDecoder(bytes.NewReader(b[8 : 8+in.HdrLen]))
	if dec.Decode(&hdr) != nil {
		return in
	}
	in.HdrOK = true
	for k, v := range hdr {
		if k == "__metadata__" {
			continue
		}
		var e struct {
			Type    string   `json:"dtype"`
			Shape   []uint64 `json:"shape"`
			Offsets []int64  `json:"data_offsets"`
		}
		if json.Unmarshal(v, &e) != nil || e.Type == "" || len(e.Offsets) < 2 {
			continue
		}
		sz := e.Offsets[1] - e.Offsets[0]
		if sz > in.MaxTensor {
			in.MaxTensor = sz
		}
		if len(e.Shape) != 2 {
			in.RankNot2 = true
		}
		if es, ok := dtypeSize[e.Type]; ok {
			want, over := uint64(es), false
			for _, dim := range e.Shape {
				if dim == 0 {
					in.ZeroDim = true
				}
				if dim != 0 && want > (1<<62)/dim {
					over = true
					break
				}
				want *= dim
			}
			if over || sz < 0 || uint64(sz) != want {
				in.Mismatch = true
			}
		}
		if e.Offsets[0] < 0 || sz < 0 || 8+in.HdrLen+e.Offsets[1] > in.Size || 8+in.HdrLen+e.Offsets[1] < 0 {
			in.BadSpan = true
		}
	}
	return in
}

func rawDoc(val string, orig []byte) string {
	switch val {
	case "notjson":
		return "this is not json"
	case "array":
		return "[1,2,3]"
	case "empty":
		return ""
	case "truncated", "truncjson":
		return string(orig[:len(orig)/2])
	case "trailing":
		return string(orig) + "}}garbage"
	case "bom":
		return "\xef\xbb\xbf" + string(orig)
	case "deep":
		return strings.Repeat("[", 20000)
	case "null":
		return "null"
	case "string":
		return `"config"`
	case "number":
		return "42"
	case "dupkeys", "dupkey":
		s := strings.TrimSpace(string(orig))
		if len(s) > 2 && s[0] == '{' {
			return s[:len(s)-1] + "," + s[1:]
		}
		return s
	case "nul":
		return string(orig) + "\x00"
	}
	return string(orig)
}

func (m *model) spmBytes() []byte {
	mp := &sentencepiece.ModelProto{}
	for _, p := range m.pieces {
		sp := &sentencepiece.ModelProto_SentencePiece{Piece: p.Piece, Score: p.Score}
		if p.Type != nil {
			ty := sentencepiece.ModelProto_SentencePiece_Type(*p.Type)
			sp.Type = &ty
		}
		mp.Pieces = append(mp.Pieces, sp)
	}
	mt := sentencepiece.TrainerSpec_BPE
	vs := int32(len(m.pieces))
	bf := true
	mp.TrainerSpec = &sentencepiece.TrainerSpec{ModelType: &mt, VocabSize: &vs, ByteFallback: &bf}
	nm := "identity"
	mp.NormalizerSpec = &sentencepiece.NormalizerSpec{Name: &nm}
	b, err := proto.MarshalOptions{Deterministic: true}.Marshal(mp)
	if err != nil {
		b = []byte("marshal failed: " + err.Error())
	}
	for _, mu := range m.spmPost {
		switch mu.Op {
		case "trunc":
			cut := len(b) / 2
			if mu.T%2 == 1 {
				cut = len(b) - 1 - mu.T%7
			}
			if cut >= 0 && cut < len(b) {
				b = b[:cut]
			}
		case "garbage":
			b = bytes.Repeat([]byte{0xff, 0x80, 0x01, 0x7f}, 16)
		case "flip":
			if len(b) > 0 {
				b[(mu.T*7)%len(b)] ^= 0x81
			}
		case "empty":
			b = nil
		case "hugelen": // a length-delimited field 1 declaring far more bytes than the file has
			b = append([]byte{0x0a, 0xff, 0xff, 0xff, 0xff, 0x07}, b...)
		case "wrongwire": // field 1 with wire type varint
			b = append([]byte{0x08, 0x01}, b...)
		case "prefixgarbage":
			b = append([]byte{0x00, 0x00, 0x00}, b...)
		}
	}
	return b
}

// Build is the pure function from a case to the files that are uploaded.
func Build(c Case) Dir {
	m := newModel(c)
	var d Dir
	d.Tokens = m.tokens
	for _, mu := range c.Muts {
		if m.apply(mu) {
			d.Kinds = append(d.Kinds, mu.File+":"+mu.Op)
			d.Changed = true
		}
	}
	if c.Adapter != nil {
		if c.Adapter.HFBase {
			bc := c
			bc.Adapter, bc.Muts = nil, nil
			bd := Build(bc)
			d.BaseDir = bd.Files
			d.Bytes += bd.Bytes
		} else {
			d.Base = c10gen.Build(c.Adapter.Base).Data
		}
	}
	emit := func(kind string, data []byte) {
		if m.dropped[kind] {
			return
		}
		if m.emptied[kind] {
			data = nil
		}
		d.Files = append(d.Files, File{Name: m.names[kind], Kind: kind, Data: data})
	}
	kinds := make([]string, 0, len(m.docs))
	for k := range m.docs {
		kinds = append(kinds, k)
	}
	sort.Strings(kinds)
	for _, k := range kinds {
		b, _ := json.Marshal(m.docs[k])
		if r := m.raw[k]; r != nil {
			b = []byte(rawDoc(*r, b))
		}
		emit(k, b)
	}
	if m.modules != "" {
		emit("modules", []byte(m.modules))
	}
	if m.hasSPM {
		emit("spm", m.spmBytes())
	}
	if !m.dropped["st"] {
		wm := map[string]any{}
		for _, f := range m.st {
			data := f.bytes()
			if m.emptied["st:"+f.Name] {
				data = nil
			}
			d.Files = append(d.Files, File{Name: f.Name, Kind: "st", Data: data})
			for _, e := range f.Entries {
				wm[e.Name] = f.Name
			}
		}
		if m.index && !m.dropped["index"] {
			b, _ := json.Marshal(map[string]any{"metadata": map[string]any{"total_size": 1234}, "weight_map": wm})
			d.Files = append(d.Files, File{Name: "model.safetensors.index.json", Kind: "index", Data: b})
		}
	}
	d.Files = append(d.Files, m.extra...)
	for _, sw := range m.swap { // content of one file under the name of another
		var src []byte
		found := false
		for _, f := range d.Files {
			if f.Kind == sw[1] {
				src, found = f.Data, true
				break
			}
		}
		if !found {
			continue
		}
		for i := range d.Files {
			if d.Files[i].Kind == sw[0] {
				d.Files[i].Data = src
				break
			}
		}
	}
	// a later file with the name of an earlier one replaces it (the request carries a map)
	seen := map[string]int{}
	var out []File
	for _, f := range d.Files {
		if i, ok := seen[f.Name]; ok {
			out[i] = f
			continue
		}
		seen[f.Name] = len(out)
		out = append(out, f)
	}
	d.Files = out
	for _, f := range d.Files {
		d.Bytes += len(f.Data)
	}
	d.Bytes += len(d.Base)
	return d
}
