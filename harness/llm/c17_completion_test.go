// C17, client side of the runner protocol (see /verif/DESIGN.md section 3 C17).
//
// The route-level target (harness/server/c17_stream_test.go) replaces the whole llm.LlamaServer by a mock; what lies
// between the runner process and the handlers - llmServer.Completion, which reads the runner's response stream and
// forwards it chunk by chunk - is exercised here: "however the output was split into pieces ... a stream ends with
// exactly one final message or one error".
//
// The runner is a scripted http.RoundTripper (no sockets): /health answers ready, /completion streams the generated
// lines. Oracle over the callback sequence and the return value of the real (*llmServer).Completion:
//   - nil error  <=> exactly one Done response was delivered, as the last callback, carrying the runner's counts and reason;
//   - the concatenated Content delivered is a prefix of what the runner sent (equal to all of it when Done was delivered);
//   - an error and a Done response never both occur.
package llm

import (
	"bytes"
	"context"
	"encoding/json"
	"errors"
	"fmt"
	"io"
	"net/http"
	"os/exec"
	"strings"
	"testing"
	"time"

	"golang.org/x/sync/semaphore"
	"pgregory.net/rapid"
	"verif.local/vfkit"

	"github.com/ollama/ollama/api"
)

const c17KnownRepeat = "llm-token-repeat-abort-is-silent"

type c17Rep struct {
	Piece int `json:"p"` // index into c17Pieces
	N     int `json:"n"` // how many times in a row
}

type c17Case struct {
	Runs   []c17Rep `json:"runs"`
	End    string   `json:"end"`    // done | cut (body ends without Done) | badjson | errline (runner reports an error in-band) | reset (read error)
	Reason string   `json:"reason"` // stop | length
	Eval   int      `json:"eval"`
	Prompt int      `json:"prompt"`
	SSE    bool     `json:"sse,omitempty"`   // lines carry the "data: " prefix
	Blank  bool     `json:"blank,omitempty"` // an empty line between two events
	Status int      `json:"status,omitempty"`
}

var c17Pieces = []string{"a", " a", "a ", "\n", " ", "", "}", "0", "ha", "\t", "é", "日本", "the", " the", "\n\n", "  ", "<0x0A>", "\"", "{", "ha ha"}

func c17Gen(t *rapid.T) c17Case {
	var c c17Case
	n := rapid.IntRange(0, 8).Draw(t, "n_runs")
	for i := 0; i < n; i++ {
		r := c17Rep{Piece: rapid.IntRange(0, len(c17Pieces)-1).Draw(t, "piece")}
		r.N = rapid.SampledFrom([]int{1, 1, 1, 2, 3, 5, 12, 29, 30, 31, 32, 33, 40, 64}).Draw(t, "n")
		c.Runs = append(c.Runs, r)
	}
	c.End = rapid.SampledFrom([]string{"done", "done", "done", "done", "cut", "badjson", "errline", "reset", "done_reset", "done_extra"}).Draw(t, "end")
	c.Reason = rapid.SampledFrom([]string{"stop", "length"}).Draw(t, "reason")
	c.Eval = rapid.IntRange(0, 500).Draw(t, "eval")
	c.Prompt = rapid.IntRange(0, 500).Draw(t, "prompt")
	c.SSE = rapid.Bool().Draw(t, "sse")
	c.Blank = rapid.Bool().Draw(t, "blank")
	if rapid.IntRange(0, 9).Draw(t, "http_error") == 0 {
		c.Status = rapid.SampledFrom([]int{400, 500, 503}).Draw(t, "status")
	}
	return c
}

// c17Body streams the scripted lines; "reset" ends with a read error instead of EOF.
type c17Body struct {
	r     *bytes.Reader
	reset bool
}

func (b *c17Body) Read(p []byte) (int, error) {
	if len(p) > 7 {
		p = p[:7] // small reads: lines arrive in pieces, as from a socket
	}
	n, err := b.r.Read(p)
	if err == io.EOF && b.reset {
		return n, errors.New("read tcp 127.0.0.1:1->127.0.0.1:2: read: connection reset by peer")
	}
	return n, err
}
func (b *c17Body) Close() error { return nil }

type c17Runner struct{ c c17Case }

func (rt c17Runner) RoundTrip(req *http.Request) (*http.Response, error) {
	resp := func(code int, body io.ReadCloser) *http.Response {
		return &http.Response{StatusCode: code, Status: fmt.Sprint(code), Proto: "HTTP/1.1", ProtoMajor: 1, ProtoMinor: 1,
			Header: http.Header{"Content-Type": {"application/json"}}, Body: body, Request: req, ContentLength: -1}
	}
	if req.Body != nil {
		io.Copy(io.Discard, req.Body)
		req.Body.Close()
	}
	switch {
	case strings.HasSuffix(req.URL.Path, "/health"):
		js, _ := json.Marshal(ServerStatusResponse{Status: ServerStatusReady, Progress: 1})
		return resp(200, io.NopCloser(bytes.NewReader(js))), nil
	case strings.HasSuffix(req.URL.Path, "/completion"):
		if rt.c.Status != 0 {
			return resp(rt.c.Status, io.NopCloser(strings.NewReader("scripted runner error"))), nil
		}
		var buf bytes.Buffer
		line := func(v any) {
			js, _ := json.Marshal(v)
			if rt.c.SSE {
				buf.WriteString("data: ")
			}
			buf.Write(js)
			buf.WriteByte('\n')
			if rt.c.Blank {
				buf.WriteByte('\n')
			}
		}
		for _, r := range rt.c.Runs {
			for i := 0; i < r.N; i++ {
				line(CompletionResponse{Content: c17Pieces[r.Piece%len(c17Pieces)]})
			}
		}
		switch rt.c.End {
		case "done":
			line(CompletionResponse{Done: true, DoneReason: c17Reason(rt.c.Reason), EvalCount: rt.c.Eval, PromptEvalCount: rt.c.Prompt,
				EvalDuration: time.Duration(rt.c.Eval) * time.Millisecond, PromptEvalDuration: time.Duration(rt.c.Prompt) * time.Millisecond})
		case "done_reset", "done_extra":
			// the final line has arrived; what happens on the connection afterwards (the runner dies before the chunked
			// body is terminated, or writes more) must not change the outcome: the request is complete
			line(CompletionResponse{Done: true, DoneReason: c17Reason(rt.c.Reason), EvalCount: rt.c.Eval, PromptEvalCount: rt.c.Prompt,
				EvalDuration: time.Duration(rt.c.Eval) * time.Millisecond, PromptEvalDuration: time.Duration(rt.c.Prompt) * time.Millisecond})
			if rt.c.End == "done_extra" {
				line(CompletionResponse{Content: " more"})
				line(CompletionResponse{Done: true, DoneReason: DoneReasonLength, EvalCount: rt.c.Eval + 7, PromptEvalCount: rt.c.Prompt})
			}
		case "badjson":
			buf.WriteString("{\"content\": \n")
		case "errline":
			buf.WriteString("{\"error\":\"scripted failure\"}\n")
		}
		return resp(200, &c17Body{r: bytes.NewReader(buf.Bytes()), reset: rt.c.End == "reset" || rt.c.End == "done_reset"}), nil
	}
	return resp(404, io.NopCloser(strings.NewReader("not found"))), nil
}

func c17Reason(s string) DoneReason {
	if s == "length" {
		return DoneReasonLength
	}
	return DoneReasonStop
}

type c17Info struct {
	nontrivial bool
	classes    []string
}

// c17LongestRepeat: the longest run of consecutive lines whose content is equal after trimming white space (what the
// client's loop guard counts), over the whole stream; the guard starts from "" and also looks at the content-free
// Done line (and at any other JSON line, whose content is "" for it).
func c17LongestRepeat(c c17Case) int {
	var lines []string
	for _, r := range c.Runs {
		for i := 0; i < r.N; i++ {
			lines = append(lines, strings.TrimSpace(c17Pieces[r.Piece%len(c17Pieces)]))
		}
	}
	if c.End == "done" || c.End == "errline" || c.End == "done_reset" || c.End == "done_extra" {
		lines = append(lines, "")
	}
	best, cur, last := 0, 0, ""
	for _, s := range lines {
		if s == last {
			cur++
		} else {
			cur = 0
		}
		last = s
		best = max(best, cur)
	}
	return best
}

func c17Run(c c17Case, known func(string) bool, excluded func(string)) (info c17Info, err error) {
	cls := map[string]bool{"end_" + c.End: true}
	defer func() {
		for k := range cls {
			info.classes = append(info.classes, k)
		}
	}()
	rep := c17LongestRepeat(c)
	if rep > 30 {
		cls["more_than_30_equal_chunks_in_a_row"] = true
		if known != nil && known(c17KnownRepeat) {
			excluded(c17KnownRepeat)
			return info, nil
		}
	} else if rep >= 28 {
		cls["28_to_30_equal_chunks_in_a_row"] = true
	}
	if c.Status != 0 {
		cls["http_error_status"] = true
	}
	old := http.DefaultTransport
	http.DefaultTransport = c17Runner{c}
	defer func() { http.DefaultTransport = old }()

	s := &llmServer{port: 1, cmd: exec.Command("true"), sem: semaphore.NewWeighted(1), options: api.DefaultOptions(), done: make(chan error, 1)}
	var got []CompletionResponse
	ctx, cancel := context.WithTimeout(context.Background(), 30*time.Second)
	defer cancel()
	cerr := s.Completion(ctx, CompletionRequest{Prompt: "p", Options: &s.options}, func(r CompletionResponse) { got = append(got, r) })

	var sent strings.Builder
	chunks := 0
	for _, r := range c.Runs {
		for i := 0; i < r.N; i++ {
			sent.WriteString(c17Pieces[r.Piece%len(c17Pieces)])
			chunks++
		}
	}
	var text strings.Builder
	dones := 0
	for i, r := range got {
		if r.Done {
			dones++
			if i != len(got)-1 {
				return info, fmt.Errorf("a Done response was delivered as callback %d of %d, not as the last one", i+1, len(got))
			}
			continue
		}
		text.WriteString(r.Content)
	}
	info.nontrivial = chunks >= 3
	if !strings.HasPrefix(sent.String(), text.String()) {
		return info, fmt.Errorf("the delivered text %q is not a prefix of what the runner sent %q", text.String(), sent.String())
	}
	switch {
	case cerr != nil && dones > 0:
		return info, fmt.Errorf("Completion returned the error %q after it had delivered a Done response", cerr)
	case cerr == nil && dones == 0 && (c.End == "cut" || c.End == "errline") && c.Status == 0 && rep <= 30:
		// A response body that ends cleanly without a Done line (possibly after a JSON line that is not a completion
		// response): neither runner ends a stream that way (a crashed runner gives an unexpected EOF, which is the
		// "reset" ending; a failing encoder writes a plain-text line, the "badjson" ending); what Completion makes
		// of it is only counted.
		cls["obs_clean_eof_without_done_returns_nil"] = true
		return info, nil
	case cerr == nil && dones == 0:
		return info, fmt.Errorf("Completion returned nil without delivering a Done response: the stream ends with neither a final message nor an error (runner sent %d chunks, longest run of equal chunks %d, ending %q; %d callbacks, text delivered %q)",
			chunks, rep+1, c.End, len(got), text.String())
	case dones > 1:
		return info, fmt.Errorf("%d Done responses delivered", dones)
	}
	if cerr == nil {
		cls["completed_with_done"] = true
		d := got[len(got)-1]
		if !strings.HasPrefix(c.End, "done") || c.Status != 0 {
			return info, fmt.Errorf("a Done response was delivered although the runner never sent one (ending %q, status %d)", c.End, c.Status)
		}
		if text.String() != sent.String() {
			return info, fmt.Errorf("Done delivered but the text %q differs from what the runner sent %q", text.String(), sent.String())
		}
		if d.EvalCount != c.Eval || d.PromptEvalCount != c.Prompt || d.DoneReason != c17Reason(c.Reason) {
			return info, fmt.Errorf("Done response carries eval=%d prompt=%d reason=%v, the runner sent eval=%d prompt=%d reason=%s", d.EvalCount, d.PromptEvalCount, d.DoneReason, c.Eval, c.Prompt, c.Reason)
		}
	} else {
		cls["ended_with_error"] = true
		if strings.HasPrefix(c.End, "done") && c.Status == 0 && rep <= 30 {
			return info, fmt.Errorf("the runner delivered a complete stream (ending %q) but Completion returned %q", c.End, cerr)
		}
	}
	return info, nil
}

func TestC17LlmCompletion(t *testing.T) {
	const target = "TestC17LlmCompletion"
	rec := vfkit.Open(target)
	defer rec.Flush()
	var rc c17Case
	if rp, ok, err := vfkit.ReplayCase(target, &rc); ok {
		if err != nil {
			t.Fatalf("replay: %v", err)
		}
		rec.Current(target, rc)
		own := ""
		if rp != nil {
			own, _ = strings.CutPrefix(rp.Expect, "known:")
		}
		known := func(s string) bool { return s != own && rec.Known(s) }
		if _, err := c17Run(rc, known, func(string) {}); err != nil {
			rec.Fail(target, rc, err.Error())
			t.Fatalf("C17 violated: %v", err)
		}
		return
	}
	rapid.Check(t, func(rt *rapid.T) {
		if rec.OverBudget() {
			return
		}
		c := c17Gen(rt)
		rec.Current(target, c)
		info, err := c17Run(c, rec.Known, rec.Excluded)
		rec.Case(c, info.nontrivial, info.classes...)
		if err != nil {
			rec.Fail(target, c, err.Error())
			rt.Fatalf("C17 violated: %v", err)
		}
	})
}
