package llm

// C16 — the memory estimator never plans more on a GPU than it has free (see /verif/DESIGN.md §3 C16).
//
// Generator: a model shape (architecture from GraphSize's switch or unknown, 1–80 blocks, a base layer
// of 1–5 tensors plus per-block overrides missing/tiny/giant, optional output / token_embd /
// output_norm, vocab, head counts, optional vision keys, optional projector file) is written with
// ggml.WriteGGUF into memory (tensor payloads elided: Decode only seeks over them) and decoded with
// ggml.Decode; 1–8 GPUs of one library with free/total/minimum memory sized around what the model
// needs (so that zero / partial / full offload and GPUs dropping out all occur), incl. 0 free and
// free < overhead; num_gpu in {-1, 0, 1.., > layers}; context/batch/parallel; OLLAMA_GPU_OVERHEAD.
// Oracle: independent clauses over the MemoryEstimate returned by EstimateGPULayers and over
// PredictServerFit's verdict (see c16CheckEstimate / c16Run).

import (
	"bytes"
	"encoding/json"
	"errors"
	"fmt"
	"io"
	"os"
	"runtime/debug"
	"strconv"
	"strings"
	"testing"

	"pgregory.net/rapid"
	"verif.local/vfkit"

	"github.com/ollama/ollama/api"
	"github.com/ollama/ollama/discover"
	"github.com/ollama/ollama/fs/ggml"
)

// ------------------------------------------------------------------------------------------ case

type c16T struct {
	Name  string   `json:"name"` // layer tensors: the part after "blk.N."; extra tensors: full name
	Kind  uint32   `json:"kind"`
	Shape []uint64 `json:"shape"`
}

type c16Override struct {
	Blk  int    `json:"blk"`  // taken modulo block_count+1 (== block_count: a block beyond the count)
	Mode string `json:"mode"` // missing | tiny | giant
	Mult uint64 `json:"mult,omitempty"`
}

type c16Vision struct {
	Blocks    uint32 `json:"blocks"`
	ImageSize uint32 `json:"image_size"`
	PatchSize uint32 `json:"patch_size"`
	Channels  uint32 `json:"channels"`
	Heads     uint32 `json:"heads"`
	Embedding uint32 `json:"embedding"`
	MaxTiles  uint32 `json:"max_tiles"`
}

type c16Model struct {
	Arch          string        `json:"arch"` // "" = general.architecture absent
	Blocks        uint32        `json:"blocks"`
	Embedding     uint32        `json:"embedding"`
	Heads         uint32        `json:"heads"`
	HeadsKV       uint32        `json:"heads_kv"` // 0 = key absent (defaults to 1)
	KeyLen        uint32        `json:"key_len"`  // 0 = key absent
	ValLen        uint32        `json:"val_len"`  // 0 = key absent
	Vocab         int           `json:"vocab"`
	FFLen         uint32        `json:"ff_len"` // llama.feed_forward_length, 0 = absent
	SlidingWindow uint32        `json:"sliding_window"`
	CrossLayers   []int32       `json:"cross_layers,omitempty"`
	Layer         []c16T        `json:"layer"`
	Overrides     []c16Override `json:"overrides,omitempty"`
	Extra         []c16T        `json:"extra,omitempty"`
	Vision        *c16Vision    `json:"vision,omitempty"`
}

type c16Projector struct {
	Arch      string `json:"arch"`
	Missing   bool   `json:"missing"` // path that does not exist
	Tensors   []c16T `json:"tensors"`
	ImageSize uint32 `json:"image_size"`
	PatchSize uint32 `json:"patch_size"`
	Channels  uint32 `json:"channels"`
	Heads     uint32 `json:"heads"`
	Embedding uint32 `json:"embedding"`
	MaxTiles  uint32 `json:"max_tiles"`
}

type c16GPU struct {
	Free  uint64 `json:"free"`
	Total uint64 `json:"total"`
	Min   uint64 `json:"min"`
}

type c16Group struct {
	Library string   `json:"library"`
	GPUs    []c16GPU `json:"gpus"`
}

type c16Case struct {
	Model       c16Model      `json:"model"`
	Groups      []c16Group    `json:"groups"` // [0] = the list under test; a second group only feeds PredictServerFit's ByLibrary split
	NumGPU      int           `json:"num_gpu"`
	NumCtx      int           `json:"num_ctx"`
	NumBatch    int           `json:"num_batch"`
	Parallel    int           `json:"parallel"`
	OverheadSet bool          `json:"overhead_set"`
	Overhead    uint64        `json:"overhead"`
	Projector   *c16Projector `json:"projector,omitempty"`
	// metamorphic probe, recorded only: give GPU BumpGPU (mod n) of group 0 BumpBytes more free memory
	BumpGPU   int    `json:"bump_gpu"`
	BumpBytes uint64 `json:"bump_bytes"`
}

// ------------------------------------------------------------------------------------- generator

const (
	c16MiB = uint64(1) << 20
	c16GiB = uint64(1) << 30
	c16Cap = uint64(1) << 46 // no generated memory figure exceeds 64 TiB (far from uint64 wrap-around)
)

var c16Archs = []string{"llama", "llama", "llama", "llama", "mllama", "gemma", "gemma2", "gemma3", "command-r",
	"qwen2", "phi2", "stablelm", "deepseek2", "chatglm", "frobnicate", ""}

// weight kinds: F32 F16 Q4_0 Q8_0 Q4_K Q6_K BF16
var c16Kinds = []uint32{0, 1, 1, 2, 2, 8, 12, 12, 14, 30}

func c16Size(t c16T) uint64 { return ggml.Tensor{Kind: t.Kind, Shape: t.Shape}.Size() }

func c16GenModel(t *rapid.T) c16Model {
	var m c16Model
	m.Arch = rapid.SampledFrom(c16Archs).Draw(t, "arch")
	m.Blocks = uint32(rapid.OneOf(rapid.IntRange(1, 4), rapid.IntRange(1, 80), rapid.IntRange(1, 80),
		rapid.SampledFrom([]int{1, 5, 32, 48, 80})).Draw(t, "blocks"))
	m.Embedding = rapid.SampledFrom([]uint32{64, 512, 2048, 4096, 4096, 5120, 8192, 16384}).Draw(t, "embedding")
	m.Heads = rapid.SampledFrom([]uint32{1, 8, 16, 32, 32, 40, 64, 128}).Draw(t, "heads")
	switch rapid.SampledFrom([]string{"absent", "one", "eight", "same", "same", "quarter"}).Draw(t, "heads_kv_mode") {
	case "one":
		m.HeadsKV = 1
	case "eight":
		m.HeadsKV = 8
	case "same":
		m.HeadsKV = m.Heads
	case "quarter":
		m.HeadsKV = max(1, m.Heads/4)
	}
	m.KeyLen = rapid.SampledFrom([]uint32{0, 0, 0, 0, 64, 128, 192, 256}).Draw(t, "key_len")
	m.ValLen = rapid.SampledFrom([]uint32{0, 0, 0, 0, 64, 128, 256}).Draw(t, "val_len")
	m.Vocab = rapid.SampledFrom([]int{1, 256, 1000, 1000, 4096, 32000, 32000, 32000, 128256, 262144}).Draw(t, "vocab")

	kind := rapid.SampledFrom(c16Kinds).Draw(t, "kind")
	emb := uint64(m.Embedding)
	ff := rapid.SampledFrom([]uint64{emb, 4 * emb, 11008, 14336, 28672}).Draw(t, "ff")
	gqa := uint64(1)
	if m.HeadsKV > 0 && m.Heads >= m.HeadsKV {
		gqa = uint64(m.Heads / m.HeadsKV)
	}
	pool := []c16T{
		{"attn_q.weight", kind, []uint64{emb, emb}},
		{"attn_k.weight", kind, []uint64{emb, max(1, emb/gqa)}},
		{"attn_v.weight", kind, []uint64{emb, max(1, emb/gqa)}},
		{"attn_output.weight", kind, []uint64{emb, emb}},
		{"ffn_up.weight", kind, []uint64{emb, ff}},
		{"ffn_down.weight", kind, []uint64{ff, emb}},
		{"attn_norm.weight", 0, []uint64{emb}},
	}
	nl := rapid.SampledFrom([]int{0, 1, 1, 2, 3, 5, 7}).Draw(t, "layer_tensors")
	m.Layer = append(m.Layer, pool[:nl]...)
	switch rapid.SampledFrom([]string{"", "", "", "", "", "exps", "gate0", "qkvbias"}).Draw(t, "special") {
	case "exps": // mixtral 8x22b shape of GraphSize (llama only reads it; harmless elsewhere)
		m.Layer = append(m.Layer, c16T{"ffn_gate_exps.weight", kind, []uint64{8, ff, emb}})
		m.FFLen = uint32(ff)
	case "gate0": // mixtral 8x7b
		m.Layer = append(m.Layer, c16T{"ffn_gate.0.weight", kind, []uint64{ff, emb}})
	case "qkvbias": // chatglm
		m.Layer = append(m.Layer, c16T{"attn_qkv.bias", 0, []uint64{3 * emb}})
	}
	if rapid.IntRange(0, 9).Draw(t, "ff_len_key") == 0 {
		m.FFLen = uint32(ff)
	}
	if m.Arch == "gemma3" || rapid.IntRange(0, 9).Draw(t, "sliding_key") == 0 {
		m.SlidingWindow = rapid.SampledFrom([]uint32{0, 512, 1024, 4096}).Draw(t, "sliding_window")
	}
	if m.Arch == "mllama" || rapid.IntRange(0, 19).Draw(t, "cross_key") == 0 {
		n := rapid.IntRange(0, 8).Draw(t, "ncross")
		for i := 0; i < n; i++ {
			m.CrossLayers = append(m.CrossLayers, int32(rapid.IntRange(0, int(m.Blocks)+1).Draw(t, "cross")))
		}
	}

	nov := rapid.SampledFrom([]int{0, 0, 0, 1, 1, 2, 3, 6}).Draw(t, "noverrides")
	for i := 0; i < nov; i++ {
		var o c16Override
		o.Blk = rapid.OneOf(rapid.IntRange(0, int(m.Blocks)), rapid.SampledFrom([]int{0, 0, 1, int(m.Blocks) - 1})).Draw(t, "oblk")
		o.Mode = rapid.SampledFrom([]string{"missing", "tiny", "giant", "giant"}).Draw(t, "omode")
		if o.Mode == "giant" {
			o.Mult = rapid.SampledFrom([]uint64{1, 2, 4, 10, 30, 100}).Draw(t, "omult")
		}
		m.Overrides = append(m.Overrides, o)
	}

	okind := rapid.SampledFrom(c16Kinds).Draw(t, "out_kind")
	vdim := uint64(m.Vocab)
	outMode := rapid.SampledFrom([]string{"tok+out+norm", "tok+out+norm", "tok+norm", "tok+norm", "out+norm", "out", "tok", "norm", "", ""}).Draw(t, "out_mode")
	if strings.Contains(outMode, "tok") {
		m.Extra = append(m.Extra, c16T{"token_embd.weight", okind, []uint64{vdim, emb}})
	}
	if strings.Contains(outMode, "out") {
		m.Extra = append(m.Extra, c16T{"output.weight", okind, []uint64{vdim, emb}})
	}
	if strings.Contains(outMode, "norm") {
		m.Extra = append(m.Extra, c16T{"output_norm.weight", 0, []uint64{emb}})
	}
	if rapid.IntRange(0, 9).Draw(t, "rope_freqs") == 0 {
		m.Extra = append(m.Extra, c16T{"rope_freqs.weights", 0, []uint64{64}})
	}
	if rapid.IntRange(0, 6).Draw(t, "vision") == 0 {
		v := &c16Vision{
			Blocks:    uint32(rapid.SampledFrom([]int{0, 1, 24, 32}).Draw(t, "v_blocks")),
			ImageSize: rapid.SampledFrom([]uint32{224, 560, 896}).Draw(t, "v_image"),
			PatchSize: rapid.SampledFrom([]uint32{0, 14, 14, 16}).Draw(t, "v_patch"),
			Channels:  3,
			Heads:     rapid.SampledFrom([]uint32{1, 16}).Draw(t, "v_heads"),
			Embedding: rapid.SampledFrom([]uint32{64, 1152, 1280}).Draw(t, "v_emb"),
			MaxTiles:  rapid.SampledFrom([]uint32{1, 4}).Draw(t, "v_tiles"),
		}
		m.Vision = v
		ve := uint64(v.Embedding)
		m.Extra = append(m.Extra, c16T{"v.patch_embd.weight", 1, []uint64{ve, 3, 14, 14}})
		if rapid.Bool().Draw(t, "v_class") {
			m.Extra = append(m.Extra, c16T{"v.class_embd", 0, []uint64{ve}})
		}
		nvb := rapid.IntRange(0, 3).Draw(t, "v_nblk")
		for i := 0; i < nvb; i++ {
			m.Extra = append(m.Extra, c16T{fmt.Sprintf("v.blk.%d.attn_q.weight", i), 1, []uint64{ve, ve * uint64(rapid.SampledFrom([]int{1, 64, 1024}).Draw(t, "v_mult"))}})
		}
		if rapid.Bool().Draw(t, "mm") {
			m.Extra = append(m.Extra, c16T{"mm.0.weight", 1, []uint64{ve, emb}})
		}
	}
	return m
}

// c16LayerTensors resolves base layer + overrides into the tensors of every block (index block_count =
// tensors of a block beyond the declared count). The last override of a block wins.
func c16LayerTensors(m c16Model) [][]c16T {
	n := int(m.Blocks)
	out := make([][]c16T, n+1)
	for i := 0; i < n; i++ {
		out[i] = m.Layer
	}
	for _, o := range m.Overrides {
		i := o.Blk % (n + 1)
		if i < 0 {
			i += n + 1
		}
		switch o.Mode {
		case "missing":
			out[i] = nil
		case "tiny":
			out[i] = []c16T{{"attn_norm.weight", 0, []uint64{1}}}
		case "giant":
			g := c16T{"ffn_giant.weight", 1, []uint64{1024, 1024}}
			if len(m.Layer) > 0 {
				g.Kind = m.Layer[0].Kind
				g.Shape = append([]uint64{}, m.Layer[0].Shape...)
			}
			g.Shape[0] *= max(1, o.Mult)
			out[i] = append(append([]c16T{}, m.Layer...), g)
		}
	}
	return out
}

type c16Need struct {
	layer0   uint64   // blk.0 weights + its KV cache = the estimator's "buffer layer"
	layers   []uint64 // per block: weights + KV cache (a missing block inherits its predecessor's figure)
	sum, avg uint64
	out      uint64 // non-repeating output part
	graph    uint64 // max(partial, full) graph
	gzo      uint64 // projector / vision part that lands on the first admitted GPU
}

// c16Needs is a harness-side figure of what the model needs. It only steers the sizes of the generated
// GPUs towards the interesting region (admission threshold, k layers, everything) and is never used by
// the oracle. It reads the decoded model through exported API (GroupLayers, GraphSize,
// VisionGraphSize); if that fails it falls back to crude arithmetic on the drawn numbers.
func c16Needs(m c16Model, numCtx, batch uint64, parallel int, proj *c16Projector) (n c16Need) {
	if proj != nil {
		numCtx = max(numCtx, 2048)
		batch = min(batch, numCtx)
	}
	lt := c16LayerTensors(m)
	emb, heads, vocab := uint64(m.Embedding), uint64(max(1, m.Heads)), uint64(m.Vocab)
	headsKV := uint64(max(1, m.HeadsKV))
	rough := func() {
		hk, hv := emb/heads, emb/heads
		if m.KeyLen > 0 {
			hk = uint64(m.KeyLen)
		}
		if m.ValLen > 0 {
			hv = uint64(m.ValLen)
		}
		kv := numCtx * (hk + hv) * headsKV * 2
		n = c16Need{}
		last := kv
		for i := 0; i < int(m.Blocks); i++ {
			if len(lt[i]) > 0 {
				last = kv
				for _, t := range lt[i] {
					last += c16Size(t)
				}
			}
			n.layers = append(n.layers, last)
		}
		n.graph = max(4*batch*(emb+vocab)+emb*vocab*105/128, 4*batch*(1+4*emb+numCtx*(1+heads)))
	}
	func() {
		defer func() {
			if recover() != nil {
				rough()
			}
		}()
		f, _, err := c16Decoded(m)
		if err != nil {
			rough()
			return
		}
		kv, gp, gf := f.GraphSize(numCtx, batch, parallel, "")
		var kvTotal uint64
		for _, k := range kv {
			kvTotal += k
		}
		if gp == 0 {
			gp = f.KV().GQA() * kvTotal / 6
		}
		if gf == 0 {
			gf = gp
		}
		n.graph = max(gp, gf)
		groups := f.Tensors().GroupLayers()
		var last uint64
		if len(kv) > 0 {
			last = kv[0]
		}
		for i := 0; i < int(m.Blocks) && i < len(kv); i++ {
			if l, ok := groups[fmt.Sprintf("blk.%d", i)]; ok {
				last = l.Size() + kv[i]
			}
			n.layers = append(n.layers, last)
		}
		if proj == nil {
			w, g := f.VisionGraphSize()
			n.gzo = w + g
		}
	}()
	if proj != nil && !proj.Missing {
		for _, t := range proj.Tensors {
			n.gzo += c16Size(t)
		}
	}
	for _, l := range n.layers {
		n.sum += l
	}
	if len(n.layers) > 0 {
		n.layer0 = n.layers[0]
		n.avg = n.sum / uint64(len(n.layers))
	}
	hasOutput := false
	for _, t := range m.Extra {
		switch t.Name {
		case "output.weight":
			hasOutput = true
			n.out += c16Size(t)
		case "output_norm.weight":
			n.out += c16Size(t)
		}
	}
	if !hasOutput {
		for _, t := range m.Extra {
			if t.Name == "token_embd.weight" {
				n.out += c16Size(t)
			}
		}
	}
	return n
}

func c16GenGroup(t *rapid.T, lib string, need c16Need, overhead uint64) c16Group {
	g := c16Group{Library: lib}
	n := 1
	if lib != "cpu" {
		n = rapid.SampledFrom([]int{1, 1, 2, 2, 2, 3, 4, 4, 6, 8}).Draw(t, "ngpus")
	}
	blocks := uint64(len(need.layers))
	mins := []uint64{0, 0, 457 * c16MiB, 457 * c16MiB, 512 * c16MiB, c16GiB, 1, 32 * c16GiB}
	minMem := rapid.SampledFrom(mins).Draw(t, "min")
	varyMin := rapid.IntRange(0, 5).Draw(t, "vary_min") == 0
	// how much of the model the whole list can hold, in per mille of its blocks
	fill := rapid.SampledFrom([]uint64{0, 100, 300, 500, 700, 900, 1000, 1000, 1100, 1500, 3000}).Draw(t, "fill")
	pattern := rapid.SampledFrom([]string{"equal", "equal", "huge_tiny", "huge_tiny", "random", "random", "random"}).Draw(t, "pattern")
	hugeAt := rapid.IntRange(0, n-1).Draw(t, "huge_at")
	total := (blocks*fill + 999) / 1000
	eqDelta := rapid.SampledFrom([]string{"0", "1", "2", "half", "half", "out", "out"}).Draw(t, "delta_eq")
	for i := 0; i < n; i++ {
		var x c16GPU
		x.Min = minMem
		if varyMin {
			x.Min = rapid.SampledFrom(mins).Draw(t, "min_i")
		}
		// what a GPU needs before it holds its first layer
		base := overhead + x.Min + need.graph + need.layer0
		if i == 0 {
			base += need.gzo
		}
		var k uint64 // layers this GPU is sized for
		delta, special := eqDelta, ""
		switch pattern {
		case "equal":
			k = (total + uint64(n) - 1) / uint64(n)
		case "huge_tiny":
			k = uint64(rapid.IntRange(0, 3).Draw(t, "k_tiny"))
			if i == hugeAt {
				k = total
			}
		default:
			k = uint64(rapid.IntRange(0, int(2*total/uint64(n))+2).Draw(t, "k"))
		}
		if pattern != "equal" {
			delta = rapid.SampledFrom([]string{"0", "1", "2", "half", "half", "out", "out"}).Draw(t, "delta")
			special = rapid.SampledFrom([]string{"", "", "", "", "", "", "", "", "", "", "", "", "zero", "half_overhead", "eq_overhead",
				"lt_overhead", "huge", "admission", "admission_minus_1", "no_graph"}).Draw(t, "special")
		}
		x.Free = base + k*need.avg
		switch delta {
		case "1":
			x.Free += 1
		case "2":
			x.Free += 2
		case "half":
			x.Free += need.avg / 2
		case "out":
			x.Free += need.out + 1
		}
		switch special {
		case "zero":
			x.Free = 0
		case "half_overhead":
			x.Free = overhead / 2
		case "eq_overhead":
			x.Free = overhead
		case "lt_overhead": // room for the whole model if the overhead were ignored
			x.Free = base + need.sum + need.out - overhead
			if overhead > 0 {
				x.Free = min(x.Free, overhead-1)
			}
		case "huge":
			x.Free = c16Cap
		case "admission": // exactly the admission threshold of a GPU (graph + minimum + two buffer layers)
			x.Free = base + need.layer0
		case "admission_minus_1":
			x.Free = base + need.layer0 - min(1, base+need.layer0)
		case "no_graph": // room for layers but not for the graph
			x.Free = overhead + x.Min + (k+2)*need.avg
		}
		x.Free = min(x.Free, c16Cap)
		x.Total = x.Free + rapid.SampledFrom([]uint64{0, 0, c16GiB, x.Free}).Draw(t, "used")
		g.GPUs = append(g.GPUs, x)
	}
	return g
}

func c16Gen(t *rapid.T) c16Case {
	var c c16Case
	c.Model = c16GenModel(t)
	ctx := rapid.SampledFrom([]int{4, 512, 2048, 2048, 4096, 8192, 32768, 131072}).Draw(t, "ctx")
	c.Parallel = rapid.SampledFrom([]int{1, 1, 1, 2, 4, 8}).Draw(t, "parallel")
	c.NumCtx = ctx * c.Parallel
	c.NumBatch = rapid.SampledFrom([]int{1, 32, 512, 512, 512, 2048, 8192}).Draw(t, "batch")
	blocks := int(c.Model.Blocks)
	switch rapid.SampledFrom([]string{"auto", "auto", "auto", "auto", "set", "set", "range"}).Draw(t, "num_gpu_mode") {
	case "auto":
		c.NumGPU = -1
	case "set":
		c.NumGPU = rapid.SampledFrom([]int{0, 1, 2, blocks - 1, blocks, blocks + 1, blocks + 2, 999}).Draw(t, "num_gpu_set")
	default:
		c.NumGPU = rapid.IntRange(1, blocks+1).Draw(t, "num_gpu")
	}
	switch rapid.SampledFrom([]string{"unset", "unset", "zero", "small", "mid", "mid", "big", "any"}).Draw(t, "overhead_mode") {
	case "zero":
		c.OverheadSet = true
	case "small":
		c.OverheadSet, c.Overhead = true, uint64(rapid.IntRange(1, 4096).Draw(t, "overhead_small"))
	case "mid":
		c.OverheadSet, c.Overhead = true, rapid.SampledFrom([]uint64{256 * c16MiB, 512 * c16MiB, c16GiB, 2 * c16GiB, 4 * c16GiB}).Draw(t, "overhead_mid")
	case "big":
		c.OverheadSet, c.Overhead = true, rapid.SampledFrom([]uint64{32 * c16GiB, 1 << 40}).Draw(t, "overhead_big")
	case "any":
		c.OverheadSet, c.Overhead = true, rapid.Uint64Range(0, 1<<36).Draw(t, "overhead_any")
	}
	if rapid.IntRange(0, 9).Draw(t, "projector") == 0 {
		p := &c16Projector{
			Arch:      rapid.SampledFrom([]string{"clip", "mllama"}).Draw(t, "p_arch"),
			Missing:   rapid.IntRange(0, 5).Draw(t, "p_missing") == 0,
			ImageSize: rapid.SampledFrom([]uint32{224, 560}).Draw(t, "p_image"),
			PatchSize: 14, Channels: 3,
			Heads:     rapid.SampledFrom([]uint32{1, 16}).Draw(t, "p_heads"),
			Embedding: rapid.SampledFrom([]uint32{64, 1280}).Draw(t, "p_emb"),
			MaxTiles:  rapid.SampledFrom([]uint32{1, 4}).Draw(t, "p_tiles"),
		}
		pe := uint64(p.Embedding)
		p.Tensors = append(p.Tensors, c16T{"v.patch_embd.weight", 1, []uint64{pe, 3, 14, 14}})
		if rapid.Bool().Draw(t, "p_class") {
			p.Tensors = append(p.Tensors, c16T{"v.class_embd", 0, []uint64{pe}})
		}
		np := rapid.IntRange(0, 3).Draw(t, "p_nblk")
		for i := 0; i < np; i++ {
			p.Tensors = append(p.Tensors, c16T{fmt.Sprintf("v.blk.%d.attn_q.weight", i), 1, []uint64{pe, pe * uint64(rapid.SampledFrom([]int{1, 64, 1024}).Draw(t, "p_mult"))}})
		}
		c.Projector = p
	}
	need := c16Needs(c.Model, uint64(c.NumCtx), uint64(min(c.NumCtx, c.NumBatch)), c.Parallel, c.Projector)
	libs := []string{"cuda", "cuda", "cuda", "cuda", "rocm", "rocm", "metal", "metal", "cpu", "oneapi"}
	lib := rapid.SampledFrom(libs).Draw(t, "library")
	c.Groups = append(c.Groups, c16GenGroup(t, lib, need, c.Overhead))
	c.BumpGPU = rapid.IntRange(0, 7).Draw(t, "bump_gpu")
	c.BumpBytes = min(c16Cap, rapid.SampledFrom([]uint64{0, 0, 1, need.avg, need.avg + 1, 3 * need.avg, need.out + 1, c16GiB, 64 * c16GiB}).Draw(t, "bump_bytes"))
	if rapid.IntRange(0, 6).Draw(t, "mixed") == 0 {
		lib2 := rapid.SampledFrom(libs).Draw(t, "library2")
		if lib2 != lib {
			c.Groups = append(c.Groups, c16GenGroup(t, lib2, need, c.Overhead))
			if rapid.Bool().Draw(t, "other_first") {
				c.Groups[0], c.Groups[1] = c.Groups[1], c.Groups[0]
			}
		}
	}
	return c
}

// ------------------------------------------------------------------------------------ model file

// c16Buf is an in-memory io.WriteSeeker (WriteGGUF only appends and asks for the current offset).
type c16Buf struct {
	b   []byte
	pos int64
}

func (w *c16Buf) Write(p []byte) (int, error) {
	end := w.pos + int64(len(p))
	if end > int64(len(w.b)) {
		if end > int64(cap(w.b)) {
			nb := make([]byte, end, 2*end+4096)
			copy(nb, w.b)
			w.b = nb
		} else {
			w.b = w.b[:end]
		}
	}
	copy(w.b[w.pos:], p)
	w.pos = end
	return len(p), nil
}

func (w *c16Buf) Seek(off int64, whence int) (int64, error) {
	switch whence {
	case io.SeekCurrent:
		off += w.pos
	case io.SeekEnd:
		off += int64(len(w.b))
	}
	if off < 0 {
		return 0, errors.New("c16Buf: negative seek")
	}
	w.pos = off
	return off, nil
}

// c16NoPayload elides tensor data: Decode only seeks over it and the estimator reads shapes only.
type c16NoPayload struct{}

func (c16NoPayload) WriteTo(io.Writer) (int64, error) { return 0, nil }

var c16TokenCache = map[int][]string{}

func c16Tokens(n int) []string {
	if s, ok := c16TokenCache[n]; ok {
		return s
	}
	s := make([]string, n)
	c16TokenCache[n] = s
	return s
}

func c16Tensor(name string, t c16T) ggml.Tensor {
	return ggml.Tensor{Name: name, Kind: t.Kind, Shape: append([]uint64{}, t.Shape...), WriterTo: c16NoPayload{}}
}

func c16ModelBytes(m c16Model) ([]byte, int, error) {
	p := m.Arch
	kv := ggml.KV{}
	if m.Arch != "" {
		kv["general.architecture"] = m.Arch
	} else {
		p = "unknown"
	}
	kv[p+".block_count"] = m.Blocks
	kv[p+".embedding_length"] = m.Embedding
	kv[p+".attention.head_count"] = m.Heads
	if m.HeadsKV != 0 {
		kv[p+".attention.head_count_kv"] = m.HeadsKV
	}
	if m.KeyLen != 0 {
		kv[p+".attention.key_length"] = m.KeyLen
	}
	if m.ValLen != 0 {
		kv[p+".attention.value_length"] = m.ValLen
	}
	if m.FFLen != 0 {
		kv["llama.feed_forward_length"] = m.FFLen
	}
	if m.SlidingWindow != 0 {
		kv[p+".attention.sliding_window"] = m.SlidingWindow
	}
	if len(m.CrossLayers) > 0 {
		kv[p+".attention.cross_attention_layers"] = append([]int32{}, m.CrossLayers...)
	}
	if v := m.Vision; v != nil {
		kv[p+".vision.block_count"] = v.Blocks
		kv[p+".vision.image_size"] = v.ImageSize
		if v.PatchSize != 0 {
			kv[p+".vision.patch_size"] = v.PatchSize
		}
		kv[p+".vision.num_channels"] = v.Channels
		kv[p+".vision.attention.head_count"] = v.Heads
		kv[p+".vision.embedding_length"] = v.Embedding
		kv[p+".vision.max_num_tiles"] = v.MaxTiles
	}
	kv["tokenizer.ggml.tokens"] = c16Tokens(m.Vocab)
	var ts []ggml.Tensor
	for i, l := range c16LayerTensors(m) {
		for _, t := range l {
			ts = append(ts, c16Tensor(fmt.Sprintf("blk.%d.%s", i, t.Name), t))
		}
	}
	for _, t := range m.Extra {
		ts = append(ts, c16Tensor(t.Name, t))
	}
	var w c16Buf
	if err := ggml.WriteGGUF(&w, kv, ts); err != nil {
		return nil, 0, err
	}
	return w.b, len(ts), nil
}

// c16Decoded writes the model with WriteGGUF and decodes it with Decode; the last model is memoised
// (the generator sizes GPUs from the same decoded model the run then uses).
var c16Memo struct {
	key string
	f   *ggml.GGML
	n   int
	err error
}

func c16Decoded(m c16Model) (*ggml.GGML, int, error) {
	kb, _ := json.Marshal(m)
	if key := string(kb); key != c16Memo.key || c16Memo.f == nil {
		c16Memo.key, c16Memo.f, c16Memo.n, c16Memo.err = key, nil, 0, nil
		raw, n, err := c16ModelBytes(m)
		if err == nil {
			c16Memo.f, _, err = ggml.Decode(bytes.NewReader(raw), 0)
		}
		c16Memo.n, c16Memo.err = n, err
	}
	if c16Memo.err != nil || c16Memo.f == nil {
		return nil, 0, errors.New("model file not written/decoded")
	}
	return c16Memo.f, c16Memo.n, nil
}

func c16ProjectorBytes(p c16Projector) ([]byte, error) {
	kv := ggml.KV{"general.architecture": p.Arch}
	a := p.Arch
	kv[a+".vision.image_size"] = p.ImageSize
	kv[a+".vision.patch_size"] = p.PatchSize
	kv[a+".vision.num_channels"] = p.Channels
	kv[a+".vision.attention.head_count"] = p.Heads
	kv[a+".vision.embedding_length"] = p.Embedding
	kv[a+".vision.max_num_tiles"] = p.MaxTiles
	var ts []ggml.Tensor
	for _, t := range p.Tensors {
		ts = append(ts, c16Tensor(t.Name, t))
	}
	var w c16Buf
	if err := ggml.WriteGGUF(&w, kv, ts); err != nil {
		return nil, err
	}
	return w.b, nil
}

// ---------------------------------------------------------------------------------------- oracle

func c16Gpus(g c16Group) []discover.GpuInfo {
	out := make([]discover.GpuInfo, len(g.GPUs))
	for i, x := range g.GPUs {
		out[i].Library = g.Library
		out[i].ID = strconv.Itoa(i)
		out[i].FreeMemory = x.Free
		out[i].TotalMemory = x.Total
		out[i].MinimumMemory = x.Min
	}
	return out
}

// c16Split parses TensorSplit ("" = no split reported).
func c16Split(s string) ([]int, error) {
	if s == "" {
		return nil, nil
	}
	var out []int
	for _, f := range strings.Split(s, ",") {
		n, err := strconv.Atoi(f)
		if err != nil {
			return nil, err
		}
		out = append(out, n)
	}
	return out, nil
}

// c16CheckEstimate evaluates every clause on its own and reports all that fail, each tagged.
func c16CheckEstimate(g c16Group, est MemoryEstimate, blocks, numGPU int, overhead uint64) []string {
	var bad []string
	n := len(g.GPUs)
	split, serr := c16Split(est.TensorSplit)

	// [gpu-overcommit] a GPU that is assigned anything gets at most free - overhead
	if len(est.GPUSizes) != 0 && len(est.GPUSizes) != n {
		bad = append(bad, fmt.Sprintf("[gpu-sizes-shape] %d GPUSizes for %d GPUs", len(est.GPUSizes), n))
	}
	for i, sz := range est.GPUSizes {
		if i >= n {
			break
		}
		assigned := sz > 0
		if serr == nil && i < len(split) && split[i] > 0 {
			assigned = true
		}
		if n == 1 && est.Layers > 0 {
			assigned = true
		}
		if !assigned {
			continue
		}
		free := g.GPUs[i].Free
		if sz > free || free-sz < overhead {
			bad = append(bad, fmt.Sprintf("[gpu-overcommit] GPU %d: planned %d bytes > free %d - overhead %d (layers on it: %v of split %q)",
				i, sz, free, overhead, c16At(split, i), est.TensorSplit))
		}
	}
	// [layers-le-model]
	if est.Layers < 0 || est.Layers > blocks+1 {
		bad = append(bad, fmt.Sprintf("[layers-le-model] Layers=%d, model has %d blocks + output", est.Layers, blocks))
	}
	// [layers-le-numgpu]
	if numGPU >= 0 && est.Layers > numGPU {
		bad = append(bad, fmt.Sprintf("[layers-le-numgpu] Layers=%d > num_gpu=%d", est.Layers, numGPU))
	}
	// [split-sum]
	if serr != nil {
		bad = append(bad, fmt.Sprintf("[split-sum] TensorSplit %q does not parse: %v", est.TensorSplit, serr))
	} else if n > 1 || est.TensorSplit != "" {
		sum := 0
		neg := false
		for _, s := range split {
			sum += s
			neg = neg || s < 0
		}
		switch {
		case neg:
			bad = append(bad, fmt.Sprintf("[split-sum] negative entry in TensorSplit %q", est.TensorSplit))
		case sum != est.Layers:
			bad = append(bad, fmt.Sprintf("[split-sum] TensorSplit %q sums to %d, Layers=%d", est.TensorSplit, sum, est.Layers))
		case est.TensorSplit != "" && len(split) != n:
			bad = append(bad, fmt.Sprintf("[split-sum] TensorSplit %q has %d entries for %d GPUs", est.TensorSplit, len(split), n))
		}
	}
	// [vram-sum]
	var sum uint64
	for _, sz := range est.GPUSizes {
		sum += sz
	}
	if sum != est.VRAMSize {
		bad = append(bad, fmt.Sprintf("[vram-sum] sum(GPUSizes)=%d != VRAMSize=%d", sum, est.VRAMSize))
	}
	// [total-ge-vram]
	if est.TotalSize < est.VRAMSize {
		bad = append(bad, fmt.Sprintf("[total-ge-vram] TotalSize=%d < VRAMSize=%d", est.TotalSize, est.VRAMSize))
	}
	// [cpu-zero]
	if g.Library == "cpu" && est.Layers != 0 {
		bad = append(bad, fmt.Sprintf("[cpu-zero] cpu library but Layers=%d", est.Layers))
	}
	return bad
}

func c16At(s []int, i int) any {
	if i < len(s) {
		return s[i]
	}
	return "-"
}

var c16Summaries bool // replay tier only

type c16Info struct {
	nontrivial bool
	classes    []string
	summary    []string // one line per group, printed by the replay tier
}

func c16Run(c c16Case) (info c16Info, err error) {
	defer func() {
		if r := recover(); r != nil {
			err = fmt.Errorf("[panic] %v\n%s", r, debug.Stack())
		}
	}()
	cls := func(s string) { info.classes = append(info.classes, s) }
	if len(c.Groups) == 0 || len(c.Groups[0].GPUs) == 0 || c.Model.Blocks == 0 || c.Model.Heads == 0 || c.Model.Vocab < 0 ||
		c.NumCtx < 1 || c.NumBatch < 1 || c.Parallel < 1 {
		cls("degenerate_case_skipped")
		return info, nil
	}
	seenLib := map[string]bool{}
	for _, g := range c.Groups {
		// one group per library: PredictServerFit regroups by library and the oracle compares per group
		if len(g.GPUs) == 0 || seenLib[g.Library] {
			cls("degenerate_case_skipped")
			return info, nil
		}
		seenLib[g.Library] = true
	}

	f, ntensors, derr := c16Decoded(c.Model)
	if derr != nil || int(f.KV().BlockCount()) != int(c.Model.Blocks) || len(f.Tensors().Items()) != ntensors {
		cls("harness_model_file_failed") // WriteGGUF/Decode trouble is C05's business, not a verdict here
		return info, nil
	}

	var projectors []string
	if p := c.Projector; p != nil {
		if p.Missing {
			projectors = []string{os.TempDir() + "/c16-no-such-projector.gguf"}
		} else {
			pb, perr := c16ProjectorBytes(*p)
			if perr != nil {
				cls("harness_write_failed")
				return info, nil
			}
			tf, terr := os.CreateTemp("", "c16-proj-*.gguf")
			if terr != nil {
				cls("harness_tmpfile_failed")
				return info, nil
			}
			defer os.Remove(tf.Name())
			_, terr = tf.Write(pb)
			tf.Close()
			if terr != nil {
				cls("harness_tmpfile_failed")
				return info, nil
			}
			projectors = []string{tf.Name()}
		}
		cls("projector")
	}

	os.Unsetenv("OLLAMA_FLASH_ATTENTION") // would call real GPU discovery
	os.Unsetenv("OLLAMA_KV_CACHE_TYPE")
	if c.OverheadSet {
		os.Setenv("OLLAMA_GPU_OVERHEAD", strconv.FormatUint(c.Overhead, 10))
		defer os.Unsetenv("OLLAMA_GPU_OVERHEAD")
		cls("overhead_set")
	} else {
		os.Unsetenv("OLLAMA_GPU_OVERHEAD")
	}
	var overhead uint64
	if c.OverheadSet {
		overhead = c.Overhead
	}

	opts := api.DefaultOptions()
	opts.NumCtx, opts.NumBatch, opts.NumGPU = c.NumCtx, c.NumBatch, c.NumGPU
	blocks := int(c.Model.Blocks)
	want := blocks + 1
	if c.NumGPU >= 0 {
		want = c.NumGPU
	}

	var bad []string
	ests := make([]MemoryEstimate, len(c.Groups))
	for gi, g := range c.Groups {
		est := EstimateGPULayers(c16Gpus(g), f, projectors, opts, c.Parallel)
		ests[gi] = est
		if c16Summaries {
			info.summary = append(info.summary, fmt.Sprintf("group %d %s x%d: Layers=%d split=%q GPUSizes=%v VRAM=%d Total=%d Graph=%d",
				gi, g.Library, len(g.GPUs), est.Layers, est.TensorSplit, est.GPUSizes, est.VRAMSize, est.TotalSize, est.Graph))
		}
		for _, b := range c16CheckEstimate(g, est, blocks, c.NumGPU, overhead) {
			bad = append(bad, fmt.Sprintf("group %d (%s x%d): %s", gi, g.Library, len(g.GPUs), b))
		}
	}

	// metamorphic probe: more free memory on one GPU. The clauses are checked on that estimate too; that it
	// never offloads fewer layers is NOT asserted (round-robin drop-out makes it false legitimately), only counted.
	if c.BumpBytes > 0 {
		gb := c16Group{Library: c.Groups[0].Library, GPUs: append([]c16GPU{}, c.Groups[0].GPUs...)}
		bi := c.BumpGPU % len(gb.GPUs)
		if bi < 0 {
			bi += len(gb.GPUs)
		}
		add := min(c.BumpBytes, c16Cap)
		gb.GPUs[bi].Free += add
		gb.GPUs[bi].Total += add
		estb := EstimateGPULayers(c16Gpus(gb), f, projectors, opts, c.Parallel)
		for _, b := range c16CheckEstimate(gb, estb, blocks, c.NumGPU, overhead) {
			bad = append(bad, fmt.Sprintf("group 0 with GPU %d given %d more bytes (%s x%d): %s", bi, add, gb.Library, len(gb.GPUs), b))
		}
		cls("bump_probe")
		switch {
		case estb.Layers < ests[0].Layers:
			cls("bump_fewer_layers_recorded_only")
		case estb.Layers > ests[0].Layers:
			cls("bump_more_layers")
		}
	}

	// [fit-implies-all-layers] PredictServerFit says "fits" only if some library group got all requested layers
	var all []discover.GpuInfo
	for _, g := range c.Groups {
		all = append(all, c16Gpus(g)...)
	}
	fits, _ := PredictServerFit(all, f, nil, projectors, opts, c.Parallel)
	info.summary = append(info.summary, fmt.Sprintf("PredictServerFit=%v (needs %d layers)", fits, want))
	if fits {
		cls("fits_true")
		ok := false
		var got []int
		for _, e := range ests {
			got = append(got, e.Layers)
			ok = ok || e.Layers >= want
		}
		if !ok {
			bad = append(bad, fmt.Sprintf("[fit-implies-all-layers] PredictServerFit=true but per-library Layers=%v, needed %d (blocks=%d num_gpu=%d)", got, want, blocks, c.NumGPU))
		}
	}

	// ---- classes (group 0 = list under test, or whichever group is first after a swap)
	g0, e0 := c.Groups[0], ests[0]
	split, _ := c16Split(e0.TensorSplit)
	uneven := false
	for _, o := range c.Model.Overrides {
		i := o.Blk % (blocks + 1)
		uneven = uneven || (i < blocks && (o.Mode != "giant" || o.Mult > 1 || len(c.Model.Layer) == 0))
	}
	if uneven {
		cls("uneven_layers")
	}
	if len(c.Groups) > 1 {
		cls("mixed_libraries")
	}
	if c.Model.Vision != nil {
		cls("vision_keys")
	}
	cls("lib_" + g0.Library)
	switch {
	case c.NumGPU < 0:
		cls("numgpu_auto")
	case c.NumGPU == 0:
		cls("numgpu_zero")
	case c.NumGPU > blocks+1:
		cls("numgpu_gt_layers")
	default:
		cls("numgpu_cap")
	}
	ltov := false
	for _, x := range g0.GPUs {
		ltov = ltov || x.Free < overhead
	}
	if ltov {
		cls("free_lt_overhead")
	}
	hasOut := false
	for _, t := range c.Model.Extra {
		hasOut = hasOut || t.Name == "output.weight" || t.Name == "token_embd.weight" || t.Name == "output_norm.weight"
	}
	if !hasOut {
		cls("no_output_layer")
	}
	dropout := false
	if g0.Library != "cpu" {
		switch {
		case e0.Layers == 0:
			cls("zero_layers")
		case e0.Layers >= blocks+1:
			cls("full_offload")
		case c.NumGPU >= 0 && e0.Layers == c.NumGPU:
			cls("capped_by_numgpu")
		default:
			cls("partial_offload")
		}
		if len(g0.GPUs) > 1 {
			cls("multi_gpu")
			if e0.Layers > 0 && len(split) == len(g0.GPUs) && len(e0.GPUSizes) == len(g0.GPUs) {
				holders, notAdmitted, lo, hi := 0, 0, int(^uint(0)>>1), 0
				for i := range g0.GPUs {
					if e0.GPUSizes[i] == 0 && split[i] == 0 {
						notAdmitted++
						continue
					}
					if split[i] > 0 {
						holders++
					}
					lo, hi = min(lo, split[i]), max(hi, split[i])
				}
				if notAdmitted > 0 {
					cls("multi_gpu_some_not_admitted")
				}
				if holders >= 2 {
					cls("multi_gpu_split_over_2plus")
				}
				// round-robin over a constant set differs by at most 1 (+1 for the output layer): a larger
				// spread among admitted GPUs means one of them dropped out while others went on
				if hi-lo >= 3 {
					dropout = true
					cls("multi_gpu_dropout_midway")
				}
			}
		}
	}

	info.nontrivial = (len(g0.GPUs) > 1 && dropout) || (uneven && g0.Library != "cpu" && e0.Layers > 0)

	if len(bad) > 0 {
		return info, errors.New(strings.Join(bad, "\n"))
	}
	return info, nil
}

// ---------------------------------------------------------------------------------------- target

func TestC16MemoryEstimate(t *testing.T) {
	const target = "TestC16MemoryEstimate"
	rec := vfkit.Open(target)
	defer rec.Flush()
	var rc c16Case
	if _, ok, err := vfkit.ReplayCase(target, &rc); ok {
		if err != nil {
			t.Fatalf("replay: %v", err)
		}
		c16Summaries = true
		info, err := c16Run(rc)
		t.Logf("replay: %s\nclasses=%v nontrivial=%v", strings.Join(info.summary, "\n"), info.classes, info.nontrivial)
		if err != nil {
			rec.Fail(target, rc, err.Error())
			t.Fatalf("C16 violated: %v", err)
		}
		return
	}
	rapid.Check(t, func(rt *rapid.T) {
		if rec.OverBudget() {
			return
		}
		c := c16Gen(rt)
		info, err := c16Run(c)
		rec.Case(c, info.nontrivial, info.classes...)
		if err != nil {
			rec.Fail(target, c, err.Error())
			rt.Fatalf("C16 violated: %v", err)
		}
	})
}
