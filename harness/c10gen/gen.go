// Package c10gen is the structure-aware generator of hostile GGUF files shared by the two layers of
// property C10 (fs/ggml decode level, server API level). It exists only in the build overlay
// (/repo/verifc10gen/gen.go -> this file); it imports nothing from ollama so that the in-package
// harness of fs/ggml can use it without an import cycle.
//
//	Case  --Build-->  valid file + table of field offsets  --Apply(muts)-->  hostile bytes
//	Predict(bytes, maxArraySize) mirrors the control flow of the *pinned* decoder and names the first
//	known defect class the input would hit; it is used only to exclude listed findings by
//	construction (rec.Known) and for evidence counters, never as an oracle.
package c10gen

import (
	"encoding/binary"
	"fmt"
	"strings"

	"pgregory.net/rapid"
)

// ---------------------------------------------------------------------------------------- case

type Str struct {
	Chunk  string `json:"chunk"`
	Repeat int    `json:"repeat"`
}

func (s Str) String() string { return strings.Repeat(s.Chunk, s.Repeat) }

// KV is one metadata entry of the base file. Type/AType are GGUF value type ids (0..12; 8 string,
// 9 array); ids above 12 are written as they are (the decoder must reject them).
type KV struct {
	Key   string   `json:"key"`
	Type  uint32   `json:"type"`
	Bits  uint64   `json:"bits,omitempty"`
	S     Str      `json:"s,omitzero"`
	AType uint32   `json:"atype,omitempty"`
	N     int      `json:"n,omitempty"`
	Pat   []uint64 `json:"pat,omitempty"`
	Strs  []Str    `json:"strs,omitempty"`
}

type Tensor struct {
	Name  string   `json:"name"`
	Kind  uint32   `json:"kind"`
	Shape []uint64 `json:"shape"`
}

// Mut is one mutation, addressed by field kind (Sel) and an index taken modulo the number of
// matching fields at run time, so that shrunk cases stay meaningful.
type Mut struct {
	Op  string `json:"op"`            // set | backseek | trunc_field | trunc_byte | append
	Sel string `json:"sel,omitempty"` // field selector for set (see selGroups)
	Idx int    `json:"idx,omitempty"`
	Val string `json:"val,omitempty"` // symbolic hostile value for set, filler for append
	Num uint64 `json:"num,omitempty"` // literal for val=lit; byte count for append; distance from end for trunc_byte
}

type Case struct {
	BE      bool     `json:"be"`
	Version uint32   `json:"version"`
	KV      []KV     `json:"kv"`
	Tensors []Tensor `json:"tensors"`
	Muts    []Mut    `json:"muts"`
}

// ----------------------------------------------------------------------------------- serialiser

type Field struct {
	Kind string // magic version ntensor nkv keylen vtype scalar strlen arrtype arrcount elemlen elem namelen dims dim tkind toffset
	Off  int
	Size int
	Key  string // owning key or tensor name
}

// TensorRec locates the fields of one tensor info and the position the decoder is at (after
// alignment padding) right before it seeks over that tensor's data in the base file.
type TensorRec struct {
	Dims      []int // indexes into Fields
	Kind      int
	PosBefore int64
}

type Built struct {
	Data      []byte
	Fields    []Field
	InfoEnd   int
	DataStart int
	Align     uint64
	Retyped   int // well-known keys written with a non-canonical value type
	TRecs     []TensorRec
}

var scalarSize = map[uint32]int{0: 1, 1: 1, 2: 2, 3: 2, 4: 4, 5: 4, 6: 4, 7: 1, 10: 8, 11: 8, 12: 8}

func blockSize(kind uint32) uint64 {
	switch kind {
	case 0, 1, 24, 25, 26, 27, 28, 30:
		return 1
	case 2, 3, 6, 7, 8, 9, 20:
		return 32
	default:
		return 256
	}
}

func typeSize(kind uint32) uint64 {
	bs := blockSize(kind)
	switch kind {
	case 0:
		return 4
	case 1:
		return 2
	case 2:
		return 2 + bs/2
	case 3:
		return 2 + 2 + bs/2
	case 6:
		return 2 + 4 + bs/2
	case 7:
		return 2 + 2 + 4 + bs/2
	case 8:
		return 2 + bs
	case 9:
		return 2 + 2 + bs
	case 10:
		return bs/16 + bs/4 + 2 + 2
	case 11:
		return bs/8 + bs/4 + 12 + 2
	case 12:
		return 2 + 2 + 12 + bs/2
	case 13:
		return 2 + 2 + 12 + bs/8 + bs/2
	case 14:
		return bs/2 + bs/4 + bs/16 + 2
	case 15:
		return 4 + bs + 2*bs/16
	case 16:
		return 2 + 2*bs/8
	case 17:
		return 2 + 2*bs/8 + bs/32
	case 18:
		return 2 + bs/4 + bs/8
	case 19:
		return 2 + bs/8 + bs/16
	case 20:
		return 2 + bs/2
	case 21:
		return 2 + bs/4 + bs/8 + bs/32 + 4
	case 22:
		return 2 + bs/4 + bs/16
	case 23:
		return 2 + 2 + bs/2 + bs/64
	case 24:
		return 1
	case 25:
		return 2
	case 26:
		return 4
	case 27:
		return 8
	case 28:
		return 8
	case 29:
		return bs/8 + bs/16 + bs/32
	case 30:
		return 2
	}
	return 0
}

// TensorSize mirrors ggml.Tensor.Size (wrapping uint64 arithmetic included).
func TensorSize(kind uint32, shape []uint64) uint64 {
	var n uint64 = 1
	for _, d := range shape {
		n *= d
	}
	return n * typeSize(kind) / blockSize(kind)
}

func padding(off, align int64) int64 { return (align - off%align) % align }

type writer struct {
	b      []byte
	order  binary.ByteOrder
	v1     bool
	fields []Field
}

func (w *writer) num(kind, key string, size int, v uint64) {
	w.fields = append(w.fields, Field{Kind: kind, Off: len(w.b), Size: size, Key: key})
	var tmp [8]byte
	switch size {
	case 1:
		tmp[0] = byte(v)
	case 2:
		w.order.PutUint16(tmp[:], uint16(v))
	case 4:
		w.order.PutUint32(tmp[:], uint32(v))
	default:
		w.order.PutUint64(tmp[:], v)
	}
	w.b = append(w.b, tmp[:size]...)
}

func (w *writer) str(kind, key, s string) {
	if w.v1 {
		w.num(kind, key, 8, uint64(len(s))+1)
		w.b = append(w.b, s...)
		w.b = append(w.b, 0)
		return
	}
	w.num(kind, key, 8, uint64(len(s)))
	w.b = append(w.b, s...)
}

// canonical value type of the well-known keys (suffix match for architecture-scoped keys).
var canon = []struct {
	suffix string
	typ    uint32
}{
	{"general.architecture", 8}, {"general.alignment", 4}, {"general.file_type", 4}, {"general.type", 8},
	{"general.name", 8}, {"tokenizer.chat_template", 8}, {"tokenizer.ggml.tokens", 9}, {"tokenizer.ggml.scores", 9},
	{"tokenizer.ggml.token_type", 9}, {"tokenizer.ggml.merges", 9}, {".block_count", 4}, {".embedding_length", 4},
	{".context_length", 4}, {".feed_forward_length", 4}, {".attention.head_count", 4}, {".attention.head_count_kv", 4},
	{".attention.key_length", 4}, {".attention.value_length", 4}, {".attention.sliding_window", 4},
	{".attention.cross_attention_layers", 9}, {".pooling_type", 4}, {".vision.image_size", 4}, {".vision.patch_size", 4},
	{".vision.num_channels", 4}, {".vision.max_num_tiles", 4},
	// keys the decoder or the server derives / consults itself (a file may carry them, with any type)
	{"general.parameter_count", 10}, {"general.quantization_version", 4}, {"general.basename", 8}, {"general.size_label", 8},
	{"tokenizer.ggml.model", 8}, {"tokenizer.ggml.pre", 8}, {"tokenizer.ggml.bos_token_id", 4}, {"tokenizer.ggml.eos_token_id", 4},
	{"tokenizer.ggml.add_bos_token", 7}, {"tokenizer.ggml.add_eos_token", 7},
}

func canonType(key string) (uint32, bool) {
	for _, c := range canon {
		if key == c.suffix || (c.suffix[0] == '.' && strings.HasSuffix(key, c.suffix)) {
			return c.typ, true
		}
	}
	return 0, false
}

// Build serialises the base file of a case field by field and records where every field is.
func Build(c Case) Built {
	w := &writer{order: binary.ByteOrder(binary.LittleEndian), v1: c.Version == 1}
	magic := "GGUF"
	if c.BE {
		w.order = binary.BigEndian
		magic = "FUGG" // ollama reads the magic little-endian and takes 0x47475546 for big-endian files
	}
	w.fields = append(w.fields, Field{Kind: "magic", Off: 0, Size: 4})
	w.b = append(w.b, magic...)
	w.num("version", "", 4, uint64(c.Version))
	cw := 8
	if w.v1 {
		cw = 4
	}
	w.num("ntensor", "", cw, uint64(len(c.Tensors)))
	w.num("nkv", "", cw, uint64(len(c.KV)))

	out := Built{Align: 32}
	for _, e := range c.KV {
		w.str("keylen", e.Key, e.Key)
		w.num("vtype", e.Key, 4, uint64(e.Type))
		if ct, ok := canonType(e.Key); ok && ct != e.Type {
			out.Retyped++
		}
		switch {
		case e.Type == 8:
			w.str("strlen", e.Key, e.S.String())
		case e.Type == 9:
			w.num("arrtype", e.Key, 4, uint64(e.AType))
			w.num("arrcount", e.Key, cw, uint64(e.N))
			es, numeric := scalarSize[e.AType]
			for i := 0; i < e.N; i++ {
				switch {
				case e.AType == 8:
					s := ""
					if len(e.Strs) > 0 {
						s = e.Strs[i%len(e.Strs)].String()
					}
					w.str("elemlen", e.Key, s)
				case numeric:
					var v uint64
					if len(e.Pat) > 0 {
						v = e.Pat[i%len(e.Pat)] + uint64(i)
					}
					if i < 4 {
						w.num("elem", e.Key, es, v)
					} else { // keep the field table small for long arrays
						n := len(w.fields)
						w.num("elem", e.Key, es, v)
						w.fields = w.fields[:n]
					}
				}
			}
		default:
			if sz, ok := scalarSize[e.Type]; ok {
				w.num("scalar", e.Key, sz, e.Bits)
				if e.Key == "general.alignment" && e.Type == 4 && uint32(e.Bits) != 0 {
					out.Align = uint64(uint32(e.Bits))
				}
			}
			// unknown type id: no payload
		}
	}
	// tensor infos with offsets as a correct writer would record them
	var off uint64
	sizes := make([]uint64, len(c.Tensors))
	for i, t := range c.Tensors {
		w.str("namelen", t.Name, t.Name)
		w.num("dims", t.Name, 4, uint64(len(t.Shape)))
		var rec TensorRec
		for _, d := range t.Shape {
			rec.Dims = append(rec.Dims, len(w.fields))
			w.num("dim", t.Name, 8, d)
		}
		rec.Kind = len(w.fields)
		out.TRecs = append(out.TRecs, rec)
		w.num("tkind", t.Name, 4, uint64(t.Kind))
		if out.Align <= 4096 {
			off += uint64(padding(int64(off), int64(out.Align)))
		}
		w.num("toffset", t.Name, 8, off)
		sizes[i] = TensorSize(t.Kind, t.Shape)
		if sizes[i] > 4096 {
			sizes[i] = 4096 // the data region is never read by the decoder; keep files small
		}
		off += sizes[i]
	}
	out.InfoEnd = len(w.b)
	pos := int64(out.InfoEnd)
	for i, t := range c.Tensors {
		pos += padding(pos, int64(out.Align))
		out.TRecs[i].PosBefore = pos
		pos += int64(TensorSize(t.Kind, t.Shape))
	}
	if out.Align <= 4096 {
		w.b = append(w.b, make([]byte, padding(int64(len(w.b)), int64(out.Align)))...)
	}
	out.DataStart = len(w.b)
	for i := range c.Tensors {
		if out.Align <= 4096 {
			w.b = append(w.b, make([]byte, padding(int64(len(w.b)), int64(out.Align)))...)
		}
		for j := uint64(0); j < sizes[i]; j++ {
			w.b = append(w.b, byte(0xA0+i))
		}
	}
	out.Data = w.b
	out.Fields = w.fields
	return out
}

// ------------------------------------------------------------------------------------ mutations

var selGroups = map[string][]string{
	"len":      {"keylen", "strlen", "elemlen", "namelen"},
	"strlen":   {"strlen"},
	"keylen":   {"keylen"},
	"elemlen":  {"elemlen"},
	"namelen":  {"namelen"},
	"count":    {"ntensor", "nkv", "arrcount"},
	"arrcount": {"arrcount"},
	"ntensor":  {"ntensor"},
	"nkv":      {"nkv"},
	"dims":     {"dims"},
	"dim":      {"dim"},
	"type":     {"vtype", "arrtype", "tkind"},
	"vtype":    {"vtype"},
	"arrtype":  {"arrtype"},
	"tkind":    {"tkind"},
	"toffset":  {"toffset"},
	"version":  {"version"},
	"magic":    {"magic"},
	"scalar":   {"scalar"},
	"elem":     {"elem"},
	"align":    {"scalar"}, // restricted to general.alignment below
	"any":      nil,
}

// Sels is the list the generator samples selectors from (weights by repetition).
var Sels = []string{
	"strlen", "strlen", "keylen", "keylen", "elemlen", "elemlen", "namelen", "namelen", "len",
	"arrcount", "arrcount", "arrcount", "ntensor", "nkv", "count",
	"dims", "dims", "dims", "dim", "dim", "dim",
	"vtype", "vtype", "arrtype", "tkind", "type",
	"toffset", "version", "align", "align", "align", "scalar", "elem", "any",
}

// Vals is the list of symbolic hostile values.
var Vals = []string{
	"0", "0", "1", "m1", "2p31", "2p32m1", "2p63", "2p64m1", "2p62", "size", "size+1", "size-1", "rem", "rem+1", "rem-1",
	"1<<20", "1<<28", "1<<24", "1024", "1025", "16384", "16385", "cur+1", "cur-1", "cur*2", "wrap0", "wrap0", "wrapsize", "wrap1", "5", "lit",
}

type Applied struct {
	Data    []byte
	Kinds   []string // field kinds actually mutated ("set:<kind>:<val>"), truncations, appends
	Changed bool     // bytes differ from the base file
}

func selMatch(sel string, f Field) bool {
	if sel == "any" || sel == "" {
		return f.Kind != "magic"
	}
	if sel == "align" {
		return f.Kind == "scalar" && f.Key == "general.alignment"
	}
	for _, k := range selGroups[sel] {
		if k == f.Kind {
			return true
		}
	}
	return false
}

func getField(order binary.ByteOrder, b []byte, f Field) uint64 {
	if f.Off+f.Size > len(b) {
		return 0
	}
	switch f.Size {
	case 1:
		return uint64(b[f.Off])
	case 2:
		return uint64(order.Uint16(b[f.Off:]))
	case 4:
		return uint64(order.Uint32(b[f.Off:]))
	case 8:
		return order.Uint64(b[f.Off:])
	}
	return 0
}

func putField(order binary.ByteOrder, b []byte, f Field, v uint64) {
	if f.Off+f.Size > len(b) {
		return
	}
	switch f.Size {
	case 1:
		b[f.Off] = byte(v)
	case 2:
		order.PutUint16(b[f.Off:], uint16(v))
	case 4:
		order.PutUint32(b[f.Off:], uint32(v))
	case 8:
		order.PutUint64(b[f.Off:], v)
	}
}

// Apply applies the mutations of a case to its base file: all sets first (field offsets stay
// valid), then appends, then truncations.
func Apply(c Case, base Built) Applied {
	order := binary.ByteOrder(binary.LittleEndian)
	if c.BE {
		order = binary.BigEndian
	}
	data := append([]byte(nil), base.Data...)
	var out Applied
	for _, m := range c.Muts {
		if m.Op != "set" {
			continue
		}
		var cand []Field
		for _, f := range base.Fields {
			if selMatch(m.Sel, f) {
				cand = append(cand, f)
			}
		}
		if len(cand) == 0 { // nothing of that kind in this file: any field will do
			for _, f := range base.Fields {
				if selMatch("any", f) {
					cand = append(cand, f)
				}
			}
		}
		if len(cand) == 0 {
			out.Kinds = append(out.Kinds, "noop")
			continue
		}
		idx := m.Idx % len(cand)
		if idx < 0 {
			idx += len(cand)
		}
		f := cand[idx]
		cur := getField(order, data, f)
		size := uint64(len(base.Data))
		rem := size - uint64(f.Off+f.Size)
		var v uint64
		switch m.Val {
		case "0":
			v = 0
		case "1":
			v = 1
		case "5":
			v = 5
		case "m1":
			v = ^uint64(0)
		case "2p31":
			v = 1 << 31
		case "2p32m1":
			v = 1<<32 - 1
		case "2p62":
			v = 1 << 62
		case "2p63":
			v = 1 << 63
		case "2p64m1":
			v = ^uint64(0)
		case "size":
			v = size
		case "size+1":
			v = size + 1
		case "size-1":
			v = size - 1
		case "rem":
			v = rem
		case "rem+1":
			v = rem + 1
		case "rem-1":
			v = rem - 1
		case "1<<20":
			v = 1 << 20
		case "1<<24":
			v = 1 << 24
		case "1<<28":
			v = 1 << 28
		case "1024":
			v = 1024
		case "1025":
			v = 1025
		case "16384":
			v = 16384
		case "16385":
			v = 16385
		case "cur+1":
			v = cur + 1
		case "cur-1":
			v = cur - 1
		case "cur*2":
			v = cur * 2
		case "wrap0", "wrapsize", "wrap1":
			// a dimension that makes the tensor's byte size wrap to a negative int64: the decoder then
			// seeks backwards (to the start of the file, by the file size, by one byte). Written for an
			// F32 tensor of one dimension; on other fields it is just another huge value.
			back := uint64(base.DataStart)
			if m.Val == "wrapsize" {
				back = size
			} else if m.Val == "wrap1" {
				back = 4
			}
			back = (back + 3) / 4 * 4
			v = (^uint64(0) - back + 1) / 4
		default: // lit
			v = m.Num
		}
		putField(order, data, f, v)
		out.Kinds = append(out.Kinds, "set:"+f.Kind)
		if f.Key == "general.alignment" && f.Kind == "scalar" {
			out.Kinds = append(out.Kinds, "set:alignment")
		}
	}
	for _, m := range c.Muts {
		if m.Op != "backseek" {
			continue
		}
		// make one tensor's byte size a negative int64: kind <- I8 (1 byte per element), first
		// dimension <- 2^64-back, other dimensions <- 1, so that the decoder's final Seek moves
		// backwards by `back` bytes: to offset 0, before the start of the file, by 1 byte, or nowhere.
		var cand []TensorRec
		for _, r := range base.TRecs {
			if len(r.Dims) > 0 {
				cand = append(cand, r)
			}
		}
		if len(cand) == 0 {
			out.Kinds = append(out.Kinds, "noop")
			continue
		}
		r := cand[m.Idx%len(cand)]
		back := uint64(r.PosBefore)
		switch m.Val {
		case "before":
			back += 1 + m.Num%64
		case "one":
			back = 1
		case "mid":
			back = back / 2
		}
		putField(order, data, base.Fields[r.Kind], 24)
		for i, fi := range r.Dims {
			v := uint64(1)
			if i == 0 {
				v = -back
			}
			putField(order, data, base.Fields[fi], v)
		}
		out.Kinds = append(out.Kinds, "backseek")
	}
	for _, m := range c.Muts {
		if m.Op != "append" {
			continue
		}
		n := int(m.Num % 4097)
		switch m.Val {
		case "self":
			k := min(n+24, len(base.Data))
			data = append(data, base.Data[:k]...)
		case "selfall":
			data = append(data, base.Data...)
		case "ff":
			for i := 0; i < n; i++ {
				data = append(data, 0xff)
			}
		default:
			data = append(data, make([]byte, n)...)
		}
		out.Kinds = append(out.Kinds, "append")
	}
	for _, m := range c.Muts {
		switch m.Op {
		case "trunc_field":
			// boundaries: start of every field and the end of the tensor infos
			nb := len(base.Fields) + 1
			idx := m.Idx % nb
			if idx < 0 {
				idx += nb
			}
			cut := base.InfoEnd
			if idx < len(base.Fields) {
				cut = base.Fields[idx].Off
				if m.Num%2 == 1 { // or in the middle of the field
					cut += base.Fields[idx].Size / 2
				}
			}
			if cut < len(data) {
				data = data[:cut]
			}
			out.Kinds = append(out.Kinds, "trunc_field")
		case "trunc_byte":
			if len(data) > 0 {
				cut := len(data) - 1 - int(m.Num%uint64(len(data)))
				data = data[:cut]
			}
			out.Kinds = append(out.Kinds, "trunc_byte")
		}
	}
	out.Data = data
	out.Changed = string(data) != string(base.Data)
	return out
}

// ------------------------------------------------------------------------------------ generator

var archs = []string{"llama", "llama", "llama", "mllama", "gemma3", "command-r", "chatglm", "clip", "x", ""}

var strChunks = []string{"", "a", "llama", "é", "\x00", "{{ .Prompt }}", "<|im_start|>", "\xff\xfe", "model", "adapter", "projector"}
var strReps = []int{0, 1, 1, 1, 2, 7, 100, 2048, 16384, 16385, 30000}

func genStr(t *rapid.T, label string) Str {
	chunk := rapid.SampledFrom(strChunks).Draw(t, label+"chunk")
	rep := rapid.SampledFrom(strReps).Draw(t, label+"rep")
	if len(chunk)*rep > 40000 {
		rep = 40000 / len(chunk)
	}
	return Str{Chunk: chunk, Repeat: rep}
}

var scalarBits = []uint64{0, 0, 1, 2, 3, 4, 8, 16, 32, 32, 64, 255, 256, 4096, 1 << 16, 1 << 20, 1 << 31, 1<<32 - 1, 1 << 32, 1 << 63, ^uint64(0)}
var arrLens = []int{0, 0, 1, 1, 2, 3, 5, 8, 100, 1023, 1024, 1025, 2000}
var allTypes = []uint32{0, 1, 2, 3, 4, 5, 6, 7, 8, 9, 10, 11, 12, 0, 1, 2, 3, 4, 5, 6, 7, 8, 9, 10, 11, 12, 4, 8, 9, 10, 13, 99, 1<<32 - 1}

func genValue(t *rapid.T, e *KV) {
	switch {
	case e.Type == 8:
		e.S = genStr(t, "s")
	case e.Type == 9:
		e.AType = rapid.SampledFrom([]uint32{0, 1, 2, 3, 4, 5, 5, 6, 6, 7, 8, 8, 8, 10, 11, 12, 4, 5, 6, 8, 8, 0, 7, 9, 13}).Draw(t, "atype")
		e.N = rapid.SampledFrom(arrLens).Draw(t, "n")
		if e.AType == 8 {
			e.Strs = rapid.SliceOfN(rapid.Custom(func(t *rapid.T) Str {
				s := genStr(t, "e")
				if s.Repeat > 100 {
					s.Repeat = 100
				}
				return s
			}), 1, 3).Draw(t, "strs")
			if e.N > 8 {
				for i := range e.Strs {
					if e.Strs[i].Repeat > 2 {
						e.Strs[i].Repeat = 2
					}
				}
			}
		} else {
			e.Pat = rapid.SliceOfN(rapid.SampledFrom(scalarBits), 1, 3).Draw(t, "pat")
		}
	default:
		e.Bits = rapid.SampledFrom(scalarBits).Draw(t, "bits")
	}
}

// Gen draws a case: a structurally valid GGUF (well-known keys present with their canonical or,
// with some probability, another value type) plus 0-3 field-addressed mutations.
func Gen(t *rapid.T) Case {
	var c Case
	c.BE = rapid.IntRange(0, 3).Draw(t, "be") == 3
	c.Version = rapid.SampledFrom([]uint32{3, 3, 3, 3, 2, 2, 1, 1, 1, 0, 4, 1<<32 - 1}).Draw(t, "version")
	arch := rapid.SampledFrom(archs).Draw(t, "arch")
	known := []string{
		"general.architecture", "general.alignment", "general.file_type", "general.type", "general.name",
		"tokenizer.chat_template", "tokenizer.ggml.tokens", "tokenizer.ggml.scores", "tokenizer.ggml.token_type",
		arch + ".block_count", arch + ".embedding_length", arch + ".context_length", arch + ".feed_forward_length",
		arch + ".attention.head_count", arch + ".attention.head_count_kv", arch + ".attention.key_length",
		arch + ".attention.sliding_window", arch + ".attention.cross_attention_layers", arch + ".pooling_type",
		arch + ".vision.block_count", arch + ".vision.image_size", arch + ".vision.patch_size",
		"general.parameter_count", "general.quantization_version", "general.basename", "general.size_label",
		"tokenizer.ggml.model", "tokenizer.ggml.pre", "tokenizer.ggml.bos_token_id", "tokenizer.ggml.eos_token_id",
		"tokenizer.ggml.add_bos_token", "tokenizer.ggml.add_eos_token",
	}
	seen := map[string]bool{}
	for _, k := range known {
		pres := rapid.IntRange(0, 9).Draw(t, "present")
		lim := 3
		if strings.HasPrefix(k, "general.arch") || strings.HasPrefix(k, "general.align") {
			lim = 6
		}
		if pres < 10-lim || seen[k] { // high draw = present, so that shrinking removes keys
			continue
		}
		seen[k] = true
		e := KV{Key: k}
		ct, _ := canonType(k)
		e.Type = ct
		if rapid.IntRange(0, 7).Draw(t, "retype") == 7 {
			e.Type = rapid.SampledFrom(allTypes).Draw(t, "newtype")
		}
		genValue(t, &e)
		switch {
		case k == "general.architecture" && e.Type == 8 && rapid.IntRange(0, 4).Draw(t, "archval") > 0:
			e.S = Str{Chunk: arch, Repeat: 1}
		case k == "tokenizer.chat_template" && e.Type == 8:
			// template detection runs an edit distance against every built-in template: keep it cheap
			e.S.Repeat = min(e.S.Repeat, 200)
		case k == "general.type" && e.Type == 8:
			e.S = Str{Chunk: rapid.SampledFrom([]string{"model", "adapter", "projector", ""}).Draw(t, "gtype"), Repeat: 1}
		case k == "general.alignment" && e.Type != 8 && e.Type != 9:
			e.Bits = rapid.SampledFrom([]uint64{0, 0, 1, 2, 8, 16, 32, 32, 64, 4096, 1 << 31, 1<<32 - 1, 1 << 32}).Draw(t, "alignval")
		case strings.HasSuffix(k, ".block_count") && e.Type != 8 && e.Type != 9:
			e.Bits = rapid.SampledFrom([]uint64{0, 1, 2, 32, 1 << 31, 1<<32 - 1}).Draw(t, "blocks")
		}
		c.KV = append(c.KV, e)
	}
	nx := rapid.IntRange(0, 3).Draw(t, "nextra")
	for i := 0; i < nx; i++ {
		e := KV{Key: rapid.SampledFrom([]string{"", "x", "general.x", "tokenizer.x", "general.architecture", "general.alignment", "a.b.c"}).Draw(t, "xkey")}
		e.Type = rapid.SampledFrom(allTypes).Draw(t, "xtype")
		genValue(t, &e)
		c.KV = append(c.KV, e)
	}
	nt := rapid.SampledFrom([]int{0, 1, 1, 2, 2, 3, 4, 6}).Draw(t, "ntensors")
	names := []string{"blk.0.attn_q.weight", "blk.0.ffn_gate_exps.weight", "blk.0.ffn_gate.0.weight", "blk.0.attn_qkv.bias",
		"blk.1.attn_q.weight", "output.weight", "token_embd.weight", "v.class_embd", "v.blk.0.w", "mm.0.weight", "rope_freqs.weights", "blk", "blk.", "", "t"}
	for i := 0; i < nt; i++ {
		var ts Tensor
		ts.Name = rapid.SampledFrom(names).Draw(t, "tname")
		ts.Kind = rapid.SampledFrom([]uint32{0, 0, 0, 1, 2, 8, 12, 14, 24, 27, 30, 31, 99, 1<<32 - 1}).Draw(t, "kind")
		nd := rapid.SampledFrom([]int{0, 1, 1, 1, 2, 2, 2, 2, 3, 3, 4, 4, 1, 2, 3, 5}).Draw(t, "ndims")
		for d := 0; d < nd; d++ {
			ts.Shape = append(ts.Shape, rapid.SampledFrom([]uint64{0, 1, 2, 3, 4, 8, 32, 256}).Draw(t, "dim"))
		}
		c.Tensors = append(c.Tensors, ts)
	}
	nm := rapid.SampledFrom([]int{0, 1, 1, 1, 1, 1, 1, 1, 1, 1, 1, 2, 2, 2, 2, 2, 3, 3, 3, 3}).Draw(t, "nmuts")
	for i := 0; i < nm; i++ {
		var m Mut
		m.Op = rapid.SampledFrom([]string{"set", "set", "set", "set", "set", "set", "set", "set", "set", "set", "set", "set", "set", "set",
			"trunc_field", "trunc_field", "trunc_byte", "trunc_byte", "append", "append", "backseek"}).Draw(t, "op")
		switch m.Op {
		case "set":
			m.Sel = rapid.SampledFrom(Sels).Draw(t, "sel")
			m.Idx = rapid.IntRange(0, 63).Draw(t, "idx")
			m.Val = rapid.SampledFrom(Vals).Draw(t, "val")
			if m.Val == "lit" {
				m.Num = rapid.Uint64().Draw(t, "lit")
			}
		case "backseek":
			m.Idx = rapid.IntRange(0, 7).Draw(t, "idx")
			m.Val = rapid.SampledFrom([]string{"start", "start", "before", "one", "mid"}).Draw(t, "where")
			m.Num = uint64(rapid.IntRange(0, 63).Draw(t, "extra"))
		case "trunc_field":
			m.Idx = rapid.IntRange(0, 255).Draw(t, "idx")
			m.Num = uint64(rapid.IntRange(0, 1).Draw(t, "mid"))
		case "trunc_byte":
			m.Num = uint64(rapid.IntRange(0, 1<<16).Draw(t, "cut"))
		case "append":
			m.Val = rapid.SampledFrom([]string{"zero", "ff", "self", "selfall", "selfall"}).Draw(t, "fill")
			m.Num = uint64(rapid.SampledFrom([]int{1, 3, 4, 8, 24, 100, 4096}).Draw(t, "nbytes"))
		}
		c.Muts = append(c.Muts, m)
	}
	return c
}

// ------------------------------------------------------------------------------------ predictor

// Pred is what the pinned decoder is expected to do with an input (see package comment).
type Pred struct {
	HeaderOK bool              // recognised magic and a complete header
	Class    string            // first known-defect class hit inside Decode ("" = none)
	OK       bool              // Decode returns a model (pinned semantics, no defect hit)
	BackSeek bool              // a tensor's byte size is negative as int64: the decoder seeks backwards
	End      int64             // offset Decode would return
	Types    map[string]uint32 // value type by key for a fully decoded KV section
	U32      map[string]uint32 // value of uint32-typed keys
	Stage    string            // header | kv | tensors | done: where decoding ended
}

const bigAlloc = 4 << 20 // allocations beyond this, requested for data that is not in the input, count as the defect class

type preader struct {
	b     []byte
	pos   int
	order binary.ByteOrder
	v1    bool
	class string
}

func (p *preader) rem() uint64 { return uint64(len(p.b) - p.pos) }

func (p *preader) num(size int) (uint64, bool) {
	if p.pos+size > len(p.b) {
		p.pos = len(p.b)
		return 0, false
	}
	var v uint64
	switch size {
	case 1:
		v = uint64(p.b[p.pos])
	case 2:
		v = uint64(p.order.Uint16(p.b[p.pos:]))
	case 4:
		v = uint64(p.order.Uint32(p.b[p.pos:]))
	default:
		v = p.order.Uint64(p.b[p.pos:])
	}
	p.pos += size
	return v, true
}

func (p *preader) skip(n uint64) bool {
	if n > p.rem() {
		p.pos = len(p.b)
		return false
	}
	p.pos += int(n)
	return true
}

// str mirrors readGGUFString / readGGUFV1String. ok=false means error or defect (p.class set).
func (p *preader) str() (string, bool) {
	l, ok := p.num(8)
	if !ok {
		return "", false
	}
	if p.v1 {
		if int64(l) <= 0 {
			p.class = "v1-empty-string"
			return "", false
		}
		start := p.pos
		if !p.skip(l) {
			return "", false
		}
		return string(p.b[start : p.pos-1]), true
	}
	if int64(l) < 0 || (l > 16384 && l > p.rem() && l > bigAlloc) {
		p.class = "string-length"
		return "", false
	}
	start := p.pos
	if !p.skip(l) {
		return "", false
	}
	return string(p.b[start:p.pos]), true
}

func (p *preader) discardStr() bool {
	l, ok := p.num(8)
	if !ok {
		return false
	}
	if int64(l) <= 0 {
		return true
	}
	return p.skip(l)
}

func (p *preader) array(maxArr int) bool {
	t, ok := p.num(4)
	if !ok {
		return false
	}
	var n uint64
	if p.v1 {
		n, ok = p.num(4)
	} else {
		n, ok = p.num(8)
	}
	if !ok {
		return false
	}
	collect := maxArr < 0 || int64(n) <= int64(maxArr)
	if collect {
		if int64(n) < 0 {
			p.class = "array-count"
			return false
		}
		if n > p.rem() && n > bigAlloc/16 {
			p.class = "array-count"
			if p.v1 {
				p.class = "v1-array"
			}
			return false
		}
	}
	es, numeric := scalarSize[uint32(t)]
	for i := uint64(0); i < n; i++ {
		switch {
		case numeric:
			if _, ok := p.num(es); !ok {
				return false
			}
		case t == 8:
			if p.v1 || collect {
				if _, ok := p.str(); !ok {
					return false
				}
			} else if !p.discardStr() {
				return false
			}
		default:
			return false // invalid array type
		}
		if p.v1 && collect {
			p.class = "v1-array" // a.values[i] on a zero-length slice
			return false
		}
	}
	return true
}

// Predict mirrors ggml.Decode of the pinned tree (maxArraySize as passed to Decode).
func Predict(b []byte, maxArr int) Pred { return PredictAt(b, 0, maxArr) }

// PredictAt is Predict for a decoder started at offset start of the file (positions, and therefore
// alignment padding, stay absolute, as in server.ggufLayers which decodes one file repeatedly).
func PredictAt(b []byte, start int, maxArr int) Pred {
	pr := Pred{Stage: "header"}
	if maxArr == 0 {
		maxArr = 1024
	}
	if start < 0 || len(b)-start < 4 {
		return pr
	}
	p := &preader{b: b, pos: start + 4}
	switch string(b[start : start+4]) {
	case "GGUF":
		p.order = binary.LittleEndian
	case "FUGG":
		p.order = binary.BigEndian
	default:
		return pr
	}
	ver, ok := p.num(4)
	if !ok {
		return pr
	}
	p.v1 = ver == 1
	cw := 8
	if p.v1 {
		cw = 4
	}
	// binary.Read of the whole count struct: both or nothing
	if p.rem() < uint64(2*cw) {
		return pr
	}
	nt, _ := p.num(cw)
	nkv, _ := p.num(cw)
	pr.HeaderOK = true
	pr.Stage = "kv"
	pr.Types = map[string]uint32{}
	pr.U32 = map[string]uint32{}
	fail := func() Pred { pr.Class = p.class; return pr }
	for i := uint64(0); i < nkv; i++ {
		if int64(i) < 0 { // the decoder's index is an int: it never gets here with real input
			return fail()
		}
		k, ok := p.str()
		if !ok {
			return fail()
		}
		t, ok := p.num(4)
		if !ok {
			return fail()
		}
		if sz, scalar := scalarSize[uint32(t)]; scalar {
			v, ok := p.num(sz)
			if !ok {
				return fail()
			}
			delete(pr.U32, k)
			if t == 4 {
				pr.U32[k] = uint32(v)
			}
		} else if t == 8 {
			if _, ok := p.str(); !ok {
				return fail()
			}
			delete(pr.U32, k)
		} else if t == 9 {
			if !p.array(maxArr) {
				return fail()
			}
			delete(pr.U32, k)
		} else {
			return fail() // invalid type
		}
		pr.Types[k] = uint32(t)
	}
	pr.Stage = "tensors"
	type tinfo struct{ size uint64 }
	var ts []tinfo
	for i := uint64(0); i < nt; i++ {
		if _, ok := p.str(); !ok {
			return fail()
		}
		dims, ok := p.num(4)
		if !ok {
			return fail()
		}
		if dims*8 > p.rem() && dims*8 > bigAlloc {
			p.class = "tensor-dims"
			return fail()
		}
		shape := make([]uint64, 0, 8)
		for d := uint64(0); d < dims; d++ {
			v, ok := p.num(8)
			if !ok {
				return fail()
			}
			shape = append(shape, v)
		}
		kind, ok := p.num(4)
		if !ok {
			return fail()
		}
		if _, ok := p.num(8); !ok {
			return fail()
		}
		ts = append(ts, tinfo{TensorSize(uint32(kind), shape)})
	}
	pr.Types["general.parameter_count"] = 10
	delete(pr.U32, "general.parameter_count")
	align := int64(32)
	if t, ok := pr.Types["general.alignment"]; ok {
		if t != 4 {
			pr.Class = "keyvalue-type"
			return pr
		}
		align = int64(pr.U32["general.alignment"])
		if align == 0 {
			pr.Class = "alignment-zero"
			return pr
		}
	}
	pos := int64(p.pos)
	for _, t := range ts {
		pos += padding(pos, align)
		if int64(t.size) < 0 {
			pr.BackSeek = true
		}
		pos += int64(t.size)
		if pos < 0 {
			return pr // seek error
		}
	}
	pr.Stage = "done"
	pr.OK = true
	pr.End = pos
	return pr
}

// AccessorClass names the defect class hit by the typed accessors that create/show call on a decoded
// file (Kind, Architecture, ChatTemplate, FileType) when a well-known key has another value type.
func AccessorClass(types map[string]uint32) string {
	for k, want := range map[string]uint32{"general.architecture": 8, "general.type": 8, "tokenizer.chat_template": 8, "general.file_type": 4} {
		if t, ok := types[k]; ok && t != want {
			return "keyvalue-type"
		}
	}
	return ""
}

// PredictCreate follows server.ggufLayers (repeated Decode(blob, 0) until the end of the file, then
// the typed accessors of the create path) and names the first listed defect class it would hit.
// verbose is the same for Decode(.., -1) as used by show --verbose on each decodable segment.
func PredictCreate(b []byte) (class string, verbose string, segments int) {
	off := 0
	for off < len(b) && segments < 64 {
		p := PredictAt(b, off, 0)
		if p.Class != "" {
			return p.Class, verbose, segments
		}
		if !p.OK {
			break
		}
		segments++
		if ac := AccessorClass(p.Types); ac != "" {
			return ac, verbose, segments
		}
		if p.BackSeek || p.End <= int64(off) {
			return "tensor-size-overflow", verbose, segments
		}
		if verbose == "" {
			pv := PredictAt(b, off, -1)
			verbose = pv.Class
		}
		if p.End >= int64(len(b)) {
			break
		}
		off = int(p.End)
	}
	return "", verbose, segments
}

func (c Case) String() string {
	return fmt.Sprintf("v%d be=%v kv=%d tensors=%d muts=%v", c.Version, c.BE, len(c.KV), len(c.Tensors), c.Muts)
}
