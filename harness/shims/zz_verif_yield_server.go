// Overlay-only file (never written to /repo): the hook that the driver's schedule instrumentation calls in front of
// every stand-alone Lock()/RLock() statement of the instrumented copies (CHECK key yield_points). A harness that owns
// the schedule assigns it; by default it does nothing.
package server

var verifYield = func(where string) {}
