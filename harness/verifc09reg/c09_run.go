package verifc09reg

import (
	"bytes"
	"context"
	"errors"
	"fmt"
	"net/http"
	"os"
	"path/filepath"
	"sort"
	"strings"
	"testing/synctest"
	"time"
)

// PullDriver starts one attempt (one Registry.Pull call, or one /api/pull request) in a new
// goroutine; the verdict (nil = the code under test reported success) arrives on the returned
// channel, which must be made inside Begin (so inside the bubble).
type PullDriver interface {
	Begin(ctx context.Context) <-chan error
}

type PullEnv struct {
	New func(rt http.RoundTripper, dir string, c *PullCase) PullDriver
	// Resolve, if set, resolves Name through the cache code under test and returns the hex digest.
	Resolve  func(dir string) (string, error)
	Known    func(string) bool
	Excluded func(string)
}

type Info struct {
	Classes    []string
	Nontrivial bool
	Log        []string
}

type pullRun struct {
	c             *PullCase
	env           PullEnv
	dir           string
	reg           *Reg
	classes       map[string]bool
	linkedOK      map[string]bool   // manifest hex -> a pull of this manifest has reported success
	holes         map[string]string // blob hex -> how a failed attempt left it at full length with wrong bytes
	cursor        map[int]int       // attempt index -> next act
	audited       map[int]bool      // attempts already post-processed
	auditedFailed map[int]bool      // ... as failed
	nt            bool
}

func (p *pullRun) class(s string) { p.classes[s] = true }

// Violation is an oracle failure. Slug is set when the failure carries the signature of a named
// finding ("" otherwise); the message then starts with "[slug]".
type Violation struct {
	Slug string
	Msg  string
}

func (v *Violation) Error() string {
	if v.Slug != "" {
		return "[" + v.Slug + "] " + v.Msg
	}
	return v.Msg
}

func violf(slug, format string, a ...any) *Violation {
	return &Violation{Slug: slug, Msg: fmt.Sprintf(format, a...)}
}

func markerKey(layerHex string, e Entry) string {
	return fmt.Sprintf("v1 pull chunksum sha256:%s sha256:%s %d-%d", layerHex, e.Hex, e.Start, e.End)
}

// RunPull plays a pull case against the code under test. Call it inside a synctest bubble.
func RunPull(c PullCase, env PullEnv) (info Info, err error) {
	dir, derr := os.MkdirTemp(scratchBase(), "c09pull")
	if derr != nil {
		panic(derr)
	}
	defer os.RemoveAll(dir)
	if env.Known == nil {
		env.Known = func(string) bool { return false }
	}
	if env.Excluded == nil {
		env.Excluded = func(string) {}
	}
	p := &pullRun{c: &c, env: env, dir: dir, classes: map[string]bool{}, linkedOK: map[string]bool{}, holes: map[string]string{},
		cursor: map[int]int{}, audited: map[int]bool{}}
	p.reg = NewReg(&c, env.Known, env.Excluded)
	drv := env.New(p.reg, dir, &c)
	for _, v := range p.reg.versions {
		for _, b := range v.Layers {
			if p.reg.chunked(b) {
				p.class("has_chunked_layer")
				if len(honestEntries(b, p.reg.plan(&attemptState{}, b).Cuts)) > 1 {
					p.class("has_multi_chunk_layer")
				}
			} else {
				p.class("has_unchunked_layer")
			}
		}
	}
	if c.Config != nil {
		p.class("has_config_layer")
	}
	if c.Update != nil {
		p.class("has_updated_manifest")
	}
	defer func() {
		for k := range p.classes {
			info.Classes = append(info.Classes, k)
		}
		sort.Strings(info.Classes)
		info.Nontrivial = p.nt
		info.Log = p.reg.Log()
	}()

	// After the script the registry is fault-free. A client that notices damage left by earlier
	// attempts only when it verifies the assembled layer may need one more attempt to recover, so
	// up to three fault-free attempts are made; one of them must succeed (and then every clause
	// about a successful pull is checked).
	finals := 0
	for round := 0; ; round++ {
		before := p.reg.Started()
		final := before >= c.scripted()
		ctx, cancel := context.WithCancel(context.Background())
		p.reg.Note("round %d begins (final=%v)", round, final)
		done := drv.Begin(ctx)
		res, verr := p.drive(done, cancel)
		cancel()
		synctest.Wait()
		if verr != nil {
			return info, p.filter(verr)
		}
		if p.reg.Started() == before {
			return info, violf("", "harness: the attempt made no manifest request")
		}
		p.reg.Note("round %d ended: %v", round, res)
		if verr := p.afterAttempt(p.reg.Current(), res, final && finals == 2); verr != nil {
			return info, p.filter(verr)
		}
		if final {
			if res == nil {
				p.class("final_attempt_ok")
				break
			}
			finals++
			p.class("fault_free_attempt_failed")
			if finals == 3 {
				break
			}
		}
		if round > c.scripted()+6 {
			break
		}
	}
	return info, nil
}

// filter drops a violation that carries the signature of a listed finding: the exclusions by
// construction keep these rare; what is left (an attempt inside the caller's retry loop whose end
// the harness could not observe in time) ends the case and is counted as excluded.
func (p *pullRun) filter(err error) error {
	var v *Violation
	if errors.As(err, &v) && v.Slug != "" && p.env.Known(v.Slug) {
		p.env.Excluded(v.Slug)
		p.class("case_cut_short_by_listed_finding")
		return nil
	}
	return err
}

// drive runs one round to its end, taking one scripted action per quiescent point.
func (p *pullRun) drive(done <-chan error, cancel context.CancelFunc) (error, error) {
	var idle time.Duration
	step := time.Millisecond
	cancelled := false
	for {
		synctest.Wait()
		select {
		case res := <-done:
			return res, nil
		default:
		}
		a := p.reg.Current()
		pend := p.reg.Pending()
		inflight := p.reg.Inflight()
		// ordering: while any body of this pull is still withheld the name must not resolve to the
		// manifest being pulled (unless an earlier pull of the same manifest already succeeded)
		if a != nil && inflight > 0 {
			if data, ok := ReadLink(p.dir); ok && HexSum(data) == a.version.Hex && !p.linkedOK[a.version.Hex] {
				return nil, violf("", "attempt %d: the name already resolves to the manifest being pulled while %d response bodies are still open (withheld: %v): linked before every layer was complete",
					a.idx, inflight, pend)
			}
		}
		if len(pend) == 0 {
			if a != nil && inflight == 0 && !p.audited[a.idx] {
				// the code under test is waiting on a timer between two of its own attempts
				// (registry.Local's retry loop): the attempt that just ended has failed
				p.class("internal_retry")
				if verr := p.afterAttempt(a, errors.New("failed; retried by the caller's loop"), false); verr != nil {
					return nil, verr
				}
			}
			// Idle: advance the virtual clock in steps shorter than the shortest backoff of the
			// retry loop (5 ms), so that every pause between two internal attempts is observed.
			if idle > 600*time.Second {
				return nil, violf("", "attempt %d wedged: no withheld body and no result after %v of virtual time", a.idx, idle)
			}
			time.Sleep(step)
			idle += step
			if step < 4*time.Millisecond {
				step *= 2
			}
			continue
		}
		idle, step = 0, time.Millisecond
		if cancelled {
			// bodies that were cancelled are no longer pending; anything still pending ignores its context
			return nil, violf("", "harness: body still pending after cancel: %v", pend)
		}
		act := Act{Op: "rel"}
		if a.script != nil && p.cursor[a.idx] < len(a.script.Acts) {
			act = a.script.Acts[p.cursor[a.idx]]
			p.cursor[a.idx]++
		}
		p.class("gate_reached")
		switch act.Op {
		case "cancel":
			p.reg.Note("  harness cancels the context")
			p.class("cancelled_at_gate")
			a.cancels++
			cancel()
			cancelled = true
		case "stall":
			if p.c.ReadTimeoutS > 0 {
				p.reg.Note("  harness stalls every withheld body past ReadTimeout")
				p.class("stalled_past_read_timeout")
				a.stalls++
				// wake up 1 ms after the last read timer can fire: inside the pause before a retry
				time.Sleep(time.Duration(p.c.ReadTimeoutS)*time.Second + time.Millisecond)
				break
			}
			fallthrough
		default:
			p.reg.Release(pend[mod(act.K, len(pend))])
		}
	}
}

func (p *pullRun) removeLayerState(b *Blob) {
	os.Remove(BlobPath(p.dir, b.Hex))
	ents, _ := os.ReadDir(filepath.Join(p.dir, "blobs"))
	prefix := []byte("v1 pull chunksum sha256:" + b.Hex + " ")
	for _, e := range ents {
		if fi, err := e.Info(); err == nil && fi.Size() < 400 {
			fn := filepath.Join(p.dir, "blobs", e.Name())
			if data, err := os.ReadFile(fn); err == nil && bytes.HasPrefix(data, prefix) {
				os.Remove(fn)
			}
		}
	}
}

func (p *pullRun) markerExists(layerHex string, e Entry) bool {
	_, err := os.Stat(BlobPath(p.dir, HexSum([]byte(markerKey(layerHex, e)))))
	return err == nil
}

// afterAttempt classifies an ended attempt and applies the per-attempt oracles.
func (p *pullRun) afterAttempt(a *attemptState, res error, final bool) error {
	// An attempt that was judged failed when the caller's retry loop paused (internal retry) is judged again if the
	// request then ends in success without another attempt: the loop gave up and reported success anyway.
	if a == nil || (p.audited[a.idx] && !(res == nil && p.auditedFailed[a.idx])) {
		return nil
	}
	if p.audited[a.idx] {
		p.class("success_reported_after_failed_last_attempt")
	}
	p.audited[a.idx] = true
	if p.auditedFailed == nil {
		p.auditedFailed = map[int]bool{}
	}
	p.auditedFailed[a.idx] = res != nil
	v := a.version
	p.classify(a, res)
	if res == nil {
		p.class("attempt_ok")
		data, ok := ReadLink(p.dir)
		if !ok {
			return violf("", "attempt %d reported success but the name %s does not resolve", a.idx, Name)
		}
		if !bytes.Equal(data, v.Manifest) {
			slug := ""
			for _, ov := range p.reg.versions {
				if ov != v && bytes.Equal(data, ov.Manifest) && len(ov.Manifest) == len(v.Manifest) {
					slug = SlugLink
				}
			}
			return violf(slug, "attempt %d reported success but the name resolves to %d bytes with SHA-256 %s…, not to the served manifest %s…", a.idx, len(data), HexSum(data)[:12], v.Hex[:12])
		}
		if p.env.Resolve != nil {
			h, err := p.env.Resolve(p.dir)
			if err != nil || h != v.Hex {
				return violf("", "attempt %d reported success but Resolve(%s) = %s, %v; served manifest %s", a.idx, Name, h, err, v.Hex)
			}
		}
		if err := AuditBlob(p.dir, v.Hex, int64(len(v.Manifest))); err != nil {
			return violf("", "attempt %d reported success but the manifest blob is wrong: %v", a.idx, err)
		}
		for pos, b := range v.Layers {
			if err := AuditBlob(p.dir, b.Hex, int64(b.Size())); err != nil {
				slug, why := p.explain(a, b)
				return violf(slug, "attempt %d reported success and linked %s, but layer %d is wrong: %v%s%s", a.idx, Name, pos, err, diffRanges(p.dir, b), why)
			}
		}
		p.linkedOK[v.Hex] = true
		return nil
	}
	p.class("attempt_failed")
	if data, ok := ReadLink(p.dir); ok {
		if err := AuditLinked(p.dir, data); err != nil {
			return violf("", "after failed attempt %d the name resolves to an incomplete model: %v", a.idx, err)
		}
		p.class("failed_attempt_keeps_older_complete_model")
	}
	// signature of the known finding: a chunked layer's file is at full length with wrong content
	for _, b := range v.Layers {
		if !p.reg.chunked(b) {
			continue
		}
		data, err := os.ReadFile(BlobPath(p.dir, b.Hex))
		if err != nil || len(data) != b.Size() || HexSum(data) == b.Hex {
			continue
		}
		p.class("failed_attempt_left_full_length_bad_blob")
		if p.env.Known(SlugHole) {
			p.env.Excluded(SlugHole)
			p.removeLayerState(b)
			p.reg.Note("  [excluded %s] layer %s… was left at full length with wrong content; harness removes the file and its chunk markers", SlugHole, b.Hex[:12])
			continue
		}
		p.holes[b.Hex] = fmt.Sprintf("failed attempt %d left the blob file at its full length %d with wrong content (%s); chunks of that attempt: %s",
			a.idx, b.Size(), describeDamage(data), p.chunkSummary(a, b))
	}
	if final {
		p.reg.Note("third fault-free attempt failed: %v", res)
		return violf("", "three consecutive fault-free attempts failed (errors in the event log)")
	}
	return nil
}

func (p *pullRun) chunkSummary(a *attemptState, b *Blob) string { return p.chunkSummaryLocked(a, b) }

func (p *pullRun) chunkSummaryLocked(a *attemptState, b *Blob) string {
	var parts []string
	for _, c := range a.chunks {
		if c.hex == b.Hex {
			parts = append(parts, fmt.Sprintf("%06d-%d %s", c.start, c.end, c.state))
		}
	}
	sort.Strings(parts) // request order depends on the scheduler; messages must not
	for i := range parts {
		parts[i] = strings.TrimLeft(parts[i][:6], "0") + parts[i][6:]
		if strings.HasPrefix(parts[i], "-") {
			parts[i] = "0" + parts[i]
		}
	}
	return strings.Join(parts, ", ")
}

// explain names the known-finding signature (if any) behind a wrong layer after a successful pull.
func (p *pullRun) explain(cur *attemptState, b *Blob) (slug, why string) {
	if h, ok := p.holes[b.Hex]; ok {
		return SlugHole, "; " + h + "; the successful attempt found a file of the right size and did not download or verify it"
	}
	p.reg.mu.Lock()
	defer p.reg.mu.Unlock()
	all := append(append([]*attemptState{}, p.reg.past...), p.reg.cur)
	// the same signature read off the request log, for attempts whose end the harness did not get
	// to observe (retries inside the caller's loop): the successful attempt asked for no byte of
	// this chunked layer although the file is wrong, i.e. it trusted the file's length
	if fi, err := os.Stat(BlobPath(p.dir, b.Hex)); err == nil && int(fi.Size()) == b.Size() && p.reg.chunked(b) {
		asked := false
		for _, c := range cur.chunks {
			asked = asked || c.hex == b.Hex
		}
		if !asked {
			for i := len(all) - 1; i >= 0; i-- {
				a := all[i]
				if a == nil || a == cur {
					continue
				}
				for _, c := range a.chunks {
					if c.hex == b.Hex && c.state == "done" && c.end >= b.Size()-1 {
						return SlugHole, fmt.Sprintf("; attempt %d completed the chunk holding the last byte (%d-%d) while other bytes of the layer were not fetched (chunks: %s); the successful attempt found a file of the right size and did not download or verify it",
							a.idx, c.start, c.end, p.chunkSummaryLocked(a, b))
					}
				}
			}
		}
	}
	for _, a := range all {
		if a == nil {
			continue
		}
		for pos, s := range a.served {
			if a.version.Layers[pos].Hex == b.Hex {
				switch s.broken {
				case "shift", "overrun", "lie":
					return SlugPlan, fmt.Sprintf("; attempt %d was served a chunk list of kind %q for this layer (every chunk matched its listed digest; the layer digest is never checked)", a.idx, s.broken)
				}
			}
		}
	}
	// bytes missing from this layer's chunk list were made up for by excess bytes of an overlapping list
	var over, under bool
	for pos, s := range cur.served {
		if s.broken == "overlap" {
			over = true
		}
		if cur.version.Layers[pos].Hex == b.Hex {
			n := 0
			for _, e := range s.entries {
				n += e.Size()
			}
			under = n < b.Size() || s.gateAt >= 0 // a withheld list may have been cut short by a cancel
		}
	}
	if over && under {
		return SlugPlan, "; in this attempt the layer's chunk list missed bytes and another chunk list of the same pull listed as many bytes twice: the only completeness test, sum(received) == sum(sizes), passed"
	}
	for _, a := range all {
		if a == nil {
			continue
		}
		for _, c := range a.chunks {
			if c.hex == b.Hex && c.corrupt && p.reg.overlapsOther(b.Hex, c.start, c.end) {
				return SlugStale, fmt.Sprintf("; attempt %d wrote corrupt bytes of chunk %d-%d (which then failed verification) over a range that a differently bounded chunk's marker declares fetched and verified; the successful attempt skipped that range", a.idx, c.start, c.end)
			}
		}
	}
	return "", ""
}

func (p *pullRun) classify(a *attemptState, res error) {
	if a.script == nil {
		p.class("fault_free_attempt")
	}
	if a.cancels > 0 {
		p.class("attempt_cancelled")
	}
	if a.stalls > 0 {
		p.class("attempt_timed_out_bodies")
	}
	type st struct{ done, failed, skipped, requested int }
	per := map[int]*st{}
	order := map[int][]*chunkRec{}
	for _, c := range a.chunks {
		s := per[c.layerPos]
		if s == nil {
			s = &st{}
			per[c.layerPos] = s
		}
		s.requested++
		switch c.state {
		case "done":
			s.done++
			order[c.layerPos] = append(order[c.layerPos], c)
		default:
			s.failed++
		}
		if c.faulted {
			p.class("blob_fault_applied")
		}
	}
	for pos, sv := range a.served {
		b := a.version.Layers[pos]
		if sv.broken != "" {
			p.class("plan_" + sv.broken)
		}
		if sv.gateAt >= 0 {
			p.class("chunk_list_withheld")
		}
		for _, e := range sv.entries {
			req := false
			for _, c := range a.chunks {
				if c.layerPos == pos && c.start == e.Start && c.end == e.End {
					req = true
				}
			}
			if !req && p.markerExists(b.Hex, e) {
				if s := per[pos]; s != nil {
					s.skipped++
				} else {
					per[pos] = &st{skipped: 1}
				}
			}
		}
	}
	for pos, s := range per {
		b := a.version.Layers[pos]
		if !p.reg.chunked(b) {
			continue
		}
		if s.done > 0 && s.failed > 0 {
			p.class("chunked_layer_with_failed_and_completed_chunks")
			p.nt = true
		}
		if s.skipped > 0 {
			p.class("retry_skips_chunks_by_marker")
			if s.requested > 0 {
				p.class("retry_resumes_partial_layer")
			}
		}
		cs := order[pos]
		sort.Slice(cs, func(i, j int) bool { return cs[i].seq < cs[j].seq })
		for i := 1; i < len(cs); i++ {
			if cs[i].start < cs[i-1].start {
				p.class("chunks_completed_out_of_order")
			}
		}
	}
	if res == nil && len(a.gates) > 0 {
		p.class("success_with_withheld_bodies")
	}
	if a.idx > 0 && res == nil && a.script != nil {
		p.class("scripted_retry_succeeds")
	}
	if len(p.reg.past) > 0 {
		prev := p.reg.past[len(p.reg.past)-1]
		if prev.version != a.version {
			p.class("manifest_changed_between_attempts")
		}
	}
	if res != nil {
		msg := res.Error()
		switch {
		case strings.Contains(msg, "incomplete"):
			p.class("err_incomplete")
		case strings.Contains(msg, "deadline"):
			p.class("err_deadline")
		case strings.Contains(msg, "canceled"):
			p.class("err_canceled")
		case strings.Contains(msg, "underfoot"):
			p.class("err_chunk_digest")
		case strings.Contains(msg, "unexpected EOF"):
			p.class("err_short_body")
		case strings.Contains(msg, "status"):
			p.class("err_status")
		}
	}
}

// diffRanges says where the cached file differs from the published bytes.
func diffRanges(dir string, b *Blob) string {
	data, err := os.ReadFile(BlobPath(dir, b.Hex))
	if err != nil {
		return ""
	}
	var parts []string
	n := max(len(data), len(b.Data))
	lo := -1
	for i := 0; i <= n; i++ {
		bad := i < n && (i >= len(data) || i >= len(b.Data) || data[i] != b.Data[i])
		if bad && lo < 0 {
			lo = i
		}
		if !bad && lo >= 0 {
			parts = append(parts, fmt.Sprintf("%d-%d", lo, i-1))
			lo = -1
		}
	}
	return " (differs from the published bytes at offsets " + strings.Join(parts, ", ") + ")"
}
