package verifc09reg

import (
	"context"
	"encoding/json"
	"fmt"
	"io"
	"net/http"
	"os"
	"path/filepath"
	"sort"
	"strconv"
	"strings"
	"sync"
	"testing/synctest"
	"time"

	"pgregory.net/rapid"
)

// ----------------------------------------------------------------------------------- push case

// SlugMountStale: blobUpload.Prepare reports a cross-repository mount (201) by setting done without creating nextURL;
// uploadBlob starts blobUpload.Run all the same, which blocks for ever receiving from the nil channel, so its deferred
// blobUploadManager.Delete never runs. The table is keyed by the bare digest: any later push, in the same process, of
// that digest to a repository that lacks it finds the finished upload, uploads nothing and sends the manifest.
const SlugMountStale = "legacy-mount-leaves-stale-upload-entry"

type PushFault struct {
	// Kind: start | upload | manifest (Registry.Push); head | start | mount | part | direct | commit | manifest (legacy
	// PushModel; "mount" = an upload start that carries mount=<digest>&from=<repository>)
	Kind  string `json:"kind"`
	Layer int    `json:"layer,omitempty"` // position in the manifest's layer list (mod)
	Nth   int    `json:"nth,omitempty"`   // which request of this kind for this layer in the attempt; -1 = every one
	Type  string `json:"type"`            // s500 s503 s400 s403 neterr neterr2 | early (answer 500 after reading half the body) | s404 s405 (mount)
}

type PushAttempt struct {
	Faults []PushFault `json:"faults,omitempty"`
	// Gates (cyclic by layer): bit 0 withhold the answer to the upload start (or HEAD), bit 1
	// withhold the answer to the upload (PUT / PATCH), bit 2 withhold the answer to the commit.
	Gates []int `json:"gates,omitempty"`
	Acts  []Act `json:"acts,omitempty"` // rel K | cancel
}

// PushStep is one push of a history (legacy only): 0-2 scripted attempts, then one fault-free attempt that must
// succeed. All pushes of a history run in ONE process against one model store; their models are subsets of the case's
// layers (so they share digests) stored under the step's target name.
type PushStep struct {
	Target   int  `json:"target,omitempty"`    // index into pushTargets (mod)
	Drop     int  `json:"drop,omitempty"`      // bit i: layer i of the case is not in this step's model (layer 0 is kept if all are dropped)
	NoConfig bool `json:"no_config,omitempty"` // the step's model has no config blob
	// Froms (cyclic by position in the step's layer list, config excluded): 0 = the layer has no From, k > 0 = its From is
	// pushFroms[(k-1) mod n] (a layer of a model created FROM another model): the upload start then asks for a mount.
	Froms    []int         `json:"froms,omitempty"`
	SrcHas   int           `json:"src_has,omitempty"`  // bit p: before the step the repository named by layer p's From holds the blob
	NoMount  int           `json:"no_mount,omitempty"` // bit p: the registry ignores the mount request for layer p (answers 202)
	Present  int           `json:"present,omitempty"`  // bit p: before the step the target repository already has layer p
	Attempts []PushAttempt `json:"attempts,omitempty"`
}

type PushCase struct {
	Layers     []LayerSpec   `json:"layers"`
	Config     *LayerSpec    `json:"config,omitempty"`
	Present    int           `json:"present,omitempty"` // bit i: the registry already has layer i (in the first push's target repository)
	MaxStreams int           `json:"max_streams"`
	Redirect   int           `json:"redirect,omitempty"` // legacy: bit i: PATCH of layer i is answered 307 to a direct-upload URL
	Attempts   []PushAttempt `json:"attempts"`
	Via        string        `json:"via,omitempty"` // "" Registry.Push | "legacy" server.PushModel
	// Pushes (legacy, optional): a history of consecutive pushes in one process. Empty = one push of every layer to Name
	// scripted by Attempts (the only form that existed before; Attempts is not used when Pushes is set).
	Pushes []PushStep `json:"pushes,omitempty"`
}

// pushTarget is a name a history pushes to; Repo() is the key under which the fake registry books what it holds.
type pushTarget struct{ Host, NS, Model string }

func (t pushTarget) Name() string { return t.Host + "/" + t.NS + "/" + t.Model + ":" + Tag }
func (t pushTarget) Repo() string { return t.Host + "/" + t.NS + "/" + t.Model }

var pushTargets = []pushTarget{{Host, NS, Model}, {Host, "ns2", Model}, {"h2.test", NS, Model}}

// pushFroms: values of Layer.From as create writes them (model.Name.DisplayShortest of the parent, or the path of the
// GGUF blob) and the repository blobUpload.Prepare derives from them (ParseModelPath(From).GetNamespaceRepository();
// the host of From is not part of a mount request). If the code under test derives something else the fake simply
// does not find the blob there and answers 202.
var pushFroms = []struct{ From, Repo string }{
	{Host + "/" + NS + "/" + Model + ":" + Tag, NS + "/" + Model}, // the first target's own name
	{Host + "/ns2/" + Model + ":" + Tag, "ns2/" + Model},          // the second target's name
	{"base:latest", "library/base"},
	{"h2.test/ns1/base:7b", "ns1/base"},
	{"/models/blobs/sha256-" + strings.Repeat("0", 64), "library/"}, // created from a GGUF file: From is a path
}

func (c *PushCase) steps() []PushStep {
	if len(c.Pushes) == 0 {
		return []PushStep{{Attempts: c.Attempts}}
	}
	return c.Pushes
}

func GenPush(t *rapid.T, via string) PushCase {
	c := PushCase{Via: via}
	nl := rapid.SampledFrom([]int{1, 2, 2, 3, 3, 4}).Draw(t, "nlayers")
	for i := 0; i < nl; i++ {
		sizes := []int{1, 5, 64, 100, 257}
		if via == "legacy" {
			// zero-length layers (an empty template or license) exist in the legacy store; the new client's cache treats an
			// empty file as absent, so a model with one cannot be in it
			sizes = append(sizes, 0)
		}
		c.Layers = append(c.Layers, LayerSpec{Size: rapid.SampledFrom(sizes).Draw(t, "size"), Seed: uint32(rapid.IntRange(0, 99).Draw(t, "seed"))})
	}
	if rapid.IntRange(0, 2).Draw(t, "hasconfig") == 0 {
		c.Config = &LayerSpec{Size: rapid.SampledFrom([]int{1, 30}).Draw(t, "cfgsize"), Seed: uint32(rapid.IntRange(0, 99).Draw(t, "cfgseed"))}
	}
	if rapid.IntRange(0, 2).Draw(t, "anypresent") == 0 {
		c.Present = rapid.IntRange(0, 31).Draw(t, "present")
	}
	c.MaxStreams = rapid.IntRange(1, 4).Draw(t, "maxstreams")
	kinds := []string{"start", "start", "upload", "upload", "upload", "manifest"}
	types := []string{"s500", "s503", "s400", "s403", "neterr", "neterr2", "early"}
	if via != "legacy" {
		// a redirect the http client cannot follow (the upload PUT has a file as its body, which cannot be replayed): the
		// 3xx answer comes back to the caller as it is - it is not an acceptance
		types = append(types, "s307", "s308")
	}
	if via == "legacy" {
		kinds = []string{"head", "start", "part", "part", "part", "direct", "commit", "commit", "manifest"}
		if rapid.IntRange(0, 2).Draw(t, "anyredirect") == 0 {
			c.Redirect = rapid.IntRange(0, 31).Draw(t, "redirect")
		}
	}
	genAttempt := func() PushAttempt {
		var a PushAttempt
		nf := rapid.SampledFrom([]int{0, 1, 1, 1, 2, 2, 3}).Draw(t, "nfaults")
		for j := 0; j < nf; j++ {
			f := PushFault{Kind: rapid.SampledFrom(kinds).Draw(t, "fkind"), Layer: rapid.IntRange(0, 4).Draw(t, "flayer"),
				Type: rapid.SampledFrom(types).Draw(t, "ftype")}
			if via == "legacy" {
				f.Nth = rapid.SampledFrom([]int{0, 0, 1, -1, -1}).Draw(t, "fnth")
			}
			if f.Kind == "mount" && rapid.IntRange(0, 1).Draw(t, "mounterr") == 0 {
				f.Type = rapid.SampledFrom([]string{"s404", "s405"}).Draw(t, "mtype")
			}
			a.Faults = append(a.Faults, f)
		}
		ng := rapid.SampledFrom([]int{0, 1, 2, 3, 5}).Draw(t, "ngates")
		for j := 0; j < ng; j++ {
			a.Gates = append(a.Gates, rapid.IntRange(0, 7).Draw(t, "gate"))
		}
		nacts := rapid.IntRange(0, 8).Draw(t, "nacts")
		for j := 0; j < nacts; j++ {
			if rapid.IntRange(0, 14).Draw(t, "actkind") == 0 {
				a.Acts = append(a.Acts, Act{Op: "cancel"})
			} else {
				a.Acts = append(a.Acts, Act{Op: "rel", K: rapid.IntRange(0, 3).Draw(t, "k")})
			}
		}
		return a
	}
	if via == "legacy" && rapid.IntRange(0, 9).Draw(t, "history") >= 4 {
		// a history: 1-3 consecutive pushes in one process of models that share layer digests, to the same or to other
		// repositories, some layers carrying From (cross-repository mount)
		kinds = append(kinds, "mount", "mount", "mount")
		np := rapid.SampledFrom([]int{1, 2, 2, 2, 3, 3}).Draw(t, "npushes")
		for si := 0; si < np; si++ {
			var st PushStep
			st.Target = rapid.SampledFrom([]int{0, 0, 1, 1, 2, 2}).Draw(t, "target")
			if rapid.IntRange(0, 2).Draw(t, "anydrop") == 0 {
				st.Drop = rapid.IntRange(0, 15).Draw(t, "drop")
			}
			st.NoConfig = rapid.IntRange(0, 3).Draw(t, "noconfig") == 0
			if rapid.IntRange(0, 2).Draw(t, "anyfrom") > 0 {
				nfr := rapid.IntRange(1, 4).Draw(t, "nfroms")
				for j := 0; j < nfr; j++ {
					st.Froms = append(st.Froms, rapid.SampledFrom([]int{0, 1, 1, 2, 2, 3, 3, 4, 5}).Draw(t, "from"))
				}
				st.SrcHas = 15
				if rapid.IntRange(0, 2).Draw(t, "srcpartial") == 0 {
					st.SrcHas = rapid.IntRange(0, 15).Draw(t, "srchas")
				}
				if rapid.IntRange(0, 3).Draw(t, "anynomount") == 0 {
					st.NoMount = rapid.IntRange(1, 15).Draw(t, "nomount")
				}
			}
			if rapid.IntRange(0, 3).Draw(t, "steppresent") == 0 {
				st.Present = rapid.IntRange(0, 31).Draw(t, "spresent")
			}
			na := rapid.SampledFrom([]int{0, 0, 1, 1, 2}).Draw(t, "nsattempts")
			for i := 0; i < na; i++ {
				st.Attempts = append(st.Attempts, genAttempt())
			}
			c.Pushes = append(c.Pushes, st)
		}
		return c
	}
	na := rapid.IntRange(1, 3).Draw(t, "nattempts")
	for i := 0; i < na; i++ {
		c.Attempts = append(c.Attempts, genAttempt())
	}
	return c
}

// ------------------------------------------------------------------------- recording registry

type pushAttemptState struct {
	step       int
	idx        int
	script     *PushAttempt
	accepted   map[string]string // blob hex -> how the push's target repository accepted it in this attempt
	failed     map[string]string // blob hex -> last failure of a request for it in this attempt
	inflight   map[string]int    // blob hex -> requests being answered
	counts     map[string]int    // kind:layer -> requests so far
	headMiss   map[string]bool   // blob hex -> a HEAD in the target repository was answered 404 in this attempt
	lastMiss   string            // the blob of the most recent such HEAD
	mounted    []string          // blobs mounted with 201 in this attempt
	gates      []*gate
	keys       map[string]int
	manifestOK bool
	manifests  int
	cancels    int
	layerFault bool
}

type upload struct {
	id   string
	hex  string // known at start (Registry.Push, mount request) or derived from the preceding HEAD (legacy)
	repo string // repository key the upload session belongs to
	host string
	base string // "/v2/<ns>/<model>/"
	data []byte
}

// pushStepState is one push of the history: target name, the model stored under it, which layers carry From.
type pushStepState struct {
	spec    PushStep
	target  pushTarget
	version *Version
	from    map[string]int // blob hex -> index into pushFroms
}

// PushReg is the recording fake registry of the push side. It serves any number of hosts and repositories and books
// per repository (host/namespace/model) which blobs it holds: present before, uploaded and committed there, or
// mounted there with 201.
type PushReg struct {
	mu          sync.Mutex
	c           *PushCase
	Version     *Version // the model of the current push
	steps       []*pushStepState
	step        *pushStepState
	store       map[string]map[string]bool // repository key -> blobs it holds
	mountedEver map[string]string          // blob hex -> repository it was first mounted into (201) in this history
	uploads     map[string]*upload
	nextID      int
	cur         *pushAttemptState
	log         []string
	viol        *Violation
	stored      []byte // last accepted manifest
	classes     map[string]bool
}

func pushManifestJSON(layers []*Blob, config *Blob, froms map[string]string) []byte {
	if len(froms) == 0 {
		return manifestJSON(layers, config, false)
	}
	var sb strings.Builder
	sb.WriteString(`{"schemaVersion":2,"mediaType":"application/vnd.docker.distribution.manifest.v2+json",`)
	if config != nil {
		fmt.Fprintf(&sb, `"config":{"mediaType":"application/vnd.docker.container.image.v1+json","digest":"%s","size":%d},`, config.Digest(), config.Size())
	}
	sb.WriteString(`"layers":[`)
	for i, l := range layers {
		if i > 0 {
			sb.WriteByte(',')
		}
		fmt.Fprintf(&sb, `{"mediaType":"application/vnd.ollama.image.model","digest":"%s","size":%d`, l.Digest(), l.Size())
		if f := froms[l.Hex]; f != "" {
			fmt.Fprintf(&sb, `,"from":%q`, f)
		}
		sb.WriteByte('}')
	}
	sb.WriteString(`]}`)
	return []byte(sb.String())
}

func NewPushReg(c *PushCase) *PushReg {
	r := &PushReg{c: c, store: map[string]map[string]bool{}, mountedEver: map[string]string{}, uploads: map[string]*upload{}, classes: map[string]bool{}}
	seen := map[string]bool{}
	base := BuildBlobs(c.Layers, seen, 0)
	var cfg *Blob
	if c.Config != nil {
		cfg = BuildBlobs([]LayerSpec{*c.Config}, seen, 100)[0]
	}
	for _, sp := range c.steps() {
		st := &pushStepState{spec: sp, target: pushTargets[mod(sp.Target, len(pushTargets))], from: map[string]int{}}
		var layers []*Blob
		for i, b := range base {
			if sp.Drop>>uint(i)&1 == 0 {
				layers = append(layers, b)
			}
		}
		if len(layers) == 0 {
			layers = base[:1]
		}
		cf := cfg
		if sp.NoConfig {
			cf = nil
		}
		froms := map[string]string{}
		if len(sp.Froms) > 0 {
			for p, b := range layers {
				if k := sp.Froms[p%len(sp.Froms)]; k != 0 {
					fi := mod(k-1, len(pushFroms))
					st.from[b.Hex] = fi
					froms[b.Hex] = pushFroms[fi].From
				}
			}
		}
		st.version = &Version{Config: cf}
		st.version.Manifest = pushManifestJSON(layers, cf, froms)
		st.version.Hex = HexSum(st.version.Manifest)
		st.version.Layers = append(st.version.Layers, layers...)
		if cf != nil {
			st.version.Layers = append(st.version.Layers, cf)
		}
		r.steps = append(r.steps, st)
	}
	r.step = r.steps[0]
	r.Version = r.step.version
	return r
}

func (r *PushReg) has(repo, hexsum string) bool { return r.store[repo][hexsum] }

func (r *PushReg) put(repo, hexsum string) {
	if r.store[repo] == nil {
		r.store[repo] = map[string]bool{}
	}
	r.store[repo][hexsum] = true
}

// beginStep makes push si the current one and applies what the case says the registry holds before it.
func (r *PushReg) beginStep(si int) {
	r.mu.Lock()
	defer r.mu.Unlock()
	st := r.steps[si]
	r.step, r.Version = st, st.version
	present := st.spec.Present
	if si == 0 {
		present |= r.c.Present
	}
	for p, b := range st.version.Layers {
		if present>>uint(p)&1 == 1 {
			r.put(st.target.Repo(), b.Hex)
		}
		if fi, ok := st.from[b.Hex]; ok && st.spec.SrcHas>>uint(p)&1 == 1 {
			r.put(st.target.Host+"/"+pushFroms[fi].Repo, b.Hex)
		}
	}
	if len(r.steps) > 1 || len(r.c.Pushes) > 0 {
		r.logf("push %d: %s (%d layers, %d with From)", si, st.target.Name(), len(st.version.Layers), len(st.from))
	}
}

func (r *PushReg) logf(format string, a ...any) {
	if len(r.log) < 400 {
		r.log = append(r.log, fmt.Sprintf(format, a...))
	}
}

func (r *PushReg) Log() []string {
	r.mu.Lock()
	defer r.mu.Unlock()
	return append([]string{}, r.log...)
}

func (r *PushReg) Note(format string, a ...any) {
	r.mu.Lock()
	r.logf(format, a...)
	r.mu.Unlock()
}

func (r *PushReg) begin(si, idx int) {
	r.mu.Lock()
	defer r.mu.Unlock()
	a := &pushAttemptState{step: si, idx: idx, accepted: map[string]string{}, failed: map[string]string{}, inflight: map[string]int{},
		counts: map[string]int{}, keys: map[string]int{}, headMiss: map[string]bool{}}
	if sc := r.steps[si].spec.Attempts; idx < len(sc) {
		a.script = &sc[idx]
	}
	r.cur = a
	r.logf("%s begins", r.logWhere())
}

// where names the current attempt in messages ("attempt 1" for a single push, "push 2 attempt 0" in a history).
func (r *PushReg) where() string {
	if len(r.steps) == 1 && len(r.c.Pushes) == 0 {
		return fmt.Sprintf("attempt %d", r.cur.idx)
	}
	return fmt.Sprintf("push %d attempt %d", r.cur.step, r.cur.idx)
}

func (r *PushReg) logWhere() string { return "push " + strings.TrimPrefix(r.where(), "push ") }

func (r *PushReg) Pending() []string {
	r.mu.Lock()
	defer r.mu.Unlock()
	var out []string
	for _, g := range r.cur.gates {
		if g.waiting && !g.released {
			out = append(out, g.key)
		}
	}
	sort.Strings(out)
	return out
}

func (r *PushReg) Release(key string) {
	r.mu.Lock()
	defer r.mu.Unlock()
	for _, g := range r.cur.gates {
		if g.key == key && !g.released {
			g.released = true
			close(g.ch)
			r.logf("  harness releases %s", key)
		}
	}
}

func (r *PushReg) pos(hexsum string) int {
	for i, b := range r.Version.Layers {
		if b.Hex == hexsum {
			return i
		}
	}
	return -1
}

// fault looks up (and counts) the scripted fault for the next request of this kind and layer.
func (r *PushReg) fault(kind string, pos int) *PushFault {
	a := r.cur
	key := fmt.Sprintf("%s:%d", kind, pos)
	n := a.counts[key]
	a.counts[key]++
	if a.script == nil {
		return nil
	}
	nl := len(r.Version.Layers)
	for i := range a.script.Faults {
		f := &a.script.Faults[i]
		if f.Kind != kind || (kind != "manifest" && mod(f.Layer, nl) != pos) {
			continue
		}
		if f.Nth == -1 || f.Nth == n {
			return f
		}
	}
	return nil
}

func (r *PushReg) gateBit(pos, bit int) bool {
	a := r.cur
	if a.script == nil || len(a.script.Gates) == 0 || pos < 0 {
		return false
	}
	return a.script.Gates[pos%len(a.script.Gates)]>>uint(bit)&1 == 1
}

// wait withholds an answer until released or the request is cancelled. Called without r.mu.
func (r *PushReg) wait(ctx context.Context, key string) error {
	r.mu.Lock()
	a := r.cur
	n := a.keys[key]
	a.keys[key]++
	g := &gate{key: fmt.Sprintf("%s#%d", key, n), ch: make(chan struct{}), waiting: true}
	a.gates = append(a.gates, g)
	r.mu.Unlock()
	select {
	case <-g.ch:
		r.mu.Lock()
		g.waiting = false
		r.mu.Unlock()
		return nil
	case <-ctx.Done():
		r.mu.Lock()
		g.waiting = false
		r.mu.Unlock()
		return context.Cause(ctx)
	}
}

func pushStatus(req *http.Request, typ string) (*http.Response, error, bool) {
	switch typ {
	case "s500", "early":
		return statusResp(req, 500, "INTERNAL_ERROR"), nil, true
	case "s503":
		return statusResp(req, 503, "UNAVAILABLE"), nil, true
	case "s400":
		return statusResp(req, 400, "DIGEST_INVALID"), nil, true
	case "s403":
		return statusResp(req, 403, "DENIED"), nil, true
	case "s404":
		return statusResp(req, 404, "NAME_UNKNOWN"), nil, true
	case "s405":
		return statusResp(req, 405, "UNSUPPORTED"), nil, true
	case "s307", "s308":
		code := map[string]int{"s307": 307, "s308": 308}[typ]
		return emptyResp(req, code, http.Header{"Location": {"https://blobs.example.net/handed-over" + req.URL.Path}}), nil, true
	case "neterr":
		return nil, errReset, true
	case "neterr2":
		return nil, errOther, true
	}
	return nil, nil, false
}

func emptyResp(req *http.Request, code int, hdr http.Header) *http.Response {
	resp := okResp(req, code, hdr, io.NopCloser(strings.NewReader("")))
	resp.ContentLength = 0
	return resp
}

// layerDone books the outcome of a request that concerns one layer in the current push's target repository.
func (r *PushReg) layerDone(hexsum, what string, ok bool) {
	a := r.cur
	if ok {
		a.accepted[hexsum] = what
		delete(a.failed, hexsum)
		r.logf("  layer %d accepted: %s", r.pos(hexsum), what)
	} else {
		a.failed[hexsum] = what
		a.layerFault = true
		r.logf("  layer %d request failed: %s", r.pos(hexsum), what)
	}
}

// splitV2 splits "/v2/<ns>/<model>/<rest>".
func splitV2(path string) (ns, model, rest string, ok bool) {
	p, found := strings.CutPrefix(path, "/v2/")
	if !found {
		return "", "", "", false
	}
	parts := strings.SplitN(p, "/", 3)
	if len(parts) != 3 {
		return "", "", "", false
	}
	return parts[0], parts[1], parts[2], true
}

// RoundTrip implements http.RoundTripper.
func (r *PushReg) RoundTrip(req *http.Request) (resp *http.Response, err error) {
	ctx := req.Context()
	var body []byte
	if req.Body != nil {
		defer req.Body.Close()
	}
	if err := ctx.Err(); err != nil {
		return nil, context.Cause(ctx)
	}
	path := req.URL.Path
	host := req.URL.Host
	q := req.URL.Query()
	readBody := func(limitHalf bool) error {
		if req.Body == nil {
			return nil
		}
		if limitHalf && req.ContentLength > 1 {
			b, err := io.ReadAll(io.LimitReader(req.Body, req.ContentLength/2))
			body = b
			return err
		}
		b, err := io.ReadAll(req.Body)
		body = b
		return err
	}
	ns, model, rest, isV2 := splitV2(path)
	repoKey := host + "/" + ns + "/" + model
	if len(r.c.Pushes) == 0 && ns == NS && model == Model {
		repoKey = pushTargets[0].Repo() // single push: one registry, whatever the URL calls its host (as before histories existed)
	}
	base := "/v2/" + ns + "/" + model + "/"
	if isV2 {
		r.mu.Lock()
		own := repoKey == r.step.target.Repo()
		held := r.has(repoKey, strings.TrimPrefix(rest, "blobs/sha256:"))
		r.mu.Unlock()
		if !own {
			// a request about a repository that is not the current push's target: answered from the books, never counted
			r.Note("  %s %s%s (not the repository being pushed to)", req.Method, repoKey, "/"+rest)
			if req.Method == "HEAD" && held {
				return emptyResp(req, 200, nil), nil
			}
			return statusResp(req, 404, "NAME_UNKNOWN"), nil
		}
	}
	switch {
	case isV2 && req.Method == "PUT" && rest == "manifests/"+Tag:
		if err := readBody(false); err != nil {
			return nil, err
		}
		return r.manifestPut(req, body)

	case isV2 && req.Method == "HEAD" && strings.HasPrefix(rest, "blobs/sha256:"):
		hexsum := strings.TrimPrefix(rest, "blobs/sha256:")
		return r.layerRequest(req, "head", "", hexsum, 0, func() (*http.Response, bool, string) {
			if r.has(repoKey, hexsum) {
				return emptyResp(req, 200, nil), true, "HEAD hit"
			}
			r.cur.headMiss[hexsum] = true
			r.cur.lastMiss = hexsum
			return statusResp(req, 404, "BLOB_UNKNOWN"), false, ""
		})

	case isV2 && req.Method == "POST" && rest == "blobs/uploads/":
		mount := strings.TrimPrefix(q.Get("mount"), "sha256:")
		from := q.Get("from")
		hexsum := strings.TrimPrefix(q.Get("digest"), "sha256:")
		kind2 := ""
		if mount != "" {
			// legacy start of a layer that has From: cross-repository mount request
			kind2 = "mount"
			if hexsum == "" {
				hexsum = mount
			}
		}
		if hexsum == "" {
			// legacy start: the layer is not named; uploads are sequential and each follows the HEAD that missed
			hexsum = r.legacyNext()
		}
		return r.layerRequest(req, "start", kind2, hexsum, 0, func() (*http.Response, bool, string) {
			if q.Get("digest") != "" && r.has(repoKey, hexsum) {
				return emptyResp(req, 200, nil), true, "upload start answered without Location (exists)"
			}
			if mount != "" {
				r.classes["legacy_mount_requested"] = true
				pos := r.pos(hexsum)
				switch {
				case pos >= 0 && r.step.spec.NoMount>>uint(pos)&1 == 1:
					r.classes["legacy_mount_ignored_202"] = true
					r.logf("    the registry ignores mount=…&from=%s and opens an upload session", from)
				case r.has(host+"/"+from, hexsum) || r.has(repoKey, hexsum):
					r.put(repoKey, hexsum)
					if _, ok := r.mountedEver[hexsum]; !ok {
						r.mountedEver[hexsum] = repoKey
					}
					r.cur.mounted = append(r.cur.mounted, hexsum)
					r.classes["legacy_mount_201"] = true
					loc := "https://" + host + base + "blobs/sha256:" + hexsum
					return emptyResp(req, 201, http.Header{"Location": {loc}, "Docker-Content-Digest": {"sha256:" + hexsum}}), true,
						fmt.Sprintf("mounted from %s into %s (201)", from, repoKey)
				default:
					r.classes["legacy_mount_source_lacks_blob_202"] = true
					r.logf("    repository %q does not hold the blob: mount not possible, the registry opens an upload session", from)
				}
			}
			r.nextID++
			u := &upload{id: strconv.Itoa(r.nextID), hex: hexsum, repo: repoKey, host: host, base: base}
			r.uploads[u.id] = u
			loc := "https://" + host + base + "blobs/uploads/" + u.id
			return emptyResp(req, 202, http.Header{"Location": {loc}, "Docker-Upload-Location": {loc}}), false, ""
		})

	case isV2 && strings.HasPrefix(rest, "blobs/uploads/") || strings.HasPrefix(path, "/direct/"):
		direct := strings.HasPrefix(path, "/direct/")
		id := strings.TrimPrefix(path, "/direct/")
		if !direct {
			id = strings.TrimPrefix(rest, "blobs/uploads/")
		}
		r.mu.Lock()
		u := r.uploads[id]
		own := u != nil && u.repo == r.step.target.Repo()
		r.mu.Unlock()
		if u == nil || !own {
			r.Note("  %s %s: no such upload session in the repository being pushed to", req.Method, req.URL.Path)
			return statusResp(req, 404, "BLOB_UPLOAD_UNKNOWN"), nil
		}
		switch {
		case req.Method == "PUT" && direct:
			// legacy direct upload of one part after a 307
			return r.upload(req, "direct", u, readBody, func() (*http.Response, bool, string) {
				u.data = append(u.data, body...)
				return emptyResp(req, 200, nil), false, ""
			})
		case req.Method == "PATCH":
			pos := r.pos(u.hex)
			return r.upload(req, "part", u, readBody, func() (*http.Response, bool, string) {
				loc := "https://" + u.host + u.base + "blobs/uploads/" + u.id
				hdr := http.Header{"Location": {loc}, "Docker-Upload-Location": {loc}}
				if r.c.Redirect>>uint(max(pos, 0))&1 == 1 {
					hdr.Set("Location", "https://direct.example.net/direct/"+u.id)
					return emptyResp(req, 307, hdr), false, ""
				}
				u.data = append(u.data, body...)
				return emptyResp(req, 202, hdr), false, ""
			})
		case req.Method == "PUT" && q.Get("digest") == "" || req.Method == "PUT" && req.ContentLength > 0:
			// Registry.Push: the whole blob in one PUT
			return r.upload(req, "upload", u, readBody, func() (*http.Response, bool, string) {
				if HexSum(body) != u.hex {
					return statusResp(req, 400, "DIGEST_INVALID"), false, "uploaded bytes do not match the digest"
				}
				r.put(u.repo, u.hex)
				return emptyResp(req, 201, nil), true, "upload PUT"
			})
		case req.Method == "PUT":
			// legacy commit
			hexsum := strings.TrimPrefix(q.Get("digest"), "sha256:")
			return r.upload(req, "commit", u, readBody, func() (*http.Response, bool, string) {
				if HexSum(u.data) != hexsum || hexsum != u.hex {
					return statusResp(req, 400, "DIGEST_INVALID"), false, fmt.Sprintf("commit of %d uploaded bytes does not match the digest", len(u.data))
				}
				r.put(u.repo, hexsum)
				return emptyResp(req, 201, nil), true, "upload commit"
			})
		}
	}
	r.Note("unexpected request %s %s", req.Method, req.URL)
	return statusResp(req, 400, "UNSUPPORTED"), nil
}

// legacyNext names the layer an anonymous legacy upload start is about: uploadBlob sends it right after the HEAD that
// was answered 404 (fallback: the first layer of the manifest not yet accepted).
func (r *PushReg) legacyNext() string {
	r.mu.Lock()
	defer r.mu.Unlock()
	if r.cur.lastMiss != "" {
		return r.cur.lastMiss
	}
	for _, b := range r.Version.Layers {
		if _, ok := r.cur.accepted[b.Hex]; !ok {
			return b.Hex
		}
	}
	return ""
}

// layerRequest answers a body-less request about one layer (HEAD, upload start). kind2 ("mount") is a second fault
// address for the same request.
func (r *PushReg) layerRequest(req *http.Request, kind, kind2, hexsum string, gateBit int, answer func() (*http.Response, bool, string)) (*http.Response, error) {
	r.mu.Lock()
	pos := r.pos(hexsum)
	a := r.cur
	a.inflight[hexsum]++
	r.logf("  %s %s layer %d%s", req.Method, kind, pos, map[bool]string{true: " (mount request)"}[kind2 == "mount"])
	f := r.fault(kind, pos)
	if kind2 != "" {
		if f2 := r.fault(kind2, pos); f == nil {
			f = f2
		}
	}
	gated := r.gateBit(pos, gateBit)
	r.mu.Unlock()
	if gated {
		if err := r.wait(req.Context(), fmt.Sprintf("L%02d:%s", pos, kind)); err != nil {
			r.mu.Lock()
			a.inflight[hexsum]--
			r.layerDone(hexsum, kind+" cancelled", false)
			r.mu.Unlock()
			return nil, err
		}
	}
	r.mu.Lock()
	defer r.mu.Unlock()
	a.inflight[hexsum]--
	if f != nil {
		if resp, err, ok := pushStatus(req, f.Type); ok {
			if f.Kind == "mount" {
				r.classes["legacy_mount_error"] = true
			}
			r.layerDone(hexsum, fmt.Sprintf("%s: scripted %s", kind, f.Type), false)
			return resp, err
		}
	}
	resp, accepted, what := answer()
	if accepted {
		r.layerDone(hexsum, what, true)
	}
	return resp, nil
}

// upload answers a request that carries layer bytes (or commits them).
func (r *PushReg) upload(req *http.Request, kind string, u *upload, readBody func(bool) error, answer func() (*http.Response, bool, string)) (*http.Response, error) {
	r.mu.Lock()
	pos := r.pos(u.hex)
	a := r.cur
	a.inflight[u.hex]++
	r.logf("  %s %s layer %d", req.Method, kind, pos)
	f := r.fault(kind, pos)
	if a.counts[fmt.Sprintf("%s:%d", kind, pos)] > 1 {
		r.classes[kind+"_request_retried"] = true
	}
	if kind == "direct" {
		r.classes["legacy_redirected_direct_upload"] = true
	}
	bit := 1
	if kind == "commit" {
		bit = 2
	}
	gated := r.gateBit(pos, bit)
	r.mu.Unlock()
	fail := func(what string, resp *http.Response, err error) (*http.Response, error) {
		r.mu.Lock()
		a.inflight[u.hex]--
		r.layerDone(u.hex, what, false)
		r.mu.Unlock()
		return resp, err
	}
	if err := readBody(f != nil && f.Type == "early"); err != nil {
		return fail(kind+": reading the request body: "+err.Error(), nil, err)
	}
	if gated {
		if err := r.wait(req.Context(), fmt.Sprintf("L%02d:%s", pos, kind)); err != nil {
			return fail(kind+" cancelled", nil, err)
		}
	}
	if f != nil {
		if resp, err, ok := pushStatus(req, f.Type); ok {
			return fail(fmt.Sprintf("%s: scripted %s", kind, f.Type), resp, err)
		}
	}
	r.mu.Lock()
	defer r.mu.Unlock()
	a.inflight[u.hex]--
	resp, accepted, what := answer()
	if accepted {
		r.layerDone(u.hex, what, true)
	} else if what != "" {
		r.layerDone(u.hex, kind+": "+what, false)
	}
	return resp, nil
}

// manifestPut is where the ordering oracle lives: when the manifest arrives for the push's target repository, every
// layer it lists must have been accepted by THAT repository in this push (HEAD hit, upload committed, mounted with
// 201), the repository must hold it, and no request about a layer may still be open.
func (r *PushReg) manifestPut(req *http.Request, body []byte) (*http.Response, error) {
	r.mu.Lock()
	defer r.mu.Unlock()
	a := r.cur
	repo := r.step.target.Repo()
	a.manifests++
	r.logf("  PUT manifest (%d bytes)", len(body))
	var m storedManifest
	if err := json.Unmarshal(body, &m); err != nil {
		r.setViol("%s: the manifest PUT body does not parse: %v", r.where(), err)
		return statusResp(req, 400, "MANIFEST_INVALID"), nil
	}
	var listed []string
	for _, l := range m.Layers {
		if l != nil {
			listed = append(listed, strings.TrimPrefix(l.Digest, "sha256:"))
		}
	}
	if m.Config != nil && m.Config.Digest != "" && !strings.HasPrefix(m.Config.Digest, "sha256:e3b0c44298fc1c14") {
		listed = append(listed, strings.TrimPrefix(m.Config.Digest, "sha256:"))
	}
	var want []string
	for _, b := range r.Version.Layers {
		want = append(want, b.Hex)
	}
	if strings.Join(listed, ",") != strings.Join(want, ",") {
		r.setViol("%s: the manifest sent lists layers %v, the local manifest lists %v", r.where(), short(listed), short(want))
	}
	for i, h := range want {
		if _, ok := a.accepted[h]; !ok {
			state := "no request about it was answered yet"
			if f, ok := a.failed[h]; ok {
				state = "its last request failed (" + f + ")"
			} else if a.inflight[h] > 0 {
				state = "a request about it is still being answered"
			} else if a.headMiss[h] && a.counts[fmt.Sprintf("start:%d", i)] == 0 {
				state = "its HEAD was answered 404 and no upload was started"
			} else if a.counts[fmt.Sprintf("start:%d", i)] > 0 {
				state = "an upload session was opened for it (202) but nothing was committed"
			}
			slug := ""
			if r.c.Via == "" && r.Version.Config != nil && h == r.Version.Config.Hex && state == "no request about it was answered yet" {
				slug = SlugPushConfig
				state += " (it is the manifest's config blob, which Registry.Push never uploads)"
			}
			if into, ok := r.mountedEver[h]; ok && r.c.Via == "legacy" && !r.has(repo, h) && a.headMiss[h] && a.counts[fmt.Sprintf("start:%d", i)] == 0 {
				// signature of the stale blobUploadManager entry: the digest was mounted (201) earlier in this process,
				// blobUpload.Run never ends after a mount, so the "done" upload stays registered under the bare digest
				// and a later push of that digest anywhere else waits on it instead of uploading
				slug = SlugMountStale
				state += fmt.Sprintf(" (the digest was mounted into %s earlier in this process; the upload registered for it then is still in blobUploadManager, marked done)", into)
			}
			r.setViolSlug(slug, "%s: the manifest PUT for %s arrived before layer %d (sha256:%s…) was accepted by that repository: %s", r.where(), repo, i, h[:12], state)
		}
		if a.inflight[h] > 0 {
			r.setViol("%s: the manifest PUT arrived while a request about layer %d is still being answered", r.where(), i)
		}
		if !r.has(repo, h) {
			r.setViol("%s: the manifest PUT arrived but repository %s does not hold layer %d (sha256:%s…)", r.where(), repo, i, h[:12])
		}
	}
	if f := r.fault("manifest", 0); f != nil {
		if resp, err, ok := pushStatus(req, f.Type); ok {
			r.logf("  manifest PUT: scripted %s", f.Type)
			return resp, err
		}
	}
	a.manifestOK = true
	r.stored = body
	return emptyResp(req, 201, nil), nil
}

func short(hs []string) []string {
	var out []string
	for _, h := range hs {
		if len(h) > 8 {
			h = h[:8]
		}
		out = append(out, h)
	}
	return out
}

func (r *PushReg) setViol(format string, a ...any) { r.setViolSlug("", format, a...) }

func (r *PushReg) setViolSlug(slug, format string, a ...any) {
	if r.viol == nil {
		r.viol = violf(slug, format, a...)
		r.logf("  VIOLATION %s", r.viol.Msg)
	}
}

// -------------------------------------------------------------------------------------- runner

type PushEnv struct {
	New      func(rt http.RoundTripper, dir string, c *PushCase) PullDriver // Begin starts one push
	Known    func(string) bool
	Excluded func(string)
	SettleS  int // virtual seconds to let pass after every attempt (background goroutines of the code under test)
	// DropUpload (legacy, optional) removes the upload registered under a digest from the code under test's process-wide
	// upload table and reports whether there was one: the repair a fixed uploader performs itself after a mount, applied
	// by the harness while SlugMountStale is a listed finding.
	DropUpload func(digest string) bool
}

// NamedPushDriver is implemented by drivers that can push any of the history's names (Begin pushes Name).
type NamedPushDriver interface {
	BeginPush(ctx context.Context, name string) <-chan error
}

// SeedStore writes the model into a store directory (same layout for blob.DiskCache and the
// legacy model store): blobs/sha256-<hex>, manifests/<host>/<ns>/<model>/<tag>.
func SeedStore(dir string, v *Version) { seedStoreAt(dir, v, pushTargets[0]) }

func seedStoreAt(dir string, v *Version, t pushTarget) {
	must := func(err error) {
		if err != nil {
			panic(err)
		}
	}
	link := filepath.Join(dir, "manifests", t.Host, t.NS, t.Model, Tag)
	must(os.MkdirAll(filepath.Join(dir, "blobs"), 0o755))
	must(os.MkdirAll(filepath.Dir(link), 0o755))
	for _, b := range v.Layers {
		must(os.WriteFile(BlobPath(dir, b.Hex), b.Data, 0o644))
	}
	must(os.WriteFile(BlobPath(dir, v.Hex), v.Manifest, 0o644))
	must(os.WriteFile(link, v.Manifest, 0o644))
}

func RunPush(c PushCase, env PushEnv) (info Info, err error) {
	dir, derr := os.MkdirTemp(scratchBase(), "c09push")
	if derr != nil {
		panic(derr)
	}
	defer os.RemoveAll(dir)
	if c.Via == "" && c.Config != nil && env.Known != nil && env.Known(SlugPushConfig) {
		// exclusion by construction: Registry.Push is only given manifests without a config blob
		env.Excluded(SlugPushConfig)
		c.Config = nil
	}
	reg := NewPushReg(&c)
	SeedStore(dir, reg.Version)
	drv := env.New(reg, dir, &c)
	classes := map[string]bool{}
	defer func() {
		for k := range classes {
			info.Classes = append(info.Classes, k)
		}
		sort.Strings(info.Classes)
		info.Log = reg.Log()
	}()
	if c.Present != 0 {
		classes["registry_already_has_some_layer"] = true
	}
	if len(reg.steps) >= 2 {
		classes["push_sequence_2plus"] = true
	}
	repaired := false
	pushedTo := map[string]map[string]bool{} // blob hex -> repositories an earlier push of this history listed it for
	finalsOK := 0
	for si, st := range reg.steps {
		reg.beginStep(si)
		seedStoreAt(dir, st.version, st.target)
		if len(st.from) > 0 {
			classes["layer_with_from"] = true
		}
		if st.spec.Present != 0 {
			classes["registry_already_has_some_layer"] = true
		}
		for _, b := range st.version.Layers {
			for repo := range pushedTo[b.Hex] {
				if repo != st.target.Repo() {
					classes["same_digest_other_repo"] = true
				}
			}
			reg.mu.Lock()
			if into, ok := reg.mountedEver[b.Hex]; ok && into != st.target.Repo() && !reg.has(st.target.Repo(), b.Hex) {
				// the situation in which a stale "done" upload left by a mount would be consulted
				classes["mounted_digest_pushed_to_repo_lacking_it"] = true
			}
			reg.mu.Unlock()
		}
		for _, b := range st.version.Layers {
			if pushedTo[b.Hex] == nil {
				pushedTo[b.Hex] = map[string]bool{}
			}
			pushedTo[b.Hex][st.target.Repo()] = true
		}
		nd, isNamed := drv.(NamedPushDriver)
		if !isNamed && st.target != pushTargets[0] {
			return info, violf("", "harness: this driver can only push %s", Name)
		}
		for ai := 0; ai <= len(st.spec.Attempts); ai++ {
			final := ai == len(st.spec.Attempts)
			reg.begin(si, ai)
			ctx, cancel := context.WithCancel(context.Background())
			var done <-chan error
			if isNamed {
				done = nd.BeginPush(ctx, st.target.Name())
			} else {
				done = drv.Begin(ctx)
			}
			var res error
			var idle time.Duration
			step := 20 * time.Millisecond
			cancelled := false
			cursor := 0
		loop:
			for {
				synctest.Wait()
				select {
				case res = <-done:
					break loop
				default:
				}
				pend := reg.Pending()
				if len(pend) == 0 {
					if idle > 1200*time.Second {
						cancel()
						synctest.Wait()
						return info, violf("", "push %s wedged: nothing withheld and no result after %v of virtual time", reg.where(), idle)
					}
					time.Sleep(step)
					idle += step
					if step < time.Second {
						step *= 2
					}
					continue
				}
				idle, step = 0, 20*time.Millisecond
				if cancelled {
					cancel()
					return info, violf("", "harness: answer still withheld after cancel: %v", pend)
				}
				act := Act{Op: "rel"}
				if s := reg.cur.script; s != nil && cursor < len(s.Acts) {
					act = s.Acts[cursor]
					cursor++
				}
				classes["gate_reached"] = true
				if act.Op == "cancel" {
					reg.Note("  harness cancels the context")
					classes["cancelled_at_gate"] = true
					reg.cur.cancels++
					cancel()
					cancelled = true
					continue
				}
				reg.Release(pend[mod(act.K, len(pend))])
			}
			cancel()
			synctest.Wait()
			if env.SettleS > 0 {
				time.Sleep(time.Duration(env.SettleS) * time.Second)
				synctest.Wait()
			}
			reg.Note("%s ended: %v", reg.logWhere(), res)
			reg.mu.Lock()
			a := reg.cur
			viol := reg.viol
			for k := range reg.classes {
				classes[k] = true
			}
			if len(a.gates) > 1 {
				classes["several_answers_withheld"] = true
			}
			if a.layerFault {
				classes["push_with_failing_layer_request"] = true
			}
			if len(a.failed) > 0 {
				classes["push_with_failed_layer"] = true
				info.Nontrivial = true
				if len(a.accepted) > 0 {
					classes["push_with_failed_and_accepted_layers"] = true
				}
			}
			for _, how := range a.accepted {
				switch {
				case strings.Contains(how, "mounted"):
					classes["accepted_by_mount"] = true
				case strings.Contains(how, "exists"):
					classes["accepted_by_exists_answer"] = true
				case strings.Contains(how, "HEAD"):
					classes["accepted_by_head_hit"] = true
				case strings.Contains(how, "commit"):
					classes["accepted_by_commit"] = true
				case strings.Contains(how, "PUT"):
					classes["accepted_by_upload"] = true
				}
			}
			if a.manifests > 0 && !a.manifestOK {
				classes["manifest_put_failed"] = true
			}
			if res == nil {
				classes["push_ok"] = true
			} else {
				classes["push_failed"] = true
			}
			var verr error
			switch {
			case viol != nil:
				verr = viol
			case res == nil && !a.manifestOK:
				verr = violf("", "push %s reported success but the registry accepted no manifest in it", reg.where())
			case res == nil && !sameLayers(reg.stored, reg.Version):
				verr = violf("", "push %s reported success but the registry's manifest does not list the local layers", reg.where())
			case res != nil && a.manifestOK && a.cancels == 0:
				// a push that failed although the registry accepted the manifest is not a safety
				// violation of this property; it is counted
				classes["push_failed_after_manifest_accepted"] = true
			}
			if verr == nil && final && res != nil {
				reg.logf("final push failed: %v", res)
				if len(reg.steps) == 1 && len(c.Pushes) == 0 {
					verr = violf("", "the fault-free final push failed (error in the event log)")
				} else {
					verr = violf("", "the fault-free final attempt of push %d failed (error in the event log)", si)
				}
			}
			mounted := append([]string{}, a.mounted...)
			reg.mu.Unlock()
			if verr != nil {
				return info, verr
			}
			if final && res == nil {
				finalsOK++
			}
			if len(mounted) > 0 && env.DropUpload != nil && env.Known != nil && env.Known(SlugMountStale) {
				// exclusion by construction of SlugMountStale: what a fixed uploadBlob does itself when Prepare reports the
				// blob mounted - the finished upload does not stay registered under the digest
				for _, h := range mounted {
					if env.DropUpload("sha256:" + h) {
						repaired = true
					}
				}
			}
		}
	}
	if repaired {
		env.Excluded(SlugMountStale)
		classes["stale_upload_entry_removed_by_harness"] = true
	}
	if finalsOK == len(reg.steps) {
		classes["final_push_ok"] = true
	}
	return info, nil
}

func sameLayers(manifest []byte, v *Version) bool {
	var m storedManifest
	if json.Unmarshal(manifest, &m) != nil {
		return false
	}
	var got []string
	for _, l := range m.Layers {
		if l != nil {
			got = append(got, strings.TrimPrefix(l.Digest, "sha256:"))
		}
	}
	if m.Config != nil && m.Config.Digest != "" && !strings.HasPrefix(m.Config.Digest, "sha256:e3b0c44298fc1c14") {
		got = append(got, strings.TrimPrefix(m.Config.Digest, "sha256:"))
	}
	var want []string
	for _, b := range v.Layers {
		want = append(want, b.Hex)
	}
	return strings.Join(got, ",") == strings.Join(want, ",")
}
