package verifc09reg

import (
	"context"
	"encoding/json"
	"fmt"
	"io"
	"net/http"
	"os"
	"path/filepath"
	"sort"
	"strconv"
	"strings"
	"sync"
	"testing/synctest"
	"time"

	"pgregory.net/rapid"
)

// ----------------------------------------------------------------------------------- push case

type PushFault struct {
	// Kind: start | upload | manifest (Registry.Push); head | start | part | direct | commit | manifest (legacy PushModel)
	Kind  string `json:"kind"`
	Layer int    `json:"layer,omitempty"` // position in the manifest's layer list (mod)
	Nth   int    `json:"nth,omitempty"`   // which request of this kind for this layer in the attempt; -1 = every one
	Type  string `json:"type"`            // s500 s503 s400 s403 neterr neterr2 | early (answer 500 after reading half the body)
}

type PushAttempt struct {
	Faults []PushFault `json:"faults,omitempty"`
	// Gates (cyclic by layer): bit 0 withhold the answer to the upload start (or HEAD), bit 1
	// withhold the answer to the upload (PUT / PATCH), bit 2 withhold the answer to the commit.
	Gates []int `json:"gates,omitempty"`
	Acts  []Act `json:"acts,omitempty"` // rel K | cancel
}

type PushCase struct {
	Layers     []LayerSpec   `json:"layers"`
	Config     *LayerSpec    `json:"config,omitempty"`
	Present    int           `json:"present,omitempty"` // bit i: the registry already has layer i
	MaxStreams int           `json:"max_streams"`
	Redirect   int           `json:"redirect,omitempty"` // legacy: bit i: PATCH of layer i is answered 307 to a direct-upload URL
	Attempts   []PushAttempt `json:"attempts"`
	Via        string        `json:"via,omitempty"` // "" Registry.Push | "legacy" server.PushModel
}

func GenPush(t *rapid.T, via string) PushCase {
	c := PushCase{Via: via}
	nl := rapid.SampledFrom([]int{1, 2, 2, 3, 3, 4}).Draw(t, "nlayers")
	for i := 0; i < nl; i++ {
		sizes := []int{1, 5, 64, 100, 257}
		if via == "legacy" {
			// zero-length layers (an empty template or license) exist in the legacy store; the new client's cache treats an
			// empty file as absent, so a model with one cannot be in it
			sizes = append(sizes, 0)
		}
		c.Layers = append(c.Layers, LayerSpec{Size: rapid.SampledFrom(sizes).Draw(t, "size"), Seed: uint32(rapid.IntRange(0, 99).Draw(t, "seed"))})
	}
	if rapid.IntRange(0, 2).Draw(t, "hasconfig") == 0 {
		c.Config = &LayerSpec{Size: rapid.SampledFrom([]int{1, 30}).Draw(t, "cfgsize"), Seed: uint32(rapid.IntRange(0, 99).Draw(t, "cfgseed"))}
	}
	if rapid.IntRange(0, 2).Draw(t, "anypresent") == 0 {
		c.Present = rapid.IntRange(0, 31).Draw(t, "present")
	}
	c.MaxStreams = rapid.IntRange(1, 4).Draw(t, "maxstreams")
	kinds := []string{"start", "start", "upload", "upload", "upload", "manifest"}
	types := []string{"s500", "s503", "s400", "s403", "neterr", "neterr2", "early"}
	if via == "legacy" {
		kinds = []string{"head", "start", "part", "part", "part", "direct", "commit", "commit", "manifest"}
		if rapid.IntRange(0, 2).Draw(t, "anyredirect") == 0 {
			c.Redirect = rapid.IntRange(0, 31).Draw(t, "redirect")
		}
	}
	na := rapid.IntRange(1, 3).Draw(t, "nattempts")
	for i := 0; i < na; i++ {
		var a PushAttempt
		nf := rapid.SampledFrom([]int{0, 1, 1, 1, 2, 2, 3}).Draw(t, "nfaults")
		for j := 0; j < nf; j++ {
			f := PushFault{Kind: rapid.SampledFrom(kinds).Draw(t, "fkind"), Layer: rapid.IntRange(0, 4).Draw(t, "flayer"),
				Type: rapid.SampledFrom(types).Draw(t, "ftype")}
			if via == "legacy" {
				f.Nth = rapid.SampledFrom([]int{0, 0, 1, -1, -1}).Draw(t, "fnth")
			}
			a.Faults = append(a.Faults, f)
		}
		ng := rapid.SampledFrom([]int{0, 1, 2, 3, 5}).Draw(t, "ngates")
		for j := 0; j < ng; j++ {
			a.Gates = append(a.Gates, rapid.IntRange(0, 7).Draw(t, "gate"))
		}
		nacts := rapid.IntRange(0, 8).Draw(t, "nacts")
		for j := 0; j < nacts; j++ {
			if rapid.IntRange(0, 14).Draw(t, "actkind") == 0 {
				a.Acts = append(a.Acts, Act{Op: "cancel"})
			} else {
				a.Acts = append(a.Acts, Act{Op: "rel", K: rapid.IntRange(0, 3).Draw(t, "k")})
			}
		}
		c.Attempts = append(c.Attempts, a)
	}
	return c
}

// ------------------------------------------------------------------------- recording registry

type pushAttemptState struct {
	idx        int
	script     *PushAttempt
	accepted   map[string]string // blob hex -> how it was accepted in this attempt
	failed     map[string]string // blob hex -> last failure of a request for it in this attempt
	inflight   map[string]int    // blob hex -> requests being answered
	counts     map[string]int    // kind:layer -> requests so far
	gates      []*gate
	keys       map[string]int
	manifestOK bool
	manifests  int
	cancels    int
	layerFault bool
}

type upload struct {
	id   string
	hex  string // known at start (Registry.Push) or at commit (legacy)
	data []byte
}

// PushReg is the recording fake registry of the push side.
type PushReg struct {
	mu      sync.Mutex
	c       *PushCase
	Version *Version
	store   map[string]bool // blobs the registry holds
	uploads map[string]*upload
	nextID  int
	cur     *pushAttemptState
	log     []string
	viol    *Violation
	stored  []byte // last accepted manifest
	classes map[string]bool
}

func NewPushReg(c *PushCase) *PushReg {
	r := &PushReg{c: c, store: map[string]bool{}, uploads: map[string]*upload{}, classes: map[string]bool{}}
	r.Version = BuildVersions(c.Layers, c.Config, nil, nil)[0]
	for i, b := range r.Version.Layers {
		if c.Present>>uint(i)&1 == 1 {
			r.store[b.Hex] = true
		}
	}
	return r
}

func (r *PushReg) logf(format string, a ...any) {
	if len(r.log) < 400 {
		r.log = append(r.log, fmt.Sprintf(format, a...))
	}
}

func (r *PushReg) Log() []string {
	r.mu.Lock()
	defer r.mu.Unlock()
	return append([]string{}, r.log...)
}

func (r *PushReg) Note(format string, a ...any) {
	r.mu.Lock()
	r.logf(format, a...)
	r.mu.Unlock()
}

func (r *PushReg) begin(idx int) {
	r.mu.Lock()
	defer r.mu.Unlock()
	a := &pushAttemptState{idx: idx, accepted: map[string]string{}, failed: map[string]string{}, inflight: map[string]int{},
		counts: map[string]int{}, keys: map[string]int{}}
	if idx < len(r.c.Attempts) {
		a.script = &r.c.Attempts[idx]
	}
	r.cur = a
	r.logf("push attempt %d begins", idx)
}

func (r *PushReg) Pending() []string {
	r.mu.Lock()
	defer r.mu.Unlock()
	var out []string
	for _, g := range r.cur.gates {
		if g.waiting && !g.released {
			out = append(out, g.key)
		}
	}
	sort.Strings(out)
	return out
}

func (r *PushReg) Release(key string) {
	r.mu.Lock()
	defer r.mu.Unlock()
	for _, g := range r.cur.gates {
		if g.key == key && !g.released {
			g.released = true
			close(g.ch)
			r.logf("  harness releases %s", key)
		}
	}
}

func (r *PushReg) pos(hexsum string) int {
	for i, b := range r.Version.Layers {
		if b.Hex == hexsum {
			return i
		}
	}
	return -1
}

// fault looks up (and counts) the scripted fault for the next request of this kind and layer.
func (r *PushReg) fault(kind string, pos int) *PushFault {
	a := r.cur
	key := fmt.Sprintf("%s:%d", kind, pos)
	n := a.counts[key]
	a.counts[key]++
	if a.script == nil {
		return nil
	}
	nl := len(r.Version.Layers)
	for i := range a.script.Faults {
		f := &a.script.Faults[i]
		if f.Kind != kind || (kind != "manifest" && mod(f.Layer, nl) != pos) {
			continue
		}
		if f.Nth == -1 || f.Nth == n {
			return f
		}
	}
	return nil
}

func (r *PushReg) gateBit(pos, bit int) bool {
	a := r.cur
	if a.script == nil || len(a.script.Gates) == 0 || pos < 0 {
		return false
	}
	return a.script.Gates[pos%len(a.script.Gates)]>>uint(bit)&1 == 1
}

// wait withholds an answer until released or the request is cancelled. Called without r.mu.
func (r *PushReg) wait(ctx context.Context, key string) error {
	r.mu.Lock()
	a := r.cur
	n := a.keys[key]
	a.keys[key]++
	g := &gate{key: fmt.Sprintf("%s#%d", key, n), ch: make(chan struct{}), waiting: true}
	a.gates = append(a.gates, g)
	r.mu.Unlock()
	select {
	case <-g.ch:
		r.mu.Lock()
		g.waiting = false
		r.mu.Unlock()
		return nil
	case <-ctx.Done():
		r.mu.Lock()
		g.waiting = false
		r.mu.Unlock()
		return context.Cause(ctx)
	}
}

func pushStatus(req *http.Request, typ string) (*http.Response, error, bool) {
	switch typ {
	case "s500", "early":
		return statusResp(req, 500, "INTERNAL_ERROR"), nil, true
	case "s503":
		return statusResp(req, 503, "UNAVAILABLE"), nil, true
	case "s400":
		return statusResp(req, 400, "DIGEST_INVALID"), nil, true
	case "s403":
		return statusResp(req, 403, "DENIED"), nil, true
	case "neterr":
		return nil, errReset, true
	case "neterr2":
		return nil, errOther, true
	}
	return nil, nil, false
}

func emptyResp(req *http.Request, code int, hdr http.Header) *http.Response {
	resp := okResp(req, code, hdr, io.NopCloser(strings.NewReader("")))
	resp.ContentLength = 0
	return resp
}

// layerDone books the outcome of a request that concerns one layer.
func (r *PushReg) layerDone(hexsum, what string, ok bool) {
	a := r.cur
	if ok {
		a.accepted[hexsum] = what
		delete(a.failed, hexsum)
		r.logf("  layer %d accepted: %s", r.pos(hexsum), what)
	} else {
		a.failed[hexsum] = what
		a.layerFault = true
		r.logf("  layer %d request failed: %s", r.pos(hexsum), what)
	}
}

// RoundTrip implements http.RoundTripper.
func (r *PushReg) RoundTrip(req *http.Request) (resp *http.Response, err error) {
	ctx := req.Context()
	var body []byte
	if req.Body != nil {
		defer req.Body.Close()
	}
	if err := ctx.Err(); err != nil {
		return nil, context.Cause(ctx)
	}
	path := req.URL.Path
	repo := "/v2/" + NS + "/" + Model + "/"
	q := req.URL.Query()
	readBody := func(limitHalf bool) error {
		if req.Body == nil {
			return nil
		}
		if limitHalf && req.ContentLength > 1 {
			b, err := io.ReadAll(io.LimitReader(req.Body, req.ContentLength/2))
			body = b
			return err
		}
		b, err := io.ReadAll(req.Body)
		body = b
		return err
	}
	switch {
	case req.Method == "PUT" && path == repo+"manifests/"+Tag:
		if err := readBody(false); err != nil {
			return nil, err
		}
		return r.manifestPut(req, body)

	case req.Method == "HEAD" && strings.HasPrefix(path, repo+"blobs/sha256:"):
		hexsum := strings.TrimPrefix(path, repo+"blobs/sha256:")
		return r.layerRequest(req, "head", hexsum, 0, func() (*http.Response, bool, string) {
			if r.store[hexsum] {
				return emptyResp(req, 200, nil), true, "HEAD hit"
			}
			return statusResp(req, 404, "BLOB_UNKNOWN"), false, ""
		})

	case req.Method == "POST" && path == repo+"blobs/uploads/":
		hexsum := strings.TrimPrefix(q.Get("digest"), "sha256:")
		if hexsum == "" {
			// legacy start: the layer is not named; uploads are sequential, so it is the first
			// layer of the manifest that is neither accepted nor present
			hexsum = r.legacyNext()
		}
		return r.layerRequest(req, "start", hexsum, 0, func() (*http.Response, bool, string) {
			if q.Get("digest") != "" && r.store[hexsum] {
				return emptyResp(req, 200, nil), true, "upload start answered without Location (exists)"
			}
			r.nextID++
			u := &upload{id: strconv.Itoa(r.nextID), hex: hexsum}
			r.uploads[u.id] = u
			loc := "https://" + Host + repo + "blobs/uploads/" + u.id
			return emptyResp(req, 202, http.Header{"Location": {loc}, "Docker-Upload-Location": {loc}}), false, ""
		})

	case strings.HasPrefix(path, repo+"blobs/uploads/") || strings.HasPrefix(path, "/direct/"):
		direct := strings.HasPrefix(path, "/direct/")
		id := strings.TrimPrefix(strings.TrimPrefix(path, repo+"blobs/uploads/"), "/direct/")
		r.mu.Lock()
		u := r.uploads[id]
		r.mu.Unlock()
		if u == nil {
			return statusResp(req, 404, "BLOB_UPLOAD_UNKNOWN"), nil
		}
		switch {
		case req.Method == "PUT" && direct:
			// legacy direct upload of one part after a 307
			return r.upload(req, "direct", u, readBody, func() (*http.Response, bool, string) {
				u.data = append(u.data, body...)
				return emptyResp(req, 200, nil), false, ""
			})
		case req.Method == "PATCH":
			pos := r.pos(u.hex)
			return r.upload(req, "part", u, readBody, func() (*http.Response, bool, string) {
				loc := "https://" + Host + repo + "blobs/uploads/" + u.id
				hdr := http.Header{"Location": {loc}, "Docker-Upload-Location": {loc}}
				if r.c.Redirect>>uint(max(pos, 0))&1 == 1 {
					hdr.Set("Location", "https://direct.example.net/direct/"+u.id)
					return emptyResp(req, 307, hdr), false, ""
				}
				u.data = append(u.data, body...)
				return emptyResp(req, 202, hdr), false, ""
			})
		case req.Method == "PUT" && q.Get("digest") == "" || req.Method == "PUT" && req.ContentLength > 0:
			// Registry.Push: the whole blob in one PUT
			return r.upload(req, "upload", u, readBody, func() (*http.Response, bool, string) {
				if HexSum(body) != u.hex {
					return statusResp(req, 400, "DIGEST_INVALID"), false, "uploaded bytes do not match the digest"
				}
				r.store[u.hex] = true
				return emptyResp(req, 201, nil), true, "upload PUT"
			})
		case req.Method == "PUT":
			// legacy commit
			hexsum := strings.TrimPrefix(q.Get("digest"), "sha256:")
			return r.upload(req, "commit", u, readBody, func() (*http.Response, bool, string) {
				if HexSum(u.data) != hexsum || hexsum != u.hex {
					return statusResp(req, 400, "DIGEST_INVALID"), false, fmt.Sprintf("commit of %d uploaded bytes does not match the digest", len(u.data))
				}
				r.store[hexsum] = true
				return emptyResp(req, 201, nil), true, "upload commit"
			})
		}
	}
	r.Note("unexpected request %s %s", req.Method, req.URL)
	return statusResp(req, 400, "UNSUPPORTED"), nil
}

func (r *PushReg) legacyNext() string {
	r.mu.Lock()
	defer r.mu.Unlock()
	for _, b := range r.Version.Layers {
		if _, ok := r.cur.accepted[b.Hex]; !ok {
			return b.Hex
		}
	}
	return ""
}

// layerRequest answers a body-less request about one layer (HEAD, upload start).
func (r *PushReg) layerRequest(req *http.Request, kind, hexsum string, gateBit int, answer func() (*http.Response, bool, string)) (*http.Response, error) {
	r.mu.Lock()
	pos := r.pos(hexsum)
	a := r.cur
	a.inflight[hexsum]++
	r.logf("  %s %s layer %d", req.Method, kind, pos)
	f := r.fault(kind, pos)
	gated := r.gateBit(pos, gateBit)
	r.mu.Unlock()
	if gated {
		if err := r.wait(req.Context(), fmt.Sprintf("L%02d:%s", pos, kind)); err != nil {
			r.mu.Lock()
			a.inflight[hexsum]--
			r.layerDone(hexsum, kind+" cancelled", false)
			r.mu.Unlock()
			return nil, err
		}
	}
	r.mu.Lock()
	defer r.mu.Unlock()
	a.inflight[hexsum]--
	if f != nil {
		if resp, err, ok := pushStatus(req, f.Type); ok {
			r.layerDone(hexsum, fmt.Sprintf("%s: scripted %s", kind, f.Type), false)
			return resp, err
		}
	}
	resp, accepted, what := answer()
	if accepted {
		r.layerDone(hexsum, what, true)
	}
	return resp, nil
}

// upload answers a request that carries layer bytes (or commits them).
func (r *PushReg) upload(req *http.Request, kind string, u *upload, readBody func(bool) error, answer func() (*http.Response, bool, string)) (*http.Response, error) {
	r.mu.Lock()
	pos := r.pos(u.hex)
	a := r.cur
	a.inflight[u.hex]++
	r.logf("  %s %s layer %d", req.Method, kind, pos)
	f := r.fault(kind, pos)
	if a.counts[fmt.Sprintf("%s:%d", kind, pos)] > 1 {
		r.classes[kind+"_request_retried"] = true
	}
	if kind == "direct" {
		r.classes["legacy_redirected_direct_upload"] = true
	}
	bit := 1
	if kind == "commit" {
		bit = 2
	}
	gated := r.gateBit(pos, bit)
	r.mu.Unlock()
	fail := func(what string, resp *http.Response, err error) (*http.Response, error) {
		r.mu.Lock()
		a.inflight[u.hex]--
		r.layerDone(u.hex, what, false)
		r.mu.Unlock()
		return resp, err
	}
	if err := readBody(f != nil && f.Type == "early"); err != nil {
		return fail(kind+": reading the request body: "+err.Error(), nil, err)
	}
	if gated {
		if err := r.wait(req.Context(), fmt.Sprintf("L%02d:%s", pos, kind)); err != nil {
			return fail(kind+" cancelled", nil, err)
		}
	}
	if f != nil {
		if resp, err, ok := pushStatus(req, f.Type); ok {
			return fail(fmt.Sprintf("%s: scripted %s", kind, f.Type), resp, err)
		}
	}
	r.mu.Lock()
	defer r.mu.Unlock()
	a.inflight[u.hex]--
	resp, accepted, what := answer()
	if accepted {
		r.layerDone(u.hex, what, true)
	} else if what != "" {
		r.layerDone(u.hex, kind+": "+what, false)
	}
	return resp, nil
}

// manifestPut is where the ordering oracle lives: when the manifest arrives, every layer it lists
// must have been accepted in this push, and no request about a layer may still be open.
func (r *PushReg) manifestPut(req *http.Request, body []byte) (*http.Response, error) {
	r.mu.Lock()
	defer r.mu.Unlock()
	a := r.cur
	a.manifests++
	r.logf("  PUT manifest (%d bytes)", len(body))
	var m storedManifest
	if err := json.Unmarshal(body, &m); err != nil {
		r.setViol("attempt %d: the manifest PUT body does not parse: %v", a.idx, err)
		return statusResp(req, 400, "MANIFEST_INVALID"), nil
	}
	var listed []string
	for _, l := range m.Layers {
		if l != nil {
			listed = append(listed, strings.TrimPrefix(l.Digest, "sha256:"))
		}
	}
	if m.Config != nil && m.Config.Digest != "" && !strings.HasPrefix(m.Config.Digest, "sha256:e3b0c44298fc1c14") {
		listed = append(listed, strings.TrimPrefix(m.Config.Digest, "sha256:"))
	}
	var want []string
	for _, b := range r.Version.Layers {
		want = append(want, b.Hex)
	}
	if strings.Join(listed, ",") != strings.Join(want, ",") {
		r.setViol("attempt %d: the manifest sent lists layers %v, the local manifest lists %v", a.idx, short(listed), short(want))
	}
	for i, h := range want {
		if _, ok := a.accepted[h]; !ok {
			state := "no request about it was answered yet"
			if f, ok := a.failed[h]; ok {
				state = "its last request failed (" + f + ")"
			} else if a.inflight[h] > 0 {
				state = "a request about it is still being answered"
			}
			slug := ""
			if r.c.Via == "" && r.Version.Config != nil && h == r.Version.Config.Hex && state == "no request about it was answered yet" {
				slug = SlugPushConfig
				state += " (it is the manifest's config blob, which Registry.Push never uploads)"
			}
			r.setViolSlug(slug, "attempt %d: the manifest PUT arrived before layer %d (sha256:%s…) was accepted by the registry: %s", a.idx, i, h[:12], state)
		}
		if a.inflight[h] > 0 {
			r.setViol("attempt %d: the manifest PUT arrived while a request about layer %d is still being answered", a.idx, i)
		}
		if !r.store[h] {
			r.setViol("attempt %d: the manifest PUT arrived but the registry does not hold layer %d (sha256:%s…)", a.idx, i, h[:12])
		}
	}
	if f := r.fault("manifest", 0); f != nil {
		if resp, err, ok := pushStatus(req, f.Type); ok {
			r.logf("  manifest PUT: scripted %s", f.Type)
			return resp, err
		}
	}
	a.manifestOK = true
	r.stored = body
	return emptyResp(req, 201, nil), nil
}

func short(hs []string) []string {
	var out []string
	for _, h := range hs {
		if len(h) > 8 {
			h = h[:8]
		}
		out = append(out, h)
	}
	return out
}

func (r *PushReg) setViol(format string, a ...any) { r.setViolSlug("", format, a...) }

func (r *PushReg) setViolSlug(slug, format string, a ...any) {
	if r.viol == nil {
		r.viol = violf(slug, format, a...)
		r.logf("  VIOLATION %s", r.viol.Msg)
	}
}

// -------------------------------------------------------------------------------------- runner

type PushEnv struct {
	New      func(rt http.RoundTripper, dir string, c *PushCase) PullDriver // Begin starts one push
	Known    func(string) bool
	Excluded func(string)
	SettleS  int // virtual seconds to let pass after every attempt (background goroutines of the code under test)
}

// SeedStore writes the model into a store directory (same layout for blob.DiskCache and the
// legacy model store): blobs/sha256-<hex>, manifests/<host>/<ns>/<model>/<tag>.
func SeedStore(dir string, v *Version) {
	must := func(err error) {
		if err != nil {
			panic(err)
		}
	}
	must(os.MkdirAll(filepath.Join(dir, "blobs"), 0o755))
	must(os.MkdirAll(filepath.Dir(LinkPath(dir)), 0o755))
	for _, b := range v.Layers {
		must(os.WriteFile(BlobPath(dir, b.Hex), b.Data, 0o644))
	}
	must(os.WriteFile(BlobPath(dir, v.Hex), v.Manifest, 0o644))
	must(os.WriteFile(LinkPath(dir), v.Manifest, 0o644))
}

func RunPush(c PushCase, env PushEnv) (info Info, err error) {
	dir, derr := os.MkdirTemp(scratchBase(), "c09push")
	if derr != nil {
		panic(derr)
	}
	defer os.RemoveAll(dir)
	if c.Via == "" && c.Config != nil && env.Known != nil && env.Known(SlugPushConfig) {
		// exclusion by construction: Registry.Push is only given manifests without a config blob
		env.Excluded(SlugPushConfig)
		c.Config = nil
	}
	reg := NewPushReg(&c)
	SeedStore(dir, reg.Version)
	drv := env.New(reg, dir, &c)
	classes := map[string]bool{}
	defer func() {
		for k := range classes {
			info.Classes = append(info.Classes, k)
		}
		sort.Strings(info.Classes)
		info.Log = reg.Log()
	}()
	if c.Present != 0 {
		classes["registry_already_has_some_layer"] = true
	}
	for ai := 0; ai <= len(c.Attempts); ai++ {
		final := ai == len(c.Attempts)
		reg.begin(ai)
		ctx, cancel := context.WithCancel(context.Background())
		done := drv.Begin(ctx)
		var res error
		var idle time.Duration
		step := 20 * time.Millisecond
		cancelled := false
		cursor := 0
	loop:
		for {
			synctest.Wait()
			select {
			case res = <-done:
				break loop
			default:
			}
			pend := reg.Pending()
			if len(pend) == 0 {
				if idle > 1200*time.Second {
					cancel()
					synctest.Wait()
					return info, violf("", "push attempt %d wedged: nothing withheld and no result after %v of virtual time", ai, idle)
				}
				time.Sleep(step)
				idle += step
				if step < time.Second {
					step *= 2
				}
				continue
			}
			idle, step = 0, 20*time.Millisecond
			if cancelled {
				cancel()
				return info, violf("", "harness: answer still withheld after cancel: %v", pend)
			}
			act := Act{Op: "rel"}
			if s := reg.cur.script; s != nil && cursor < len(s.Acts) {
				act = s.Acts[cursor]
				cursor++
			}
			classes["gate_reached"] = true
			if act.Op == "cancel" {
				reg.Note("  harness cancels the context")
				classes["cancelled_at_gate"] = true
				reg.cur.cancels++
				cancel()
				cancelled = true
				continue
			}
			reg.Release(pend[mod(act.K, len(pend))])
		}
		cancel()
		synctest.Wait()
		if env.SettleS > 0 {
			time.Sleep(time.Duration(env.SettleS) * time.Second)
			synctest.Wait()
		}
		reg.Note("push attempt %d ended: %v", ai, res)
		reg.mu.Lock()
		a := reg.cur
		viol := reg.viol
		for k := range reg.classes {
			classes[k] = true
		}
		if len(a.gates) > 1 {
			classes["several_answers_withheld"] = true
		}
		if a.layerFault {
			classes["push_with_failing_layer_request"] = true
		}
		if len(a.failed) > 0 {
			classes["push_with_failed_layer"] = true
			info.Nontrivial = true
			if len(a.accepted) > 0 {
				classes["push_with_failed_and_accepted_layers"] = true
			}
		}
		for _, how := range a.accepted {
			switch {
			case strings.Contains(how, "exists"):
				classes["accepted_by_exists_answer"] = true
			case strings.Contains(how, "HEAD"):
				classes["accepted_by_head_hit"] = true
			case strings.Contains(how, "commit"):
				classes["accepted_by_commit"] = true
			case strings.Contains(how, "PUT"):
				classes["accepted_by_upload"] = true
			}
		}
		if a.manifests > 0 && !a.manifestOK {
			classes["manifest_put_failed"] = true
		}
		if res == nil {
			classes["push_ok"] = true
		} else {
			classes["push_failed"] = true
		}
		var verr error
		switch {
		case viol != nil:
			verr = viol
		case res == nil && !a.manifestOK:
			verr = violf("", "push attempt %d reported success but the registry accepted no manifest in it", ai)
		case res == nil && !sameLayers(reg.stored, reg.Version):
			verr = violf("", "push attempt %d reported success but the registry's manifest does not list the local layers", ai)
		case res != nil && a.manifestOK && a.cancels == 0:
			// a push that failed although the registry accepted the manifest is not a safety
			// violation of this property; it is counted
			classes["push_failed_after_manifest_accepted"] = true
		}
		if verr == nil && final && res != nil {
			reg.logf("final push failed: %v", res)
			verr = violf("", "the fault-free final push failed (error in the event log)")
		}
		reg.mu.Unlock()
		if verr != nil {
			return info, verr
		}
		if final && res == nil {
			classes["final_push_ok"] = true
		}
	}
	return info, nil
}

func sameLayers(manifest []byte, v *Version) bool {
	var m storedManifest
	if json.Unmarshal(manifest, &m) != nil {
		return false
	}
	var got []string
	for _, l := range m.Layers {
		if l != nil {
			got = append(got, strings.TrimPrefix(l.Digest, "sha256:"))
		}
	}
	if m.Config != nil && m.Config.Digest != "" && !strings.HasPrefix(m.Config.Digest, "sha256:e3b0c44298fc1c14") {
		got = append(got, strings.TrimPrefix(m.Config.Digest, "sha256:"))
	}
	var want []string
	for _, b := range v.Layers {
		want = append(want, b.Hex)
	}
	return strings.Join(got, ",") == strings.Join(want, ",")
}
